import GambitV.Model.Cli

/-!
General theorems about the CSV writer / reader model (`Model/Csv.lean`): what the reader state
machine does on the rendering of a field, a record, a file; the round trip
`parseCsv (writeCsv lt rows) = rows`.  Used by `Props/C16` (and available for C11).  The second half
holds the helper lemmas for the other C16 items (`Model/Cli.lean`: extension stripping; `F32.fmt4`).
Core Lean only.
-/
namespace GambitV
namespace Csv

/-- run the reader on a piece of text -/
def run (r : Reader) (t : List Char) : Reader := t.foldl Reader.step r

theorem run_nil (r : Reader) : run r [] = r := rfl

theorem run_cons (r : Reader) (c : Char) (t : List Char) : run r (c :: t) = run (r.step c) t := rfl

theorem run_append (r : Reader) (s t : List Char) : run r (s ++ t) = run (run r s) t := by
  unfold run
  rw [List.foldl_append]

theorem parseCsv_eq (t : List Char) : parseCsv t = (run Reader.init t).finish := rfl

/-- the character escaping inside a quoted field -/
def esc (c : Char) : List Char := if c == '"' then ['"', '"'] else [c]

theorem quoteField_eq (f : List Char) : quoteField f = '"' :: (f.flatMap esc ++ ['"']) := rfl

/-- state the reader is in after a field delimiter -/
def delimSt (d : Char) : RState := if d == ',' then .startField else .eatCrnl

/-- `d` is a character that ends a field: the delimiter or a newline character -/
def IsDelim (d : Char) : Prop := d = ',' ∨ d = '\n' ∨ d = '\r'

/-- a character that may occur in an unquoted field -/
def Plain (c : Char) : Prop := c ≠ ',' ∧ c ≠ '"' ∧ c ≠ '\n' ∧ c ≠ '\r'

/-! ### single steps -/

theorem step_inField_plain {c : Char} (h : Plain c) (fld row rows) :
    Reader.step ⟨.inField, fld, row, rows⟩ c = ⟨.inField, c :: fld, row, rows⟩ := by
  obtain ⟨h1, _, h3, h4⟩ := h
  simp [Reader.step, isNl, h1, h3, h4]

theorem step_start_plain {c : Char} (h : Plain c) (b : Bool) (fld row rows) :
    Reader.stepStart ⟨if b then .startRecord else .startField, fld, row, rows⟩ c b =
      ⟨.inField, c :: fld, row, rows⟩ := by
  obtain ⟨h1, h2, h3, h4⟩ := h
  simp [Reader.stepStart, isNl, h1, h2, h3, h4]

theorem step_startField_plain {c : Char} (h : Plain c) (fld row rows) :
    Reader.step ⟨.startField, fld, row, rows⟩ c = ⟨.inField, c :: fld, row, rows⟩ :=
  step_start_plain h false fld row rows

theorem step_startRecord_plain {c : Char} (h : Plain c) (fld row rows) :
    Reader.step ⟨.startRecord, fld, row, rows⟩ c = ⟨.inField, c :: fld, row, rows⟩ :=
  step_start_plain h true fld row rows

theorem step_startField_quote (fld row rows) :
    Reader.step ⟨.startField, fld, row, rows⟩ '"' = ⟨.inQuoted, fld, row, rows⟩ := rfl

theorem step_startRecord_quote (fld row rows) :
    Reader.step ⟨.startRecord, fld, row, rows⟩ '"' = ⟨.inQuoted, fld, row, rows⟩ := rfl

theorem step_inQuoted_quote (fld row rows) :
    Reader.step ⟨.inQuoted, fld, row, rows⟩ '"' = ⟨.quoteInQuoted, fld, row, rows⟩ := rfl

theorem step_quoteInQuoted_quote (fld row rows) :
    Reader.step ⟨.quoteInQuoted, fld, row, rows⟩ '"' = ⟨.inQuoted, '"' :: fld, row, rows⟩ := rfl

theorem step_inQuoted_other {c : Char} (h : c ≠ '"') (fld row rows) :
    Reader.step ⟨.inQuoted, fld, row, rows⟩ c = ⟨.inQuoted, c :: fld, row, rows⟩ := by
  simp [Reader.step, h]

theorem step_inField_delim {d : Char} (h : IsDelim d) (fld row rows) :
    Reader.step ⟨.inField, fld, row, rows⟩ d = ⟨delimSt d, [], fld.reverse :: row, rows⟩ := by
  rcases h with h | h | h <;> subst h <;> rfl

theorem step_startField_delim {d : Char} (h : IsDelim d) (fld row rows) :
    Reader.step ⟨.startField, fld, row, rows⟩ d = ⟨delimSt d, [], fld.reverse :: row, rows⟩ := by
  rcases h with h | h | h <;> subst h <;> rfl

theorem step_quoteInQuoted_delim {d : Char} (h : IsDelim d) (fld row rows) :
    Reader.step ⟨.quoteInQuoted, fld, row, rows⟩ d = ⟨delimSt d, [], fld.reverse :: row, rows⟩ := by
  rcases h with h | h | h <;> subst h <;> rfl

theorem step_startRecord_comma (fld row rows) :
    Reader.step ⟨.startRecord, fld, row, rows⟩ ',' = ⟨.startField, [], fld.reverse :: row, rows⟩ := rfl

/-- in `eatCrnl`, a character other than `\n` is processed as the first character of the next record -/
theorem step_eatCrnl {c : Char} (h : c ≠ '\n') (fld row rows) :
    Reader.step ⟨.eatCrnl, fld, row, rows⟩ c = Reader.step ⟨.startRecord, [], [], row.reverse :: rows⟩ c := by
  simp [Reader.step, h, Reader.endRecord]

theorem step_eatCrnl_nl (fld row rows) :
    Reader.step ⟨.eatCrnl, fld, row, rows⟩ '\n' = ⟨.startRecord, [], [], row.reverse :: rows⟩ := rfl

/-! ### runs of characters -/

theorem run_inField (f : List Char) (hf : ∀ c ∈ f, Plain c) (fld row rows) :
    run ⟨.inField, fld, row, rows⟩ f = ⟨.inField, f.reverse ++ fld, row, rows⟩ := by
  induction f generalizing fld with
  | nil => rfl
  | cons c f ih =>
    rw [run_cons, step_inField_plain (hf c (List.mem_cons_self ..)),
      ih (fun x hx => hf x (List.mem_cons_of_mem _ hx))]
    simp

theorem run_inQuoted (f : List Char) (fld row rows) :
    run ⟨.inQuoted, fld, row, rows⟩ (f.flatMap esc) = ⟨.inQuoted, f.reverse ++ fld, row, rows⟩ := by
  induction f generalizing fld with
  | nil => rfl
  | cons c f ih =>
    rw [List.flatMap_cons, run_append]
    by_cases hc : c = '"'
    · subst hc
      have : esc '"' = ['"', '"'] := rfl
      rw [this, run_cons, run_cons, run_nil, step_inQuoted_quote, step_quoteInQuoted_quote, ih]
      simp
    · have : esc c = [c] := by simp [esc, hc]
      rw [this, run_cons, run_nil, step_inQuoted_other hc, ih]
      simp

/-! ### one field -/

theorem isDelim_ne_quote {d : Char} (h : IsDelim d) : d ≠ '"' := by
  rcases h with h | h | h <;> subst h <;> decide

/-- a quoted field followed by a delimiter, read at the start of a field or record -/
theorem run_quoted (f : List Char) {d : Char} (hd : IsDelim d) (b : Bool) (row rows) :
    run ⟨if b then .startRecord else .startField, [], row, rows⟩ (quoteField f ++ [d]) =
      ⟨delimSt d, [], f :: row, rows⟩ := by
  rw [quoteField_eq, List.cons_append, run_cons]
  have h1 : Reader.step ⟨if b then .startRecord else .startField, [], row, rows⟩ '"' =
      ⟨.inQuoted, [], row, rows⟩ := by cases b <;> rfl
  rw [h1, List.append_assoc, run_append, run_inQuoted, List.cons_append, List.nil_append, run_cons,
    run_cons, run_nil, step_inQuoted_quote, step_quoteInQuoted_delim hd]
  simp

theorem needsQuote_false {lt f : List Char} (h : needsQuote lt f = false) :
    ∀ c ∈ f, c ≠ ',' ∧ c ≠ '"' ∧ lt.contains c = false := by
  intro c hc
  unfold needsQuote at h
  rw [List.any_eq_false] at h
  have := h c hc
  simpa [and_assoc] using this

/-- the characters of a field that is written unquoted and satisfies `fieldOk` -/
theorem plain_of_ok {lt f : List Char} (hq : needsQuote lt f = false) (hok : fieldOk lt f = true) :
    ∀ c ∈ f, Plain c := by
  intro c hc
  obtain ⟨h1, h2, _⟩ := needsQuote_false hq c hc
  unfold fieldOk at hok
  rw [hq, Bool.false_or] at hok
  have h3 : f.any isNl = false := by simpa using hok
  rw [List.any_eq_false] at h3
  have h4 := h3 c hc
  have h5 : c ≠ '\n' ∧ c ≠ '\r' := by simpa [isNl] using h4
  exact ⟨h1, h2, h5.1, h5.2⟩

/-- an unquoted non-empty field followed by a delimiter -/
theorem run_unquoted_cons (c : Char) (f : List Char) (hf : ∀ x ∈ c :: f, Plain x) {d : Char}
    (hd : IsDelim d) (b : Bool) (row rows) :
    run ⟨if b then .startRecord else .startField, [], row, rows⟩ ((c :: f) ++ [d]) =
      ⟨delimSt d, [], (c :: f) :: row, rows⟩ := by
  rw [List.cons_append, run_cons]
  have h1 : Reader.step ⟨if b then .startRecord else .startField, [], row, rows⟩ c =
      ⟨.inField, [c], row, rows⟩ := by
    cases b
    · exact step_startField_plain (hf c (List.mem_cons_self ..)) _ _ _
    · exact step_startRecord_plain (hf c (List.mem_cons_self ..)) _ _ _
  rw [h1, run_append, run_inField f (fun x hx => hf x (List.mem_cons_of_mem _ hx)), run_cons, run_nil,
    step_inField_delim hd]
  simp

/-- **A field at the start of a field**: reading its rendering and the delimiter appends the field. -/
theorem run_field_startField {lt f : List Char} (hok : fieldOk lt f = true) {d : Char}
    (hd : IsDelim d) (row rows) :
    run ⟨.startField, [], row, rows⟩ (writeField lt f ++ [d]) = ⟨delimSt d, [], f :: row, rows⟩ := by
  unfold writeField
  cases hq : needsQuote lt f
  · simp only [Bool.false_eq_true, if_false]
    cases f with
    | nil => rw [List.nil_append, run_cons, run_nil, step_startField_delim hd]; rfl
    | cons c f => exact run_unquoted_cons c f (plain_of_ok hq hok) hd false row rows
  · simp only [if_true]
    exact run_quoted f hd false row rows

/-- **A field at the start of a record**; excluded: the empty rendering followed by a newline
(a record consisting of one empty field, which the writer renders as `""`). -/
theorem run_field_startRecord {lt f : List Char} (hok : fieldOk lt f = true) {d : Char}
    (hd : IsDelim d) (hne : writeField lt f ≠ [] ∨ d = ',') (rows) :
    run ⟨.startRecord, [], [], rows⟩ (writeField lt f ++ [d]) = ⟨delimSt d, [], [f], rows⟩ := by
  unfold writeField at hne ⊢
  cases hq : needsQuote lt f
  · rw [hq] at hne
    simp only [Bool.false_eq_true, if_false] at hne ⊢
    cases f with
    | nil =>
      rcases hne with hne | hne
      · exact absurd rfl hne
      · subst hne; rfl
    | cons c f => exact run_unquoted_cons c f (plain_of_ok hq hok) hd true [] rows
  · simp only [if_true]
    exact run_quoted f hd true [] rows

/-! ### one record -/

/-- the comma-joined rendering of a list of fields -/
def joinFields (lt : List Char) (fs : List (List Char)) : List Char :=
  ((fs.map (writeField lt)).intersperse [',']).flatten

theorem joinFields_single (lt : List Char) (f : List Char) : joinFields lt [f] = writeField lt f := by
  simp [joinFields]

theorem joinFields_cons₂ (lt : List Char) (f g : List Char) (fs : List (List Char)) :
    joinFields lt (f :: g :: fs) = writeField lt f ++ [','] ++ joinFields lt (g :: fs) := by
  simp [joinFields]

theorem isDelim_comma : IsDelim ',' := Or.inl rfl

/-- fields after the first: read at `startField` -/
theorem run_fields_startField {lt : List Char} (fs : List (List Char)) (hne : fs ≠ [])
    (hok : ∀ f ∈ fs, fieldOk lt f = true) {d : Char} (hd : IsDelim d) (row rows) :
    run ⟨.startField, [], row, rows⟩ (joinFields lt fs ++ [d]) =
      ⟨delimSt d, [], fs.reverse ++ row, rows⟩ := by
  induction fs generalizing row with
  | nil => exact absurd rfl hne
  | cons f fs ih =>
    cases fs with
    | nil =>
      rw [joinFields_single, run_field_startField (hok f (List.mem_cons_self ..)) hd]
      rfl
    | cons g fs =>
      rw [joinFields_cons₂, List.append_assoc, run_append,
        run_field_startField (hok f (List.mem_cons_self ..)) isDelim_comma]
      have : delimSt ',' = .startField := rfl
      rw [this, ih (by simp) (fun x hx => hok x (List.mem_cons_of_mem _ hx))]
      simp

/-- the rendering of a record without its terminator -/
def rowBody (lt : List Char) (row : List (List Char)) : List Char :=
  if row == [[]] then ['"', '"'] else joinFields lt row

theorem writeRow_eq (lt : List Char) (row : List (List Char)) : writeRow lt row = rowBody lt row ++ lt := rfl

theorem writeField_ne_nil {lt f : List Char} (h : f ≠ []) : writeField lt f ≠ [] := by
  unfold writeField
  split
  · rw [quoteField_eq]; exact List.cons_ne_nil _ _
  · exact h

/-- **A record**: reading its rendering and a newline character leaves the record's fields (reversed)
in `row`, in state `eatCrnl`. -/
theorem run_rowBody {lt : List Char} (row : List (List Char)) (hne : row ≠ [])
    (hok : ∀ f ∈ row, fieldOk lt f = true) {d : Char} (hd : d = '\n' ∨ d = '\r') (rows) :
    run ⟨.startRecord, [], [], rows⟩ (rowBody lt row ++ [d]) = ⟨.eatCrnl, [], row.reverse, rows⟩ := by
  have hd' : IsDelim d := Or.inr hd
  have hst : delimSt d = .eatCrnl := by rcases hd with h | h <;> subst h <;> rfl
  unfold rowBody
  cases row with
  | nil => exact absurd rfl hne
  | cons f fs =>
    cases fs with
    | nil =>
      cases f with
      | nil =>
        have : (([[]] : List (List Char)) == [[]]) = true := by decide
        rw [if_pos this]
        have := run_quoted [] hd' true [] rows
        rw [hst] at this
        exact this
      | cons c f =>
        have : (([c :: f] : List (List Char)) == [[]]) = false := by
          rw [beq_eq_false_iff_ne]; simp
        rw [this, if_neg (by simp), joinFields_single,
          run_field_startRecord (hok _ (List.mem_cons_self ..)) hd'
            (Or.inl (writeField_ne_nil (List.cons_ne_nil _ _))), hst]
        rfl
    | cons g fs =>
      have : ((f :: g :: fs : List (List Char)) == [[]]) = false := by
        rw [beq_eq_false_iff_ne]; simp
      rw [this, if_neg (by simp), joinFields_cons₂, List.append_assoc, run_append,
        run_field_startRecord (hok _ (List.mem_cons_self ..)) isDelim_comma (Or.inr rfl)]
      have h2 : delimSt ',' = .startField := rfl
      rw [h2, run_fields_startField (g :: fs) (by simp)
        (fun x hx => hok x (List.mem_cons_of_mem _ hx)) hd', hst]
      simp

/-! ### the first character of a record is never `\n` -/

theorem joinFields_head {lt : List Char} (hnl : lt.contains '\n' = true) (row : List (List Char))
    (hne : row ≠ []) (hne' : row ≠ [[]]) :
    ∃ c t, joinFields lt row = c :: t ∧ c ≠ '\n' := by
  cases row with
  | nil => exact absurd rfl hne
  | cons f fs =>
    have hw : writeField lt f = [] ∨ ∃ c t, writeField lt f = c :: t ∧ c ≠ '\n' := by
      unfold writeField
      cases hq : needsQuote lt f
      · simp only [Bool.false_eq_true, if_false]
        cases f with
        | nil => exact Or.inl rfl
        | cons c f =>
          refine Or.inr ⟨c, f, rfl, ?_⟩
          intro hc
          have := (needsQuote_false hq c (List.mem_cons_self ..)).2.2
          rw [hc, hnl] at this
          exact Bool.noConfusion this
      · simp only [if_true]
        exact Or.inr ⟨'"', _, quoteField_eq f, by decide⟩
    cases fs with
    | nil =>
      rw [joinFields_single]
      rcases hw with hw | hw
      · exfalso
        cases f with
        | nil => exact hne' rfl
        | cons c f => exact writeField_ne_nil (List.cons_ne_nil _ _) hw
      · exact hw
    | cons g fs =>
      rw [joinFields_cons₂]
      rcases hw with hw | ⟨c, t, hw, hc⟩
      · rw [hw]; exact ⟨',', _, rfl, by decide⟩
      · rw [hw]; exact ⟨c, _, rfl, hc⟩

theorem writeRow_head {lt : List Char} (hnl : lt.contains '\n' = true) (row : List (List Char))
    (hne : row ≠ []) : ∃ c t, writeRow lt row = c :: t ∧ c ≠ '\n' := by
  rw [writeRow_eq]
  unfold rowBody
  by_cases h : row = [[]]
  · subst h
    exact ⟨'"', _, rfl, by decide⟩
  · have : (row == [[]]) = false := by rw [beq_eq_false_iff_ne]; exact h
    rw [this, if_neg (by simp)]
    obtain ⟨c, t, h1, h2⟩ := joinFields_head hnl row hne h
    rw [h1]
    exact ⟨c, _, rfl, h2⟩

theorem writeCsv_cons (lt : List Char) (row) (rows : List (List (List Char))) :
    writeCsv lt (row :: rows) = writeRow lt row ++ writeCsv lt rows := by
  simp [writeCsv]

theorem writeCsv_head {lt : List Char} (hnl : lt.contains '\n' = true) (rows : List (List (List Char)))
    (hne : ∀ row ∈ rows, row ≠ []) :
    writeCsv lt rows = [] ∨ ∃ c t, writeCsv lt rows = c :: t ∧ c ≠ '\n' := by
  cases rows with
  | nil => exact Or.inl rfl
  | cons row rows =>
    obtain ⟨c, t, h1, h2⟩ := writeRow_head hnl row (hne row (List.mem_cons_self ..))
    rw [writeCsv_cons, h1]
    exact Or.inr ⟨c, _, rfl, h2⟩

/-- a pending record end (`eatCrnl`) followed by text that does not start with `\n` is the same as
the record already ended -/
theorem finish_run_eatCrnl (t : List Char) (ht : t = [] ∨ ∃ c t', t = c :: t' ∧ c ≠ '\n')
    (fld row rows) :
    (run ⟨.eatCrnl, fld, row, rows⟩ t).finish =
      (run ⟨.startRecord, [], [], row.reverse :: rows⟩ t).finish := by
  rcases ht with ht | ⟨c, t', ht, hc⟩
  · subst ht; rfl
  · subst ht
    rw [run_cons, run_cons, step_eatCrnl hc]

/-! ### the whole file -/

theorem run_writeCsv {lt : List Char} (hlt : lt = ['\n'] ∨ lt = ['\r', '\n'])
    (rows : List (List (List Char))) (hne : ∀ row ∈ rows, row ≠ [])
    (hok : ∀ row ∈ rows, ∀ f ∈ row, fieldOk lt f = true) (acc : List (List (List Char))) :
    (run ⟨.startRecord, [], [], acc⟩ (writeCsv lt rows)).finish = acc.reverse ++ rows := by
  induction rows generalizing acc with
  | nil => simp [writeCsv, run_nil, Reader.finish]
  | cons row rows ih =>
    have hne' : ∀ r ∈ rows, r ≠ [] := fun r hr => hne r (List.mem_cons_of_mem _ hr)
    have hok' : ∀ r ∈ rows, ∀ f ∈ r, fieldOk lt f = true := fun r hr => hok r (List.mem_cons_of_mem _ hr)
    have hrow := hne row (List.mem_cons_self ..)
    have hokr := hok row (List.mem_cons_self ..)
    rw [writeCsv_cons, writeRow_eq, run_append]
    rcases hlt with hlt | hlt
    · have e : rowBody lt row ++ lt = rowBody lt row ++ ['\n'] := by rw [hlt]
      rw [e, run_rowBody row hrow hokr (Or.inl rfl),
        finish_run_eatCrnl _ (writeCsv_head (by rw [hlt]; decide) rows hne'), ih hne' hok']
      simp
    · have e : rowBody lt row ++ lt = (rowBody lt row ++ ['\r']) ++ ['\n'] := by rw [hlt]; simp
      rw [e, run_append, run_rowBody row hrow hokr (Or.inr rfl), run_cons, run_nil, step_eatCrnl_nl,
        ih hne' hok']
      simp

/-- **Round trip**: every table whose rows are non-empty and whose fields satisfy `fieldOk`
(i.e. every field except one with a newline character the writer leaves unquoted) reads back
as written. -/
theorem csv_roundtrip (lt : List Char) (hlt : lt = ['\n'] ∨ lt = ['\r', '\n'])
    (rows : List (List (List Char))) (hne : ∀ row ∈ rows, row ≠ [])
    (hok : ∀ row ∈ rows, ∀ f ∈ row, fieldOk lt f = true) :
    parseCsv (writeCsv lt rows) = rows := by
  rw [parseCsv_eq]
  have := run_writeCsv hlt rows hne hok []
  simpa [Reader.init] using this

/-- with the default terminator `\r\n`, every field is written so that it survives -/
theorem fieldOk_crlf (f : List Char) : fieldOk ['\r', '\n'] f = true := by
  unfold fieldOk
  cases h : f.any isNl
  · simp
  · rw [List.any_eq_true] at h
    obtain ⟨c, hc, hnl⟩ := h
    have : needsQuote ['\r', '\n'] f = true := by
      unfold needsQuote
      rw [List.any_eq_true]
      refine ⟨c, hc, ?_⟩
      have : c = '\n' ∨ c = '\r' := by simpa [isNl] using hnl
      rcases this with h | h <;> subst h <;> decide
    rw [this]; rfl

theorem csv_roundtrip_crlf (rows : List (List (List Char))) (hne : ∀ row ∈ rows, row ≠ []) :
    parseCsv (writeCsv ['\r', '\n'] rows) = rows :=
  csv_roundtrip _ (Or.inr rfl) rows hne (fun _ _ f _ => fieldOk_crlf f)

/-- Finding C11-F1 as a theorem about the model: with terminator `"\n"`, a field containing a bare
`\r` (and nothing else that forces quoting) is written unquoted and splits the record on reading. -/
theorem bare_cr_counterexample :
    parseCsv (writeCsv ['\n'] [[['a', '\r', 'b'], ['c']]]) ≠ [[['a', '\r', 'b'], ['c']]] := by
  decide

end Csv

/-! ## Helpers for `Model/Cli.lean` -/
namespace Cli

/-! ### `endsWith` / `stripExtensions` -/

theorem endsWith_iff (s ext : List Char) : endsWith s ext = true ↔ ∃ p, s = p ++ ext := by
  unfold endsWith
  constructor
  · intro h
    rw [Bool.and_eq_true] at h
    have h3 := eq_of_beq h.2
    refine ⟨s.take (s.length - ext.length), ?_⟩
    have := (List.take_append_drop (s.length - ext.length) s).symm
    rw [h3] at this
    exact this
  · rintro ⟨p, rfl⟩
    simp

theorem endsWith_append_self (s ext : List Char) : endsWith (s ++ ext) ext = true :=
  (endsWith_iff _ _).2 ⟨s, rfl⟩

/-- if `e'` is a suffix of `s ++ e` then one of `e`, `e'` is a suffix of the other -/
theorem endsWith_append_cases {s e e' : List Char} (h : endsWith (s ++ e) e' = true) :
    endsWith e e' = true ∨ endsWith e' e = true := by
  obtain ⟨p, hp⟩ := (endsWith_iff _ _).1 h
  rcases List.append_eq_append_iff.1 hp with ⟨a, _, h2⟩ | ⟨c, _, h2⟩
  · exact Or.inl ((endsWith_iff _ _).2 ⟨a, h2⟩)
  · exact Or.inr ((endsWith_iff _ _).2 ⟨c, h2⟩)

theorem stripExtensions_none (s : List Char) (exts : List (List Char))
    (h : ∀ e ∈ exts, endsWith s e = false) : stripExtensions s exts = s := by
  induction exts with
  | nil => rfl
  | cons e exts ih =>
    unfold stripExtensions
    rw [h e (List.mem_cons_self ..)]
    simp only [Bool.false_eq_true, if_false]
    exact ih (fun x hx => h x (List.mem_cons_of_mem _ hx))

/-- `strip_extensions` removes `ext` when it is in the tuple and no *other* member of the tuple is a
suffix of the name. -/
theorem stripExtensions_append (s ext : List Char) (exts : List (List Char)) (hmem : ext ∈ exts)
    (hno : ∀ e' ∈ exts, e' ≠ ext → endsWith (s ++ ext) e' = false) :
    stripExtensions (s ++ ext) exts = s := by
  induction exts with
  | nil => cases hmem
  | cons e exts ih =>
    unfold stripExtensions
    by_cases he : e = ext
    · subst he
      rw [endsWith_append_self]
      simp
    · rw [hno e (List.mem_cons_self ..) he]
      simp only [Bool.false_eq_true, if_false]
      have : ext ∈ exts := by
        rcases List.mem_cons.1 hmem with h | h
        · exact absurd h.symm he
        · exact h
      exact ih this (fun x hx => hno x (List.mem_cons_of_mem _ hx))

/-- no FASTA extension is a suffix of another one -/
theorem fasta_incomparable :
    ∀ e ∈ fastaExts, ∀ e' ∈ fastaExts, e' ≠ e → endsWith e e' = false ∧ endsWith e' e = false := by
  decide

/-- `.gz` and a FASTA extension: neither is a suffix of the other -/
theorem gz_incomparable :
    ∀ e ∈ fastaExts, endsWith e ".gz".toList = false ∧ endsWith ".gz".toList e = false := by
  decide

theorem fasta_no_slash : ∀ e ∈ fastaExts, '/' ∉ e := by decide

theorem stripExtensions_fasta (stem ext : List Char) (hext : ext ∈ fastaExts) :
    stripExtensions (stem ++ ext) fastaExts = stem := by
  apply stripExtensions_append _ _ _ hext
  intro e' he' hne
  cases h : endsWith (stem ++ ext) e'
  · rfl
  · exfalso
    obtain ⟨h1, h2⟩ := fasta_incomparable ext hext e' he' hne
    rcases endsWith_append_cases h with h3 | h3
    · rw [h1] at h3; exact Bool.noConfusion h3
    · rw [h2] at h3; exact Bool.noConfusion h3

theorem stripExtensions_gz_none (stem ext : List Char) (hext : ext ∈ fastaExts) :
    stripExtensions (stem ++ ext) gzipExts = stem ++ ext := by
  apply stripExtensions_none
  intro e he
  have : e = ".gz".toList := by simpa [gzipExts] using he
  subst this
  cases h : endsWith (stem ++ ext) ".gz".toList
  · rfl
  · exfalso
    obtain ⟨h1, h2⟩ := gz_incomparable ext hext
    rcases endsWith_append_cases h with h3 | h3
    · rw [h1] at h3; exact Bool.noConfusion h3
    · rw [h2] at h3; exact Bool.noConfusion h3

theorem stripSeqExt_spec (stem ext : List Char) (hext : ext ∈ fastaExts) (gz : Bool) :
    stripSeqExt (stem ++ ext ++ (if gz then ".gz".toList else [])) = stem := by
  unfold stripSeqExt
  cases gz
  · simp only [Bool.false_eq_true, if_false, List.append_nil]
    rw [stripExtensions_gz_none stem ext hext, stripExtensions_fasta stem ext hext]
  · simp only [if_true]
    have : stripExtensions (stem ++ ext ++ ".gz".toList) gzipExts = stem ++ ext := by
      apply stripExtensions_append
      · simp [gzipExts]
      · intro e' he' hne
        have : e' = ".gz".toList := by simpa [gzipExts] using he'
        exact absurd this hne
    rw [this, stripExtensions_fasta stem ext hext]

/-! ### `basename` -/

theorem takeWhile_all {p : Char → Bool} (a : List Char) (ha : ∀ x ∈ a, p x = true) :
    a.takeWhile p = a := by
  induction a with
  | nil => rfl
  | cons x a ih =>
    rw [List.takeWhile_cons, ha x (List.mem_cons_self ..)]
    simp only [if_true]
    rw [ih (fun y hy => ha y (List.mem_cons_of_mem _ hy))]

theorem takeWhile_append_stop {p : Char → Bool} (a : List Char) (b : Char) (c : List Char)
    (ha : ∀ x ∈ a, p x = true) (hb : p b = false) : (a ++ b :: c).takeWhile p = a := by
  induction a with
  | nil => simp [hb]
  | cons x a ih =>
    rw [List.cons_append, List.takeWhile_cons, ha x (List.mem_cons_self ..)]
    simp only [if_true]
    rw [ih (fun y hy => ha y (List.mem_cons_of_mem _ hy))]

theorem basename_dir (dir t : List Char) (h : '/' ∉ t) : basename (dir ++ ['/'] ++ t) = t := by
  unfold basename
  have e : (dir ++ ['/'] ++ t).reverse = t.reverse ++ '/' :: dir.reverse := by simp
  rw [e, takeWhile_append_stop _ _ _ _ (by decide), List.reverse_reverse]
  intro x hx
  rw [List.mem_reverse] at hx
  rw [bne_iff_ne]
  intro hx'
  exact h (hx' ▸ hx)

theorem basename_nodir (t : List Char) (h : '/' ∉ t) : basename t = t := by
  unfold basename
  rw [takeWhile_all, List.reverse_reverse]
  intro x hx
  rw [List.mem_reverse] at hx
  rw [bne_iff_ne]
  intro hx'
  exact h (hx' ▸ hx)

theorem name_no_slash (stem ext : List Char) (hext : ext ∈ fastaExts) (gz : Bool) (hstem : '/' ∉ stem) :
    '/' ∉ stem ++ ext ++ (if gz then ".gz".toList else []) := by
  intro h
  rw [List.mem_append, List.mem_append] at h
  rcases h with (h | h) | h
  · exact hstem h
  · exact fasta_no_slash ext hext h
  · cases gz
    · simp at h
    · revert h; simp only [if_true]; decide

end Cli

/-! ## Helpers for `F32.fmt4` -/
namespace Fmt

/-- numerator / denominator of `value · 10^4` for the decoded pair `(m, e)` (value `m · 2^e`) -/
def fmt4Num (m : Nat) (e : Int) : Nat := if e ≥ 0 then m * 2 ^ e.toNat * 10000 else m * 10000
def fmt4Den (e : Int) : Nat := if e ≥ 0 then 1 else 2 ^ (-e).toNat

/-- `num/den` rounded to the nearest integer, ties to even -/
def roundHalfEven (num den : Nat) : Nat :=
  let q := num / den
  let r := num % den
  if 2 * r > den ∨ (2 * r = den ∧ q % 2 = 1) then q + 1 else q

/-- the integer `F32.fmt4` renders: value · 10^4 rounded half-even (0 for patterns outside the model) -/
def fmt4Q (b : UInt32) : Nat :=
  match F32.decode b with
  | none => 0
  | some (m, e) => roundHalfEven (fmt4Num m e) (fmt4Den e)

/-- fixed-point rendering with 4 decimals of `q / 10^4` -/
def render4 (q : Nat) : String :=
  let fs := toString (q % 10000)
  toString (q / 10000) ++ "." ++ String.ofList (List.replicate (4 - fs.length) '0') ++ fs

theorem fmt4_eq_render4 (b : UInt32) (m : Nat) (e : Int) (h : F32.decode b = some (m, e)) :
    F32.fmt4 b = render4 (fmt4Q b) := by
  unfold F32.fmt4 fmt4Q
  rw [h]
  rfl

theorem fmt4Q_eq (b : UInt32) (m : Nat) (e : Int) (h : F32.decode b = some (m, e)) :
    fmt4Q b = roundHalfEven (fmt4Num m e) (fmt4Den e) := by
  unfold fmt4Q
  rw [h]

theorem fmt4Den_pos (e : Int) : 0 < fmt4Den e := by
  unfold fmt4Den
  split
  · exact Nat.one_pos
  · exact Nat.pow_pos (by decide)

/-- `roundHalfEven num den` is a nearest integer to `num/den` (as a two-sided bound in `Nat`) -/
theorem roundHalfEven_bounds (num den : Nat) (hden : 0 < den) :
    2 * num ≤ 2 * (roundHalfEven num den * den) + den ∧
      2 * (roundHalfEven num den * den) ≤ 2 * num + den := by
  have hdm := Nat.div_add_mod num den
  have hr := Nat.mod_lt num hden
  unfold roundHalfEven
  simp only
  generalize hq : num / den = q at *
  generalize hrr : num % den = r at *
  have hmul : den * q = q * den := Nat.mul_comm _ _
  have hs : (q + 1) * den = q * den + den := Nat.succ_mul _ _
  generalize hx : q * den = x at *
  split
  · rename_i h
    rw [hs]
    omega
  · rename_i h
    rw [hx]
    omega

/-- on an exact tie the result is even -/
theorem roundHalfEven_tie (num den : Nat) (hden : 0 < den)
    (htie : 2 * num = 2 * (roundHalfEven num den * den) + den ∨
      2 * (roundHalfEven num den * den) = 2 * num + den) :
    roundHalfEven num den % 2 = 0 := by
  have hdm := Nat.div_add_mod num den
  have hr := Nat.mod_lt num hden
  unfold roundHalfEven at htie ⊢
  simp only at htie ⊢
  generalize hq : num / den = q at *
  generalize hrr : num % den = r at *
  have hmul : den * q = q * den := Nat.mul_comm _ _
  have hs : (q + 1) * den = q * den + den := Nat.succ_mul _ _
  generalize hx : q * den = x at *
  split at htie
  · rename_i h
    rw [if_pos h]
    rw [hs] at htie
    omega
  · rename_i h
    rw [if_neg h]
    rw [hx] at htie
    omega

end Fmt
end GambitV
