import GambitV.Model.Upgma
import GambitV.Lemmas.Cluster

/-!
Helper lemmas for the UPGMA model (`Model/Upgma.lean`): algebra of `sumD`, the argmin fold,
the loop invariant `UInv` of `upgmaRun`, reducibility of average linkage (monotone heights).
Core Lean only.
-/
namespace GambitV

/-- the matrix is symmetric (as `sumD` reads it) -/
def SymmD (D : List (List Int)) : Prop := ∀ a b, dAt D a b = dAt D b a
/-- no negative entry -/
def NonnegD (D : List (List Int)) : Prop := ∀ a b, 0 ≤ dAt D a b

/-! ### `sumD` as a double sum -/

/-- sum of row `a` over the columns `B` -/
def rowSum (D : List (List Int)) (a : Nat) (B : List Nat) : Int := (B.map (fun b => dAt D a b)).sum

theorem foldl_inner (D : List (List Int)) (a : Nat) (B : List Nat) (acc : Int) :
    B.foldl (fun acc2 b => acc2 + (D.getD a []).getD b 0) acc = acc + rowSum D a B := by
  induction B generalizing acc with
  | nil => simp [rowSum]
  | cons b B ih =>
    rw [List.foldl_cons, ih]
    simp only [rowSum, List.map_cons, List.sum_cons, dAt]
    omega

theorem foldl_outer (D : List (List Int)) (A B : List Nat) (acc : Int) :
    A.foldl (fun acc a => B.foldl (fun acc2 b => acc2 + (D.getD a []).getD b 0) acc) acc =
      acc + (A.map (fun a => rowSum D a B)).sum := by
  induction A generalizing acc with
  | nil => simp
  | cons a A ih =>
    rw [List.foldl_cons, ih, foldl_inner]
    simp only [List.map_cons, List.sum_cons]
    omega

theorem sumD_eq (D : List (List Int)) (A B : List Nat) :
    sumD D A B = (A.map (fun a => rowSum D a B)).sum := by
  unfold sumD
  rw [foldl_outer]
  omega

theorem sumD_nil_left (D : List (List Int)) (B : List Nat) : sumD D [] B = 0 := by
  rw [sumD_eq]; rfl

theorem sumD_cons_left (D : List (List Int)) (a : Nat) (A B : List Nat) :
    sumD D (a :: A) B = rowSum D a B + sumD D A B := by
  rw [sumD_eq, sumD_eq]; rfl

theorem sumD_append_left (D : List (List Int)) (A A' B : List Nat) :
    sumD D (A ++ A') B = sumD D A B + sumD D A' B := by
  rw [sumD_eq, sumD_eq, sumD_eq, List.map_append, List.sum_append_int]

theorem rowSum_append (D : List (List Int)) (a : Nat) (B B' : List Nat) :
    rowSum D a (B ++ B') = rowSum D a B + rowSum D a B' := by
  unfold rowSum
  rw [List.map_append, List.sum_append_int]

theorem sumD_append_right (D : List (List Int)) (A B B' : List Nat) :
    sumD D A (B ++ B') = sumD D A B + sumD D A B' := by
  induction A with
  | nil => simp [sumD_nil_left]
  | cons a A ih =>
    rw [sumD_cons_left, sumD_cons_left, sumD_cons_left, ih, rowSum_append]
    omega

theorem sumD_nil_right (D : List (List Int)) (A : List Nat) : sumD D A [] = 0 := by
  induction A with
  | nil => exact sumD_nil_left D []
  | cons a A ih => rw [sumD_cons_left, ih]; rfl

theorem sumD_cons_right (D : List (List Int)) (A : List Nat) (b : Nat) (B : List Nat) :
    sumD D A (b :: B) = (A.map (fun a => dAt D a b)).sum + sumD D A B := by
  induction A with
  | nil => simp [sumD_nil_left]
  | cons a A ih =>
    rw [sumD_cons_left, sumD_cons_left, ih]
    simp only [rowSum, List.map_cons, List.sum_cons]
    omega

theorem sumD_symm {D : List (List Int)} (hs : SymmD D) (A B : List Nat) : sumD D A B = sumD D B A := by
  induction A with
  | nil => rw [sumD_nil_left, sumD_nil_right]
  | cons a A ih =>
    rw [sumD_cons_left, sumD_cons_right, ih]
    have : rowSum D a B = (B.map (fun b => dAt D b a)).sum := by
      unfold rowSum
      congr 1
      apply List.map_congr_left
      intro b _
      exact hs a b
    rw [this]

theorem rowSum_nonneg {D : List (List Int)} (hp : NonnegD D) (a : Nat) (B : List Nat) : 0 ≤ rowSum D a B := by
  induction B with
  | nil => simp [rowSum]
  | cons b B ih =>
    have := hp a b
    simp only [rowSum, List.map_cons, List.sum_cons] at ih ⊢
    omega

theorem sumD_nonneg {D : List (List Int)} (hp : NonnegD D) (A B : List Nat) : 0 ≤ sumD D A B := by
  induction A with
  | nil => rw [sumD_nil_left]; exact Int.le_refl 0
  | cons a A ih =>
    rw [sumD_cons_left]
    have := rowSum_nonneg hp a B
    omega

/-! ### fractions with positive denominators -/

theorem frac_le_trans {a b c d e f : Int} (hb : 0 < b) (hd : 0 < d) (hf : 0 < f)
    (h1 : a * d ≤ c * b) (h2 : c * f ≤ e * d) : a * f ≤ e * b := by
  have s1 : (a * d) * f ≤ (c * b) * f := Int.mul_le_mul_of_nonneg_right h1 (Int.le_of_lt hf)
  have s2 : (c * f) * b ≤ (e * d) * b := Int.mul_le_mul_of_nonneg_right h2 (Int.le_of_lt hb)
  have e1 : (a * d) * f = (a * f) * d := by ac_rfl
  have e2 : (c * b) * f = (c * f) * b := by ac_rfl
  have e3 : (e * d) * b = (e * b) * d := by ac_rfl
  rw [e1, e2] at s1
  rw [e3] at s2
  exact Int.le_of_mul_le_mul_right (Int.le_trans s1 s2) hd

/-! ### the argmin fold -/

/-- the step of `argminPair`'s fold, for an arbitrary strict comparison -/
def argStep {α : Type} (lt : α → α → Bool) (best : Option α) (p : α) : Option α :=
  match best with
  | none => some p
  | some b => if lt p b then some p else some b

theorem argStep_foldl_some {α : Type} (lt : α → α → Bool) (G : α → Prop)
    (irrefl : ∀ a, lt a a = false)
    (trans : ∀ a b c, G a → G b → G c → lt a b = false → lt c b = true → lt a c = false)
    (xs : List α) (b : α) (hb : G b) (hxs : ∀ p ∈ xs, G p) :
    ∃ b', xs.foldl (argStep lt) (some b) = some b' ∧ (b' = b ∨ b' ∈ xs) ∧
      (∀ p ∈ xs, lt p b' = false) ∧ (∀ a, G a → lt a b = false → lt a b' = false) := by
  induction xs generalizing b with
  | nil => exact ⟨b, rfl, Or.inl rfl, by simp, fun a _ h => h⟩
  | cons x xs ih =>
    have hx : G x := hxs x (List.mem_cons_self ..)
    have hxs' : ∀ p ∈ xs, G p := fun p hp => hxs p (List.mem_cons_of_mem _ hp)
    rw [List.foldl_cons]
    by_cases h : lt x b = true
    · have e : argStep lt (some b) x = some x := by simp [argStep, h]
      rw [e]
      obtain ⟨b', h1, h2, h3, h4⟩ := ih x hx hxs'
      refine ⟨b', h1, ?_, ?_, ?_⟩
      · rcases h2 with h2 | h2
        · exact Or.inr (h2 ▸ List.mem_cons_self ..)
        · exact Or.inr (List.mem_cons_of_mem _ h2)
      · intro p hp
        rcases List.mem_cons.1 hp with hp | hp
        · subst hp; exact h4 p hx (irrefl p)
        · exact h3 p hp
      · intro a ha hab
        exact h4 a ha (trans a b x ha hb hx hab h)
    · have h' : lt x b = false := by simpa using h
      have e : argStep lt (some b) x = some b := by simp [argStep, h']
      rw [e]
      obtain ⟨b', h1, h2, h3, h4⟩ := ih b hb hxs'
      refine ⟨b', h1, ?_, ?_, h4⟩
      · rcases h2 with h2 | h2
        · exact Or.inl h2
        · exact Or.inr (List.mem_cons_of_mem _ h2)
      · intro p hp
        rcases List.mem_cons.1 hp with hp | hp
        · subst hp; exact h4 p hx h'
        · exact h3 p hp

theorem argStep_foldl {α : Type} (lt : α → α → Bool) (G : α → Prop)
    (irrefl : ∀ a, lt a a = false)
    (trans : ∀ a b c, G a → G b → G c → lt a b = false → lt c b = true → lt a c = false)
    (xs : List α) (hne : xs ≠ []) (hxs : ∀ p ∈ xs, G p) :
    ∃ b', xs.foldl (argStep lt) none = some b' ∧ b' ∈ xs ∧ ∀ p ∈ xs, lt p b' = false := by
  cases xs with
  | nil => exact absurd rfl hne
  | cons x xs =>
    have hx : G x := hxs x (List.mem_cons_self ..)
    obtain ⟨b', h1, h2, h3, h4⟩ := argStep_foldl_some lt G irrefl trans xs x hx
      (fun p hp => hxs p (List.mem_cons_of_mem _ hp))
    refine ⟨b', h1, ?_, ?_⟩
    · rcases h2 with h2 | h2
      · exact h2 ▸ List.mem_cons_self ..
      · exact List.mem_cons_of_mem _ h2
    · intro p hp
      rcases List.mem_cons.1 hp with hp | hp
      · subst hp; exact h4 p hx (irrefl p)
      · exact h3 p hp

theorem mem_idxPairs {k i j : Nat} : (i, j) ∈ idxPairs k ↔ i < j ∧ j < k := by
  unfold idxPairs
  simp only [List.mem_flatMap, List.mem_range, List.mem_map, List.mem_filter, decide_eq_true_eq,
    Prod.mk.injEq]
  constructor
  · rintro ⟨a, ha, b, ⟨hb, hab⟩, rfl, rfl⟩
    exact ⟨hab, hb⟩
  · rintro ⟨h1, h2⟩
    exact ⟨i, by omega, j, ⟨h2, h1⟩, rfl, rfl⟩

theorem idxPairs_ne_nil {k : Nat} (hk : 2 ≤ k) : idxPairs k ≠ [] := by
  intro h
  have : (0, 1) ∈ idxPairs k := mem_idxPairs.2 ⟨by omega, by omega⟩
  rw [h] at this
  simp at this

/-- the comparison used by `argminPair` -/
def pairLt (D : List (List Int)) (act : List Clus) (p b : Nat × Nat) : Bool :=
  avgLt D (memAt act p.1) (memAt act p.2) (memAt act b.1) (memAt act b.2)

theorem argminPair_eq (D : List (List Int)) (act : List Clus) :
    argminPair D act = (idxPairs act.length).foldl (argStep (pairLt D act)) none := by
  unfold argminPair
  congr 1
  funext best p
  cases best <;> rfl

theorem memAt_lt {act : List Clus} {i : Nat} (h : i < act.length) : memAt act i = act[i].mem := by
  unfold memAt
  rw [List.getD_eq_getElem?_getD, List.getElem?_eq_getElem h]
  rfl

theorem avgLt_false_iff (D : List (List Int)) (A B C E : List Nat) :
    avgLt D A B C E = false ↔
      sumD D C E * ((A.length * B.length : Nat) : Int) ≤ sumD D A B * ((C.length * E.length : Nat) : Int) := by
  unfold avgLt
  simp only [decide_eq_false_iff_not, Int.not_lt]

theorem avgLt_true_iff (D : List (List Int)) (A B C E : List Nat) :
    avgLt D A B C E = true ↔
      sumD D A B * ((C.length * E.length : Nat) : Int) < sumD D C E * ((A.length * B.length : Nat) : Int) := by
  unfold avgLt
  simp only [decide_eq_true_eq]

theorem length_mul_pos {A B : List Nat} (ha : A ≠ []) (hb : B ≠ []) :
    (0 : Int) < ((A.length * B.length : Nat) : Int) := by
  have h1 : 0 < A.length := List.length_pos_iff.2 ha
  have h2 : 0 < B.length := List.length_pos_iff.2 hb
  have : 0 < A.length * B.length := Nat.mul_pos h1 h2
  omega

/-- `argminPair` on at least two clusters with non-empty members: the result is a position pair of
minimal average distance. -/
theorem argminPair_spec (D : List (List Int)) (act : List Clus) (hlen : 2 ≤ act.length)
    (hne : ∀ c ∈ act, c.mem ≠ []) :
    ∃ i j, argminPair D act = some (i, j) ∧ i < j ∧ j < act.length ∧
      ∀ p q, p < q → q < act.length →
        avgLt D (memAt act p) (memAt act q) (memAt act i) (memAt act j) = false := by
  have hmem : ∀ i, i < act.length → memAt act i ≠ [] := by
    intro i hi
    rw [memAt_lt hi]
    exact hne _ (List.getElem_mem hi)
  let G : Nat × Nat → Prop := fun p => memAt act p.1 ≠ [] ∧ memAt act p.2 ≠ []
  have hG : ∀ p ∈ idxPairs act.length, G p := by
    rintro ⟨p, q⟩ hp
    obtain ⟨h1, h2⟩ := mem_idxPairs.1 hp
    exact ⟨hmem p (by omega), hmem q h2⟩
  have irrefl : ∀ a, pairLt D act a a = false := by
    intro a
    unfold pairLt
    rw [avgLt_false_iff]
    exact Int.le_refl _
  have trans : ∀ a b c, G a → G b → G c → pairLt D act a b = false → pairLt D act c b = true →
      pairLt D act a c = false := by
    intro a b c ha hb hc h1 h2
    unfold pairLt at h1 h2 ⊢
    rw [avgLt_false_iff] at h1 ⊢
    rw [avgLt_true_iff] at h2
    exact frac_le_trans (length_mul_pos hc.1 hc.2) (length_mul_pos hb.1 hb.2) (length_mul_pos ha.1 ha.2)
      (Int.le_of_lt h2) h1
  obtain ⟨⟨i, j⟩, h1, h2, h3⟩ := argStep_foldl (pairLt D act) G irrefl trans (idxPairs act.length)
    (idxPairs_ne_nil hlen) hG
  obtain ⟨hij, hj⟩ := mem_idxPairs.1 h2
  refine ⟨i, j, by rw [argminPair_eq]; exact h1, hij, hj, ?_⟩
  intro p q hpq hq
  exact h3 (p, q) (mem_idxPairs.2 ⟨hpq, hq⟩)

/-! ### one step, explicitly -/

def clAt (act : List Clus) (i : Nat) : Clus := act.getD i ⟨0, []⟩

theorem memAt_eq (act : List Clus) (i : Nat) : memAt act i = (clAt act i).mem := rfl

theorem clAt_lt {act : List Clus} {i : Nat} (h : i < act.length) : clAt act i = act[i] := by
  unfold clAt
  rw [List.getD_eq_getElem?_getD, List.getElem?_eq_getElem h]
  rfl

theorem clAt_mem {act : List Clus} {i : Nat} (h : i < act.length) : clAt act i ∈ act := by
  rw [clAt_lt h]
  exact List.getElem_mem h

/-- the row emitted when merging positions `i < j` -/
def mergeRow (D : List (List Int)) (act : List Clus) (i j : Nat) : QRow :=
  ⟨(clAt act i).id, (clAt act j).id, sumD D (clAt act i).mem (clAt act j).mem,
    (clAt act i).mem.length * (clAt act j).mem.length⟩

/-- the state after merging positions `i < j` -/
def mergeState (D : List (List Int)) (s : UState) (i j : Nat) : UState :=
  { act := (s.act.eraseIdx j).eraseIdx i ++ [⟨s.next, (clAt s.act i).mem ++ (clAt s.act j).mem⟩],
    rows := s.rows ++ [⟨(clAt s.act i).id, (clAt s.act j).id, sumD D (clAt s.act i).mem (clAt s.act j).mem,
      (clAt s.act i).mem.length * (clAt s.act j).mem.length⟩],
    next := s.next + 1 }

theorem upgmaStep_some {D : List (List Int)} {s : UState} {i j : Nat}
    (h : argminPair D s.act = some (i, j)) : upgmaStep D s = mergeState D s i j := by
  unfold upgmaStep
  rw [h]
  rfl

theorem upgmaRun_succ (D : List (List Int)) (k : Nat) (s : UState) :
    upgmaRun D (k + 1) s = upgmaStep D (upgmaRun D k s) := by
  induction k generalizing s with
  | zero => rfl
  | succ k ih =>
    show upgmaRun D (k + 1) (upgmaStep D s) = _
    rw [ih]
    rfl

theorem perm_eraseIdx {α : Type} (l : List α) (i : Nat) (h : i < l.length) :
    l.Perm (l[i] :: l.eraseIdx i) := by
  rw [List.eraseIdx_eq_take_drop_succ]
  have e : l = l.take i ++ l[i] :: l.drop (i + 1) := by
    rw [← List.drop_eq_getElem_cons h, List.take_append_drop]
  exact (List.Perm.of_eq e).trans List.perm_middle

theorem perm_erase2 (act : List Clus) {i j : Nat} (hij : i < j) (hj : j < act.length) :
    act.Perm (clAt act i :: clAt act j :: (act.eraseIdx j).eraseIdx i) := by
  have h1 := perm_eraseIdx act j hj
  have hi' : i < (act.eraseIdx j).length := by rw [List.length_eraseIdx_of_lt hj]; omega
  have h2 := perm_eraseIdx (act.eraseIdx j) i hi'
  have e : (act.eraseIdx j)[i] = act[i] := List.getElem_eraseIdx_of_lt hi' hij
  rw [e] at h2
  rw [clAt_lt (show i < act.length by omega), clAt_lt hj]
  exact h1.trans ((h2.cons _).trans (List.Perm.swap _ _ _))

/-! ### `rowLeaves` does not change when rows are appended -/

theorem rowLeaves_append (n : Nat) (rows ext : List QRow)
    (hrows : ∀ t r, rows[t]? = some r → r.left < n + t ∧ r.right < n + t) :
    ∀ f i, i < n + rows.length → rowLeaves n (rows ++ ext) f i = rowLeaves n rows f i := by
  intro f
  induction f with
  | zero => intro i _; rfl
  | succ f ih =>
    intro i hi
    unfold rowLeaves
    by_cases h : i < n
    · rw [if_pos h, if_pos h]
    · rw [if_neg h, if_neg h]
      have hlt : i - n < rows.length := by omega
      rw [List.getElem?_append_left hlt, List.getElem?_eq_getElem hlt]
      obtain ⟨h1, h2⟩ := hrows (i - n) rows[i - n] (List.getElem?_eq_getElem hlt)
      simp only
      rw [ih _ (by omega), ih _ (by omega)]

/-! ### the loop invariant -/

/-- children of the rows, in row order -/
def rowChildren (rows : List QRow) : List Nat := rows.flatMap (fun r => [r.left, r.right])

/-- `f` is enough fuel for `rowLeaves` at cluster `i` -/
def FuelOk (n f i : Nat) : Prop := 1 ≤ f ∧ i + 2 ≤ f + n

structure UInv (D : List (List Int)) (n k : Nat) (s : UState) : Prop where
  k_lt : k < n
  act_len : s.act.length = n - k
  rows_len : s.rows.length = k
  next_eq : s.next = n + k
  mem_ne : ∀ c ∈ s.act, c.mem ≠ []
  perm : (rowChildren s.rows ++ s.act.map (·.id)).Perm (List.range (n + k))
  last : s.act.getLast?.map (·.id) = some (n + k - 1)
  leaves : (s.act.flatMap (·.mem)).Perm (List.range n)
  rows_ok : ∀ (t : Nat) (r : QRow), s.rows[t]? = some r → r.left < n + t ∧ r.right < n + t ∧ r.left ≠ r.right
  act_leaves : ∀ c ∈ s.act, ∀ f, FuelOk n f c.id → rowLeaves n s.rows f c.id = c.mem
  rows_avg : ∀ (t : Nat) (r : QRow), s.rows[t]? = some r → 0 < r.den ∧ ∀ f1 f2, FuelOk n f1 r.left → FuelOk n f2 r.right →
    rowLeaves n s.rows f1 r.left ≠ [] ∧ rowLeaves n s.rows f2 r.right ≠ [] ∧
    r.num = sumD D (rowLeaves n s.rows f1 r.left) (rowLeaves n s.rows f2 r.right) ∧
    r.den = (rowLeaves n s.rows f1 r.left).length * (rowLeaves n s.rows f2 r.right).length

theorem UInv.id_lt {D : List (List Int)} {n k : Nat} {s : UState} (inv : UInv D n k s) :
    ∀ c ∈ s.act, c.id < n + k := by
  intro c hc
  have : c.id ∈ rowChildren s.rows ++ s.act.map (·.id) :=
    List.mem_append_right _ (List.mem_map_of_mem hc)
  exact List.mem_range.1 (inv.perm.mem_iff.1 this)

theorem UInv.ids_nodup {D : List (List Int)} {n k : Nat} {s : UState} (inv : UInv D n k s) :
    (s.act.map (·.id)).Nodup := by
  have : (rowChildren s.rows ++ s.act.map (·.id)).Nodup := inv.perm.nodup_iff.2 List.nodup_range
  exact (List.nodup_append.1 this).2.1

theorem uinv_init (D : List (List Int)) (n : Nat) (hn : 1 ≤ n) : UInv D n 0 (upgmaInit n) := by
  refine ⟨hn, by simp [upgmaInit], rfl, rfl, ?_, ?_, ?_, ?_, ?_, ?_, ?_⟩
  · intro c hc
    simp only [upgmaInit, List.mem_map] at hc
    obtain ⟨i, _, rfl⟩ := hc
    simp
  · simp [upgmaInit, rowChildren, Function.comp_def]
  · simp only [upgmaInit, List.getLast?_map, List.getLast?_range, Option.map_map]
    rw [if_neg (by omega)]
    rfl
  · simp only [upgmaInit, List.flatMap_map]
    have : ∀ l : List Nat, l.flatMap (fun i => [i]) = l := by
      intro l; induction l with
      | nil => rfl
      | cons x l ih => rw [List.flatMap_cons, ih]; rfl
    rw [this]
  · intro t r h
    simp [upgmaInit] at h
  · intro c hc f hf
    simp only [upgmaInit, List.mem_map, List.mem_range] at hc
    obtain ⟨i, hi, rfl⟩ := hc
    obtain ⟨h1, _⟩ := hf
    obtain ⟨f', rfl⟩ : ∃ f', f = f' + 1 := ⟨f - 1, by omega⟩
    unfold rowLeaves
    rw [if_pos hi]
  · intro t r h
    simp [upgmaInit] at h

theorem rowChildren_snoc (rows : List QRow) (r : QRow) :
    rowChildren (rows ++ [r]) = rowChildren rows ++ [r.left, r.right] := by
  simp [rowChildren]

theorem getElem?_snoc_cases {α : Type} (l : List α) (x : α) (t : Nat) (r : α)
    (h : (l ++ [x])[t]? = some r) : (t < l.length ∧ l[t]? = some r) ∨ (t = l.length ∧ r = x) := by
  by_cases ht : t < l.length
  · rw [List.getElem?_append_left ht] at h
    exact Or.inl ⟨ht, h⟩
  · rw [List.getElem?_append_right (by omega)] at h
    by_cases h0 : t - l.length = 0
    · rw [h0] at h
      simp only [List.getElem?_cons_zero, Option.some.injEq] at h
      exact Or.inr ⟨by omega, h.symm⟩
    · obtain ⟨m, hm⟩ : ∃ m, t - l.length = m + 1 := ⟨t - l.length - 1, by omega⟩
      rw [hm] at h
      simp at h

/-- merging two positions `i < j` of the active list preserves the invariant -/
theorem UInv.merge {D : List (List Int)} {n k : Nat} {s : UState} (inv : UInv D n k s)
    (hk : k + 1 < n) {i j : Nat} (hij : i < j) (hj : j < s.act.length) :
    UInv D n (k + 1) (mergeState D s i j) := by
  have hi : i < s.act.length := by omega
  have hA : clAt s.act i ∈ s.act := clAt_mem hi
  have hB : clAt s.act j ∈ s.act := clAt_mem hj
  have hperm := perm_erase2 s.act hij hj
  generalize hE : (s.act.eraseIdx j).eraseIdx i = E at hperm
  generalize hAe : clAt s.act i = A at hperm hA
  generalize hBe : clAt s.act j = B at hperm hB
  have hms : mergeState D s i j = ⟨E ++ [⟨s.next, A.mem ++ B.mem⟩],
      s.rows ++ [⟨A.id, B.id, sumD D A.mem B.mem, A.mem.length * B.mem.length⟩], s.next + 1⟩ := by
    unfold mergeState
    rw [hE, hAe, hBe]
  rw [hms]
  have hEsub : ∀ c ∈ E, c ∈ s.act := fun c hc =>
    hperm.mem_iff.2 (List.mem_cons_of_mem _ (List.mem_cons_of_mem _ hc))
  have hAid := inv.id_lt A hA
  have hBid := inv.id_lt B hB
  have hmapid : (s.act.map (·.id)).Perm (A.id :: B.id :: E.map (·.id)) := hperm.map _
  have hne : A.id ≠ B.id := by
    have := hmapid.nodup_iff.1 inv.ids_nodup
    simp only [List.nodup_cons, List.mem_cons, not_or] at this
    exact this.1.1
  have hrows2 : ∀ (t : Nat) (r : QRow), s.rows[t]? = some r → r.left < n + t ∧ r.right < n + t :=
    fun t r h => ⟨(inv.rows_ok t r h).1, (inv.rows_ok t r h).2.1⟩
  -- `rowLeaves` of an old active cluster, over the extended rows
  have hold : ∀ c ∈ s.act, ∀ f, FuelOk n f c.id →
      rowLeaves n (s.rows ++ [⟨A.id, B.id, sumD D A.mem B.mem, A.mem.length * B.mem.length⟩]) f c.id = c.mem := by
    intro c hc f hf
    rw [rowLeaves_append n s.rows _ hrows2 f c.id (by rw [inv.rows_len]; exact inv.id_lt c hc)]
    exact inv.act_leaves c hc f hf
  refine ⟨hk, ?_, ?_, ?_, ?_, ?_, ?_, ?_, ?_, ?_, ?_⟩
  · have := hperm.length_eq
    have := inv.act_len
    simp only [List.length_cons, List.length_append, List.length_nil] at *
    omega
  · simp only [List.length_append, List.length_cons, List.length_nil, inv.rows_len]
  · show s.next + 1 = n + (k + 1)
    rw [inv.next_eq]; omega
  · intro c hc
    simp only [List.mem_append, List.mem_singleton] at hc
    rcases hc with hc | rfl
    · exact inv.mem_ne c (hEsub c hc)
    · have := inv.mem_ne A hA
      simp [this]
  · show (rowChildren (s.rows ++ [_]) ++ (E ++ [_]).map Clus.id).Perm _
    rw [rowChildren_snoc]
    have e : rowChildren s.rows ++ [A.id, B.id] ++ (E ++ [(⟨s.next, A.mem ++ B.mem⟩ : Clus)]).map (·.id) =
        (rowChildren s.rows ++ (A.id :: B.id :: E.map (·.id))) ++ [n + k] := by
      simp [inv.next_eq]
    show (rowChildren s.rows ++ [A.id, B.id] ++ (E ++ [(⟨s.next, A.mem ++ B.mem⟩ : Clus)]).map (·.id)).Perm _
    rw [e, show n + (k + 1) = (n + k) + 1 by omega, List.range_succ]
    exact List.Perm.append_right _ ((List.Perm.append_left _ hmapid.symm).trans inv.perm)
  · simp only [List.getLast?_concat, Option.map_some, inv.next_eq]
    congr 1
  · have h1 : (s.act.flatMap (·.mem)).Perm (A.mem ++ (B.mem ++ E.flatMap (·.mem))) := by
      have := List.Perm.flatMap_right (fun c : Clus => c.mem) hperm
      simpa [List.flatMap_cons] using this
    simp only [List.flatMap_append, List.flatMap_cons, List.flatMap_nil, List.append_nil]
    have h2 : (E.flatMap (·.mem) ++ (A.mem ++ B.mem)).Perm (A.mem ++ (B.mem ++ E.flatMap (·.mem))) := by
      rw [← List.append_assoc A.mem]
      exact List.perm_append_comm
    exact h2.trans (h1.symm.trans inv.leaves)
  · intro t r h
    rcases getElem?_snoc_cases _ _ t r h with ⟨_, h'⟩ | ⟨ht, rfl⟩
    · exact inv.rows_ok t r h'
    · rw [ht, inv.rows_len]
      exact ⟨hAid, hBid, hne⟩
  · intro c hc f hf
    simp only [List.mem_append, List.mem_singleton] at hc
    rcases hc with hc | rfl
    · exact hold c (hEsub c hc) f hf
    · obtain ⟨hf1, hf2⟩ := hf
      simp only [inv.next_eq] at hf2 ⊢
      obtain ⟨f', rfl⟩ : ∃ f', f = f' + 1 := ⟨f - 1, by omega⟩
      unfold rowLeaves
      rw [if_neg (by omega)]
      have e : n + k - n = s.rows.length := by rw [inv.rows_len]; omega
      rw [e, List.getElem?_concat_length]
      simp only
      rw [hold A hA f' ⟨by omega, by omega⟩, hold B hB f' ⟨by omega, by omega⟩]
  · intro t r h
    rcases getElem?_snoc_cases _ _ t r h with ⟨ht, h'⟩ | ⟨ht, rfl⟩
    · obtain ⟨h1, h2⟩ := inv.rows_avg t r h'
      refine ⟨h1, ?_⟩
      intro f1 f2 hf1 hf2
      obtain ⟨hl, hr, _⟩ := inv.rows_ok t r h'
      rw [rowLeaves_append n s.rows _ hrows2 f1 r.left (by omega),
        rowLeaves_append n s.rows _ hrows2 f2 r.right (by omega)]
      exact h2 f1 f2 hf1 hf2
    · have hAne := inv.mem_ne A hA
      have hBne := inv.mem_ne B hB
      refine ⟨?_, ?_⟩
      · exact Nat.mul_pos (List.length_pos_iff.2 hAne) (List.length_pos_iff.2 hBne)
      · intro f1 f2 hf1 hf2
        simp only at hf1 hf2 ⊢
        rw [hold A hA f1 hf1, hold B hB f2 hf2]
        exact ⟨hAne, hBne, rfl, rfl⟩

/-! ### the run -/

theorem UInv.step_spec {D : List (List Int)} {n k : Nat} {s : UState} (inv : UInv D n k s) (hk : k + 1 < n) :
    ∃ i j, argminPair D s.act = some (i, j) ∧ i < j ∧ j < s.act.length ∧
      (∀ p q, p < q → q < s.act.length →
        avgLt D (memAt s.act p) (memAt s.act q) (memAt s.act i) (memAt s.act j) = false) ∧
      upgmaStep D s = mergeState D s i j ∧ UInv D n (k + 1) (upgmaStep D s) := by
  have hlen : 2 ≤ s.act.length := by rw [inv.act_len]; omega
  obtain ⟨i, j, h1, h2, h3, h4⟩ := argminPair_spec D s.act hlen inv.mem_ne
  refine ⟨i, j, h1, h2, h3, h4, upgmaStep_some h1, ?_⟩
  rw [upgmaStep_some h1]
  exact inv.merge hk h2 h3

theorem uinv_run (D : List (List Int)) (n : Nat) : ∀ k, k < n → UInv D n k (upgmaRun D k (upgmaInit n)) := by
  intro k
  induction k with
  | zero => intro h; exact uinv_init D n h
  | succ k ih =>
    intro h
    rw [upgmaRun_succ]
    obtain ⟨_, _, _, _, _, _, _, h'⟩ := (ih (by omega)).step_spec h
    exact h'

theorem upgmaStep_rows_prefix (D : List (List Int)) (s : UState) : ∃ ext, (upgmaStep D s).rows = s.rows ++ ext := by
  unfold upgmaStep
  split
  · exact ⟨[], by simp⟩
  · exact ⟨_, rfl⟩

theorem upgmaRun_rows_prefix (D : List (List Int)) (d : Nat) (s : UState) :
    ∃ ext, (upgmaRun D d s).rows = s.rows ++ ext := by
  induction d generalizing s with
  | zero => exact ⟨[], by simp [upgmaRun]⟩
  | succ d ih =>
    obtain ⟨e1, h1⟩ := upgmaStep_rows_prefix D s
    obtain ⟨e2, h2⟩ := ih (upgmaStep D s)
    exact ⟨e1 ++ e2, by show (upgmaRun D d (upgmaStep D s)).rows = _; rw [h2, h1, List.append_assoc]⟩

theorem upgmaRun_add (D : List (List Int)) (a b : Nat) (s : UState) :
    upgmaRun D (a + b) s = upgmaRun D b (upgmaRun D a s) := by
  induction a generalizing s with
  | zero => simp [upgmaRun]
  | succ a ih =>
    rw [show a + 1 + b = (a + b) + 1 by omega]
    show upgmaRun D (a + b) (upgmaStep D s) = upgmaRun D b (upgmaRun D a (upgmaStep D s))
    exact ih _

/-- rows, once emitted, stay -/
theorem upgmaRun_rows_stable (D : List (List Int)) (s : UState) (k m t : Nat) (hkm : k ≤ m)
    (ht : t < (upgmaRun D k s).rows.length) :
    (upgmaRun D m s).rows[t]? = (upgmaRun D k s).rows[t]? := by
  obtain ⟨d, rfl⟩ : ∃ d, m = k + d := ⟨m - k, by omega⟩
  rw [upgmaRun_add]
  obtain ⟨ext, h⟩ := upgmaRun_rows_prefix D d (upgmaRun D k s)
  rw [h, List.getElem?_append_left ht]

/-! ### reducibility of average linkage -/

/-- position in the old active list of position `p` of the list with `i < j` erased -/
def skip2 (i j p : Nat) : Nat := if p < i then p else if p + 1 < j then p + 1 else p + 2

theorem getElem?_erase2 {α : Type} (l : List α) {i j : Nat} (hij : i < j) (p : Nat) :
    ((l.eraseIdx j).eraseIdx i)[p]? = l[skip2 i j p]? := by
  unfold skip2
  rw [List.getElem?_eraseIdx]
  by_cases h1 : p < i
  · rw [if_pos h1, if_pos h1, List.getElem?_eraseIdx, if_pos (by omega)]
  · rw [if_neg h1, if_neg h1, List.getElem?_eraseIdx]
    split <;> rfl

theorem skip2_spec {i j p : Nat} (hij : i < j) :
    skip2 i j p ≠ i ∧ skip2 i j p ≠ j ∧ skip2 i j p ≤ p + 2 ∧ ∀ q, p < q → skip2 i j p < skip2 i j q := by
  unfold skip2
  refine ⟨?_, ?_, ?_, ?_⟩
  · split
    · omega
    · split <;> omega
  · split
    · omega
    · split <;> omega
  · split
    · omega
    · split <;> omega
  · intro q hq
    split <;> split <;> (try split) <;> (try split) <;> omega

theorem mediant_le {hn hd x y ca cb : Int} (h1 : hn * ca ≤ x * hd) (h2 : hn * cb ≤ y * hd) :
    hn * (ca + cb) ≤ (x + y) * hd := by
  rw [Int.mul_add, Int.add_mul]
  omega

theorem avgLt_swap {D : List (List Int)} (hs : SymmD D) (P Q A B : List Nat) :
    avgLt D P Q A B = avgLt D Q P A B := by
  unfold avgLt
  rw [sumD_symm hs P Q, Nat.mul_comm P.length]

theorem memAt_merge_old (act : List Clus) {i j : Nat} (hij : i < j) (new : Clus) {p : Nat}
    (hp : p < ((act.eraseIdx j).eraseIdx i).length) :
    memAt ((act.eraseIdx j).eraseIdx i ++ [new]) p = memAt act (skip2 i j p) := by
  unfold memAt
  rw [List.getD_eq_getElem?_getD, List.getD_eq_getElem?_getD, List.getElem?_append_left hp,
    getElem?_erase2 act hij]

theorem memAt_merge_new (E : List Clus) (new : Clus) : memAt (E ++ [new]) E.length = new.mem := by
  unfold memAt
  rw [List.getD_eq_getElem?_getD, List.getElem?_concat_length]
  rfl

/-- after merging the minimal pair `(i, j)`, no pair of the new active list is closer than the merged pair was -/
theorem merge_min {D : List (List Int)} (hs : SymmD D) (act : List Clus) {i j : Nat} (hij : i < j)
    (hj : j < act.length) (new : Clus) (hnew : new.mem = memAt act i ++ memAt act j)
    (hmin : ∀ p q, p < q → q < act.length →
      avgLt D (memAt act p) (memAt act q) (memAt act i) (memAt act j) = false) :
    ∀ p q, p < q → q < ((act.eraseIdx j).eraseIdx i ++ [new]).length →
      avgLt D (memAt ((act.eraseIdx j).eraseIdx i ++ [new]) p) (memAt ((act.eraseIdx j).eraseIdx i ++ [new]) q)
        (memAt act i) (memAt act j) = false := by
  have hElen : ((act.eraseIdx j).eraseIdx i).length + 2 = act.length := by
    have := (perm_erase2 act hij hj).length_eq
    simp only [List.length_cons] at this
    omega
  have hmin' : ∀ p q, p ≠ q → p < act.length → q < act.length →
      avgLt D (memAt act p) (memAt act q) (memAt act i) (memAt act j) = false := by
    intro p q hpq hp hq
    by_cases h : p < q
    · exact hmin p q h hq
    · rw [avgLt_swap hs]
      exact hmin q p (by omega) hp
  intro p q hpq hq
  rw [List.length_append, List.length_singleton] at hq
  have hp : p < ((act.eraseIdx j).eraseIdx i).length := by omega
  obtain ⟨hp1, hp2, hp3, hp4⟩ := skip2_spec (p := p) hij
  rw [memAt_merge_old act hij new hp]
  by_cases hq' : q < ((act.eraseIdx j).eraseIdx i).length
  · rw [memAt_merge_old act hij new hq']
    obtain ⟨_, _, hq3, _⟩ := skip2_spec (p := q) hij
    exact hmin _ _ (hp4 q hpq) (by omega)
  · have e : q = ((act.eraseIdx j).eraseIdx i).length := by omega
    rw [e, memAt_merge_new, hnew]
    have h1 := hmin' (skip2 i j p) i hp1 (by omega) (by omega)
    have h2 := hmin' (skip2 i j p) j hp2 (by omega) hj
    rw [avgLt_false_iff] at h1 h2 ⊢
    rw [sumD_append_right, List.length_append, Nat.mul_add, Int.natCast_add]
    exact mediant_le h1 h2

/-- two consecutive steps: the second height is not below the first -/
theorem monotone_step {D : List (List Int)} (hs : SymmD D) {n k : Nat} {s : UState} (inv : UInv D n k s)
    (hk : k + 2 < n) :
    ∃ r1 r2, (upgmaStep D (upgmaStep D s)).rows = s.rows ++ [r1, r2] ∧
      r1.num * (r2.den : Int) ≤ r2.num * (r1.den : Int) := by
  obtain ⟨i, j, _, hij, hj, hmin, hstep, inv1⟩ := inv.step_spec (by omega)
  obtain ⟨p, q, _, hpq, hq, _, hstep2, _⟩ := inv1.step_spec (by omega)
  rw [hstep2]
  rw [hstep] at hq ⊢
  have key := merge_min hs s.act hij hj ⟨s.next, (clAt s.act i).mem ++ (clAt s.act j).mem⟩ rfl hmin p q hpq hq
  rw [avgLt_false_iff] at key
  refine ⟨mergeRow D s.act i j, mergeRow D (mergeState D s i j).act p q, ?_, ?_⟩
  · show (s.rows ++ [mergeRow D s.act i j]) ++ [mergeRow D (mergeState D s i j).act p q] = _
    rw [List.append_assoc]
    rfl
  · exact key

/-! ### the final linkage -/

theorem upgma_zero (D : List (List Int)) : upgma D 0 = [] := rfl

theorem uinv_final (D : List (List Int)) {n : Nat} (hn : 1 ≤ n) :
    UInv D n (n - 1) (upgmaRun D (n - 1) (upgmaInit n)) := uinv_run D n (n - 1) (by omega)

theorem upgma_length_eq (D : List (List Int)) (n : Nat) : (upgma D n).length = n - 1 := by
  by_cases hn : 1 ≤ n
  · exact (uinv_final D hn).rows_len
  · have : n = 0 := by omega
    subst this
    rfl

/-- row `t` of the result is row `t` of any intermediate state that already has it -/
theorem upgma_getElem?_run (D : List (List Int)) {n k t : Nat} (ht : t < k) (hk : k < n) :
    (upgma D n)[t]? = (upgmaRun D k (upgmaInit n)).rows[t]? := by
  unfold upgma
  exact upgmaRun_rows_stable D (upgmaInit n) k (n - 1) t (by omega) (by rw [(uinv_run D n k hk).rows_len]; exact ht)

theorem linkChildren_toLink (rows : List QRow) : linkChildren (toLink rows) = rowChildren rows := by
  simp [linkChildren, toLink, rowChildren, List.flatMap_map]

theorem foldl_den_dvd (rows : List QRow) (a : Nat) :
    a ∣ rows.foldl (fun acc r => acc * r.den) a ∧ ∀ r ∈ rows, r.den ∣ rows.foldl (fun acc r => acc * r.den) a := by
  induction rows generalizing a with
  | nil => exact ⟨Nat.dvd_refl a, by simp⟩
  | cons x xs ih =>
    obtain ⟨h1, h2⟩ := ih (a * x.den)
    rw [List.foldl_cons]
    refine ⟨Nat.dvd_trans (Nat.dvd_mul_right a x.den) h1, ?_⟩
    intro r hr
    rcases List.mem_cons.1 hr with rfl | hr
    · exact Nat.dvd_trans (Nat.dvd_mul_left r.den a) h1
    · exact h2 r hr

theorem den_dvd_commonDen {rows : List QRow} {r : QRow} (h : r ∈ rows) : r.den ∣ commonDen rows :=
  (foldl_den_dvd rows 1).2 r h

/-- bringing two ordered fractions to a common denominator keeps the order -/
theorem scale_le {a b c d x y L : Int} (hb : 0 < b) (hd : 0 < d) (hL : 0 ≤ L) (hx : b * x = L) (hy : d * y = L)
    (h : a * d ≤ c * b) : a * x ≤ c * y := by
  have s1 : (a * d) * L ≤ (c * b) * L := Int.mul_le_mul_of_nonneg_right h hL
  have e1 : (a * x) * (b * d) = (a * d) * L := by rw [← hx]; ac_rfl
  have e2 : (c * y) * (b * d) = (c * b) * L := by rw [← hy]; ac_rfl
  rw [← e1, ← e2] at s1
  exact Int.le_of_mul_le_mul_right s1 (Int.mul_pos hb hd)

theorem toLink_getElem? (rows : List QRow) (t : Nat) :
    (toLink rows)[t]? = rows[t]?.map (fun r => ⟨r.left, r.right, r.num * ((commonDen rows / r.den : Nat) : Int)⟩) := by
  unfold toLink
  rw [List.getElem?_map]

theorem rowsOk_of_spec (n : Nat) (link : List LinkRow) (k : Nat) (rows : List LinkRow)
    (h : ∀ r row, rows[r]? = some row → RowOk n link (k + r) row) : rowsOk n link k rows = true := by
  induction rows generalizing k with
  | nil => rfl
  | cons x rest ih =>
    unfold rowsOk
    have h0 := h 0 x rfl
    simp only [Bool.and_eq_true, decide_eq_true_eq]
    refine ⟨⟨⟨⟨⟨⟨h0.left_lt, h0.right_lt⟩, h0.ne⟩, h0.height_nonneg⟩, h0.left_le⟩, h0.right_le⟩, ?_⟩
    apply ih
    intro r row hr
    have := h (r + 1) row (by simpa using hr)
    rw [show k + 1 + r = k + (r + 1) by omega]
    exact this

/-! ### executable checks of `SymmD` / `NonnegD` for a concrete matrix -/

theorem dAt_eq_zero_of_row (D : List (List Int)) {a b : Nat} (h : D.length ≤ a) : dAt D a b = 0 := by
  unfold dAt
  simp only [List.getD_eq_getElem?_getD]
  rw [List.getElem?_eq_none h]
  rfl

theorem dAt_eq_zero_of_col (D : List (List Int)) {a b : Nat} (h : ∀ row ∈ D, row.length ≤ b) : dAt D a b = 0 := by
  unfold dAt
  by_cases ha : a < D.length
  · simp only [List.getD_eq_getElem?_getD]
    rw [List.getElem?_eq_getElem ha]
    simp only [Option.getD_some]
    rw [List.getElem?_eq_none (h _ (List.getElem_mem ha))]
    rfl
  · exact dAt_eq_zero_of_row D (by omega)

/-- `D` fits in an `m × m` square -/
def fitsD (D : List (List Int)) (m : Nat) : Bool :=
  decide (D.length ≤ m) && D.all (fun row => decide (row.length ≤ m))

def symmCheckD (D : List (List Int)) (m : Nat) : Bool :=
  fitsD D m && (List.range m).all fun a => (List.range m).all fun b => dAt D a b == dAt D b a

def nonnegCheckD (D : List (List Int)) (m : Nat) : Bool :=
  fitsD D m && (List.range m).all fun a => (List.range m).all fun b => decide (0 ≤ dAt D a b)

theorem fitsD_spec {D : List (List Int)} {m : Nat} (h : fitsD D m = true) :
    ∀ a b, (m ≤ a ∨ m ≤ b) → dAt D a b = 0 := by
  unfold fitsD at h
  simp only [Bool.and_eq_true, decide_eq_true_eq, List.all_eq_true] at h
  intro a b hab
  rcases hab with hab | hab
  · exact dAt_eq_zero_of_row D (by omega)
  · exact dAt_eq_zero_of_col D (fun row hrow => by have := h.2 row hrow; omega)

theorem symmD_of_check {D : List (List Int)} {m : Nat} (h : symmCheckD D m = true) : SymmD D := by
  unfold symmCheckD at h
  simp only [Bool.and_eq_true, List.all_eq_true, List.mem_range, beq_iff_eq] at h
  intro a b
  by_cases hab : a < m ∧ b < m
  · exact h.2 a hab.1 b hab.2
  · rw [fitsD_spec h.1 a b (by omega), fitsD_spec h.1 b a (by omega)]

theorem nonnegD_of_check {D : List (List Int)} {m : Nat} (h : nonnegCheckD D m = true) : NonnegD D := by
  unfold nonnegCheckD at h
  simp only [Bool.and_eq_true, List.all_eq_true, List.mem_range, decide_eq_true_eq] at h
  intro a b
  by_cases hab : a < m ∧ b < m
  · exact h.2 a hab.1 b hab.2
  · rw [fitsD_spec h.1 a b (by omega)]
    exact Int.le_refl 0

/-! ### replay -/

/-- what an accepted replay step did -/
theorem replayStep_eq_some {D : List (List Int)} {s s' : UState} {l r : Nat} (h : replayStep D s l r = some s') :
    ∃ i j, findPos s.act l = some i ∧ findPos s.act r = some j ∧ i ≠ j ∧
      (∀ p ∈ idxPairs s.act.length,
        avgLt D (memAt s.act p.1) (memAt s.act p.2) (memAt s.act i) (memAt s.act j) = false) ∧
      s' = { act := (s.act.eraseIdx (max i j)).eraseIdx (min i j) ++ [⟨s.next, memAt s.act i ++ memAt s.act j⟩],
             rows := s.rows ++ [⟨l, r, sumD D (memAt s.act i) (memAt s.act j),
               (memAt s.act i).length * (memAt s.act j).length⟩],
             next := s.next + 1 } := by
  unfold replayStep at h
  split at h
  · rename_i i j hi hj
    split at h
    · exact absurd h (by simp)
    · rename_i hne
      dsimp only at h
      split at h
      · exact absurd h (by simp)
      · rename_i hany
        simp only [Option.some.injEq] at h
        refine ⟨i, j, hi, hj, by simpa using hne, ?_, h.symm⟩
        intro p hp
        simp only [List.any_eq_true, not_exists, not_and, Bool.not_eq_true] at hany
        exact hany p hp
  · exact absurd h (by simp)

/-! ### replay of a tie-free run reproduces the model's rows -/

theorem sum_perm_int {l l' : List Int} (h : l.Perm l') : l.sum = l'.sum := by
  induction h with
  | nil => rfl
  | cons x _ ih => simp [ih]
  | swap x y l => simp only [List.sum_cons]; omega
  | trans _ _ ih1 ih2 => rw [ih1, ih2]

theorem rowSum_perm (D : List (List Int)) (a : Nat) {B B' : List Nat} (h : B.Perm B') :
    rowSum D a B = rowSum D a B' := sum_perm_int (h.map _)

theorem sumD_perm (D : List (List Int)) {A A' B B' : List Nat} (hA : A.Perm A') (hB : B.Perm B') :
    sumD D A B = sumD D A' B' := by
  rw [sumD_eq, sumD_eq, sum_perm_int (hA.map (fun a => rowSum D a B))]
  congr 1
  apply List.map_congr_left
  intro a _
  exact rowSum_perm D a hB

theorem avgLt_congr (D : List (List Int)) {A A' B B' C C' E E' : List Nat} (hA : A.Perm A') (hB : B.Perm B')
    (hC : C.Perm C') (hE : E.Perm E') : avgLt D A B C E = avgLt D A' B' C' E' := by
  unfold avgLt
  rw [sumD_perm D hA hB, sumD_perm D hC hE, hA.length_eq, hB.length_eq, hC.length_eq, hE.length_eq]

theorem avgLt_swap_right {D : List (List Int)} (hs : SymmD D) (P Q A B : List Nat) :
    avgLt D P Q A B = avgLt D P Q B A := by
  unfold avgLt
  rw [sumD_symm hs A B, Nat.mul_comm A.length]

/-- a row up to the order in which its two children are named -/
def normRow (m : QRow) : Nat × Nat × Int × Nat := (min m.left m.right, max m.left m.right, m.num, m.den)

/-- the replayed state and the model state agree up to the order of members inside each cluster and
the order of the two children in each row -/
structure RelS (sr su : UState) : Prop where
  len : sr.act.length = su.act.length
  next : sr.next = su.next
  ids : ∀ p, (clAt sr.act p).id = (clAt su.act p).id
  mems : ∀ p, (memAt sr.act p).Perm (memAt su.act p)
  rows : sr.rows.map normRow = su.rows.map normRow

theorem RelS.refl (s : UState) : RelS s s := ⟨rfl, rfl, fun _ => rfl, fun _ => List.Perm.refl _, rfl⟩

theorem clAt_merge (act : List Clus) {i j : Nat} (hij : i < j) (hj : j < act.length) (new : Clus) (p : Nat) :
    clAt ((act.eraseIdx j).eraseIdx i ++ [new]) p =
      if p + 2 < act.length then clAt act (skip2 i j p) else if p + 2 = act.length then new else ⟨0, []⟩ := by
  have hElen : ((act.eraseIdx j).eraseIdx i).length + 2 = act.length := by
    have := (perm_erase2 act hij hj).length_eq
    simp only [List.length_cons] at this
    omega
  unfold clAt
  rw [List.getD_eq_getElem?_getD]
  by_cases h1 : p + 2 < act.length
  · rw [if_pos h1, List.getElem?_append_left (by omega), getElem?_erase2 act hij, List.getD_eq_getElem?_getD]
  · rw [if_neg h1]
    by_cases h2 : p + 2 = act.length
    · rw [if_pos h2, show p = ((act.eraseIdx j).eraseIdx i).length by omega, List.getElem?_concat_length]
      rfl
    · rw [if_neg h2, List.getElem?_eq_none (by simp only [List.length_append, List.length_singleton]; omega)]
      rfl

theorem findPos_spec {act : List Clus} {l i : Nat} (h : findPos act l = some i) :
    i < act.length ∧ (clAt act i).id = l := by
  unfold findPos at h
  obtain ⟨hi, hp, _⟩ := List.findIdx?_eq_some_iff_getElem.1 h
  refine ⟨hi, ?_⟩
  rw [clAt_lt hi]
  simpa using hp

theorem normRow_swap (a b : Nat) (x : Int) (d : Nat) : normRow ⟨a, b, x, d⟩ = normRow ⟨b, a, x, d⟩ := by
  unfold normRow
  simp only [Nat.min_comm a b, Nat.max_comm a b]

/-- one accepted replay step on related states, when the model's step has no tie, is the model's step -/
theorem replay_step_rel {D : List (List Int)} (hs : SymmD D) {n k : Nat} {sr su sr' : UState} {l r : Nat}
    (inv : UInv D n k su) (hk : k + 1 < n) (rel : RelS sr su) (htf : stepTieFree D su.act = true)
    (h : replayStep D sr l r = some sr') : RelS sr' (upgmaStep D su) := by
  obtain ⟨i, j, harg, hij, hj, _, hstep, _⟩ := inv.step_spec hk
  obtain ⟨ir, jr, hir, hjr, hne, hminr, rfl⟩ := replayStep_eq_some h
  obtain ⟨hir1, hir2⟩ := findPos_spec hir
  obtain ⟨hjr1, hjr2⟩ := findPos_spec hjr
  have hlen := rel.len
  -- the replayed pair is the model's pair
  have hpair : (ir = i ∧ jr = j) ∨ (ir = j ∧ jr = i) := by
    unfold stepTieFree at htf
    rw [harg] at htf
    simp only [List.all_eq_true, Bool.or_eq_true, beq_iff_eq] at htf
    have hmem : (min ir jr, max ir jr) ∈ idxPairs su.act.length := mem_idxPairs.2 ⟨by omega, by omega⟩
    rcases htf _ hmem with he | hlt
    · simp only [Prod.mk.injEq] at he
      omega
    · exfalso
      have h0 := hminr (i, j) (by rw [hlen]; exact mem_idxPairs.2 ⟨hij, hj⟩)
      simp only at h0 hlt
      rw [← avgLt_congr D (rel.mems i) (rel.mems j) (rel.mems (min ir jr)) (rel.mems (max ir jr))] at hlt
      by_cases hlt' : ir < jr
      · rw [show min ir jr = ir by omega, show max ir jr = jr by omega, h0] at hlt
        exact absurd hlt (by simp)
      · rw [show min ir jr = jr by omega, show max ir jr = ir by omega, avgLt_swap_right hs, h0] at hlt
        exact absurd hlt (by simp)
  have hmm : min ir jr = i ∧ max ir jr = j := by omega
  rw [hstep]
  have hj' : j < sr.act.length := by omega
  refine ⟨?_, ?_, ?_, ?_, ?_⟩
  · show (_ ++ [_]).length = (_ ++ [_]).length
    have h1 := (perm_erase2 sr.act hij hj').length_eq
    have h2 := (perm_erase2 su.act hij hj).length_eq
    simp only [List.length_cons, List.length_append, List.length_nil, hmm.1, hmm.2] at *
    omega
  · show sr.next + 1 = su.next + 1
    rw [rel.next]
  · intro p
    show (clAt ((sr.act.eraseIdx (max ir jr)).eraseIdx (min ir jr) ++ [_]) p).id =
      (clAt ((su.act.eraseIdx j).eraseIdx i ++ [_]) p).id
    rw [hmm.1, hmm.2, clAt_merge sr.act hij hj', clAt_merge su.act hij hj, hlen]
    split
    · exact rel.ids _
    · split
      · exact rel.next
      · rfl
  · intro p
    show (clAt ((sr.act.eraseIdx (max ir jr)).eraseIdx (min ir jr) ++ [_]) p).mem.Perm
      (clAt ((su.act.eraseIdx j).eraseIdx i ++ [_]) p).mem
    rw [hmm.1, hmm.2, clAt_merge sr.act hij hj', clAt_merge su.act hij hj, hlen]
    split
    · exact rel.mems _
    · split
      · show (memAt sr.act ir ++ memAt sr.act jr).Perm (memAt su.act i ++ memAt su.act j)
        rcases hpair with ⟨rfl, rfl⟩ | ⟨rfl, rfl⟩
        · exact (rel.mems _).append (rel.mems _)
        · exact List.perm_append_comm.trans ((rel.mems _).append (rel.mems _))
      · exact List.Perm.refl _
  · show (sr.rows ++ [_]).map normRow = (su.rows ++ [mergeRow D su.act i j]).map normRow
    rw [List.map_append, List.map_append, rel.rows]
    congr 1
    simp only [List.map_cons, List.map_nil, List.cons.injEq, and_true]
    rw [← hir2, ← hjr2]
    unfold mergeRow
    rw [← memAt_eq, ← memAt_eq]
    rcases hpair with ⟨rfl, rfl⟩ | ⟨rfl, rfl⟩
    · rw [rel.ids, rel.ids, sumD_perm D (rel.mems _) (rel.mems _), (rel.mems ir).length_eq, (rel.mems jr).length_eq]
    · rw [normRow_swap, rel.ids, rel.ids, sumD_symm hs, sumD_perm D (rel.mems _) (rel.mems _),
        (rel.mems ir).length_eq, (rel.mems jr).length_eq, Nat.mul_comm]

theorem replay_run_rel {D : List (List Int)} (hs : SymmD D) {n : Nat} (ms : List (Nat × Nat)) :
    ∀ (k : Nat) (sr su s : UState), UInv D n k su → RelS sr su → ms.length + k + 1 = n →
      runTieFree D ms.length su = true → replayRun D ms sr = some s → RelS s (upgmaRun D ms.length su) := by
  induction ms with
  | nil =>
    intro k sr su s _ rel _ _ h
    simp only [replayRun, Option.some.injEq] at h
    subst h
    exact rel
  | cons m rest ih =>
    intro k sr su s inv rel hlen htf h
    obtain ⟨l, r⟩ := m
    simp only [replayRun] at h
    cases hst : replayStep D sr l r with
    | none => rw [hst] at h; simp at h
    | some sr' =>
      rw [hst] at h
      simp only [Option.bind_some] at h
      simp only [List.length_cons] at hlen htf ⊢
      unfold runTieFree at htf
      simp only [Bool.and_eq_true] at htf
      have hk : k + 1 < n := by omega
      obtain ⟨_, _, _, _, _, _, _, inv'⟩ := inv.step_spec hk
      have rel' := replay_step_rel hs inv hk rel htf.1 hst
      exact ih (k + 1) sr' (upgmaStep D su) s inv' rel' (by omega) htf.2 h

end GambitV
