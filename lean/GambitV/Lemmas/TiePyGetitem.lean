import GambitV.Model.PyRt
import GambitV.Lemmas.PyRt
import GambitV.Lemmas.Indexing

/-!
Helper lemmas for the tie of the translated `AdvancedIndexingMixin.__getitem__` (`GambitV.Tie.PyGetitem`).  Nothing here mentions the
generated term: three more evaluation rules of the run-time library, the rule for a `for` loop whose body only checks its element, and
what the NumPy steps of the integer-array path (`astype(np.intp)`, `index < 0`, `np.add(…, where=…)`) compute on entries that passed
`_check_index`.  Core Lean only.
-/
namespace GambitV.TieGet
open GambitV GambitV.Py

/-! ### run-time library -/

@[simp] theorem call_fuelOut {σ ρ α : Type} : (call (.fuelOut : Res α) : M σ ρ α) = .error .fuel := rfl

@[simp] theorem tryExcept_ok {σ ρ α : Type} (a : α) (e : Exc) (h : M σ ρ α) : tryExcept (.ok a) e h = .ok a := rfl

/-- `except Exception:` catches every exception class of the model -/
@[simp] theorem tryExcept_other {σ ρ α : Type} (e' : Exc) (h : M σ ρ α) : tryExcept (.error (.exc e')) .Other h = h := by
  cases e' <;> rfl

/-! ### what `__getitem__` reads of an index: the accessors of `Py.IdxVal` on each kind of value -/

section accessors
variable (a : NdArr) (n : Nat) (sp : Bool) (asarr : Option NdArr) (i : Int) (f g h : Option (Option Int))

theorem isInt_int : IdxVal.isInt (.int i) = true := rfl
theorem getInt_int : IdxVal.getInt (.int i) = i := rfl
theorem isInt_slice : IdxVal.isInt (.slice f g h) = false := rfl
theorem isSlice_slice : IdxVal.isSlice (.slice f g h) = true := rfl
theorem sliceFields_slice : IdxVal.sliceFields (.slice f g h) = [f, g, h] := rfl
theorem isInt_nd : IdxVal.isInt (.nd a) = false := rfl
theorem isSlice_nd : IdxVal.isSlice (.nd a) = false := rfl
theorem isNd_nd : IdxVal.isNd (.nd a) = true := rfl
theorem ndim_nd : IdxVal.ndim (.nd a) = (a.ndim : Int) := rfl
theorem kind_nd : IdxVal.kind (.nd a) = a.kind := rfl
theorem ints_nd : IdxVal.ints (.nd a) = a.ints := rfl
theorem bools_nd : IdxVal.bools (.nd a) = a.bools := rfl
theorem len?_nd (h1 : a.ndim = 1) : IdxVal.len? (.nd a) = some a.len0 := by
  show (if a.ndim = 0 then none else some a.len0) = some a.len0
  rw [if_neg (by omega)]
theorem isInt_sized : IdxVal.isInt (.sized n sp asarr) = false := rfl
theorem isSlice_sized : IdxVal.isSlice (.sized n sp asarr) = false := rfl
theorem isNd_sized : IdxVal.isNd (.sized n sp asarr) = false := rfl
theorem len?_sized : IdxVal.len? (.sized n sp asarr) = some n := rfl
theorem isSpecial_sized : IdxVal.isSpecial (.sized n sp asarr) = sp := rfl
theorem asarrayFails_some : IdxVal.asarrayFails (.sized n sp (some a)) = false := rfl
theorem asarrayFails_none : IdxVal.asarrayFails (.sized n sp none) = true := rfl
theorem asarray_some : IdxVal.asarray (.sized n sp (some a)) = .nd a := rfl
theorem isInt_unsized : IdxVal.isInt .unsized = false := rfl
theorem isSlice_unsized : IdxVal.isSlice .unsized = false := rfl
theorem isNd_unsized : IdxVal.isNd .unsized = false := rfl
theorem len?_unsized : IdxVal.len? .unsized = none := rfl
theorem isNd_emptyInt : IdxVal.isNd IdxVal.emptyInt = true := rfl
theorem ndim_emptyInt : IdxVal.ndim IdxVal.emptyInt = 1 := rfl
theorem kind_emptyInt : IdxVal.kind IdxVal.emptyInt = 'i' := rfl
theorem kind_emptyInt_b : (IdxVal.kind IdxVal.emptyInt = 'b') = False := by decide
theorem kind_emptyInt_u : (IdxVal.kind IdxVal.emptyInt = 'u') = False := by decide
theorem kind_emptyInt_i : (IdxVal.kind IdxVal.emptyInt = 'i') = True := by decide
theorem ints_emptyInt : IdxVal.ints IdxVal.emptyInt = [] := rfl
theorem ltZero_emptyInt : IdxVal.ltZero IdxVal.emptyInt = [] := rfl

theorem isNd_astypeIntp (v : IdxVal) : IdxVal.isNd (IdxVal.astypeIntp v) = IdxVal.isNd v := by cases v <;> rfl
theorem isNd_addWhere (v : IdxVal) (k : Int) (m : List Bool) : IdxVal.isNd (IdxVal.addWhere v k m) = IdxVal.isNd v := by
  cases v <;> rfl

end accessors

/-! ### the NumPy steps of the integer-array path -/

/-- `np.intp` of one entry (as `IdxVal.astypeIntp` has it) -/
def intp (v : Int) : Int := if v ≥ 9223372036854775808 then v - 18446744073709551616 else v

theorem intp_small (v : Int) (h : v < 2 ^ 63) : intp v = v := by
  unfold intp
  rw [if_neg (by omega)]

theorem map_intp_small (l : List Int) (h : ∀ x ∈ l, x < 2 ^ 63) : l.map intp = l := by
  conv => rhs; rw [← List.map_id l]
  exact List.map_congr_left (fun x hx => intp_small x (h x hx))

theorem astypeIntp_nd (a : NdArr) : IdxVal.astypeIntp (.nd a) = .nd { a with kind := 'i', ints := a.ints.map intp } := rfl

/-- the positions handed to `_getitem_int_array` after the NumPy steps of the integer-array path: an unsigned array is converted to
`intp`; if any entry is negative the array is converted (again) and the collection's length added at the negative entries -/
def finalInts (n : Int) (a : NdArr) : List Int :=
  IdxVal.ints
    (if (IdxVal.ltZero (if a.kind = 'u' then IdxVal.astypeIntp (.nd a) else .nd a)).any id = true then
      IdxVal.addWhere (IdxVal.astypeIntp (if a.kind = 'u' then IdxVal.astypeIntp (.nd a) else .nd a)) n
        (IdxVal.ltZero (if a.kind = 'u' then IdxVal.astypeIntp (.nd a) else .nd a))
    else (if a.kind = 'u' then IdxVal.astypeIntp (.nd a) else .nd a))

/-- the wrap of the negative entries of an array whose entries are all below 2^63 -/
theorem wrap_nd (n : Int) (b : NdArr) (h : ∀ x ∈ b.ints, x < 2 ^ 63) :
    IdxVal.ints (if (IdxVal.ltZero (.nd b)).any id = true then
        IdxVal.addWhere (IdxVal.astypeIntp (.nd b)) n (IdxVal.ltZero (.nd b)) else .nd b)
      = b.ints.map (fun x => if x < 0 then x + n else x) := by
  by_cases hany : (IdxVal.ltZero (.nd b)).any id = true
  · rw [if_pos hany]
    show List.zipWith (fun x (m : Bool) => if m then x + n else x) (b.ints.map intp) (b.ints.map (fun x => decide (x < 0))) = _
    rw [map_intp_small b.ints h, List.zipWith_map_right, List.zipWith_self]
    apply List.map_congr_left
    intro x _
    simp only [decide_eq_true_eq]
  · rw [if_neg hany]
    show b.ints = _
    have hall : ∀ x ∈ b.ints, ¬ x < 0 := by
      intro x hx hlt
      apply hany
      show (b.ints.map (fun x => decide (x < 0))).any id = true
      rw [List.any_map, List.any_eq_true]
      exact ⟨x, hx, by simpa using hlt⟩
    conv => lhs; rw [← List.map_id b.ints]
    apply List.map_congr_left
    intro x hx
    rw [if_neg (hall x hx)]
    rfl

theorem finalInts_eq_map (n : Int) (a : NdArr) (h : ∀ x ∈ a.ints, x < 2 ^ 63) :
    finalInts n a = a.ints.map (fun x => if x < 0 then x + n else x) := by
  unfold finalInts
  by_cases hu : a.kind = 'u'
  · have key := wrap_nd n { a with kind := 'i', ints := a.ints.map intp } (by
      show ∀ x ∈ a.ints.map intp, x < 2 ^ 63
      rw [map_intp_small a.ints h]; exact h)
    simp only [if_pos hu]
    rw [astypeIntp_nd a, key]
    show (a.ints.map intp).map _ = _
    rw [map_intp_small a.ints h]
  · simp only [if_neg hu]
    exact wrap_nd n a h

/-- every entry that `normIndices` accepts lies in `[-n, n)` -/
theorem normIndices_range (n : Nat) (l : List Int) (js : List Nat) (h : normIndices n l = .ok js) :
    ∀ x ∈ l, -(n : Int) ≤ x ∧ x < n := by
  intro x hx
  refine Classical.byContradiction fun hc => ?_
  have : normIndices n l = .error .indexError := normIndices_error n l ⟨x, hx, by omega⟩
  rw [this] at h
  cases h

/-- `normIndices` only ever raises `IndexError` -/
theorem normIndices_error_kind (n : Nat) (l : List Int) (e : IdxErr) (h : normIndices n l = .error e) : e = .indexError := by
  by_cases hr : ∀ x ∈ l, -(n : Int) ≤ x ∧ x < n
  · rw [normIndices_ok n l hr] at h
    cases h
  · have : normIndices n l = .error .indexError := by
      apply normIndices_error
      refine Classical.byContradiction fun hc => hr fun x hx => ?_
      refine Classical.byContradiction fun hx' => hc ⟨x, hx, by omega⟩
    rw [this] at h
    cases h
    rfl

/-- on entries that passed `_check_index`, of a collection shorter than 2^63, the NumPy steps compute the wrapped positions -/
theorem finalInts_eq (n : Nat) (a : NdArr) (hn : n < 2 ^ 63) (js : List Nat) (h : normIndices n a.ints = .ok js) :
    finalInts (n : Int) a = js.map (fun (j : Nat) => (j : Int)) := by
  have hr := normIndices_range n a.ints js h
  rw [normIndices_ok n a.ints hr] at h
  cases h
  rw [finalInts_eq_map (n : Int) a (fun x hx => by have := (hr x hx).2; omega), List.map_map]
  apply List.map_congr_left
  intro x hx
  have := hr x hx
  simp only [Function.comp, wrapIdx]
  by_cases hneg : x < 0
  · rw [if_pos hneg]; omega
  · rw [if_neg hneg]; omega

/-! ### loop rule -/

/-- the outcome of a step that only performs a check: raise `e` if the check failed, continue with `a` otherwise -/
def chkOut {σ ρ ε β γ : Type} (r : Except ε β) (a : γ) (e : Exc) : M σ ρ γ :=
  match r with
  | .ok _ => .ok a
  | .error _ => .error (.exc e)

@[simp] theorem chkOut_ok {σ ρ ε β γ : Type} (b : β) (a : γ) (e : Exc) : (chkOut (.ok b : Except ε β) a e : M σ ρ γ) = .ok a := rfl
@[simp] theorem chkOut_error {σ ρ ε β γ : Type} (err : ε) (a : γ) (e : Exc) :
    (chkOut (.error err : Except ε β) a e : M σ ρ γ) = .error (.exc e) := rfl

/-- A `for` loop whose body, from every state satisfying the invariant `P`, either raises `e` (when the check `chk` of the element
fails) or falls through to `step s x`: the loop raises `e` iff some element fails the check, and is a left fold otherwise (and the
invariant holds of the final state).  The loop is passed as an equation so that the body is found by unification. -/
theorem forEach_check {α σ ρ ε β : Type} {xs : List α} {body : α → σ → M σ ρ σ} {s : σ} {w : M σ ρ (σ × Bool)}
    (hw : forEach xs body s = w) (P : σ → Prop) (chk : α → Except ε β) (step : σ → α → σ) (e : Exc)
    (hb : ∀ x s, P s → body x s = chkOut (chk x) (step s x) e ∧ P (step s x))
    (hs : P s) :
    P (xs.foldl step s) ∧ w = chkOut (xs.mapM chk) (xs.foldl step s, true) e := by
  subst hw
  induction xs generalizing s with
  | nil => exact ⟨hs, rfl⟩
  | cons x xs ih =>
    obtain ⟨h1, h2⟩ := hb x s hs
    obtain ⟨ih1, ih2⟩ := ih h2
    refine ⟨ih1, ?_⟩
    rw [forEach_cons, h1, List.mapM_cons]
    cases hc : chk x with
    | error err => rfl
    | ok j =>
      simp only [bind, Except.bind, chkOut_ok]
      rw [ih2, List.foldl_cons]
      cases xs.mapM chk with
      | error err => rfl
      | ok js => rfl

end GambitV.TieGet
