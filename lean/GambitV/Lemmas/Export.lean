import GambitV.Model.Export
import GambitV.Lemmas.Csv

/-!
Helper definitions and lemmas for `Props/C11` (`Model/Export.lean`): the "occurs in" lists of a
result item, key lookup in a list with unique keys, reading back a match / an optional taxon /
a list of matches from their keys, and the characterisation of `fieldOk ['\n']`.  Core Lean only.
-/
namespace GambitV
namespace Export

/-! ### what occurs in a result item -/

/-- the taxon a match refers to -/
def matchTaxa (m : MatchRec) : List TaxonRec := m.matched.toList

/-- every match of an item: the closest one, the primary one, and the closest-genomes list -/
def itemMatches (it : ItemRec) : List MatchRec :=
  it.closestMatch :: (it.primary.toList ++ it.closestGenomes)

/-- every taxon occurring in an item: report, next, predicted, and the matched taxon of every match -/
def itemTaxa (it : ItemRec) : List TaxonRec :=
  it.report.toList ++ it.next.toList ++ it.predicted.toList ++ (itemMatches it).flatMap matchTaxa

/-- every genome occurring in an item -/
def itemGenomes (it : ItemRec) : List GenomeRec := (itemMatches it).map (·.genome)

/-! ### lookup by key in a list with unique keys -/

theorem find_key {α : Type} (key : α → List Char) (l : List α) (hnd : (l.map key).Nodup)
    (a : α) (ha : a ∈ l) : l.find? (fun x => key x == key a) = some a := by
  induction l with
  | nil => cases ha
  | cons x l ih =>
    rw [List.map_cons, List.nodup_cons] at hnd
    rw [List.find?_cons]
    by_cases hk : key x = key a
    · have hxa : x = a := by
        rcases List.mem_cons.1 ha with h | h
        · exact h.symm
        · exfalso
          apply hnd.1
          rw [hk]
          exact List.mem_map_of_mem h
      subst hxa
      simp
    · have : (key x == key a) = false := by rw [beq_eq_false_iff_ne]; exact hk
      rw [this]
      rcases List.mem_cons.1 ha with h | h
      · exact absurd (h ▸ rfl) hk
      · exact ih hnd.2 h

theorem taxon_key (db : Db) (hT : (db.taxa.map (·.key)).Nodup) (t : TaxonRec) (ht : t ∈ db.taxa) :
    db.taxon t.key = some t :=
  find_key TaxonRec.key db.taxa hT t ht

theorem genome_key (db : Db) (hG : (db.genomes.map (·.key)).Nodup) (g : GenomeRec)
    (hg : g ∈ db.genomes) : db.genome g.key = some g :=
  find_key GenomeRec.key db.genomes hG g hg

/-! ### reading back -/

theorem readOptTaxon_key (db : Db) (hT : (db.taxa.map (·.key)).Nodup) (o : Option TaxonRec)
    (ho : ∀ t ∈ o.toList, t ∈ db.taxa) : readOptTaxon db (o.map (·.key)) = some o := by
  cases o with
  | none => rfl
  | some t =>
    have := taxon_key db hT t (ho t (by simp))
    simp [readOptTaxon, this]

theorem readMatch_toKeys (db : Db) (render : Nat → List Char)
    (hT : (db.taxa.map (·.key)).Nodup) (hG : (db.genomes.map (·.key)).Nodup) (m : MatchRec)
    (hg : m.genome ∈ db.genomes) (ht : ∀ t ∈ matchTaxa m, t ∈ db.taxa)
    (htext : m.distanceText = render m.distanceBits) :
    readMatch db render m.toKeys = some m := by
  obtain ⟨g, bits, text, matched⟩ := m
  simp only at hg htext
  subst htext
  have h1 := genome_key db hG g hg
  cases matched with
  | none => simp [readMatch, MatchRec.toKeys, h1]
  | some t =>
    have h2 := taxon_key db hT t (ht t (by simp [matchTaxa]))
    simp [readMatch, MatchRec.toKeys, h1, h2]

theorem readOptMatch_toKeys (db : Db) (render : Nat → List Char) (o : Option MatchRec)
    (h : ∀ m ∈ o.toList, readMatch db render m.toKeys = some m) :
    (match o.map MatchRec.toKeys with
      | none => some none
      | some m => (readMatch db render m).map some) = some o := by
  cases o with
  | none => rfl
  | some m => simp [h m (by simp)]

theorem mapM_readMatch (db : Db) (render : Nat → List Char) (ms : List MatchRec)
    (h : ∀ m ∈ ms, readMatch db render m.toKeys = some m) :
    (ms.map MatchRec.toKeys).mapM (readMatch db render) = some ms := by
  induction ms with
  | nil => rfl
  | cons m ms ih =>
    rw [List.map_cons, List.mapM_cons, h m (List.mem_cons_self ..),
      ih (fun x hx => h x (List.mem_cons_of_mem _ hx))]
    rfl

/-! ### membership in the "occurs in" lists -/

theorem mem_itemMatches {it : ItemRec} {m : MatchRec} :
    m ∈ itemMatches it ↔ m = it.closestMatch ∨ it.primary = some m ∨ m ∈ it.closestGenomes := by
  simp [itemMatches, Option.mem_toList]

theorem genome_mem_itemGenomes {it : ItemRec} {m : MatchRec} (hm : m ∈ itemMatches it) :
    m.genome ∈ itemGenomes it := List.mem_map_of_mem hm

theorem matchTaxa_sub_itemTaxa {it : ItemRec} {m : MatchRec} (hm : m ∈ itemMatches it)
    {t : TaxonRec} (ht : t ∈ matchTaxa m) : t ∈ itemTaxa it := by
  unfold itemTaxa
  exact List.mem_append_right _ (List.mem_flatMap.2 ⟨m, hm, ht⟩)

theorem report_sub_itemTaxa {it : ItemRec} {t : TaxonRec} (ht : t ∈ it.report.toList) :
    t ∈ itemTaxa it := by
  unfold itemTaxa; simp only [List.mem_append]; exact Or.inl (Or.inl (Or.inl ht))

theorem next_sub_itemTaxa {it : ItemRec} {t : TaxonRec} (ht : t ∈ it.next.toList) :
    t ∈ itemTaxa it := by
  unfold itemTaxa; simp only [List.mem_append]; exact Or.inl (Or.inl (Or.inr ht))

theorem predicted_sub_itemTaxa {it : ItemRec} {t : TaxonRec} (ht : t ∈ it.predicted.toList) :
    t ∈ itemTaxa it := by
  unfold itemTaxa; simp only [List.mem_append]; exact Or.inl (Or.inr ht)

/-! ### the guard `fieldOk ['\n']` -/

theorem needsQuote_nl_false_iff (f : List Char) :
    needsQuote ['\n'] f = false ↔ (',' ∉ f ∧ '"' ∉ f ∧ '\n' ∉ f) := by
  unfold needsQuote
  rw [List.any_eq_false]
  constructor
  · intro h
    refine ⟨fun hc => ?_, fun hc => ?_, fun hc => ?_⟩
    · exact h _ hc (by decide)
    · exact h _ hc (by decide)
    · exact h _ hc (by decide)
  · rintro ⟨h1, h2, h3⟩ c hc
    have e1 : c ≠ ',' := fun e => h1 (e ▸ hc)
    have e2 : c ≠ '"' := fun e => h2 (e ▸ hc)
    have e3 : c ≠ '\n' := fun e => h3 (e ▸ hc)
    simp [e1, e2, e3]

theorem any_isNl_iff (f : List Char) : f.any isNl = true ↔ ('\n' ∈ f ∨ '\r' ∈ f) := by
  rw [List.any_eq_true]
  constructor
  · rintro ⟨c, hc, h⟩
    have : c = '\n' ∨ c = '\r' := by simpa [isNl] using h
    rcases this with e | e
    · exact Or.inl (e ▸ hc)
    · exact Or.inr (e ▸ hc)
  · rintro (h | h)
    · exact ⟨_, h, by decide⟩
    · exact ⟨_, h, by decide⟩

theorem fieldOk_nl_false_iff (f : List Char) :
    fieldOk ['\n'] f = false ↔ ('\r' ∈ f ∧ ',' ∉ f ∧ '"' ∉ f ∧ '\n' ∉ f) := by
  unfold fieldOk
  rw [Bool.or_eq_false_iff, needsQuote_nl_false_iff, Bool.not_eq_false', any_isNl_iff]
  constructor
  · rintro ⟨⟨h1, h2, h3⟩, h4⟩
    rcases h4 with h4 | h4
    · exact absurd h4 h3
    · exact ⟨h4, h1, h2, h3⟩
  · rintro ⟨h4, h1, h2, h3⟩
    exact ⟨⟨h1, h2, h3⟩, Or.inr h4⟩

end Export
end GambitV
