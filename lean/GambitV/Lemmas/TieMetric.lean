import GambitV.Model.Loops
import GambitV.Model.Jaccard

/-! Helper lemmas for `Tie/Metric`: a generic invariant rule for `whileFuelE` and the index form of
one `unionCount` step. Core Lean only. -/
namespace GambitV.Tie

/-- Invariant/variant rule for `whileFuelE`, stated against a name `w` for the loop result so that
the (generated) condition and body are picked up by unification. -/
theorem whileFuelE_inv {σ ε : Type} {cond : σ → Bool} {body : σ → Except ε σ} {fuel : Nat} {s : σ}
    {w : Except ε (Option σ)} (hw : whileFuelE fuel cond body s = w)
    (P : σ → Prop) (μ : σ → Nat)
    (hstep : ∀ s, P s → cond s = true → ∃ s', body s = .ok s' ∧ P s' ∧ μ s' < μ s)
    (h0 : P s) (hμ : μ s ≤ fuel) :
    ∃ s', w = .ok (some s') ∧ P s' ∧ cond s' = false := by
  subst hw
  induction fuel generalizing s with
  | zero =>
    cases hc : cond s with
    | false => exact ⟨s, by simp [whileFuelE, hc], h0, hc⟩
    | true =>
      obtain ⟨s', _, _, hlt⟩ := hstep s h0 hc
      omega
  | succ fuel ih =>
    cases hc : cond s with
    | false => exact ⟨s, by simp [whileFuelE, hc], h0, hc⟩
    | true =>
      obtain ⟨s1, hb, hP1, hlt⟩ := hstep s h0 hc
      obtain ⟨s', h1, h2, h3⟩ := ih (s := s1) hP1 (by omega)
      exact ⟨s', by simp [whileFuelE, hc, hb, h1], h2, h3⟩

theorem unionCount_nil_left (b : List Nat) : unionCount [] b = b.length := by
  simp [unionCount]

theorem unionCount_nil_right (a : List Nat) : unionCount a [] = a.length := by
  cases a <;> simp [unionCount]

theorem unionCount_cons_cons (a : Nat) (as : List Nat) (b : Nat) (bs : List Nat) :
    unionCount (a :: as) (b :: bs) =
      if a < b then unionCount as (b :: bs) + 1
      else if b < a then unionCount (a :: as) bs + 1
      else unionCount as bs + 1 := by
  rw [unionCount]

theorem getD_eq_getElem {α : Type} (l : List α) (d : α) {i : Nat} (h : i < l.length) :
    l.getD i d = l[i] := by
  simp [List.getD_eq_getElem?_getD, h]

/-- One iteration of the index loop = one `unionCount` step: `i` advances when `a[i] ≤ b[j]`,
`j` advances when `b[j] ≤ a[i]` (both when equal). -/
theorem unionCount_drop_step (a b : List Nat) (i j : Nat) (hi : i < a.length) (hj : j < b.length) :
    unionCount (a.drop i) (b.drop j) =
      unionCount (a.drop (if a.getD i 0 ≤ b.getD j 0 then i + 1 else i))
                 (b.drop (if b.getD j 0 ≤ a.getD i 0 then j + 1 else j)) + 1 := by
  rw [getD_eq_getElem _ _ hi, getD_eq_getElem _ _ hj]
  conv => lhs; rw [List.drop_eq_getElem_cons hi, List.drop_eq_getElem_cons hj]
  rw [unionCount_cons_cons]
  by_cases h1 : a[i] < b[j]
  · rw [if_pos h1, if_pos (Nat.le_of_lt h1), if_neg (by omega), ← List.drop_eq_getElem_cons hj]
  · rw [if_neg h1]
    by_cases h2 : b[j] < a[i]
    · rw [if_pos h2, if_neg (by omega), if_pos (Nat.le_of_lt h2), ← List.drop_eq_getElem_cons hi]
    · rw [if_neg h2, if_pos (by omega), if_pos (by omega)]

end GambitV.Tie
