import GambitV.Lemmas.PyRt

/-!
Helper lemmas for the ties of the translated `classify.py` functions (`GambitV.Tie.PyMatching`,
`GambitV.Tie.PyNext`, `GambitV.Tie.PyFindMatches`).  Core Lean only.
-/
namespace GambitV.Py

/-- loops with pointwise equal bodies are equal (used to replace a generated body by a named one) -/
theorem forEach_congr {α σ ρ : Type} {b₁ b₂ : α → σ → M σ ρ σ} (h : ∀ x s, b₁ x s = b₂ x s)
    (xs : List α) (s : σ) : forEach xs b₁ s = forEach xs b₂ s := by
  have : b₁ = b₂ := funext fun x => funext (h x)
  rw [this]

theorem whileLoop_congr {σ ρ : Type} {c₁ c₂ : σ → M σ ρ Bool} {b₁ b₂ : σ → M σ ρ σ}
    (hc : ∀ s, c₁ s = c₂ s) (hb : ∀ s, b₁ s = b₂ s) (n : Nat) (s : σ) :
    whileLoop n c₁ b₁ s = whileLoop n c₂ b₂ s := by
  have h1 : c₁ = c₂ := funext hc
  have h2 : b₁ = b₂ := funext hb
  rw [h1, h2]

end GambitV.Py

namespace GambitV

/-- the test `taxon.distance_threshold is not None and d <= taxon.distance_threshold` is `covers` -/
theorem covers_eq (F : Forest) (a d : Nat) :
    ((F.thrOf a).isSome && decide (d ≤ (F.thrOf a).getD 0)) = F.covers a d := by
  unfold Forest.covers
  cases F.thrOf a <;> rfl

/-! ### lineages of a well-formed forest -/

theorem length_lineageFuel_le (F : Forest) (n t : Nat) : (F.lineageFuel n t).length ≤ n := by
  induction n generalizing t with
  | zero => exact Nat.le_refl 0
  | succ n ih =>
    unfold Forest.lineageFuel
    cases F.parentOf t with
    | none => simp
    | some p => simpa using ih p

theorem length_lineage_le (F : Forest) (t : Nat) : (F.lineage t).length ≤ F.size :=
  length_lineageFuel_le F F.size t

/-- more fuel than the node id does not change the lineage -/
theorem lineageFuel_stable {F : Forest} (hF : ForestWF F) {n m t : Nat} (ht : t < n) (hnm : n ≤ m) :
    F.lineageFuel n t = F.lineageFuel m t := by
  induction n generalizing m t with
  | zero => omega
  | succ n ih =>
    obtain ⟨m, rfl⟩ : ∃ m', m = m' + 1 := ⟨m - 1, by omega⟩
    unfold Forest.lineageFuel
    cases hp : F.parentOf t with
    | none => rfl
    | some p =>
      have := (hF t p hp).1
      simp only
      rw [ih (m := m) (t := p) (by omega) (by omega)]

/-- `ancestors(incself=True)` of a node is the node followed by the ancestors of its parent -/
theorem lineage_unfold {F : Forest} (hF : ForestWF F) (hpos : 0 < F.size) (t : Nat) :
    F.lineage t = t :: (match F.parentOf t with | some p => F.lineage p | none => []) := by
  unfold Forest.lineage
  obtain ⟨k, hk⟩ : ∃ k, F.size = k + 1 := ⟨F.size - 1, by omega⟩
  rw [hk]
  conv => lhs; unfold Forest.lineageFuel
  cases hp : F.parentOf t with
  | none => rfl
  | some p =>
    have := hF t p hp
    simp only
    rw [lineageFuel_stable hF (n := k) (t := p) (by omega) (Nat.le_succ k)]

/-- the nodes still to be visited when the walk `hi = hi.parent` stands at `hi` -/
def Forest.chain (F : Forest) : Option Nat → List Nat
  | none => []
  | some t => F.lineage t

theorem chain_some {F : Forest} (hF : ForestWF F) (hpos : 0 < F.size) (t : Nat) :
    F.chain (some t) = t :: F.chain (F.parentOf t) := by
  show F.lineage t = _
  rw [lineage_unfold hF hpos]
  cases F.parentOf t <;> rfl

theorem length_chain_le (F : Forest) (h : Option Nat) : (F.chain h).length ≤ F.size := by
  cases h with
  | none => exact Nat.zero_le _
  | some t => exact length_lineage_le F t

/-! ### lists -/

theorem filter_dropWhile_not {α : Type} (p : α → Bool) (xs : List α) :
    (xs.dropWhile (fun a => !p a)).filter p = xs.filter p := by
  induction xs with
  | nil => rfl
  | cons x xs ih =>
    rw [List.dropWhile_cons]
    cases hx : p x
    · simp only [Bool.not_false, if_true, ih, List.filter_cons, hx, Bool.false_eq_true, if_false]
    · simp only [Bool.not_true, Bool.false_eq_true, if_false]

/-! ### `enumerate(zip(range(n), ds))` -/

theorem enumerateFrom_zip_range' {α : Type} (xs : List α) (k : Nat) :
    Py.enumerateFrom k ((List.range' k xs.length).zip xs)
      = ((List.range' k xs.length).zip xs).map (fun p => ((p.1 : Int), p)) := by
  induction xs generalizing k with
  | nil => rfl
  | cons x xs ih =>
    rw [List.length_cons, List.range'_succ, List.zip_cons_cons, List.map_cons]
    unfold Py.enumerateFrom
    rw [ih (k + 1)]

theorem zip_range_eq (ds : List Nat) (n : Nat) (h : ds.length = n) :
    (List.range n).zip ds = (List.range n).map (fun i => (i, ds.getD i 0)) := by
  apply List.ext_getElem
  · simp [h]
  · intro i h₁ h₂
    have hi : i < ds.length := by
      rw [List.length_zip] at h₁; omega
    simp [List.getD_eq_getElem?_getD, List.getElem?_eq_getElem hi]

/-- the list the generated `find_matches` iterates over -/
theorem enumerate_zip_range (ds : List Nat) (n : Nat) (h : ds.length = n) :
    Py.enumerate ((List.range n).zip ds)
      = (List.range n).map (fun (i : Nat) => ((i : Int), (i, ds.getD i 0))) := by
  have := enumerateFrom_zip_range' ds 0
  rw [h, ← List.range_eq_range'] at this
  unfold Py.enumerate
  rw [this, zip_range_eq ds n h, List.map_map]
  rfl

/-! ### `dictAppend` against the model's `any`/`map`/`++` step -/

/-- one step of the fold of `findMatches` -/
def dictStep (acc : List (Nat × List Nat)) (ti : Nat × Nat) : List (Nat × List Nat) :=
  if acc.any (fun e => e.1 == ti.1)
  then acc.map (fun e => if e.1 == ti.1 then (e.1, e.2 ++ [ti.2]) else e)
  else acc ++ [(ti.1, [ti.2])]

theorem mem_keys_dictAppend {ν : Type} (acc : List (Nat × List ν)) (k : Nat) (v : ν) (x : Nat)
    (hx : x ∈ (Py.dictAppend acc k v).map (·.1)) : x ∈ acc.map (·.1) ∨ x = k := by
  induction acc with
  | nil => simpa [Py.dictAppend] using hx
  | cons e rest ih =>
    obtain ⟨k', vs⟩ := e
    unfold Py.dictAppend at hx
    by_cases hk : (k' == k) = true
    · simp only [hk, if_true, List.map_cons, List.mem_cons] at hx
      exact .inl (by simpa using hx)
    · simp only [hk, if_false, List.map_cons, List.mem_cons, Bool.false_eq_true] at hx
      rcases hx with hx | hx
      · exact .inl (by simp [hx])
      · rcases ih hx with h | h
        · exact .inl (by simp [h])
        · exact .inr h

theorem nodup_keys_dictAppend {ν : Type} (acc : List (Nat × List ν)) (k : Nat) (v : ν)
    (hnd : (acc.map (·.1)).Nodup) : ((Py.dictAppend acc k v).map (·.1)).Nodup := by
  induction acc with
  | nil => simp [Py.dictAppend]
  | cons e rest ih =>
    obtain ⟨k', vs⟩ := e
    rw [List.map_cons, List.nodup_cons] at hnd
    unfold Py.dictAppend
    by_cases hk : (k' == k) = true
    · simp only [hk, if_true, List.map_cons, List.nodup_cons]
      exact hnd
    · simp only [hk, if_false, List.map_cons, List.nodup_cons, Bool.false_eq_true]
      refine ⟨fun hmem => ?_, ih hnd.2⟩
      rcases mem_keys_dictAppend rest k v k' hmem with h | h
      · exact hnd.1 h
      · exact hk (by simp [h])

/-- while the keys are distinct, the model's step is `d.setdefault(k, []).append(v)` -/
theorem fmStep_eq_dictAppend (acc : List (Nat × List Nat)) (k i : Nat)
    (hnd : (acc.map (·.1)).Nodup) : dictStep acc (k, i) = Py.dictAppend acc k i := by
  unfold dictStep
  induction acc with
  | nil => rfl
  | cons e rest ih =>
    obtain ⟨k', vs⟩ := e
    rw [List.map_cons, List.nodup_cons] at hnd
    unfold Py.dictAppend
    by_cases hk : (k' == k) = true
    · have hkk : k' = k := by simpa using hk
      have hrest : rest.map (fun e => if (e.1 == k) = true then (e.1, e.2 ++ [i]) else e) = rest := by
        have : ∀ e ∈ rest, (if (e.1 == k) = true then (e.1, e.2 ++ [i]) else e) = e := by
          intro e he
          have hne : ¬ (e.1 == k) = true := by
            intro h
            have : e.1 = k := by simpa using h
            exact hnd.1 (by rw [hkk, ← this]; exact List.mem_map.2 ⟨e, he, rfl⟩)
          simp only [hne, if_false, Bool.false_eq_true]
        rw [List.map_congr_left this, List.map_id']
      simp only [List.any_cons, hk, Bool.true_or, if_true, List.map_cons, hrest]
    · have ih' := ih hnd.2
      simp only [List.any_cons, hk, Bool.false_or, List.map_cons, if_false, Bool.false_eq_true,
        List.cons_append] at ih' ⊢
      rw [← ih']
      by_cases ha : rest.any (fun e => e.1 == k) = true
      · simp only [ha, if_true]
      · simp only [ha, if_false, Bool.false_eq_true]

/-- `dictAppend` commutes with a map over the values -/
theorem dictAppend_map {ν ν' : Type} (f : ν → ν') (acc : List (Nat × List ν)) (k : Nat) (v : ν) :
    Py.dictAppend (acc.map (fun e => (e.1, e.2.map f))) k (f v)
      = (Py.dictAppend acc k v).map (fun e => (e.1, e.2.map f)) := by
  induction acc with
  | nil => rfl
  | cons e rest ih =>
    obtain ⟨k', vs⟩ := e
    rw [List.map_cons]
    unfold Py.dictAppend
    by_cases hk : (k' == k) = true
    · simp only [hk, if_true, List.map_cons, List.map_append, List.map_nil]
    · simp only [hk, if_false, List.map_cons, Bool.false_eq_true, ih]

/-- `findMatches` as a fold of `dictAppend` over the genome indices -/
theorem findMatches_eq_dictFold (F : Forest) (gtax ds : List Nat) :
    findMatches F gtax ds = (List.range gtax.length).foldl (fun acc i =>
      match matchingTaxon F (gtax.getD i 0) (ds.getD i 0) with
      | some t => Py.dictAppend acc t i
      | none => acc) [] := by
  suffices H : ∀ (l : List Nat) (acc : List (Nat × List Nat)), (acc.map (·.1)).Nodup →
      (l.filterMap (fun i =>
        (matchingTaxon F (gtax.getD i 0) (ds.getD i 0)).map (fun t => (t, i)))).foldl dictStep acc
      = l.foldl (fun acc i =>
        match matchingTaxon F (gtax.getD i 0) (ds.getD i 0) with
        | some t => Py.dictAppend acc t i
        | none => acc) acc from H _ [] List.nodup_nil
  intro l
  induction l with
  | nil => intro acc _; rfl
  | cons i l ih =>
    intro acc hnd
    rw [List.foldl_cons, List.filterMap_cons]
    cases hm : matchingTaxon F (gtax.getD i 0) (ds.getD i 0) with
    | none => exact ih acc hnd
    | some t =>
      simp only [Option.map_some, List.foldl_cons]
      rw [fmStep_eq_dictAppend acc t i hnd]
      exact ih _ (nodup_keys_dictAppend acc t i hnd)

end GambitV
