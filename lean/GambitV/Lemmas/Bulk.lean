import GambitV.Model.Bulk

/-! Helper lemmas for `Props/C05` (bulk distance functions). Core Lean only. -/
namespace GambitV

/-! ### Generic facts about folds over `List.range` -/

/-- A fold over `0..k-1` whose step `t` only rewrites cell `c + t` (by `f t`) rewrites exactly the
cells `c..c+k-1`, each once. -/
theorem foldl_range_cells {δ : Type} (step : List δ → Nat → List δ) (c : Nat) (f : Nat → δ → δ)
    (hstep : ∀ o t a, (step o t)[a]? = if a = c + t then o[a]?.map (f t) else o[a]?)
    (out : List δ) (k a : Nat) :
    ((List.range k).foldl step out)[a]? =
      if c ≤ a ∧ a < c + k then out[a]?.map (f (a - c)) else out[a]? := by
  induction k with
  | zero =>
    have : ¬ (c ≤ a ∧ a < c + 0) := by omega
    simp only [List.range_zero, List.foldl_nil, if_neg this]
  | succ k ih =>
    rw [List.range_succ, List.foldl_append, List.foldl_cons, List.foldl_nil, hstep, ih]
    by_cases h1 : a = c + k
    · subst h1
      have h2 : ¬ (c ≤ c + k ∧ c + k < c + k) := by omega
      have h3 : c ≤ c + k ∧ c + k < c + (k + 1) := by omega
      simp only [if_true, if_neg h2, if_pos h3, Nat.add_sub_cancel_left]
    · rw [if_neg h1]
      by_cases h2 : c ≤ a ∧ a < c + k
      · have h3 : c ≤ a ∧ a < c + (k + 1) := by omega
        rw [if_pos h2, if_pos h3]
      · have h3 : ¬ (c ≤ a ∧ a < c + (k + 1)) := by omega
        rw [if_neg h2, if_neg h3]

/-- Invariant rule for a fold over `0..m-1`. -/
theorem foldl_range_inv {δ : Type} (P : Nat → δ → Prop) (step : δ → Nat → δ) (init : δ) (m : Nat)
    (h0 : P 0 init) (hs : ∀ k o, k < m → P k o → P (k + 1) (step o k)) :
    P m ((List.range m).foldl step init) := by
  induction m with
  | zero => simpa using h0
  | succ m ih =>
    rw [List.range_succ, List.foldl_append, List.foldl_cons, List.foldl_nil]
    exact hs m _ (Nat.lt_succ_self m)
      (ih (fun k o hk => hs k o (Nat.lt_succ_of_lt hk)))

/-! ### `prangeRun` -/

theorem prangeRun_cons {γ : Type} (body : Nat → γ) (a : Nat) (σ : List Nat) (out : List γ) :
    prangeRun body (a :: σ) out = prangeRun body σ (out.set a (body a)) := rfl

theorem prangeRun_length {γ : Type} (body : Nat → γ) (σ : List Nat) (out : List γ) :
    (prangeRun body σ out).length = out.length := by
  induction σ generalizing out with
  | nil => rfl
  | cons a σ ih => rw [prangeRun_cons, ih, List.length_set]

/-- Cell `i` after running the iterations `σ` (any list, repeats allowed): `body i` if iteration `i`
ran (and the cell exists), the old content otherwise. -/
theorem prangeRun_getElem? {γ : Type} (body : Nat → γ) (σ : List Nat) (out : List γ) (i : Nat) :
    (prangeRun body σ out)[i]? = if i ∈ σ ∧ i < out.length then some (body i) else out[i]? := by
  induction σ generalizing out with
  | nil => simp [prangeRun]
  | cons a σ ih =>
    rw [prangeRun_cons, ih, List.length_set, List.getElem?_set]
    by_cases hlen : i < out.length
    · by_cases hmem : i ∈ σ
      · simp [hmem, hlen]
      · by_cases ha : a = i
        · subst ha; simp [hmem, hlen]
        · have : ¬ i = a := fun h => ha h.symm
          simp [hmem, ha, this]
    · have hnone : out[i]? = none := List.getElem?_eq_none (Nat.le_of_not_lt hlen)
      by_cases ha : a = i
      · subst ha; simp [hlen]
      · simp [hlen, ha]

/-! ### `matrixChunk` / `matrixModel` -/

theorem set_getElem?_self {δ : Type} (o : List δ) (i : Nat) (r : δ) (h : o[i]? = some r) :
    o.set i r = o := by
  apply List.ext_getElem?
  intro a
  rw [List.getElem?_set]
  by_cases hia : i = a
  · subst hia
    have hlt : i < o.length := by
      apply Classical.byContradiction
      intro hn
      rw [List.getElem?_eq_none (Nat.le_of_not_lt hn)] at h
      cases h
    rw [if_pos rfl, if_pos hlt, h]
  · rw [if_neg hia]

/-- What one step of the loop of `matrixChunk` does to the buffer, cell by cell. -/
theorem matrixChunk_step {α γ : Type} (queries : List α) (W : α → List γ → List γ)
    (o : List (List γ)) (t a : Nat) :
    (match queries[t]?, o[t]? with
      | some q, some row => o.set t (W q row)
      | _, _ => o)[a]? =
    if a = 0 + t then o[a]?.map (fun r => match queries[t]? with | some q => W q r | none => r)
    else o[a]? := by
  rw [Nat.zero_add]
  cases hq : queries[t]? with
  | none =>
    by_cases hat : a = t
    · subst hat; simp
    · simp [hat]
  | some q =>
    cases ho : o[t]? with
    | none =>
      by_cases hat : a = t
      · subst hat; simp [ho]
      · simp [hat]
    | some row =>
      obtain ⟨hlt, hget⟩ := List.getElem?_eq_some_iff.1 ho
      by_cases hat : a = t
      · subst hat; simp [hlt, hget]
      · have : ¬ t = a := fun h => hat h.symm
        simp [hat, this]

/-- One chunk writes the slice `a:` of every row with that query's distances. -/
theorem matrixChunk_eq_zipWith {α β γ : Type} (dist : α → β → γ) (queries : List α)
    (chunk : List β) (a : Nat) (out : List (List γ)) (hlen : out.length = queries.length) :
    matrixChunk dist queries chunk a out =
      List.zipWith (fun q row => writeSlice row a (arrayDists dist q chunk)) queries out := by
  apply List.ext_getElem?
  intro i
  unfold matrixChunk
  refine (foldl_range_cells _ 0 _ (fun o t a' =>
    matrixChunk_step queries (fun q row => writeSlice row a (arrayDists dist q chunk)) o t a')
    out queries.length i).trans ?_
  rw [List.getElem?_zipWith, Nat.sub_zero]
  by_cases hi : i < queries.length
  · have hi' : i < out.length := by omega
    have h1 : 0 ≤ i ∧ i < 0 + queries.length := by omega
    rw [if_pos h1, List.getElem?_eq_getElem hi, List.getElem?_eq_getElem hi']
    rfl
  · have h1 : ¬ (0 ≤ i ∧ i < 0 + queries.length) := by omega
    rw [if_neg h1, List.getElem?_eq_none (Nat.le_of_not_lt hi),
      List.getElem?_eq_none (by omega : out.length ≤ i)]

/-- The chunk loop acts on each row independently. -/
theorem foldl_zipWith_rows {α δ σ : Type} (queries : List α) (g : σ → α → δ → δ)
    (F : List δ → σ → List δ)
    (hF : ∀ o ab, o.length = queries.length → F o ab = List.zipWith (g ab) queries o)
    (slices : List σ) (out : List δ) (hlen : out.length = queries.length) :
    slices.foldl F out =
      List.zipWith (fun q row => slices.foldl (fun r ab => g ab q r) row) queries out := by
  induction slices generalizing out with
  | nil =>
    apply List.ext_getElem?
    intro i
    rw [List.foldl_nil, List.getElem?_zipWith]
    by_cases hi : i < out.length
    · rw [List.getElem?_eq_getElem hi, List.getElem?_eq_getElem (by omega : i < queries.length)]
      rfl
    · rw [List.getElem?_eq_none (Nat.le_of_not_lt hi),
        List.getElem?_eq_none (by omega : queries.length ≤ i)]
  | cons ab slices ih =>
    rw [List.foldl_cons, hF _ _ hlen, ih _ (by rw [List.length_zipWith]; omega)]
    apply List.ext_getElem?
    intro i
    rw [List.getElem?_zipWith, List.getElem?_zipWith, List.getElem?_zipWith]
    cases queries[i]? <;> cases out[i]? <;> rfl

/-! ### One row of `matrixModel` -/

theorem arrayDists_slc {α β γ : Type} (dist : α → β → γ) (q : α) (g : Nat → β) (idxs : List Nat)
    (a b : Nat) :
    arrayDists dist q ((slc idxs a b).map g) = slc (idxs.map (fun j => dist q (g j))) a b := by
  simp only [arrayDists, slc, List.map_take, List.map_drop, List.map_map]
  rfl

/-- Writing the whole row at once (`chunksize = None`). -/
theorem writeSlice_all {γ : Type} (row vals : List γ) (h : row.length = vals.length) :
    writeSlice row 0 (slc vals 0 vals.length) = vals := by
  simp [writeSlice, slc, h]

/-- One chunk write extends the already-correct prefix `0:start` to `0:start+c`. -/
theorem writeSlice_chunk {γ : Type} (row vals : List γ) (start c : Nat)
    (hlen : row.length = vals.length) (hstart : start < vals.length)
    (hpre : row.take start = vals.take start) :
    (writeSlice row start (slc vals start (start + c))).length = vals.length ∧
    (writeSlice row start (slc vals start (start + c))).take (start + c) = vals.take (start + c) := by
  have hslc : slc vals start (start + c) = (vals.drop start).take c := by
    simp [slc]
  rw [hslc]
  unfold writeSlice
  rw [hpre, ← List.take_add]
  constructor
  · simp only [List.length_append, List.length_take, List.length_drop]
    omega
  · by_cases hc : start + c ≤ vals.length
    · exact List.take_left' (by rw [List.length_take]; omega)
    · have h1 : vals.take (start + c) = vals := List.take_of_length_le (by omega)
      have h2 : ((vals.drop start).take c).length = vals.length - start := by
        rw [List.length_take, List.length_drop]; omega
      rw [h1, h2, List.drop_of_length_le (by omega), List.append_nil, h1]

/-- The chunk loop on one row: whatever the row held, it ends up equal to `vals`. -/
theorem rowFold_chunks {γ : Type} (vals : List γ) (c : Nat) (hc : 0 < c) (fuel start : Nat)
    (row : List γ) (hlen : row.length = vals.length) (hpre : row.take start = vals.take start)
    (hfuel : vals.length - start ≤ fuel) :
    (chunkSlicesFrom vals.length c fuel start).foldl
      (fun r (ab : Nat × Nat) => writeSlice r ab.1 (slc vals ab.1 ab.2)) row = vals := by
  induction fuel generalizing start row with
  | zero =>
    have h1 : row.take start = row := List.take_of_length_le (by omega)
    have h2 : vals.take start = vals := List.take_of_length_le (by omega)
    rw [h1, h2] at hpre
    simpa [chunkSlicesFrom] using hpre
  | succ fuel ih =>
    unfold chunkSlicesFrom
    by_cases hs : start < vals.length
    · rw [if_pos hs, List.foldl_cons]
      obtain ⟨h1, h2⟩ := writeSlice_chunk row vals start c hlen hs hpre
      exact ih (start + c) _ h1 h2 (by omega)
    · rw [if_neg hs, List.foldl_nil]
      have h1 : row.take start = row := List.take_of_length_le (by omega)
      have h2 : vals.take start = vals := List.take_of_length_le (by omega)
      rw [h1, h2] at hpre
      exact hpre

/-! ### `chunkSlices` -/

theorem chunkSlicesFrom_flatMap (n size : Nat) (hs : 0 < size) (fuel start : Nat)
    (hfuel : n - start ≤ fuel) :
    (chunkSlicesFrom n size fuel start).flatMap
      (fun ab => List.range' ab.1 (min ab.2 n - ab.1)) = List.range' start (n - start) := by
  induction fuel generalizing start with
  | zero =>
    have : n - start = 0 := by omega
    simp [chunkSlicesFrom, this]
  | succ fuel ih =>
    unfold chunkSlicesFrom
    by_cases hlt : start < n
    · rw [if_pos hlt, List.flatMap_cons, ih (start + size) (by omega)]
      have h := @List.range'_append start (min (start + size) n - start) (n - (start + size)) 1
      rw [Nat.one_mul] at h
      have e1 : start + (min (start + size) n - start) = start + size ∨
          n - (start + size) = 0 := by omega
      have e2 : min (start + size) n - start + (n - (start + size)) = n - start := by omega
      rw [e2] at h
      rw [← h]
      rcases e1 with e1 | e1
      · rw [e1]
      · rw [e1]; simp
    · rw [if_neg hlt]
      have : n - start = 0 := by omega
      simp [this]

theorem chunkSlicesFrom_shape (n size fuel start : Nat) (hdvd : size ∣ start) :
    ∀ ab ∈ chunkSlicesFrom n size fuel start, ab.1 < n ∧ ab.2 = ab.1 + size ∧ size ∣ ab.1 := by
  induction fuel generalizing start with
  | zero => intro ab h; simp [chunkSlicesFrom] at h
  | succ fuel ih =>
    intro ab h
    unfold chunkSlicesFrom at h
    by_cases hlt : start < n
    · rw [if_pos hlt, List.mem_cons] at h
      rcases h with h | h
      · subst h; exact ⟨hlt, rfl, hdvd⟩
      · exact ih (start + size) (Nat.dvd_add hdvd (Nat.dvd_refl size)) ab h
    · rw [if_neg hlt] at h; simp at h

/-! ### `pairwiseFlat` -/

/-- Row `i` of the condensed output: distances of item `i` to items `i+1..n-1`. -/
def flatRow {α γ : Type} (dist : α → α → γ) (sigs : List α) (i : Nat) : List γ :=
  match sigs[i]? with
  | some s => arrayDists dist s (sigs.drop (i + 1))
  | none => []

theorem pairwiseFlat_eq {α γ : Type} (dist : α → α → γ) (sigs : List α) :
    pairwiseFlat dist sigs = (List.range (sigs.length - 1)).flatMap (flatRow dist sigs) := rfl

theorem flatRow_length {α γ : Type} (dist : α → α → γ) (sigs : List α) (i : Nat) :
    (flatRow dist sigs i).length = sigs.length - (i + 1) := by
  unfold flatRow
  cases h : sigs[i]? with
  | none =>
    have := List.getElem?_eq_none_iff.1 h
    simp only [List.length_nil]; omega
  | some s => simp [arrayDists]

theorem flatRow_get {α γ : Type} (dist : α → α → γ) (sigs : List α) (i j : Nat) (hij : i < j)
    (hj : j < sigs.length) :
    (flatRow dist sigs i)[j - i - 1]? = some (dist (sigs[i]'(Nat.lt_trans hij hj)) sigs[j]) := by
  unfold flatRow
  rw [List.getElem?_eq_getElem (Nat.lt_trans hij hj)]
  simp only [arrayDists, List.getElem?_map, List.getElem?_drop]
  have e : i + 1 + (j - i - 1) = j := by omega
  rw [e, List.getElem?_eq_getElem hj]
  rfl

/-- Twice the number of entries before row `k`, without subtraction or division. -/
theorem flatPrefix_length2 {α γ : Type} (dist : α → α → γ) (sigs : List α) (k : Nat)
    (hk : k ≤ sigs.length) :
    2 * ((List.range k).flatMap (flatRow dist sigs)).length + k * (k + 1) = 2 * (k * sigs.length) := by
  induction k with
  | zero => simp
  | succ k ih =>
    have ih := ih (by omega)
    rw [List.range_succ, List.flatMap_append, List.length_append]
    simp only [List.flatMap_cons, List.flatMap_nil, List.append_nil, flatRow_length]
    have e1 : (k + 1) * (k + 1 + 1) = k * (k + 1) + 2 * (k + 1) := by
      rw [Nat.add_mul, Nat.mul_add k (k + 1) 1, Nat.mul_add 1 (k + 1) 1]; omega
    have e2 : (k + 1) * sigs.length = k * sigs.length + sigs.length := by
      rw [Nat.add_mul, Nat.one_mul]
    rw [e1, e2]
    omega

theorem mul_succ_even (k : Nat) : k * (k + 1) % 2 = 0 := by
  induction k with
  | zero => rfl
  | succ k ih =>
    have e : (k + 1) * (k + 1 + 1) = k * (k + 1) + 2 * (k + 1) := by
      rw [Nat.add_mul, Nat.mul_add k (k + 1) 1, Nat.mul_add 1 (k + 1) 1]; omega
    omega

/-- The offset of row `k` in the condensed output. -/
theorem flatPrefix_length {α γ : Type} (dist : α → α → γ) (sigs : List α) (k : Nat)
    (hk : k ≤ sigs.length) :
    ((List.range k).flatMap (flatRow dist sigs)).length = k * sigs.length - k * (k + 1) / 2 := by
  have h1 := flatPrefix_length2 dist sigs k hk
  have h2 := mul_succ_even k
  omega

/-- Entry `t` of row `i` sits at offset `(length of rows 0..i-1) + t` of the concatenation. -/
theorem flatMap_range_get {γ : Type} (f : Nat → List γ) (m i t : Nat) (hi : i < m)
    (ht : t < (f i).length) :
    ((List.range m).flatMap f)[((List.range i).flatMap f).length + t]? = (f i)[t]? := by
  have e : m = (i + 1) + (m - (i + 1)) := by omega
  rw [e, List.range_add, List.flatMap_append, List.range_succ, List.flatMap_append]
  simp only [List.flatMap_cons, List.flatMap_nil, List.append_nil]
  rw [List.append_assoc, List.getElem?_append_right (Nat.le_add_right _ _),
    Nat.add_sub_cancel_left, List.getElem?_append_left ht]

/-! ### `pairwiseSquare` -/

/-- Closed form of one entry of the square matrix. -/
def sqCell {α γ : Type} (dist : α → α → γ) (zero : γ) (sigs : List α) (i j : Nat) : γ :=
  if i = j then zero
  else match sigs[min i j]?, sigs[max i j]? with
    | some a, some b => dist a b
    | _, _ => zero

/-- Entry `(i, j)` of a list-of-rows matrix (`none` outside the matrix). -/
def entry {γ : Type} (m : List (List γ)) (i j : Nat) : Option γ := m[i]?.bind (·[j]?)

theorem pairwiseSquare_eq {α γ : Type} (dist : α → α → γ) (zero : γ) (sigs : List α) :
    pairwiseSquare dist zero sigs =
      (List.range sigs.length).map (fun i => (List.range sigs.length).map (sqCell dist zero sigs i)) :=
  rfl

theorem sqCell_self {α γ : Type} (dist : α → α → γ) (zero : γ) (sigs : List α) (i : Nat) :
    sqCell dist zero sigs i i = zero := by
  simp [sqCell]

theorem sqCell_symm {α γ : Type} (dist : α → α → γ) (zero : γ) (sigs : List α) (i j : Nat) :
    sqCell dist zero sigs i j = sqCell dist zero sigs j i := by
  unfold sqCell
  by_cases h : i = j
  · subst h; rfl
  · have h' : ¬ j = i := fun e => h e.symm
    rw [if_neg h, if_neg h', Nat.min_comm, Nat.max_comm]

theorem sqCell_lt {α γ : Type} (dist : α → α → γ) (zero : γ) (sigs : List α) (i j : Nat)
    (hij : i < j) (hj : j < sigs.length) :
    sqCell dist zero sigs i j = dist (sigs[i]'(Nat.lt_trans hij hj)) sigs[j] := by
  unfold sqCell
  have h1 : min i j = i := by omega
  have h2 : max i j = j := by omega
  rw [if_neg (by omega), h1, h2, List.getElem?_eq_getElem (Nat.lt_trans hij hj),
    List.getElem?_eq_getElem hj]

theorem pairwiseSquare_entry {α γ : Type} (dist : α → α → γ) (zero : γ) (sigs : List α)
    (i j : Nat) :
    entry (pairwiseSquare dist zero sigs) i j =
      if i < sigs.length ∧ j < sigs.length then some (sqCell dist zero sigs i j) else none := by
  rw [pairwiseSquare_eq]
  unfold entry
  by_cases hi : i < sigs.length
  · by_cases hj : j < sigs.length
    · simp [hi, hj]
    · simp [hi, hj]
  · simp [hi]

/-! ### `pairwiseSquareLoop` -/

/-- Copy entry `t` of `row` into column `k` of row `k + 1 + t`. -/
def colStep {γ : Type} (row : List γ) (k : Nat) (o2 : List (List γ)) (t : Nat) : List (List γ) :=
  match row[t]? with
  | some v => o2.set (k + 1 + t) ((o2.getD (k + 1 + t) []).set k v)
  | none => o2

/-- One iteration of the outer loop. -/
def sqStep {α γ : Type} (dist : α → α → γ) (sigs : List α) (o : List (List γ)) (i : Nat) :
    List (List γ) :=
  match sigs[i]? with
  | none => o
  | some s =>
    (List.range (sigs.length - i - 1)).foldl (colStep (arrayDists dist s (sigs.drop (i + 1))) i)
      (o.set i (writeSlice (o.getD i []) (i + 1) (arrayDists dist s (sigs.drop (i + 1)))))

theorem pairwiseSquareLoop_def {α γ : Type} (dist : α → α → γ) (zero : γ) (sigs : List α)
    (out : List (List γ)) :
    pairwiseSquareLoop dist zero sigs out =
      (List.range (sigs.length - 1)).foldl (sqStep dist sigs)
        ((List.range sigs.length).map (fun i => (out.getD i []).set i zero)) := rfl

theorem sqStep_of_lt {α γ : Type} (dist : α → α → γ) (sigs : List α) (o : List (List γ)) (k : Nat)
    (hk : k < sigs.length) :
    sqStep dist sigs o k =
      (List.range (sigs.length - k - 1)).foldl (colStep (flatRow dist sigs k) k)
        (o.set k (writeSlice (o.getD k []) (k + 1) (flatRow dist sigs k))) := by
  unfold sqStep flatRow
  rw [List.getElem?_eq_getElem hk]

theorem set_getElem?_of_some {δ : Type} (o : List δ) (i a : Nat) (r x : δ) (h : o[i]? = some r) :
    (o.set i x)[a]? = if i = a then some x else o[a]? := by
  obtain ⟨hlt, _⟩ := List.getElem?_eq_some_iff.1 h
  rw [List.getElem?_set, if_pos hlt]

theorem colStep_cells {γ : Type} (row : List γ) (k : Nat) (o : List (List γ)) (t a : Nat) :
    (colStep row k o t)[a]? =
      if a = k + 1 + t then
        o[a]?.map (fun r => match row[t]? with | some v => r.set k v | none => r)
      else o[a]? := by
  unfold colStep
  cases hr : row[t]? with
  | none =>
    by_cases hat : a = k + 1 + t
    · rw [if_pos hat]; cases o[a]? <;> rfl
    · rw [if_neg hat]
  | some v =>
    simp only []
    by_cases hat : a = k + 1 + t
    · subst hat
      rw [if_pos rfl, List.getD_eq_getElem?_getD]
      cases ho : o[k + 1 + t]? with
      | none =>
        have := List.getElem?_eq_none_iff.1 ho
        rw [List.getElem?_set, if_pos rfl, if_neg (by omega)]
        rfl
      | some r =>
        rw [set_getElem?_of_some _ _ _ _ _ ho, if_pos rfl]
        rfl
    · rw [if_neg hat, List.getElem?_set, if_neg (fun e => hat e.symm)]

/-- Loop invariant after `k` outer iterations: the matrix is `n × n`, the diagonal is zero, and
rows and columns `< k` hold their final values. -/
def SqInv {α γ : Type} (dist : α → α → γ) (zero : γ) (sigs : List α) (k : Nat)
    (M : List (List γ)) : Prop :=
  ∀ a, (sigs.length ≤ a → M[a]? = none) ∧
    (a < sigs.length → ∃ r, M[a]? = some r ∧ r.length = sigs.length ∧
      ∀ b, b < sigs.length → (a = b ∨ min a b < k) → r[b]? = some (sqCell dist zero sigs a b))

theorem sqInv_init {α γ : Type} (dist : α → α → γ) (zero : γ) (sigs : List α)
    (out : List (List γ)) (hlen : out.length = sigs.length)
    (hrows : ∀ row ∈ out, row.length = sigs.length) :
    SqInv dist zero sigs 0
      ((List.range sigs.length).map (fun i => (out.getD i []).set i zero)) := by
  intro a
  constructor
  · intro ha
    rw [List.getElem?_map, List.getElem?_eq_none (by rw [List.length_range]; exact ha)]
    rfl
  · intro ha
    have ha' : a < out.length := by omega
    have hr : (out.getD a []).length = sigs.length := by
      rw [List.getD_eq_getElem?_getD, List.getElem?_eq_getElem ha']
      exact hrows _ (List.getElem_mem ha')
    refine ⟨(out.getD a []).set a zero, ?_, ?_, ?_⟩
    · rw [List.getElem?_map, List.getElem?_range ha]; rfl
    · rw [List.length_set, hr]
    · intro b _ hb
      have hab : a = b := by omega
      subst hab
      rw [List.getElem?_set, if_pos rfl, if_pos (by omega), sqCell_self]

theorem writeSlice_row_length {γ : Type} (r row : List γ) (k n : Nat) (hk : k < n)
    (hr : r.length = n) (hrow : row.length = n - (k + 1)) :
    (writeSlice r (k + 1) row).length = n := by
  unfold writeSlice
  simp only [List.length_append, List.length_take, List.length_drop]
  omega

theorem writeSlice_row_left {γ : Type} (r row : List γ) (k b : Nat) (hb : b ≤ k)
    (hr : k < r.length) : (writeSlice r (k + 1) row)[b]? = r[b]? := by
  unfold writeSlice
  have h1 : b < (r.take (k + 1)).length := by rw [List.length_take]; omega
  rw [List.append_assoc, List.getElem?_append_left h1, List.getElem?_take, if_pos (by omega)]

theorem writeSlice_row_right {γ : Type} (r row : List γ) (k b : Nat) (hb : k < b)
    (hr : k < r.length) : (writeSlice r (k + 1) row)[b]? =
      if b - (k + 1) < row.length then row[b - (k + 1)]? else r[b]? := by
  unfold writeSlice
  have h1 : (r.take (k + 1)).length = k + 1 := by rw [List.length_take]; omega
  rw [List.append_assoc, List.getElem?_append_right (by omega), h1]
  by_cases h2 : b - (k + 1) < row.length
  · rw [if_pos h2, List.getElem?_append_left h2]
  · rw [if_neg h2, List.getElem?_append_right (by omega), List.getElem?_drop]
    congr 1
    omega

theorem sqInv_step {α γ : Type} (dist : α → α → γ) (zero : γ) (sigs : List α) (k : Nat)
    (M : List (List γ)) (hk : k < sigs.length - 1) (hM : SqInv dist zero sigs k M) :
    SqInv dist zero sigs (k + 1) (sqStep dist sigs M k) := by
  have hkn : k < sigs.length := by omega
  rw [sqStep_of_lt dist sigs M k hkn]
  obtain ⟨rk, hMk, hrklen, hrk⟩ := (hM k).2 hkn
  have hgetD : M.getD k [] = rk := by rw [List.getD_eq_getElem?_getD, hMk]; rfl
  rw [hgetD]
  have hrowlen : (flatRow dist sigs k).length = sigs.length - (k + 1) := flatRow_length dist sigs k
  intro a
  rw [foldl_range_cells _ (k + 1) _ (colStep_cells (flatRow dist sigs k) k),
    set_getElem?_of_some M k a rk _ hMk]
  constructor
  · intro ha
    rw [if_neg (by omega), if_neg (by omega)]
    exact (hM a).1 ha
  · intro ha
    obtain ⟨ra, hMa, hralen, hra⟩ := (hM a).2 ha
    by_cases hak : a ≤ k
    · rw [if_neg (by omega)]
      by_cases hak' : k = a
      · -- the row written in this iteration
        subst hak'
        rw [if_pos rfl]
        refine ⟨_, rfl, writeSlice_row_length rk _ k _ hkn hrklen hrowlen, ?_⟩
        intro b hb _
        by_cases hbk : b ≤ k
        · rw [writeSlice_row_left rk _ k b hbk (by omega)]
          exact hrk b hb (by omega)
        · have hkb : k < b := by omega
          rw [writeSlice_row_right rk _ k b hkb (by omega), if_pos (by omega),
            sqCell_lt dist zero sigs k b hkb hb, ← flatRow_get dist sigs k b hkb hb]
          congr 1
      · -- an earlier row: already final
        rw [if_neg hak']
        refine ⟨ra, hMa, hralen, ?_⟩
        intro b hb _
        exact hra b hb (by omega)
    · -- a later row: gets its column-`k` entry
      have hka : k < a := by omega
      rw [if_pos (by omega), if_neg (by omega), hMa]
      have hcell : (flatRow dist sigs k)[a - (k + 1)]? = some (sqCell dist zero sigs a k) := by
        rw [sqCell_symm, sqCell_lt dist zero sigs k a hka ha, ← flatRow_get dist sigs k a hka ha]
        congr 1
      simp only [Option.map_some, hcell]
      refine ⟨_, rfl, by rw [List.length_set]; exact hralen, ?_⟩
      intro b hb hab
      rw [List.getElem?_set]
      by_cases hkb : k = b
      · subst hkb
        rw [if_pos rfl, if_pos (by omega)]
      · rw [if_neg hkb]
        exact hra b hb (by omega)

theorem sqInv_final {α γ : Type} (dist : α → α → γ) (zero : γ) (sigs : List α)
    (M : List (List γ)) (hM : SqInv dist zero sigs (sigs.length - 1) M) :
    M = pairwiseSquare dist zero sigs := by
  rw [pairwiseSquare_eq]
  apply List.ext_getElem?
  intro a
  rw [List.getElem?_map]
  by_cases ha : a < sigs.length
  · obtain ⟨r, hMa, hrlen, hr⟩ := (hM a).2 ha
    rw [hMa, List.getElem?_range ha]
    simp only [Option.map_some]
    congr 1
    apply List.ext_getElem?
    intro b
    rw [List.getElem?_map]
    by_cases hb : b < sigs.length
    · rw [hr b hb (by omega), List.getElem?_range hb]; rfl
    · rw [List.getElem?_eq_none (by omega),
        List.getElem?_eq_none (by rw [List.length_range]; omega)]
      rfl
  · rw [(hM a).1 (by omega), List.getElem?_eq_none (by rw [List.length_range]; omega)]
    rfl

theorem pairwiseSquareLoop_eq' {α γ : Type} (dist : α → α → γ) (zero : γ) (sigs : List α)
    (out : List (List γ)) (hlen : out.length = sigs.length)
    (hrows : ∀ row ∈ out, row.length = sigs.length) :
    pairwiseSquareLoop dist zero sigs out = pairwiseSquare dist zero sigs := by
  rw [pairwiseSquareLoop_def]
  apply sqInv_final
  exact foldl_range_inv (SqInv dist zero sigs) (sqStep dist sigs) _ (sigs.length - 1)
    (sqInv_init dist zero sigs out hlen hrows)
    (fun k o hk ho => sqInv_step dist zero sigs k o hk ho)

end GambitV
