import GambitV.Spec.Signature
import GambitV.Props.C07

/-! Helper lemmas for `Props/C01` (search loop, haystack, reverse-complement windows, accumulators).
Core Lean only. -/
namespace GambitV

/-! ### The find/restart loop enumerates the filtered range -/

/-- One `find?` step on a contiguous range, expressed on the filtered range. -/
theorem find?_range'_filter (p : Nat → Bool) (n start : Nat) :
    match (List.range' start n).find? p with
    | none => (List.range' start n).filter p = []
    | some loc => start ≤ loc ∧ loc < start + n ∧
        (List.range' start n).filter p = loc :: (List.range' (loc + 1) (start + n - (loc + 1))).filter p := by
  induction n generalizing start with
  | zero => simp
  | succ n ih =>
    rw [List.range'_succ]
    cases hp : p start with
    | true =>
      simp only [List.find?_cons, hp, List.filter_cons, if_true]
      refine ⟨Nat.le_refl _, by omega, ?_⟩
      have : start + (n + 1) - (start + 1) = n := by omega
      rw [this]
    | false =>
      simp only [List.find?_cons, hp, List.filter_cons]
      have := ih (start + 1)
      cases hf : (List.range' (start + 1) n).find? p with
      | none => simp only [hf] at this; simpa using this
      | some loc =>
        simp only [hf] at this
        obtain ⟨h1, h2, h3⟩ := this
        refine ⟨by omega, by omega, ?_⟩
        have e : start + (n + 1) - (loc + 1) = start + 1 + n - (loc + 1) := by omega
        simpa [e] using h3

/-- General form: enough fuel for the remaining range. -/
theorem findLoop_eq_filter' (hay pat : List UInt8) (stop fuel start : Nat)
    (hf : stop + 1 - pat.length - start ≤ fuel) :
    findLoop hay pat stop fuel start =
      (List.range' start (stop + 1 - pat.length - start)).filter (matchAt hay pat) := by
  induction fuel generalizing start with
  | zero =>
    have : stop + 1 - pat.length - start = 0 := by omega
    simp [findLoop, this]
  | succ fuel ih =>
    have key := find?_range'_filter (matchAt hay pat) (stop + 1 - pat.length - start) start
    simp only [findLoop, bytesFind]
    cases hfind : (List.range' start (stop + 1 - pat.length - start)).find? (matchAt hay pat) with
    | none => simp only [hfind] at key; simp [key]
    | some loc =>
      simp only [hfind] at key
      obtain ⟨h1, h2, h3⟩ := key
      simp only []
      rw [h3, ih (loc + 1) (by omega)]
      have : start + (stop + 1 - pat.length - start) - (loc + 1) = stop + 1 - pat.length - (loc + 1) := by
        omega
      rw [this]

/-- The form asked for: non-empty pattern and `fuel ≥ stop + 1 - start`. -/
theorem findLoop_eq_filter (hay pat : List UInt8) (stop fuel start : Nat) (_hpat : pat ≠ [])
    (hf : stop + 1 - start ≤ fuel) :
    findLoop hay pat stop fuel start =
      (List.range' start (stop + 1 - pat.length - start)).filter (matchAt hay pat) := by
  apply findLoop_eq_filter'
  omega

/-! ### Per-byte facts -/

theorem upperByte_comp (b : UInt8) : upperByte (comp b) = comp (upperByte b) := by
  revert b; apply forall_byte; decide +kernel

theorem comp_acgt (b : UInt8) : b ∈ [65, 67, 71, 84] → comp b ∈ [65, 67, 71, 84] := by
  revert b; apply forall_byte; decide +kernel

/-- For a byte that is not one of `acgt`, equality with an upper-case `ACGT` letter is not affected
by upper-casing. -/
theorem upperByte_eq_acgt (b : UInt8) :
    (b == 97 || b == 99 || b == 103 || b == 116) = false →
    ∀ p ∈ [65, 67, 71, 84], (upperByte b = p ↔ b = p) := by
  revert b; apply forall_byte; decide +kernel

/-! ### Haystack -/

theorem haystack_length (s : List UInt8) : (haystack s).length = s.length := by
  unfold haystack upper
  split <;> simp

theorem upper_length (s : List UInt8) : (upper s).length = s.length := by simp [upper]

/-- Lists without `acgt` bytes: equality with an `ACGT` pattern is not affected by upper-casing. -/
theorem map_upper_eq_iff (w pat : List UInt8)
    (hw : ∀ b ∈ w, (b == 97 || b == 99 || b == 103 || b == 116) = false)
    (hp : ∀ b ∈ pat, b ∈ [65, 67, 71, 84]) :
    w.map upperByte = pat ↔ w = pat := by
  induction w generalizing pat with
  | nil => simp
  | cons b w ih =>
    cases pat with
    | nil => simp
    | cons p pat =>
      simp only [List.map_cons, List.cons.injEq]
      rw [upperByte_eq_acgt b (hw b (by simp)) p (hp p (by simp)),
        ih pat (fun c hc => hw c (by simp [hc])) (fun c hc => hp c (by simp [hc]))]

theorem matchAt_upper (s pat : List UInt8) (i : Nat) :
    matchAt (upper s) pat i = (((s.drop i).take pat.length).map upperByte == pat) := by
  simp [matchAt, upper]

/-- Conditional upper-casing is as good as unconditional upper-casing for `ACGT` patterns. -/
theorem haystack_matchAt' (s pat : List UInt8) (i : Nat) (hpre : ∀ b ∈ pat, b ∈ [65, 67, 71, 84]) :
    matchAt (haystack s) pat i = matchAt (upper s) pat i := by
  unfold haystack
  split
  · rfl
  · rename_i hany
    rw [matchAt_upper]
    unfold matchAt
    have hw : ∀ b ∈ (s.drop i).take pat.length,
        (b == 97 || b == 99 || b == 103 || b == 116) = false := by
      intro b hb
      have hb' : b ∈ s := List.mem_of_mem_drop (List.mem_of_mem_take hb)
      cases h : (b == 97 || b == 99 || b == 103 || b == 116) with
      | false => rfl
      | true => exact absurd (List.any_eq_true.2 ⟨b, hb', h⟩) hany
    have := map_upper_eq_iff _ pat hw hpre
    rw [Bool.eq_iff_iff]
    simp only [beq_iff_eq]
    exact this.symm

/-! ### Reverse complement of windows -/

theorem revcomp_append (s t : List UInt8) : revcomp (s ++ t) = revcomp t ++ revcomp s := by
  simp [revcomp]

theorem upper_revcomp (s : List UInt8) : upper (revcomp s) = revcomp (upper s) := by
  simp only [upper, revcomp, List.map_reverse, List.map_map]
  congr 2
  funext b
  exact upperByte_comp b

theorem revcomp_acgt (pre : List UInt8) (h : ∀ b ∈ pre, b ∈ [65, 67, 71, 84]) :
    ∀ b ∈ revcomp pre, b ∈ [65, 67, 71, 84] := by
  intro b hb
  simp only [revcomp, List.mem_reverse, List.mem_map] at hb
  obtain ⟨c, hc, rfl⟩ := hb
  exact comp_acgt c (h c hc)

/-- The reverse complement of the window `[a, a+n)` of `s` is the window of `revcomp s` at the
mirrored offset. -/
theorem revcomp_window (s : List UInt8) (a n : Nat) (h : a + n ≤ s.length) :
    revcomp ((s.drop a).take n) = ((revcomp s).drop (s.length - a - n)).take n := by
  have hs : s = s.take a ++ ((s.drop a).take n ++ (s.drop a).drop n) := by
    rw [List.take_append_drop, List.take_append_drop]
  have hlen : (revcomp ((s.drop a).drop n)).length = s.length - a - n := by
    rw [C07.revcomp_length]; simp; omega
  have hlen2 : (revcomp ((s.drop a).take n)).length = n := by
    rw [C07.revcomp_length]; simp; omega
  have hr : revcomp s = revcomp ((s.drop a).drop n) ++ (revcomp ((s.drop a).take n) ++ revcomp (s.take a)) := by
    conv => lhs; rw [hs]
    rw [revcomp_append, revcomp_append, List.append_assoc]
  rw [hr, List.drop_left' hlen, List.take_left' hlen2]

theorem revcomp_eq_iff (u v : List UInt8) : revcomp u = v ↔ u = revcomp v := by
  constructor
  · intro h; rw [← h, C07.revcomp_involutive]
  · intro h; rw [h, C07.revcomp_involutive]

/-- A match of `pre` at `i` on the reverse strand is a match of `revcomp pre` at the mirrored
position on the forward strand. -/
theorem matchAt_revcomp (u pre : List UInt8) (i : Nat) (h : i + pre.length ≤ u.length) :
    matchAt (revcomp u) pre i = matchAt u (revcomp pre) (u.length - i - pre.length) := by
  unfold matchAt
  rw [C07.revcomp_length]
  have hw := revcomp_window u (u.length - i - pre.length) pre.length (by omega)
  have e : u.length - (u.length - i - pre.length) - pre.length = i := by omega
  rw [e] at hw
  rw [← hw, Bool.eq_iff_iff]
  simp only [beq_iff_eq]
  exact revcomp_eq_iff _ _

/-! ### Wrappers on short windows -/

theorem kmerToIndex_toOption (w : List UInt8) (h : w.length ≤ 32) :
    (kmerToIndex w).toOption = encode w := by
  unfold kmerToIndex
  rw [if_neg (by omega)]
  cases encode w <;> rfl

theorem kmerToIndexRc_toOption (w : List UInt8) (h : w.length ≤ 32) :
    (kmerToIndexRc w).toOption = encode (revcomp w) := by
  unfold kmerToIndexRc
  rw [if_neg (by omega), C07.encodeRc_eq]
  cases encode (revcomp w) <;> rfl

/-! ### Accumulators -/

theorem mem_insertSorted (x y : Nat) (l : List Nat) : y ∈ insertSorted x l ↔ y = x ∨ y ∈ l := by
  induction l with
  | nil => simp [insertSorted]
  | cons z l ih =>
    unfold insertSorted
    split
    · simp
    · split
      · rename_i h; subst h; simp
      · simp only [List.mem_cons, ih]
        constructor
        · rintro (h | h | h) <;> simp [h]
        · rintro (h | h | h) <;> simp [h]

theorem mem_setAccumulate (l : List Nat) (y : Nat) : y ∈ setAccumulate l ↔ y ∈ l := by
  unfold setAccumulate
  induction l with
  | nil => simp
  | cons x l ih => simp only [List.foldr_cons, mem_insertSorted, ih, List.mem_cons]

theorem insertSorted_sorted (x : Nat) (l : List Nat) (h : l.Pairwise (· < ·)) :
    (insertSorted x l).Pairwise (· < ·) := by
  induction l with
  | nil => simp [insertSorted]
  | cons z l ih =>
    rw [List.pairwise_cons] at h
    unfold insertSorted
    split
    · rename_i hxz
      rw [List.pairwise_cons]
      refine ⟨?_, List.pairwise_cons.2 h⟩
      intro a ha
      rcases List.mem_cons.1 ha with rfl | ha
      · exact hxz
      · exact Nat.lt_trans hxz (h.1 a ha)
    · split
      · exact List.pairwise_cons.2 h
      · rw [List.pairwise_cons]
        refine ⟨?_, ih h.2⟩
        intro a ha
        rcases (mem_insertSorted x a l).1 ha with rfl | ha
        · omega
        · exact h.1 a ha

theorem setAccumulate_sorted (l : List Nat) : (setAccumulate l).Pairwise (· < ·) := by
  unfold setAccumulate
  induction l with
  | nil => simp
  | cons x l ih => exact insertSorted_sorted x _ ih

/-- Two strictly increasing lists with the same members are equal. -/
theorem sorted_ext (l₁ l₂ : List Nat) (h₁ : l₁.Pairwise (· < ·)) (h₂ : l₂.Pairwise (· < ·))
    (h : ∀ x, x ∈ l₁ ↔ x ∈ l₂) : l₁ = l₂ := by
  induction l₁ generalizing l₂ with
  | nil =>
    cases l₂ with
    | nil => rfl
    | cons b l₂ => exact absurd ((h b).2 (by simp)) (by simp)
  | cons a l₁ ih =>
    cases l₂ with
    | nil => exact absurd ((h a).1 (by simp)) (by simp)
    | cons b l₂ =>
      rw [List.pairwise_cons] at h₁ h₂
      have hab : a = b := by
        have ha := (h a).1 (by simp)
        have hb := (h b).2 (by simp)
        rcases List.mem_cons.1 ha with e | ha
        · exact e
        · rcases List.mem_cons.1 hb with e | hb
          · exact e.symm
          · have := h₁.1 b hb; have := h₂.1 a ha; omega
      subst hab
      congr 1
      apply ih l₂ h₁.2 h₂.2
      intro x
      constructor
      · intro hx
        rcases List.mem_cons.1 ((h x).1 (by simp [hx])) with e | hx'
        · have := h₁.1 x hx; omega
        · exact hx'
      · intro hx
        rcases List.mem_cons.1 ((h x).2 (by simp [hx])) with e | hx'
        · have := h₂.1 x hx; omega
        · exact hx'

theorem setAccumulate_congr (l₁ l₂ : List Nat) (h : ∀ x, x ∈ l₁ ↔ x ∈ l₂) :
    setAccumulate l₁ = setAccumulate l₂ := by
  apply sorted_ext _ _ (setAccumulate_sorted _) (setAccumulate_sorted _)
  intro x
  rw [mem_setAccumulate, mem_setAccumulate, h]

theorem arrayAccumulate_eq (k : Nat) (l : List Nat) (h : ∀ x ∈ l, x < 4 ^ k) :
    arrayAccumulate k l = setAccumulate l := by
  apply sorted_ext _ _ _ (setAccumulate_sorted _)
  · intro x
    rw [mem_setAccumulate]
    unfold arrayAccumulate
    simp only [List.mem_filter, List.mem_range, List.contains_iff_mem]
    constructor
    · exact fun hx => hx.2
    · exact fun hx => ⟨h x hx, hx⟩
  · unfold arrayAccumulate
    exact List.Pairwise.filter _ List.pairwise_lt_range

/-! ### Matches of one sequence -/

theorem fwdMatches_eq (k : Nat) (pre hay : List UInt8) :
    fwdMatches k pre hay =
      (List.range (hay.length - k + 1 - pre.length)).filter (matchAt hay pre) := by
  unfold fwdMatches pyEndNeg
  rw [findLoop_eq_filter' _ _ _ _ _ (by omega), List.range_eq_range']
  rfl

theorem revMatches_eq (k : Nat) (pre hay : List UInt8) :
    revMatches k pre hay =
      (List.range' k (hay.length + 1 - pre.length - k)).filter (matchAt hay (revcomp pre)) := by
  unfold revMatches
  rw [findLoop_eq_filter' _ _ _ _ _ (by omega), C07.revcomp_length]

theorem fwdKmer_eq (k p : Nat) (s : List UInt8) (loc : Nat) :
    fwdKmer k p s loc = (s.drop (loc + p)).take k := by
  unfold fwdKmer pySlice
  rw [Nat.add_sub_cancel_left]

theorem revKmer_eq (k : Nat) (s : List UInt8) (loc : Nat) (h : k ≤ loc) :
    revKmer k s loc = (s.drop (loc - k)).take k := by
  unfold revKmer pySlice
  have : loc - (loc - k) = k := by omega
  rw [this]

/-- Forward half of `seqIndices` is the forward-strand specification. -/
theorem mem_fwd_iff (k : Nat) (pre s : List UInt8) (x : Nat) (hk : k ≤ 32) (hne : pre ≠ [])
    (hacgt : ∀ b ∈ pre, b ∈ [65, 67, 71, 84]) :
    x ∈ (fwdMatches k pre (haystack s)).filterMap
          (fun loc => (kmerToIndex (fwdKmer k pre.length s loc)).toOption) ↔
      StrandMem k pre s x := by
  have hp : 1 ≤ pre.length := by
    cases pre with
    | nil => exact absurd rfl hne
    | cons b t => simp
  have hwin : ∀ loc, (kmerToIndex (fwdKmer k pre.length s loc)).toOption =
      encode ((s.drop (loc + pre.length)).take k) := by
    intro loc
    rw [fwdKmer_eq, kmerToIndex_toOption]
    rw [List.length_take]; omega
  rw [fwdMatches_eq, haystack_length]
  simp only [List.mem_filterMap, List.mem_filter, List.mem_range, hwin,
    haystack_matchAt' s pre _ hacgt]
  unfold StrandMem
  constructor
  · rintro ⟨loc, ⟨hlt, hm⟩, hx⟩
    exact ⟨loc, hm, by omega, hx⟩
  · rintro ⟨i, hm, hb, hx⟩
    exact ⟨i, ⟨by omega, hm⟩, hx⟩

/-- Reverse half of `seqIndices` is the forward-strand specification on `revcomp s`. -/
theorem mem_rev_iff (k : Nat) (pre s : List UInt8) (x : Nat) (hk : k ≤ 32)
    (hacgt : ∀ b ∈ pre, b ∈ [65, 67, 71, 84]) :
    x ∈ (revMatches k pre (haystack s)).filterMap
          (fun loc => (kmerToIndexRc (revKmer k s loc)).toOption) ↔
      StrandMem k pre (revcomp s) x := by
  rw [revMatches_eq, haystack_length]
  simp only [List.mem_filterMap, List.mem_filter, List.mem_range'_1,
    haystack_matchAt' s _ _ (revcomp_acgt pre hacgt)]
  unfold StrandMem
  rw [C07.revcomp_length, upper_revcomp]
  constructor
  · rintro ⟨loc, ⟨⟨hkl, hlt⟩, hm⟩, hx⟩
    have hb : loc + pre.length ≤ s.length := by omega
    refine ⟨s.length - loc - pre.length, ?_, by omega, ?_⟩
    · rw [matchAt_revcomp _ _ _ (by rw [upper_length]; omega), upper_length]
      have : s.length - (s.length - loc - pre.length) - pre.length = loc := by omega
      rw [this]; exact hm
    · rw [revKmer_eq _ _ _ hkl, kmerToIndexRc_toOption _ (by rw [List.length_take]; omega),
        revcomp_window s (loc - k) k (by omega)] at hx
      have : s.length - loc - pre.length + pre.length = s.length - (loc - k) - k := by omega
      rw [this]; exact hx
  · rintro ⟨i, hm, hb, hx⟩
    refine ⟨s.length - i - pre.length, ⟨⟨by omega, by omega⟩, ?_⟩, ?_⟩
    · rw [matchAt_revcomp _ _ _ (by rw [upper_length]; omega), upper_length] at hm
      exact hm
    · rw [revKmer_eq _ _ _ (by omega), kmerToIndexRc_toOption _ (by rw [List.length_take]; omega),
        revcomp_window s _ k (by omega)]
      have : s.length - (s.length - i - pre.length - k) - k = i + pre.length := by omega
      rw [this]; exact hx

/-- The brute-force enumeration of one strand has exactly the specified members. -/
theorem mem_strandOcc (k : Nat) (pre t : List UInt8) (x : Nat) (h : 1 ≤ pre.length + k) :
    x ∈ strandOcc k pre t ↔ StrandMem k pre t x := by
  unfold strandOcc StrandMem
  simp only [List.mem_filterMap, List.mem_range]
  constructor
  · rintro ⟨i, _, hx⟩
    split at hx
    · rename_i hc
      simp only [Bool.and_eq_true, decide_eq_true_eq] at hc
      exact ⟨i, hc.1, hc.2, hx⟩
    · cases hx
  · rintro ⟨i, hm, hb, hx⟩
    refine ⟨i, by omega, ?_⟩
    rw [if_pos (by simp [hm, hb])]
    exact hx

/-- Anything in the specification is a valid index below `4^k`. -/
theorem strandMem_lt (k : Nat) (pre t : List UInt8) (x : Nat) (h : StrandMem k pre t x) :
    x < 4 ^ k := by
  obtain ⟨i, _, hb, hx⟩ := h
  have := C07.encode_lt _ _ hx
  rw [List.length_take, List.length_drop] at this
  have e : min k (t.length - (i + pre.length)) = k := by omega
  rwa [e] at this

end GambitV
