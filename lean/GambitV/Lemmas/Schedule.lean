import GambitV.Model.Schedule

/-!
Helper lemmas for C13 (`Model/Schedule.lean`): the completion loop `collect` as a fold of
`List.set`, `allSome`, and `mapM` over `Except`.  Core Lean only.
-/
namespace GambitV

/-! ### The pure part of the loop: a fold of `List.set` -/

/-- `sigs[i] = f i` for the `i` of `σ`, in that order. -/
def setFold {β : Type} (f : Nat → β) (σ : List Nat) (l0 : List β) : List β :=
  σ.foldl (fun l i => l.set i (f i)) l0

theorem setFold_nil {β : Type} (f : Nat → β) (l0 : List β) : setFold f [] l0 = l0 := rfl

theorem setFold_cons {β : Type} (f : Nat → β) (i : Nat) (σ : List Nat) (l0 : List β) :
    setFold f (i :: σ) l0 = setFold f σ (l0.set i (f i)) := rfl

theorem setFold_length {β : Type} (f : Nat → β) (σ : List Nat) (l0 : List β) :
    (setFold f σ l0).length = l0.length := by
  induction σ generalizing l0 with
  | nil => rfl
  | cons i σ ih => rw [setFold_cons, ih, List.length_set]

/-- Cell `j` after the loop: `f j` if `j` was completed (and is a valid position), else untouched. -/
theorem setFold_getElem? {β : Type} (f : Nat → β) (σ : List Nat) (l0 : List β) (j : Nat) :
    (setFold f σ l0)[j]? = if j ∈ σ ∧ j < l0.length then some (f j) else l0[j]? := by
  induction σ generalizing l0 with
  | nil => simp [setFold_nil]
  | cons i σ ih =>
    rw [setFold_cons, ih, List.length_set]
    by_cases hj : j < l0.length
    · by_cases hmem : j ∈ σ
      · simp [hmem, hj]
      · by_cases hij : i = j
        · subst hij
          simp [hmem, hj]
        · have hji : ¬ j = i := fun h => hij h.symm
          simp [hmem, hj, hji, List.getElem_set_ne hij]
    · have h1 : ¬ (j ∈ σ ∧ j < l0.length) := fun h => hj h.2
      have h2 : ¬ (j ∈ i :: σ ∧ j < l0.length) := fun h => hj h.2
      rw [if_neg h1, if_neg h2, List.getElem?_eq_none (by rw [List.length_set]; omega),
        List.getElem?_eq_none (by omega)]

/-- With a permutation schedule every cell is written, whatever the completion order. -/
theorem setFold_perm {β : Type} (f : Nat → β) (σ : List Nat) (l0 : List β)
    (hσ : σ.Perm (List.range l0.length)) :
    setFold f σ l0 = (List.range l0.length).map f := by
  apply List.ext_getElem?
  intro j
  rw [setFold_getElem?, List.getElem?_map]
  by_cases hj : j < l0.length
  · have hmem : j ∈ σ := hσ.mem_iff.2 (List.mem_range.2 hj)
    rw [if_pos ⟨hmem, hj⟩, List.getElem?_range hj]
    rfl
  · have h1 : ¬ (j ∈ σ ∧ j < l0.length) := fun h => hj h.2
    rw [if_neg h1, List.getElem?_eq_none (Nat.le_of_not_lt hj),
      List.getElem?_eq_none (by rw [List.length_range]; exact Nat.le_of_not_lt hj)]
    rfl

/-! ### `collect` -/

/-- the outcome of one task seen as an optional value -/
def okVal {ε α : Type} (result : Nat → Except ε α) (i : Nat) : Option α :=
  match result i with
  | .ok a => some a
  | .error _ => none

theorem okVal_ok {ε α : Type} {result : Nat → Except ε α} {i : Nat} {a : α}
    (h : result i = .ok a) : okVal result i = some a := by
  unfold okVal; rw [h]

theorem okVal_eq_some {ε α : Type} {result : Nat → Except ε α} {i : Nat} {a : α}
    (h : okVal result i = some a) : result i = .ok a := by
  unfold okVal at h
  split at h
  · next b hb => rw [hb]; injection h with h; rw [h]
  · cases h

theorem collectStep_error {ε α : Type} (result : Nat → Except ε α) (e : ε) (i : Nat) :
    collectStep result (.error e) i = .error e := rfl

theorem collectStep_ok_ok {ε α : Type} (result : Nat → Except ε α) (l : List (Option α)) (i : Nat)
    (a : α) (h : result i = .ok a) : collectStep result (.ok l) i = .ok (l.set i (some a)) := by
  simp only [collectStep, h]

theorem collectStep_ok_error {ε α : Type} (result : Nat → Except ε α) (l : List (Option α))
    (i : Nat) (e : ε) (h : result i = .error e) : collectStep result (.ok l) i = .error e := by
  simp only [collectStep, h]

/-- once an exception has propagated the loop is over -/
theorem foldl_collectStep_error {ε α : Type} (result : Nat → Except ε α) (e : ε) (σ : List Nat) :
    σ.foldl (collectStep result) (.error e) = .error e := by
  induction σ with
  | nil => rfl
  | cons i σ ih => rw [List.foldl_cons, collectStep_error, ih]

/-- If every completed task succeeded, the loop stores each result in its own cell. -/
theorem foldl_collectStep_ok {ε α : Type} (result : Nat → Except ε α) (σ : List Nat)
    (l0 : List (Option α)) (h : ∀ i ∈ σ, ∃ a, result i = .ok a) :
    σ.foldl (collectStep result) (.ok l0) = .ok (setFold (okVal result) σ l0) := by
  induction σ generalizing l0 with
  | nil => rfl
  | cons i σ ih =>
    obtain ⟨a, ha⟩ := h i (List.mem_cons_self ..)
    rw [List.foldl_cons, collectStep_ok_ok result l0 i a ha,
      ih _ (fun j hj => h j (List.mem_cons_of_mem _ hj)), setFold_cons, okVal_ok ha]

/-- The loop ends normally only if every completed task succeeded. -/
theorem foldl_collectStep_eq_ok {ε α : Type} (result : Nat → Except ε α) (σ : List Nat)
    (l0 l : List (Option α)) (h : σ.foldl (collectStep result) (.ok l0) = .ok l) :
    ∀ i ∈ σ, ∃ a, result i = .ok a := by
  induction σ generalizing l0 with
  | nil => intro i hi; cases hi
  | cons i σ ih =>
    rw [List.foldl_cons] at h
    cases hr : result i with
    | error e =>
      rw [collectStep_ok_error result l0 i e hr, foldl_collectStep_error] at h
      cases h
    | ok a =>
      rw [collectStep_ok_ok result l0 i a hr] at h
      intro j hj
      rcases List.mem_cons.1 hj with rfl | hj
      · exact ⟨a, hr⟩
      · exact ih _ h j hj

/-- The exception leaving the loop is the one raised by some completed task. -/
theorem foldl_collectStep_eq_error {ε α : Type} (result : Nat → Except ε α) (σ : List Nat)
    (l0 : List (Option α)) (e : ε) (h : σ.foldl (collectStep result) (.ok l0) = .error e) :
    ∃ j ∈ σ, result j = .error e := by
  induction σ generalizing l0 with
  | nil => cases h
  | cons i σ ih =>
    rw [List.foldl_cons] at h
    cases hr : result i with
    | error e' =>
      rw [collectStep_ok_error result l0 i e' hr, foldl_collectStep_error] at h
      injection h with h
      subst h
      exact ⟨i, List.mem_cons_self .., hr⟩
    | ok a =>
      rw [collectStep_ok_ok result l0 i a hr] at h
      obtain ⟨j, hj, hje⟩ := ih _ h
      exact ⟨j, List.mem_cons_of_mem _ hj, hje⟩

/-! ### `allSome` -/

theorem allSome_map_some {α : Type} (l : List α) : allSome (l.map some) = some l := by
  induction l with
  | nil => rfl
  | cons x xs ih => simp [allSome, ih]

theorem allSome_eq_some {α : Type} (l' : List (Option α)) (l : List α)
    (h : allSome l' = some l) : l' = l.map some := by
  induction l' generalizing l with
  | nil => simp [allSome] at h; subst h; rfl
  | cons x xs ih =>
    cases x with
    | none => simp [allSome] at h
    | some x =>
      simp only [allSome, Option.map_eq_some_iff] at h
      obtain ⟨t, ht, rfl⟩ := h
      rw [ih t ht]; rfl

theorem allSome_eq_none {α : Type} (l' : List (Option α)) (h : allSome l' = none) :
    none ∈ l' := by
  induction l' with
  | nil => simp [allSome] at h
  | cons x xs ih =>
    cases x with
    | none => exact List.mem_cons_self ..
    | some x =>
      simp only [allSome, Option.map_eq_none_iff] at h
      exact List.mem_cons_of_mem _ (ih h)

/-! ### `mapM` in `Except` (the sequential branch) -/

theorem mapM_except_ok {ε α : Type} (result : Nat → Except ε α) (r : Nat → α) (l : List Nat)
    (h : ∀ i ∈ l, result i = .ok (r i)) : l.mapM result = .ok (l.map r) := by
  induction l with
  | nil => rfl
  | cons i l ih =>
    rw [List.mapM_cons, h i (List.mem_cons_self ..), ih (fun j hj => h j (List.mem_cons_of_mem _ hj))]
    rfl

theorem mapM_except_ok' {ε α : Type} (result : Nat → Except ε α) (l : List Nat)
    (h : ∀ i ∈ l, ∃ a, result i = .ok a) : ∃ l', l.mapM result = .ok l' := by
  induction l with
  | nil => exact ⟨[], rfl⟩
  | cons i l ih =>
    obtain ⟨a, ha⟩ := h i (List.mem_cons_self ..)
    obtain ⟨l', hl'⟩ := ih (fun j hj => h j (List.mem_cons_of_mem _ hj))
    refine ⟨a :: l', ?_⟩
    rw [List.mapM_cons, ha, hl']
    rfl

theorem mapM_except_error {ε α : Type} (result : Nat → Except ε α) (l : List Nat)
    (h : ∃ i ∈ l, ∃ e, result i = .error e) :
    ∃ e', l.mapM result = .error e' ∧ ∃ j ∈ l, result j = .error e' := by
  induction l with
  | nil => obtain ⟨i, hi, _⟩ := h; cases hi
  | cons i l ih =>
    rw [List.mapM_cons]
    cases hr : result i with
    | error e => exact ⟨e, rfl, i, List.mem_cons_self .., hr⟩
    | ok a =>
      obtain ⟨j, hj, e, he⟩ := h
      rcases List.mem_cons.1 hj with rfl | hj
      · rw [hr] at he; cases he
      · obtain ⟨e', h1, k, hk, hke⟩ := ih ⟨j, hj, e, he⟩
        refine ⟨e', ?_, k, List.mem_cons_of_mem _ hk, hke⟩
        rw [h1]; rfl

end GambitV
