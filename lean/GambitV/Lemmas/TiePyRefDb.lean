import GambitV.Lemmas.PyRt
import GambitV.Model.RefDb

/-!
Helper lemmas for the tie of the translated `gambit/db/refdb.py` functions (`GambitV.Tie.PyRefDb`).  Nothing here
mentions the generated term: the list of `(genome, ID)` pairs when every genome has an ID, the dictionary built from
the swapped pairs (`dictFromPairs`, the last pair with a given key wins; with unique IDs a lookup is `idxOf?`), and the
entries of `Py.enumerate` that hold a genome against the model's `matchIds`.  Core Lean only.
-/
namespace GambitV.TieRefDb
open GambitV GambitV.Py

/-- A `for` loop whose body always falls through is a left fold; the loop is passed as an equation so that the body is found
by unification, whatever shape it has. -/
theorem forEach_ok_of {α σ ρ : Type} {xs : List α} {body : α → σ → M σ ρ σ} {s : σ} {w : M σ ρ (σ × Bool)}
    (hw : forEach xs body s = w) (step : σ → α → σ) (hb : ∀ x s, body x s = .ok (step s x)) :
    w = .ok (xs.foldl step s, true) :=
  hw ▸ forEach_ok xs body step hb s

/-! ### the `(genome, ID)` pairs -/

/-- with every ID present, the pairs `[(g, g.id) for g in genomes]` (genome indices shifted by `k`), swapped, are `zipIdx` -/
theorem pairs_off (ids : List Nat) (k : Nat) :
    (List.range (ids.map some).length).filterMap (fun g => ((ids.map some).getD g none).map (fun i => (g + k, i)))
      = (ids.zipIdx k).map (fun x => (x.2, x.1)) := by
  induction ids generalizing k with
  | nil => rfl
  | cons a ids ih =>
    rw [List.map_cons, List.length_cons, List.range_succ_eq_map, List.filterMap_cons, List.filterMap_map]
    simp only [List.getD_cons_zero, Option.map_some, Nat.zero_add, List.zipIdx_cons, List.map_cons]
    congr 1
    rw [← ih (k + 1)]
    congr 1
    funext g
    simp only [Function.comp, Nat.succ_eq_add_one, List.getD_cons_succ, Nat.add_right_comm g 1 k, Nat.add_assoc]

/-- the argument of `dictFromPairs` in `_map_ids_to_genomes` when every genome has an ID -/
theorem swapped_pairs (ids : List Nat) :
    ((List.range (ids.map some).length).filterMap (fun g => ((ids.map some).getD g none).map (fun i => (g, i)))).map
        (fun p => (p.2, p.1)) = ids.zipIdx := by
  have h := pairs_off ids 0
  simp only [Nat.add_zero] at h
  rw [h, List.map_map]
  exact List.map_id _

/-- a list of options without `none` is the `some`-image of its values -/
theorem map_some_filterMap_id (gids : List (Option Nat)) (h : gids.any (·.isNone) = false) :
    (gids.filterMap id).map some = gids := by
  induction gids with
  | nil => rfl
  | cons a gids ih =>
    rw [List.any_cons, Bool.or_eq_false_iff] at h
    cases a with
    | none => simp at h
    | some a => simp only [List.filterMap_cons, id, List.map_cons, ih h.2]

theorem length_filterMap_id (gids : List (Option Nat)) (h : gids.any (·.isNone) = false) :
    (gids.filterMap id).length = gids.length := by
  have := congrArg List.length (map_some_filterMap_id gids h)
  simpa using this

/-- `len([g for g in genomes if g.id is None]) > 0` -/
theorem count_none_pos (gids : List (Option Nat)) :
    decide ((((gids.filter (·.isNone)).length : Nat) : Int) > 0) = gids.any (·.isNone) := by
  induction gids with
  | nil => rfl
  | cons a gids ih =>
    cases a with
    | none =>
      simp only [List.filter_cons, Option.isNone_none, if_true, List.length_cons, List.any_cons, Bool.true_or,
        decide_eq_true_eq]
      omega
    | some a => simpa only [List.filter_cons, Option.isNone_some, Bool.false_eq_true, if_false, List.any_cons, Bool.false_or] using ih

/-! ### the dictionary `{id: genome}` -/

theorem dictGet?_dictSet (d : List (Nat × Nat)) (k v x : Nat) :
    dictGet? (dictSet d k v) x = if k = x then some v else dictGet? d x := by
  induction d with
  | nil => simp [dictSet, dictGet?]
  | cons p d ih =>
    obtain ⟨k', v'⟩ := p
    by_cases h : k' = k
    · subst h
      by_cases hx : k' = x <;> simp [dictSet, dictGet?, hx]
    · by_cases hx : k' = x
      · subst hx
        have : ¬ k = k' := fun e => h e.symm
        simp [dictSet, dictGet?, h, this]
      · simp [dictSet, dictGet?, h, hx, ih]

/-- building the dictionary from `(ID, position)` pairs on top of `d0`: with unique IDs, the IDs of the list map to their
(first = only) position, the others are looked up in `d0` -/
theorem dictGet?_foldl (ids : List Nat) (hN : ids.Nodup) (k : Nat) (d0 : List (Nat × Nat)) (x : Nat) :
    dictGet? ((ids.zipIdx k).foldl (fun d p => dictSet d p.1 p.2) d0) x
      = if x ∈ ids then (ids.idxOf? x).map (· + k) else dictGet? d0 x := by
  induction ids generalizing k d0 with
  | nil => simp
  | cons a ids ih =>
    rw [List.nodup_cons] at hN
    rw [List.zipIdx_cons, List.foldl_cons, ih hN.2, List.idxOf?_cons]
    by_cases hx : x ∈ ids
    · have hax : ¬ a = x := fun e => hN.1 (e ▸ hx)
      simp only [hx, if_true, List.mem_cons, or_true, beq_iff_eq, hax, if_false, Option.map_map]
      congr 1
      funext g
      simp only [Function.comp]
      omega
    · by_cases hax : a = x
      · subst hax
        simp [hx, dictGet?_dictSet]
      · have hxa : ¬ x = a := fun e => hax e.symm
        simp [hx, dictGet?_dictSet, hax, hxa]

/-- `d[id]` / `d.get(id)` on the dictionary of `_map_ids_to_genomes`, IDs unique -/
theorem dictGet?_fromPairs (ids : List Nat) (hN : ids.Nodup) (x : Nat) :
    dictGet? (dictFromPairs ids.zipIdx) x = ids.idxOf? x := by
  unfold dictFromPairs
  rw [dictGet?_foldl ids hN 0 [] x]
  by_cases hx : x ∈ ids
  · simp [hx]
  · have : ids.idxOf? x = none := List.idxOf?_eq_none_iff.2 hx
    simp [hx, this, dictGet?]

/-! ### `enumerate(genomes)` against `matchIds` -/

/-- `matchIds` with the positions shifted by `k` -/
def matchOff (k : Nat) (G S : List Nat) : List (Nat × Nat) :=
  (List.range S.length).filterMap fun p =>
    match S[p]? with
    | some id => (G.idxOf? id).map (fun g => (g, p + k))
    | none => none

theorem matchOff_zero (G S : List Nat) : matchOff 0 G S = matchIds G S := rfl

theorem matchOff_cons (k : Nat) (G : List Nat) (a : Nat) (S : List Nat) :
    matchOff k G (a :: S) = ((G.idxOf? a).map (fun g => (g, k))).toList ++ matchOff (k + 1) G S := by
  unfold matchOff
  rw [List.length_cons, List.range_succ_eq_map, List.filterMap_cons, List.filterMap_map]
  have hf : ((fun p => match (a :: S)[p]? with
        | some id => (G.idxOf? id).map (fun g => (g, p + k))
        | none => none) ∘ Nat.succ)
      = fun p => match S[p]? with
        | some id => (G.idxOf? id).map (fun g => (g, p + (k + 1)))
        | none => none := by
    funext p
    simp only [Function.comp, Nat.succ_eq_add_one, List.getElem?_cons_succ, Nat.add_right_comm p 1 k, Nat.add_assoc]
  rw [hf]
  cases h : G.idxOf? a <;> simp [h]

/-- the genomes appended by the loop of `genomes_by_id_subset` -/
theorem enumerate_genomes (G S : List Nat) (k : Nat) :
    (enumerateFrom k (S.map (fun x => G.idxOf? x))).filterMap (fun x => x.2) = (matchOff k G S).map (·.1) := by
  induction S generalizing k with
  | nil => rfl
  | cons a S ih =>
    rw [matchOff_cons, List.map_cons, enumerateFrom, List.filterMap_cons, List.map_append, ← ih (k + 1)]
    cases G.idxOf? a <;> rfl

/-- the positions appended by the loop of `genomes_by_id_subset` -/
theorem enumerate_positions (G S : List Nat) (k : Nat) :
    (enumerateFrom k (S.map (fun x => G.idxOf? x))).filterMap (fun x => x.2.map (fun _ => x.1))
      = (matchOff k G S).map (fun p => (p.2 : Int)) := by
  induction S generalizing k with
  | nil => rfl
  | cons a S ih =>
    rw [matchOff_cons, List.map_cons, enumerateFrom, List.filterMap_cons, List.map_append, ← ih (k + 1)]
    cases G.idxOf? a <;> rfl

end GambitV.TieRefDb
