import GambitV.Lemmas.PyRt
import GambitV.Lemmas.Find

/-!
Loop rules and built-in facts shared by the `GambitV.Tie.Py*` modules that tie the Python → Lean translations
of `find_kmers` / `kmer_indices` to `Model/Find.lean`.  Core Lean only.

The loop rules take the loop as an equation `hw : Py.forEach … = w` / `hw : Py.whileLoop … = w` (obtained with
`generalize`), so the generated body is picked up by unification; what the body does is supplied as
per-iteration hypotheses in terms of the model's functions.
-/
namespace GambitV.Tie.Py
open GambitV

/-! ### `for x in xs: if p x: …; break` -/

/-- A `for` loop whose body falls through while `p x` is false and breaks at the first `x` with `p x`:
the final state satisfies `J` if some element satisfied `p` (the state of the break), and the invariant `I` otherwise. -/
theorem forEach_break_sim {α σ ρ : Type} {xs : List α} {body : α → σ → Py.M σ ρ σ} {s : σ}
    {w : Py.M σ ρ (σ × Bool)} (hw : Py.forEach xs body s = w) (p : α → Bool) (I J : σ → Prop)
    (hno : ∀ x s, I s → p x = false → ∃ s', body x s = .ok s' ∧ I s')
    (hyes : ∀ x s, I s → p x = true → ∃ s', body x s = .error (.brk s') ∧ J s')
    (hI : I s) :
    ∃ r, w = .ok r ∧ (if xs.any p then J r.1 else I r.1) := by
  subst hw
  induction xs generalizing s with
  | nil => exact ⟨(s, true), rfl, by simpa using hI⟩
  | cons x xs ih =>
    cases hp : p x with
    | false =>
      obtain ⟨s', hb, hI'⟩ := hno x s hI hp
      rw [Py.forEach_cons, hb]
      simpa only [List.any_cons, hp, Bool.false_or] using ih hI'
    | true =>
      obtain ⟨s', hb, hJ⟩ := hyes x s hI hp
      rw [Py.forEach_cons, hb]
      exact ⟨(s', false), rfl, by simpa only [List.any_cons, hp, Bool.true_or, if_true] using hJ⟩

/-! ### `bytes.find` with the two kinds of bounds `find_kmers` uses -/

/-- `hay.find(pat, start, -k)` for `start ≥ 0`, `k ≥ 1`: the end bound is `max 0 (len - k)` (`pyEndNeg`). -/
theorem bytesFind_negStop (hay pat : List UInt8) (start k : Nat) (hk : 1 ≤ k) :
    Py.bytesFind hay pat (start : Int) (some (-(k : Int))) =
      (match GambitV.bytesFind hay pat start (pyEndNeg hay.length k) with
       | some i => (i : Int)
       | none => -1) := by
  unfold Py.bytesFind pyEndNeg
  have h1 : -(k : Int) < 0 := by omega
  have h2 : ¬ ((start : Int) < 0) := by omega
  have h3 : (-(k : Int) + (hay.length : Int)).toNat = hay.length - k := by omega
  simp only [h1, h2, h3, if_true, if_false, Int.toNat_natCast]
  cases GambitV.bytesFind hay pat start (hay.length - k) <;> rfl

/-- `hay.find(pat, start)` for `start ≥ 0`. -/
theorem bytesFind_noStop (hay pat : List UInt8) (start : Nat) :
    Py.bytesFind hay pat (start : Int) none =
      (match GambitV.bytesFind hay pat start hay.length with
       | some i => (i : Int)
       | none => -1) := by
  unfold Py.bytesFind
  have h2 : ¬ ((start : Int) < 0) := by omega
  simp only [h2, if_false, Int.toNat_natCast]
  cases GambitV.bytesFind hay pat start hay.length <;> rfl

/-- a hit of `bytesFind` lies in the searched range -/
theorem bytesFind_some_bounds (hay pat : List UInt8) (start stop loc : Nat)
    (h : GambitV.bytesFind hay pat start stop = some loc) :
    start ≤ loc ∧ loc < start + (stop + 1 - pat.length - start) := by
  have key := find?_range'_filter (matchAt hay pat) (stop + 1 - pat.length - start) start
  unfold GambitV.bytesFind at h
  rw [h] at key
  exact ⟨key.1, key.2.1⟩

/-- `findLoop` does not depend on the fuel once there is enough of it. -/
theorem findLoop_fuel (hay pat : List UInt8) (stop fuel fuel' start : Nat)
    (h : stop + 1 - pat.length - start ≤ fuel) (h' : stop + 1 - pat.length - start ≤ fuel') :
    findLoop hay pat stop fuel start = findLoop hay pat stop fuel' start := by
  rw [findLoop_eq_filter' _ _ _ _ _ h, findLoop_eq_filter' _ _ _ _ _ h']

/-! ### `while True: loc = hay.find(pat, start, stop); if loc < 0: break; yield f(loc); start = loc + 1` -/

/-- The find/restart loop.  `yl` and `st` read the list of yielded values and the `start` local off the state,
`P` is the frame (what the loop leaves alone).  The body is described by what it does when the model's
`bytesFind` from the current `start` misses (`hnone`: break, nothing yielded) or hits (`hsome`: yield `f loc`,
restart at `loc + 1`).  With more fuel than the remaining range the loop ends in a `break`, having yielded
`findLoop` of the model. -/
theorem whileLoop_find_sim {σ ρ β : Type} {fuel : Nat} {cond : σ → Py.M σ ρ Bool} {body : σ → Py.M σ ρ σ}
    {s : σ} {w : Py.M σ ρ σ} (hw : Py.whileLoop fuel cond body s = w)
    (hay pat : List UInt8) (stop : Nat) (f : Nat → β) (yl : σ → List β) (st : σ → Int) (P : σ → Prop)
    (hcond : ∀ s, cond s = .ok true)
    (hnone : ∀ s (start : Nat), P s → st s = (start : Int) → GambitV.bytesFind hay pat start stop = none →
      ∃ s', body s = .error (.brk s') ∧ P s' ∧ yl s' = yl s)
    (hsome : ∀ s (start loc : Nat), P s → st s = (start : Int) →
      GambitV.bytesFind hay pat start stop = some loc →
      ∃ s', body s = .ok s' ∧ P s' ∧ yl s' = yl s ++ [f loc] ∧ st s' = ((loc + 1 : Nat) : Int))
    (start : Nat) (hP : P s) (hst : st s = (start : Int))
    (hfuel : stop + 1 - pat.length - start < fuel) :
    ∃ s', w = .ok s' ∧ P s' ∧ yl s' = yl s ++ (findLoop hay pat stop fuel start).map f := by
  subst hw
  induction fuel generalizing s start with
  | zero => omega
  | succ fuel ih =>
    rw [Py.whileLoop_succ, hcond]
    cases hfind : GambitV.bytesFind hay pat start stop with
    | none =>
      obtain ⟨s', hb, hP', hy⟩ := hnone s start hP hst hfind
      rw [hb]
      exact ⟨s', rfl, hP', by simp [findLoop, hfind, hy]⟩
    | some loc =>
      obtain ⟨s', hb, hP', hy, hst'⟩ := hsome s start loc hP hst hfind
      have hbd := bytesFind_some_bounds _ _ _ _ _ hfind
      rw [hb]
      obtain ⟨s'', h1, h2, h3⟩ := ih (s := s') (loc + 1) hP' hst' (by omega)
      exact ⟨s'', h1, h2, by simp [findLoop, hfind, h3, hy]⟩

/-! ### slices with non-negative bounds -/

/-- `s[a:b]` for `0 ≤ a`, `0 ≤ b` is the model's `pySlice` (the clamping to `len s` is absorbed by `drop`/`take`). -/
theorem slice_natCast {α : Type} (s : List α) (a b : Nat) :
    Py.slice s (some (a : Int)) (some (b : Int)) = (s.drop a).take (b - a) := by
  unfold Py.slice Py.clampBound
  have ha : ¬ ((a : Int) < 0) := by omega
  have hb : ¬ ((b : Int) < 0) := by omega
  simp only [ha, hb, if_false, Int.toNat_natCast]
  by_cases hle : a ≤ s.length
  · rw [Nat.min_eq_left hle, List.take_eq_take_iff, List.length_drop]
    omega
  · have h1 : min a s.length = s.length := by omega
    rw [h1, List.drop_length, List.drop_eq_nil_of_le (by omega)]
    simp

end GambitV.Tie.Py
