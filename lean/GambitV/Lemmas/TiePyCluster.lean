import GambitV.Lemmas.PyRt
import GambitV.Lemmas.Cluster
import GambitV.Lemmas.TiePyPairwise

/-!
Helper lemmas for the tie of the translated `linkage_to_bio_tree` (`GambitV.Tie.PyCluster`).  Nothing here mentions the generated
term: a `for x in xs` loop under an invariant indexed by the iteration number (the body's value named by an equation), `xs[i]` for a
non-negative integer index and `xs[-1]`, the height look-up of the translated loop body as `nodeHeight` of the model, the length of the
model's clade list after some rows, and the labels read back through their positions.  Core Lean only.
-/
namespace GambitV.TieClu
open GambitV GambitV.Py

/-! ### loops -/

/-- `for x in xs` whose body falls through on element number `i` from every state satisfying `P i`, establishing `P (i + 1)`.  The loop
and the body's value are passed as equations, so that the body is found by unification and the goal stays small while the facts of the
invariant are taken apart. -/
theorem forEach_inv_eq {α σ ρ : Type} {xs : List α} {body : α → σ → M σ ρ σ} {s : σ} {w : M σ ρ (σ × Bool)}
    (hw : forEach xs body s = w) (P : Nat → σ → Prop)
    (hb : ∀ i (h : i < xs.length) s, P i s → ∀ r, body xs[i] s = r → ∃ s', r = .ok s' ∧ P (i + 1) s')
    (h0 : P 0 s) : ∃ s', w = .ok (s', true) ∧ P xs.length s' := by
  subst hw
  have := TiePair.forEach_idx_inv xs body P 0 (fun i h s hp => by
    simp only [Nat.zero_add] at hp ⊢
    exact hb i h s hp _ rfl) s h0
  simpa only [Nat.zero_add] using this

/-! ### indexing -/

/-- `xs[i]` for an integer `i ≥ 0` -/
theorem getItem?_nonneg {α : Type} (xs : List α) (i : Int) (h : 0 ≤ i) : getItem? xs i = xs[i.toNat]? := by
  unfold getItem?
  have h1 : ¬ (i < 0) := by omega
  simp only [h1, if_false]

/-- `xs[i]` of a mapped list for an in-range integer `i ≥ 0` -/
theorem getItem?_map_nonneg {α β : Type} (f : α → β) (xs : List α) (d : α) (i : Int) (h : 0 ≤ i) (hlt : i.toNat < xs.length) :
    getItem? (xs.map f) i = some (f (xs.getD i.toNat d)) := by
  rw [getItem?_nonneg _ _ h, List.getElem?_map, List.getD_eq_getElem?_getD, List.getElem?_eq_getElem hlt]
  rfl

/-- `xs[-1]` -/
theorem getItem?_neg_one {α : Type} (xs : List α) : getItem? xs (-1) = xs.getLast? := by
  unfold getItem?
  rw [List.getLast?_eq_getElem?]
  cases xs with
  | nil => rfl
  | cons x xs =>
    have h1 : ((-1 : Int) < 0) := by omega
    have h2 : ¬ ((-1 : Int) + ((x :: xs).length : Int) < 0) := by
      rw [List.length_cons]; omega
    have h3 : ((-1 : Int) + ((x :: xs).length : Int)).toNat = (x :: xs).length - 1 := by
      rw [List.length_cons]; omega
    simp only [h1, if_true, h2, if_false, h3]

/-! ### heights -/

/-- the height the loop body subtracts for child `i` (`0 if i < nleaves else link[i - nleaves][2]`) is the model's `nodeHeight` -/
theorem height_lookup (n : Nat) (rows : List (Int × Int × Int × Int)) (g : Int × Int × Int × Int → LinkRow)
    (hg : ∀ x, (g x).height = x.2.2.1) (i : Int) (h : 0 ≤ i) :
    (if decide (i < (n : Int)) = true then (0 : Int) else ((getItem? rows (i - n)).getD (0, 0, 0, 0)).2.2.1)
      = nodeHeight n (rows.map g) i.toNat := by
  unfold nodeHeight
  by_cases hlt : i < (n : Int)
  · have h2 : i.toNat < n := by omega
    simp only [hlt, decide_true, if_true, h2]
  · have h2 : ¬ (i.toNat < n) := by omega
    have h3 : (0 : Int) ≤ i - n := by omega
    have h4 : (i - (n : Int)).toNat = i.toNat - n := by omega
    simp only [hlt, decide_false, Bool.false_eq_true, if_false, h2, getItem?_nonneg _ _ h3, h4,
      List.getD_eq_getElem?_getD, List.getElem?_map]
    cases rows[i.toNat - n]? with
    | none => rfl
    | some x => exact (hg x).symm

/-- the look-up of the row of child `i` does not fail when the child exists already (`i < n + r`, `r` rows processed) -/
theorem height_guard (n r : Nat) (rows : List (Int × Int × Int × Int)) (hr : r ≤ rows.length) (i : Int) (h : 0 ≤ i)
    (hlt : i.toNat < n + r) :
    ((!(decide (i < (n : Int)))) && (getItem? rows (i - n)).isNone) = false := by
  by_cases hl : i < (n : Int)
  · simp only [hl, decide_true, Bool.not_true, Bool.false_and]
  · have h3 : (0 : Int) ≤ i - n := by omega
    have h4 : (i - (n : Int)).toNat < rows.length := by omega
    rw [getItem?_nonneg _ _ h3, List.getElem?_eq_getElem h4]
    simp only [Option.isNone_some, Bool.and_false]

/-! ### the model's clade list -/

theorem buildPrefix_length (n : Nat) (link pre : List LinkRow) : (buildPrefix n link pre).length = n + pre.length := by
  have key : ∀ (init : List Clade), (pre.foldl (cladeStep n link) init).length = init.length + pre.length := by
    induction pre with
    | nil => intro init; rfl
    | cons row pre ih =>
      intro init
      rw [List.foldl_cons, ih]
      unfold cladeStep
      simp only [List.length_append, List.length_cons, List.length_nil]
      omega
  unfold buildPrefix
  rw [key, List.length_map, List.length_range]

/-- reading the labels back through their positions -/
theorem map_getD_range (l : List Nat) : (List.range l.length).map (fun i => l.getD i 0) = l := by
  apply List.ext_getElem
  · simp
  · intro i h1 h2
    simp only [List.getElem_map, List.getElem_range, List.getD_eq_getElem?_getD, List.getElem?_eq_getElem h2,
      Option.getD_some]

end GambitV.TieClu
