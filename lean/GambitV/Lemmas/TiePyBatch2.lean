import GambitV.Lemmas.PyRt

/-!
Helper lemmas for the second batch of translator ties (`Tie/PyKmerWrappers`, `Tie/PyLabels`, `Tie/PyReportable`).
Core Lean only.  Everything lives in `GambitV.TieB2` to stay clear of the other lemma files.
-/
namespace GambitV.TieB2
open GambitV GambitV.Py

/-- A `for` loop that returns `r x` at the first `x` with `p x` and otherwise falls through, for any body that
satisfies the two clean equations under an invariant `I` of the state. -/
theorem forEach_findRet {α σ ρ : Type} (I : σ → Prop) (p : α → Bool) (r : α → ρ)
    (body : α → σ → M σ ρ σ)
    (hT : ∀ x s, I s → p x = true → body x s = .error (.ret (r x)))
    (hF : ∀ x s, I s → p x = false → ∃ s', body x s = .ok s' ∧ I s')
    (xs : List α) (s : σ) (hs : I s) :
    (∃ a, xs.find? p = some a ∧ forEach xs body s = .error (.ret (r a))) ∨
    (xs.find? p = none ∧ ∃ s', forEach xs body s = .ok (s', true) ∧ I s') := by
  induction xs generalizing s with
  | nil => exact .inr ⟨rfl, s, rfl, hs⟩
  | cons x xs ih =>
    rw [forEach_cons, List.find?_cons]
    cases hp : p x with
    | true => exact .inl ⟨x, rfl, by rw [hT x s hs hp]⟩
    | false =>
      obtain ⟨s', hb, hs'⟩ := hF x s hs hp
      rw [hb]
      exact ih s' hs'

/-- `forEach_findRet` in the form used after `generalize hw : Py.forEach _ _ _ = w`. -/
theorem forEach_findRet' {α σ ρ : Type} {xs : List α} {body : α → σ → M σ ρ σ} {s : σ}
    {w : M σ ρ (σ × Bool)} (hw : forEach xs body s = w)
    (I : σ → Prop) (p : α → Bool) (r : α → ρ)
    (hT : ∀ x s, I s → p x = true → body x s = .error (.ret (r x)))
    (hF : ∀ x s, I s → p x = false → ∃ s', body x s = .ok s' ∧ I s')
    (hs : I s) :
    (∃ a, xs.find? p = some a ∧ w = .error (.ret (r a))) ∨
    (xs.find? p = none ∧ ∃ s', w = .ok (s', true) ∧ I s') :=
  hw ▸ forEach_findRet I p r body hT hF xs s hs

/-- `s[:-n]` for `1 ≤ n ≤ len(s)` drops the last `n` items (for `n = 0` Python's `s[:-0]` is `s[:0]`, empty). -/
theorem slice_dropLast {α : Type} (s : List α) (n : Nat) (h1 : 1 ≤ n) (h2 : n ≤ s.length) :
    Py.slice s none (some (-(n : Int))) = s.take (s.length - n) := by
  have hneg : (-(n : Int)) < 0 := by omega
  have hb : (-(n : Int) + (s.length : Int)).toNat = s.length - n := by omega
  simp only [Py.slice, clampBound, hneg, if_true, hb, List.drop_zero, Nat.sub_zero]

/-- `endsWith s e` gives `e.length ≤ s.length`. -/
theorem endsWith_length {s e : List Char} (h : endsWith s e = true) : e.length ≤ s.length := by
  simp only [endsWith, Bool.and_eq_true, decide_eq_true_eq] at h
  exact h.1

/-- `stripExtensions` through `find?`. -/
theorem stripExtensions_find (s : List Char) (exts : List (List Char)) :
    stripExtensions s exts =
      (match exts.find? (fun e => endsWith s e) with
       | some e => s.take (s.length - e.length)
       | none => s) := by
  induction exts with
  | nil => rfl
  | cons e rest ih =>
    rw [stripExtensions, List.find?_cons]
    cases he : endsWith s e with
    | true => simp only [if_true]
    | false => simpa only [Bool.false_eq_true, if_false] using ih

end GambitV.TieB2
