import GambitV.Model.PyRt

/-!
Generic facts about the run-time library of the Python → Lean translator (`Model/PyRt.lean`), shared by the
`GambitV.Tie.Py*` modules.  Core Lean only.
-/
namespace GambitV.Py

@[simp] theorem guard_false {σ ρ : Type} (e : Exc) : (guard false e : M σ ρ Unit) = .ok () := rfl
@[simp] theorem guard_true {σ ρ : Type} (e : Exc) : (guard true e : M σ ρ Unit) = .error (.exc e) := rfl
@[simp] theorem call_ok {σ ρ α : Type} (a : α) : (call (.ok a) : M σ ρ α) = .ok a := rfl
@[simp] theorem call_raised {σ ρ α : Type} (e : Exc) : (call (.raised e : Res α) : M σ ρ α) = .error (.exc e) := rfl
@[simp] theorem finish_ok {σ ρ : Type} (d : σ → Res ρ) (s : σ) : finish d (.ok s) = d s := rfl
@[simp] theorem finish_ret {σ ρ : Type} (d : σ → Res ρ) (r : ρ) : finish d (.error (.ret r)) = .ok r := rfl
@[simp] theorem finish_exc {σ ρ : Type} (d : σ → Res ρ) (e : Exc) : finish d (.error (.exc e)) = .raised e := rfl
@[simp] theorem finish_fuel {σ ρ : Type} (d : σ → Res ρ) : finish d (.error .fuel) = .fuelOut := rfl

@[simp] theorem forEach_nil {α σ ρ : Type} (body : α → σ → M σ ρ σ) (s : σ) :
    forEach [] body s = .ok (s, true) := rfl

theorem forEach_cons {α σ ρ : Type} (x : α) (xs : List α) (body : α → σ → M σ ρ σ) (s : σ) :
    forEach (x :: xs) body s =
      (match body x s with
       | .ok s' => forEach xs body s'
       | .error (.cont s') => forEach xs body s'
       | .error (.brk s') => .ok (s', false)
       | .error (.ret r) => .error (.ret r)
       | .error (.exc e) => .error (.exc e)
       | .error .fuel => .error .fuel) := rfl

theorem whileLoop_zero {σ ρ : Type} (cond : σ → M σ ρ Bool) (body : σ → M σ ρ σ) (s : σ) :
    whileLoop 0 cond body s = .error .fuel := rfl

theorem whileLoop_succ {σ ρ : Type} (fuel : Nat) (cond : σ → M σ ρ Bool) (body : σ → M σ ρ σ) (s : σ) :
    whileLoop (fuel + 1) cond body s =
      (match cond s with
       | .error e => .error e
       | .ok false => .ok s
       | .ok true =>
         match body s with
         | .ok s' => whileLoop fuel cond body s'
         | .error (.cont s') => whileLoop fuel cond body s'
         | .error (.brk s') => .ok s'
         | .error (.ret r) => .error (.ret r)
         | .error (.exc e) => .error (.exc e)
         | .error .fuel => .error .fuel) := rfl

/-- A `for` loop whose body always falls through (`ok`) is a left fold. -/
theorem forEach_ok {α σ ρ : Type} (xs : List α) (body : α → σ → M σ ρ σ) (f : σ → α → σ)
    (h : ∀ x s, body x s = .ok (f s x)) (s : σ) :
    forEach xs body s = .ok (xs.foldl f s, true) := by
  induction xs generalizing s with
  | nil => rfl
  | cons x xs ih => rw [forEach_cons, h]; exact ih _

end GambitV.Py

namespace GambitV

/-- parent pointers go to smaller node ids, and only nodes of the forest have parents -/
def ForestWF (F : Forest) : Prop := ∀ t p, F.parentOf t = some p → p < t ∧ t < F.size

end GambitV
