import GambitV.Lemmas.PyRt
import GambitV.Lemmas.Consensus

/-!
Helper lemmas for `GambitV.Tie.PyConsensus`: `Forest.lineage` under `ForestWF`, the run-time built-ins
used by the translated `consensus_taxon`, and the clean loop body `stepNode` (on `(trunk, split)`)
related to the model's `consensusStep` (on root-first paths).  Core Lean only.
-/
namespace GambitV.TieCons
open GambitV

/-! ### built-ins of the run-time library -/

namespace Py
open GambitV.Py

theorem getItem?_zero {α : Type} (xs : List α) : getItem? xs (0 : Int) = xs.head? := by
  cases xs <;> simp [getItem?]

theorem slice_one_none {α : Type} (xs : List α) : slice xs (some (1 : Int)) none = xs.drop 1 := by
  cases xs with
  | nil => simp [slice, clampBound]
  | cons x xs =>
    simp only [slice, clampBound, List.length_cons]
    have h1 : ¬ ((1 : Int) < 0) := by omega
    rw [if_neg h1]
    have h2 : min (1 : Int).toNat (xs.length + 1) = 1 := by
      have : (1 : Int).toNat = 1 := rfl
      rw [this]; omega
    rw [h2]
    simp

theorem slice_nat_none {α : Type} (xs : List α) (n : Nat) :
    slice xs (some (n : Int)) none = xs.drop n := by
  simp only [slice, clampBound]
  have h1 : ¬ ((n : Int) < 0) := by omega
  rw [if_neg h1, Int.toNat_natCast]
  rw [List.take_of_length_le (by simp)]
  by_cases h : n ≤ xs.length
  · rw [Nat.min_eq_left h]
  · have h' : xs.length ≤ n := by omega
    rw [Nat.min_eq_right h', List.drop_of_length_le h', List.drop_of_length_le (Nat.le_refl _)]

theorem index?_eq_none {l : List Nat} {a : Nat} (h : a ∉ l) : index? l a = none := by
  induction l with
  | nil => rfl
  | cons x l ih =>
    have hx : x ≠ a := fun e => h (e ▸ List.mem_cons_self)
    have hl : a ∉ l := fun m => h (List.mem_cons_of_mem _ m)
    simp [index?, hx, ih hl]

/-- `xs.index(a)` splits the list at the position it returns -/
theorem index?_of_mem {l : List Nat} {a : Nat} (h : a ∈ l) :
    ∃ pre rest, l = pre ++ a :: rest ∧ index? l a = some pre.length := by
  induction l with
  | nil => cases h
  | cons x l ih =>
    by_cases hx : x = a
    · subst hx
      exact ⟨[], l, rfl, by simp [index?]⟩
    · have hl : a ∈ l := by
        rcases List.mem_cons.mp h with e | m
        · exact absurd e.symm hx
        · exact m
      obtain ⟨pre, rest, e, hi⟩ := ih hl
      refine ⟨x :: pre, rest, by rw [e]; rfl, ?_⟩
      simp [index?, hx, hi]

end Py

/-! ### lists -/

theorem eraseDups_of_nodup : ∀ {l : List Nat}, l.Nodup → l.eraseDups = l
  | [], _ => by simp
  | a :: l, h => by
    rw [List.eraseDups_cons]
    have ha : a ∉ l := (List.nodup_cons.mp h).1
    have hl : l.Nodup := (List.nodup_cons.mp h).2
    have hf : l.filter (fun b => !b == a) = l := by
      apply List.filter_eq_self.mpr
      intro b hb
      have : b ≠ a := fun e => ha (e ▸ hb)
      simp [this]
    rw [hf, eraseDups_of_nodup hl]

theorem lcp_append_left (s : List Nat) : ∀ p q : List Nat, lcp (s ++ p) (s ++ q) = s ++ lcp p q := by
  induction s with
  | nil => intro p q; rfl
  | cons x s ih => intro p q; simp [lcp_cons, ih]

theorem lcp_eq_nil_of_disjoint {p q : List Nat} (h : ∀ y ∈ q, y ∉ p) : lcp p q = [] := by
  cases p with
  | nil => exact lcp_nil_left _
  | cons a p =>
    cases q with
    | nil => exact lcp_nil_right _
    | cons b q =>
      rw [lcp_cons, if_neg]
      intro e
      exact h b List.mem_cons_self (e ▸ List.mem_cons_self)

/-! ### `Forest.lineage` under `ForestWF` -/

theorem lineageFuel_stable (F : Forest) (hF : ForestWF F) :
    ∀ (f g t : Nat), t < f → t < g → F.lineageFuel f t = F.lineageFuel g t := by
  intro f
  induction f with
  | zero => intro g t h; omega
  | succ f ih =>
    intro g t hf hg
    cases g with
    | zero => omega
    | succ g =>
      simp only [Forest.lineageFuel]
      cases hp : F.parentOf t with
      | none => rfl
      | some p =>
        have := (hF t p hp).1
        simp only
        rw [ih g p (by omega) (by omega)]

/-- one unfolding of `lineage`, with the recursive call again a `lineage` -/
theorem lineage_unfold (F : Forest) (hF : ForestWF F) {t : Nat} (ht : t < F.size) :
    F.lineage t = t :: (match F.parentOf t with | some p => F.lineage p | none => []) := by
  unfold Forest.lineage
  obtain ⟨n, hs⟩ : ∃ n, F.size = n + 1 := ⟨F.size - 1, by omega⟩
  calc F.lineageFuel F.size t = F.lineageFuel (n + 1) t := by rw [hs]
    _ = t :: (match F.parentOf t with | some p => F.lineageFuel n p | none => []) := rfl
    _ = t :: (match F.parentOf t with | some p => F.lineageFuel F.size p | none => []) := by
      cases hp : F.parentOf t with
      | none => rfl
      | some p =>
        have := (hF t p hp).1
        simp only
        rw [lineageFuel_stable F hF n F.size p (by omega) (by omega)]

theorem lineage_cases (F : Forest) (hF : ForestWF F) {t : Nat} (ht : t < F.size) :
    F.lineage t = [t] ∨ ∃ p, p < t ∧ F.lineage t = t :: F.lineage p := by
  rw [lineage_unfold F hF ht]
  cases hp : F.parentOf t with
  | none => exact Or.inl rfl
  | some p => exact Or.inr ⟨p, (hF t p hp).1, rfl⟩

theorem self_mem_lineage (F : Forest) (hF : ForestWF F) {t : Nat} (ht : t < F.size) :
    t ∈ F.lineage t := by
  rw [lineage_unfold F hF ht]; exact List.mem_cons_self

theorem lineage_head? (F : Forest) (hF : ForestWF F) {t : Nat} (ht : t < F.size) :
    (F.lineage t).head? = some t := by
  rw [lineage_unfold F hF ht]; rfl

theorem mem_lineage_le (F : Forest) (hF : ForestWF F) :
    ∀ (t : Nat), t < F.size → ∀ a ∈ F.lineage t, a ≤ t := by
  intro t
  induction t using Nat.strongRecOn with
  | _ t ih =>
    intro ht a ha
    rcases lineage_cases F hF ht with e | ⟨p, hp, e⟩
    · rw [e] at ha; simp at ha; omega
    · rw [e] at ha
      rcases List.mem_cons.mp ha with e' | m
      · omega
      · have := ih p hp (by omega) a m
        omega

theorem mem_lineage_lt_size (F : Forest) (hF : ForestWF F) {t a : Nat} (ht : t < F.size)
    (ha : a ∈ F.lineage t) : a < F.size :=
  Nat.lt_of_le_of_lt (mem_lineage_le F hF t ht a ha) ht

/-- the lineage of a member of `lineage t` is the suffix of `lineage t` that starts there -/
theorem lineage_suffix (F : Forest) (hF : ForestWF F) :
    ∀ (t : Nat), t < F.size → ∀ pre a rest, F.lineage t = pre ++ a :: rest →
      F.lineage a = a :: rest := by
  intro t
  induction t using Nat.strongRecOn with
  | _ t ih =>
    intro ht pre a rest e
    cases pre with
    | nil =>
      rcases lineage_cases F hF ht with e' | ⟨p, hp, e'⟩
      · rw [e'] at e
        simp only [List.nil_append, List.cons.injEq] at e
        obtain ⟨rfl, rfl⟩ := e
        exact e'
      · rw [e'] at e
        simp only [List.nil_append, List.cons.injEq] at e
        obtain ⟨rfl, rfl⟩ := e
        exact e'
    | cons x pre =>
      rcases lineage_cases F hF ht with e' | ⟨p, hp, e'⟩
      · rw [e'] at e
        simp at e
      · rw [e'] at e
        simp only [List.cons_append, List.cons.injEq] at e
        exact ih p hp (by omega) pre a rest e.2

theorem path_ne_nil (F : Forest) (hF : ForestWF F) {t : Nat} (ht : t < F.size) : F.path t ≠ [] := by
  unfold Forest.path
  rw [lineage_unfold F hF ht]; simp

theorem mem_path (F : Forest) (t a : Nat) : a ∈ F.path t ↔ a ∈ F.lineage t := by
  unfold Forest.path; simp

/-- `taxon in trunk`, in path terms -/
theorem mem_lineage_iff_prefix (F : Forest) (hF : ForestWF F) {c x : Nat} (hc : c < F.size)
    (hx : x < F.size) : x ∈ F.lineage c ↔ F.path x <+: F.path c := by
  constructor
  · intro h
    obtain ⟨pre, rest, e⟩ := List.append_of_mem h
    have hl := lineage_suffix F hF c hc pre x rest e
    unfold Forest.path
    rw [e, hl, List.reverse_append]
    exact List.prefix_append _ _
  · intro h
    have : x ∈ F.path c := h.subset ((mem_path F x x).mpr (self_mem_lineage F hF hx))
    exact (mem_path F c x).mp this

/-! ### the loop body of `consensus_taxon` on `(trunk, split)` -/

/-- The `try … index … break` part of the inner loop, once an ancestor `a` of `taxon` lying in `trunk`
is found. -/
def meetAt (F : Forest) (ts : List Nat × Bool) (taxon a : Nat) : List Nat × Bool :=
  let i := (Py.index? ts.1 a).getD 0
  if i = 0 then (if !ts.2 then (F.lineage taxon, ts.2) else ts)
  else (ts.1.drop i, true)

/-- One iteration of the merge loop of `consensus_taxon` as the code is written: `trunk` is the list
of the consensus taxon and its ancestors (bottom to top); `none` = the `for … else` clause returns. -/
def stepNode (F : Forest) (ts : List Nat × Bool) (taxon : Nat) : Option (List Nat × Bool) :=
  if ts.1.contains taxon then some ts
  else
    match (F.properAncestors taxon).find? (fun a => ts.1.contains a) with
    | none => none
    | some a => some (meetAt F ts taxon a)

/-- `stepNode` on `(lineage c, split)` is `consensusStep` on `(path c, split)`. -/
theorem stepNode_consensusStep (F : Forest) (hF : ForestWF F) {c x : Nat} (hc : c < F.size)
    (hx : x < F.size) (sp : Bool) :
    match stepNode F (F.lineage c, sp) x with
    | some (tr', sp') => ∃ c', c' < F.size ∧ tr' = F.lineage c' ∧
        consensusStep { c := F.path c, split := sp } (F.path x) = some { c := F.path c', split := sp' }
    | none => consensusStep { c := F.path c, split := sp } (F.path x) = none := by
  unfold stepNode meetAt consensusStep
  simp only [List.contains_eq_mem]
  by_cases hmem : x ∈ F.lineage c
  · -- taxon in trunk
    have hpre := (isPrefix_iff _ _).mpr ((mem_lineage_iff_prefix F hF hc hx).mp hmem)
    simp only [hmem, decide_true, if_true, hpre]
    exact ⟨c, hc, rfl, rfl⟩
  · have hpre : isPrefix (F.path x) (F.path c) = false :=
      (isPrefix_false_iff _ _).mpr (fun h => hmem ((mem_lineage_iff_prefix F hF hc hx).mpr h))
    simp only [hmem, decide_false, hpre]
    have hlx : F.lineage x = x :: F.properAncestors x := by
      unfold Forest.properAncestors
      rw [lineage_unfold F hF hx]; rfl
    cases hfind : (F.properAncestors x).find? (fun a => decide (a ∈ F.lineage c)) with
    | none =>
      -- for/else: no ancestor of the taxon lies in the trunk
      have hnone := List.find?_eq_none.mp hfind
      have hdisj : ∀ y ∈ F.path x, y ∉ F.path c := by
        intro y hy hyc
        rw [mem_path] at hy hyc
        rw [hlx] at hy
        rcases List.mem_cons.mp hy with e | m
        · exact hmem (e ▸ hyc)
        · have := hnone y m
          simp at this
          exact this hyc
      simp [lcp_eq_nil_of_disjoint hdisj]
    | some a =>
      obtain ⟨hac, as, bs, eanc, has⟩ := List.find?_eq_some_iff_append.mp hfind
      have hac : a ∈ F.lineage c := by simpa using hac
      -- the lineage of the taxon: `x :: as` below `a`, then the lineage of `a`
      have ex : F.lineage x = (x :: as) ++ a :: bs := by rw [hlx, eanc]; rfl
      have hla := lineage_suffix F hF x hx (x :: as) a bs ex
      have ha : a < F.size := mem_lineage_lt_size F hF hc hac
      -- the trunk: `pre` below `a`, then the lineage of `a`
      obtain ⟨pre, rest, ec, hidx⟩ := Py.index?_of_mem hac
      have hla' := lineage_suffix F hF c hc pre a rest ec
      have hrest : rest = bs := by
        rw [hla] at hla'; exact (List.cons.inj hla').2.symm
      subst hrest
      have hpc : F.path c = F.path a ++ pre.reverse := by
        unfold Forest.path; rw [ec, hla, List.reverse_append]
      have hpx : F.path x = F.path a ++ (x :: as).reverse := by
        unfold Forest.path; rw [ex, hla, List.reverse_append]
      have hdisj : ∀ y ∈ (x :: as).reverse, y ∉ pre.reverse := by
        intro y hy hyp
        have hyc : y ∈ F.lineage c := by
          rw [ec]; exact List.mem_append_left _ (List.mem_reverse.mp hyp)
        rcases List.mem_cons.mp (List.mem_reverse.mp hy) with e | m
        · exact hmem (e ▸ hyc)
        · have := has y m
          simp at this
          exact this hyc
      have hlcp : lcp (F.path c) (F.path x) = F.path a := by
        rw [hpc, hpx, lcp_append_left, lcp_eq_nil_of_disjoint hdisj, List.append_nil]
      have hne : F.path a ≠ [] := path_ne_nil F hF ha
      simp only [hlcp, hne, if_false, hidx, Option.getD_some]
      by_cases hi : pre.length = 0
      · -- the trunk is met at index 0: `a = c`
        have hpre : pre = [] := List.eq_nil_of_length_eq_zero hi
        subst hpre
        have hca : c = a := by
          have h1 := lineage_head? F hF hc
          rw [ec] at h1
          simpa using h1.symm
        subst hca
        simp only [List.length_nil, if_true]
        cases sp with
        | true => exact ⟨c, hc, rfl, rfl⟩
        | false => exact ⟨x, hx, rfl, rfl⟩
      · -- the trunk is met further up
        have hne' : F.path a ≠ F.path c := by
          intro e
          have := congrArg List.length e
          rw [hpc, List.length_append, List.length_reverse] at this
          omega
        simp only [hi, hne', if_false]
        refine ⟨a, ha, ?_, rfl⟩
        rw [ec, List.drop_left, hla]

end GambitV.TieCons
