import GambitV.Lemmas.PyRt
import GambitV.Props.C05

/-!
Helper lemmas for the tie of the translated bulk distance functions of `gambit/metric.py` (`GambitV.Tie.PyBulk`).  Nothing here
mentions the generated term: the run-time library's integer-indexed list operations at natural-number arguments, a simulation
rule for `for` loops, the `enumerate` folds of the two loops, and the packed (`values` / `bounds`) form of a collection.
-/
namespace GambitV.TieBulk
open GambitV GambitV.Py

/-! ### the integer-indexed built-ins at natural-number arguments -/

theorem clampBound_nat (n d a : Nat) : clampBound n d (some (a : Int)) = min a n := by
  unfold clampBound
  have h : ¬ ((a : Int) < 0) := by omega
  simp only [if_neg h, Int.toNat_natCast]

theorem slc_clamp {α : Type} (xs : List α) (a b : Nat) :
    (xs.drop (min a xs.length)).take (min b xs.length - min a xs.length) = slc xs a b := by
  unfold slc
  by_cases ha : a < xs.length
  · rw [Nat.min_eq_left (Nat.le_of_lt ha)]
    by_cases hb : b ≤ xs.length
    · rw [Nat.min_eq_left hb]
    · rw [Nat.min_eq_right (by omega), List.take_of_length_le (by rw [List.length_drop]; omega),
        List.take_of_length_le (by rw [List.length_drop]; omega)]
  · have e1 : min a xs.length = xs.length := Nat.min_eq_right (by omega)
    rw [e1, List.drop_of_length_le (Nat.le_refl _), List.drop_of_length_le (by omega)]
    simp

theorem slice_nat {α : Type} (xs : List α) (a b : Nat) : Py.slice xs (some (a : Int)) (some (b : Int)) = slc xs a b := by
  unfold Py.slice
  simp only [clampBound_nat]
  exact slc_clamp xs a b

theorem putSlice_nat {α : Type} (xs : List α) (a : Nat) (hi : Int) (vals : List α) :
    putSlice xs (a : Int) hi vals = writeSlice xs a vals := by
  unfold putSlice writeSlice
  simp only [clampBound_nat]
  by_cases ha : a ≤ xs.length
  · rw [Nat.min_eq_left ha]
  · rw [Nat.min_eq_right (by omega), List.take_of_length_le (Nat.le_refl _), List.take_of_length_le (by omega),
      List.drop_of_length_le (by omega), List.drop_of_length_le (by omega)]

theorem getItem?_nat {α : Type} (xs : List α) (i : Nat) : getItem? xs (i : Int) = xs[i]? := by
  unfold getItem?
  have h : ¬ ((i : Int) < 0) := by omega
  simp only [if_neg h, Int.toNat_natCast]

theorem listSet_nat {α : Type} (xs : List α) (i : Nat) (v : α) : listSet xs (i : Int) v = xs.set i v := by
  unfold listSet
  have h : ¬ ((i : Int) < 0) := by omega
  simp only [if_neg h, Int.toNat_natCast]

theorem slc_length {α : Type} (xs : List α) (a b : Nat) : (slc xs a b).length = min b xs.length - a := by
  unfold slc
  rw [List.length_take, List.length_drop]
  omega

theorem slc_map {α β : Type} (f : α → β) (xs : List α) (a b : Nat) : slc (xs.map f) a b = (slc xs a b).map f := by
  simp only [slc, List.map_take, List.map_drop]

/-! ### a simulation rule for `for` loops -/

/-- A loop whose body, on the items it meets (`Q`), always falls through and keeps a relation `R` between the state and an abstract value
that it advances by `step`: the loop runs to completion and advances the abstract value by the fold. -/
theorem forEach_sim {α σ ρ β : Type} {xs : List α} {body : α → σ → M σ ρ σ} {s : σ} {w : M σ ρ (σ × Bool)}
    (hw : forEach xs body s = w) (R : σ → β → Prop) (Q : α → Prop) (step : β → α → β)
    (hb : ∀ x s b, Q x → R s b → ∃ s', body x s = .ok s' ∧ R s' (step b x))
    (hx : ∀ x ∈ xs, Q x) (b : β) (hs : R s b) : ∃ s', w = .ok (s', true) ∧ R s' (xs.foldl step b) := by
  subst hw
  induction xs generalizing s b with
  | nil => exact ⟨s, rfl, hs⟩
  | cons x xs ih =>
    obtain ⟨s', h1, h2⟩ := hb x s b (hx x (List.mem_cons_self ..)) hs
    rw [forEach_cons, h1]
    exact ih (fun y hy => hx y (List.mem_cons_of_mem _ hy)) _ h2

/-! ### `enumerate` -/

theorem mem_enumerateFrom {α : Type} (k : Nat) (xs : List α) (x : Int × α) (h : x ∈ enumerateFrom k xs) :
    ∃ i : Nat, x.1 = (i : Int) ∧ k ≤ i ∧ xs[i - k]? = some x.2 := by
  induction xs generalizing k with
  | nil => simp [enumerateFrom] at h
  | cons y ys ih =>
    rw [enumerateFrom, List.mem_cons] at h
    rcases h with rfl | h
    · exact ⟨k, rfl, Nat.le_refl _, by simp⟩
    · obtain ⟨i, h1, h2, h3⟩ := ih (k + 1) h
      refine ⟨i, h1, by omega, ?_⟩
      have e : i - k = (i - (k + 1)) + 1 := by omega
      rw [e, List.getElem?_cons_succ]
      exact h3

theorem mem_enumerate {α : Type} (xs : List α) (x : Int × α) (h : x ∈ enumerate xs) :
    ∃ i : Nat, x.1 = (i : Int) ∧ xs[i]? = some x.2 := by
  obtain ⟨i, h1, _, h3⟩ := mem_enumerateFrom 0 xs x h
  exact ⟨i, h1, by simpa using h3⟩

/-- one iteration of `for i, x in enumerate(xs): o[i] = W(x, o[i])` -/
def setAt {α δ : Type} (W : α → δ → δ) (o : List δ) (x : Int × α) : List δ :=
  match o[x.1.toNat]? with | some r => o.set x.1.toNat (W x.2 r) | none => o

theorem setAt_length {α δ : Type} (W : α → δ → δ) (o : List δ) (x : Int × α) : (setAt W o x).length = o.length := by
  unfold setAt
  cases o[x.1.toNat]? <;> simp

theorem setAt_nat {α δ : Type} (W : α → δ → δ) (o : List δ) (i : Nat) (y : α) (r : δ) (h : o[i]? = some r) :
    setAt W o ((i : Int), y) = o.set i (W y r) := by
  unfold setAt
  simp only [Int.toNat_natCast, h]

/-- the loop `for i, x in enumerate(xs): o[i] = W(x, o[i])` rewrites the cells `k … k+|xs|-1` -/
theorem foldl_enumFrom_set {α δ : Type} (W : α → δ → δ) (xs : List α) (pre rest : List δ) (hr : rest.length = xs.length) :
    (enumerateFrom pre.length xs).foldl (setAt W) (pre ++ rest) = pre ++ List.zipWith W xs rest := by
  induction xs generalizing pre rest with
  | nil => cases rest with
    | nil => rfl
    | cons _ _ => simp at hr
  | cons x xs ih =>
    cases rest with
    | nil => simp at hr
    | cons r rest =>
      have hr' : rest.length = xs.length := by simpa using hr
      have h1 : (pre ++ r :: rest)[pre.length]? = some r := by simp
      rw [enumerateFrom, List.foldl_cons, setAt_nat W _ _ _ r h1]
      have h2 : (pre ++ r :: rest).set pre.length (W x r) = (pre ++ [W x r]) ++ rest := by
        simp
      rw [h2]
      have h3 := ih (pre ++ [W x r]) rest hr'
      rw [List.length_append, List.length_singleton] at h3
      rw [h3, List.zipWith_cons_cons, List.append_assoc, List.singleton_append]

theorem foldl_enum_set {α δ : Type} (W : α → δ → δ) (xs : List α) (o : List δ) (hr : o.length = xs.length) :
    (enumerate xs).foldl (setAt W) o = List.zipWith W xs o := by
  have h := foldl_enumFrom_set W xs [] o hr
  simpa [enumerate] using h

/-! ### the packed form of a collection: `values` and `bounds` -/

theorem boundsFrom_length (acc : Int) (items : List (List Int)) : (Sigs.boundsFrom acc items).length = items.length + 1 := by
  induction items generalizing acc with
  | nil => rfl
  | cons x xs ih => rw [Sigs.boundsFrom, List.length_cons, ih, List.length_cons]

theorem boundsFrom_head (acc : Int) (items : List (List Int)) : (Sigs.boundsFrom acc items).getD 0 0 = acc := by
  cases items <;> rfl

/-- the values between two consecutive bounds are the signature: `values[bounds[i]:bounds[i+1]] = items[i]` -/
theorem slice_bounds (pre : List Int) (items : List (List Int)) (i : Nat) (hi : i < items.length) :
    Py.slice (pre ++ items.flatten) (some ((Sigs.boundsFrom (pre.length : Int) items).getD i 0))
        (some ((Sigs.boundsFrom (pre.length : Int) items).getD (i + 1) 0)) = items[i] := by
  induction items generalizing pre i with
  | nil => simp at hi
  | cons x xs ih =>
    cases i with
    | zero =>
      rw [Sigs.boundsFrom, List.getD_cons_zero, List.getD_cons_succ, boundsFrom_head]
      have e : ((pre.length : Int) + (x.length : Int)) = ((pre.length + x.length : Nat) : Int) := by omega
      rw [e, slice_nat]
      simp [slc]
    | succ i =>
      have hi' : i < xs.length := by simpa using hi
      rw [Sigs.boundsFrom, List.getD_cons_succ, List.getD_cons_succ]
      have e : ((pre.length : Int) + (x.length : Int)) = (((pre ++ x).length : Nat) : Int) := by
        rw [List.length_append]; omega
      have e2 : pre ++ (x :: xs).flatten = (pre ++ x) ++ xs.flatten := by simp
      rw [e, e2, ih (pre ++ x) i hi']
      simp

theorem slice_values_bounds (c : Sigs) (i : Nat) (hi : i < c.items.length) :
    Py.slice c.values.vals (some (c.bounds.getD i 0)) (some (c.bounds.getD (i + 1) 0)) = c.items[i] := by
  have h := slice_bounds [] c.items i hi
  simpa [Sigs.values, Sigs.bounds] using h

/-- the fused kernel on a packed collection: every cell of a buffer of the right length is overwritten with the distance to the
corresponding signature -/
theorem parallelDists_eq (q : Arr) (c : Sigs) (o : ND) (vals : List UInt32) (hr : o.rows = [vals]) (hl : vals.length = c.items.length) :
    parallelDists q c.values c.bounds o
      = { o with rows := [(c.items.map (fun it => it.map Int.toNat)).map (jaccardBits q.natVals)] } := by
  unfold parallelDists
  have hb : c.bounds.length - 1 = c.items.length := by
    unfold Sigs.bounds; rw [boundsFrom_length]; omega
  have hv : o.vals1 = vals := by unfold ND.vals1; rw [hr]; rfl
  simp only [hb, hv]
  congr 2
  have h := C05.prange_schedule_independent
    (fun i => jaccardBits q.natVals ((Py.slice c.values.vals (some (c.bounds.getD i 0)) (some (c.bounds.getD (i + 1) 0))).map Int.toNat))
    vals (List.range vals.length) (List.Perm.refl _)
  unfold prangeRun at h
  rw [hl] at h
  rw [h]
  apply List.ext_getElem?
  intro i
  simp only [List.getElem?_map]
  by_cases hi : i < c.items.length
  · rw [List.getElem?_range hi, List.getElem?_eq_getElem hi]
    simp only [Option.map_some]
    rw [slice_values_bounds c i hi]
  · rw [List.getElem?_eq_none (by simpa using hi), List.getElem?_eq_none (by simpa using hi)]
    rfl

/-! ### selections and slice writes -/

theorem mem_slc {α : Type} (xs : List α) (a b : Nat) (x : α) (h : x ∈ slc xs a b) : x ∈ xs :=
  List.mem_of_mem_drop (List.mem_of_mem_take h)

/-- `c[[i, j, …]]` with every index in range: the selected signatures -/
theorem getIdx?_nat (c : Sigs) (l : List Nat) (h : ∀ j ∈ l, j < c.items.length) :
    c.getIdx? (l.map (fun (j : Nat) => (j : Int))) = some { c with items := l.map (fun j => c.items.getD j []) } := by
  unfold Sigs.getIdx?
  have hm : (l.map (fun (j : Nat) => (j : Int))).mapM (fun i => getItem? c.items i) = some (l.map (fun j => c.items.getD j [])) := by
    induction l with
    | nil => rfl
    | cons j l ih =>
      have hj : j < c.items.length := h j (List.mem_cons_self ..)
      rw [List.map_cons, List.mapM_cons, getItem?_nat, List.getElem?_eq_getElem hj,
        ih (fun j' hj' => h j' (List.mem_cons_of_mem _ hj'))]
      simp [List.getD_eq_getElem?_getD, List.getElem?_eq_getElem hj]
  rw [hm]
  rfl

/-- a list read through its indices -/
theorem range_map_getD {α : Type} (L : List α) (d : α) : (List.range L.length).map (fun j => L.getD j d) = L := by
  apply List.ext_getElem?
  intro i
  rw [List.getElem?_map]
  by_cases hi : i < L.length
  · rw [List.getElem?_range hi, List.getElem?_eq_getElem hi]
    simp [List.getD_eq_getElem?_getD, List.getElem?_eq_getElem hi]
  · rw [List.getElem?_eq_none (by simpa using hi), List.getElem?_eq_none (by simpa using hi)]
    rfl

theorem slc_range_getD {α : Type} (L : List α) (d : α) (a b : Nat) :
    (slc (List.range L.length) a b).map (fun j => L.getD j d) = slc L a b := by
  rw [← slc_map, range_map_getD]

theorem writeSlice_length {γ : Type} (row vals : List γ) (a : Nat) (h : vals.length ≤ row.length - a) :
    (writeSlice row a vals).length = row.length := by
  unfold writeSlice
  simp only [List.length_append, List.length_take, List.length_drop]
  omega

end GambitV.TieBulk
