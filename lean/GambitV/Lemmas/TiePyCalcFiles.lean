import GambitV.Lemmas.PyRt
import GambitV.Lemmas.Schedule

/-!
Helper lemmas for the tie of the translated `calc_file_signatures` (`GambitV.Tie.PyCalcFiles`, from gambit/sigs/calc.py) to the
model `Model/Schedule.lean`.  Nothing here mentions the generated term: the dictionary `future_to_index` built over
`enumerate(range(n))`, `xs[i]` / `xs[i] = v` at a natural index, two loop rules (a loop whose body stores one task's result or
re-raises its exception is the model's `collectStep` fold / `mapM`), and `all(sig is not None …)` against `allSome`.
Core Lean only.
-/
namespace GambitV.TieCalc
open GambitV GambitV.Py

/-! ### `future_to_index` -/

theorem enumerateFrom_range' (k m : Nat) :
    enumerateFrom k (List.range' k m) = (List.range' k m).map (fun (i : Nat) => ((i : Int), i)) := by
  induction m generalizing k with
  | zero => rfl
  | succ m ih => rw [List.range'_succ, enumerateFrom, ih (k + 1), List.map_cons]

/-- `enumerate(files)` for the files `0 … n-1` -/
theorem enumerate_range (n : Nat) : enumerate (List.range n) = (List.range n).map (fun (i : Nat) => ((i : Int), i)) := by
  rw [enumerate, List.range_eq_range', enumerateFrom_range']

/-- a new key goes to the end of the dictionary -/
theorem dictSet_new {κ ν : Type} [BEq κ] [LawfulBEq κ] (d : List (κ × ν)) (k : κ) (v : ν) (h : k ∉ d.map (·.1)) :
    dictSet d k v = d ++ [(k, v)] := by
  induction d with
  | nil => rfl
  | cons p d ih =>
    obtain ⟨k', v'⟩ := p
    rw [List.map_cons, List.mem_cons, not_or] at h
    have hne : (k' == k) = false := by
      rw [beq_eq_false_iff_ne]; exact fun e => h.1 e.symm
    simp only [dictSet, hne, Bool.false_eq_true, if_false, ih h.2, List.cons_append]

/-- the dictionary after `for i, file in enumerate(files): future_to_index[future] = i` (the future of file `f` is `f`) -/
def futDict (n : Nat) : List (Nat × Int) := (List.range n).map (fun f => (f, (f : Int)))

theorem futDict_keys (n : Nat) : (futDict n).map (·.1) = List.range n := by
  unfold futDict
  rw [List.map_map]
  exact List.map_id _

theorem futDict_succ (n : Nat) : futDict (n + 1) = futDict n ++ [(n, (n : Int))] := by
  unfold futDict
  rw [List.range_succ, List.map_append, List.map_cons, List.map_nil]

/-- the submission loop as a fold builds `futDict n` -/
theorem foldl_dictSet_range (n : Nat) :
    ((List.range n).map (fun (i : Nat) => ((i : Int), i))).foldl (fun d p => dictSet d p.2 p.1) [] = futDict n := by
  induction n with
  | zero => rfl
  | succ n ih =>
    rw [List.range_succ, List.map_append, List.foldl_append, ih, List.map_cons, List.map_nil, List.foldl_cons, List.foldl_nil,
      futDict_succ]
    exact dictSet_new _ _ _ (by rw [futDict_keys]; simp)

theorem dictGet?_map_self {ν : Type} (g : Nat → ν) (l : List Nat) (x : Nat) (hx : x ∈ l) :
    dictGet? (l.map (fun f => (f, g f))) x = some (g x) := by
  induction l with
  | nil => cases hx
  | cons a l ih =>
    rw [List.map_cons]
    by_cases h : a = x
    · subst h
      simp [dictGet?]
    · have hx' : x ∈ l := by
        rcases List.mem_cons.1 hx with e | e
        · exact absurd e.symm h
        · exact e
      simp [dictGet?, h, ih hx']

/-- `future_to_index[future]` is the index of the future's file -/
theorem dictGet?_futDict (n x : Nat) (hx : x < n) : dictGet? (futDict n) x = some (x : Int) :=
  dictGet?_map_self (fun f => (f : Int)) _ x (List.mem_range.2 hx)

/-- `as_completed` yields the submitted futures: with a permutation schedule, all of `σ` -/
theorem filter_keys (n : Nat) (σ : List Nat) (hσ : σ.Perm (List.range n)) :
    σ.filter (fun f => ((futDict n).map (·.1)).contains f) = σ := by
  rw [futDict_keys, List.filter_eq_self]
  intro a ha
  rw [List.contains_iff_mem]
  exact hσ.mem_iff.1 ha

/-! ### `xs[i]`, `xs[i] = v` at a natural index -/

theorem listSet_nat {α : Type} (xs : List α) (i : Nat) (v : α) : listSet xs (i : Int) v = xs.set i v := by
  have h1 : ¬ ((i : Int) < 0) := by omega
  simp only [listSet, h1, if_false, Int.toNat_natCast]

theorem getItem?_nat {α : Type} (xs : List α) (i : Nat) : getItem? xs (i : Int) = xs[i]? := by
  have h1 : ¬ ((i : Int) < 0) := by omega
  simp only [getItem?, h1, if_false, Int.toNat_natCast]

theorem getItem?_nat_isNone {α : Type} (xs : List α) (i : Nat) (h : i < xs.length) :
    (getItem? xs (i : Int)).isNone = false := by
  rw [getItem?_nat, List.getElem?_eq_getElem h]
  rfl

/-! ### loop rules -/

/-- A loop whose body, for the item `x`, either stores the result of task `x` in cell `x` of the list `proj s` (and falls
through) or re-raises the task's exception as `e0`, is the model's fold of `collectStep`: it ends normally with the model's list,
or raises `e0` when the model's fold is an error. -/
theorem forEach_collect {σ ρ ε β : Type} (body : Nat → σ → M σ ρ σ) (proj : σ → List (Option β)) (I : σ → Prop)
    (Q : Nat → Prop) (result : Nat → Except ε β) (e0 : Exc)
    (hOk : ∀ x s v, Q x → I s → result x = .ok v → ∃ s', body x s = .ok s' ∧ I s' ∧ proj s' = (proj s).set x (some v))
    (hErr : ∀ x s e, Q x → I s → result x = .error e → body x s = .error (.exc e0))
    (xs : List Nat) (hx : ∀ x ∈ xs, Q x) (s : σ) (hs : I s) :
    match xs.foldl (collectStep result) (.ok (proj s)) with
    | .ok l => ∃ s', forEach xs body s = .ok (s', true) ∧ I s' ∧ proj s' = l
    | .error _ => forEach xs body s = .error (.exc e0) := by
  induction xs generalizing s with
  | nil => exact ⟨s, rfl, hs, rfl⟩
  | cons x xs ih =>
    have hq := hx x (List.mem_cons_self ..)
    rw [List.foldl_cons, forEach_cons]
    cases hr : result x with
    | error e =>
      rw [collectStep_ok_error result _ x e hr, foldl_collectStep_error, hErr x s e hq hs hr]
    | ok v =>
      obtain ⟨s', h1, h2, h3⟩ := hOk x s v hq hs hr
      rw [collectStep_ok_ok result _ x v hr, h1, ← h3]
      exact ih (fun y hy => hx y (List.mem_cons_of_mem _ hy)) s' h2

/-- the same, with the loop given as an equation (the body is found by unification) -/
theorem forEach_collect_of {σ ρ ε β : Type} {xs : List Nat} {body : Nat → σ → M σ ρ σ} {s : σ} {w : M σ ρ (σ × Bool)}
    (hw : forEach xs body s = w) (proj : σ → List (Option β)) (I : σ → Prop)
    (Q : Nat → Prop) (result : Nat → Except ε β) (e0 : Exc)
    (hOk : ∀ x s v, Q x → I s → result x = .ok v → ∃ s', body x s = .ok s' ∧ I s' ∧ proj s' = (proj s).set x (some v))
    (hErr : ∀ x s e, Q x → I s → result x = .error e → body x s = .error (.exc e0))
    (hx : ∀ x ∈ xs, Q x) (hs : I s) :
    match xs.foldl (collectStep result) (.ok (proj s)) with
    | .ok l => ∃ s', w = .ok (s', true) ∧ I s' ∧ proj s' = l
    | .error _ => w = .error (.exc e0) :=
  hw ▸ forEach_collect body proj I Q result e0 hOk hErr xs hx s hs

/-- A loop whose body appends the result of task `x` to the list `proj s` or re-raises the task's exception as `e0` is `mapM`. -/
theorem forEach_mapM {σ ρ ε β : Type} (body : Nat → σ → M σ ρ σ) (proj : σ → List (Option β))
    (result : Nat → Except ε β) (e0 : Exc)
    (hOk : ∀ x s v, result x = .ok v → ∃ s', body x s = .ok s' ∧ proj s' = proj s ++ [some v])
    (hErr : ∀ x s e, result x = .error e → body x s = .error (.exc e0))
    (xs : List Nat) (s : σ) :
    match xs.mapM result with
    | .ok l => ∃ s', forEach xs body s = .ok (s', true) ∧ proj s' = proj s ++ l.map some
    | .error _ => forEach xs body s = .error (.exc e0) := by
  induction xs generalizing s with
  | nil => exact ⟨s, rfl, (List.append_nil _).symm⟩
  | cons x xs ih =>
    rw [List.mapM_cons, forEach_cons]
    cases hr : result x with
    | error e =>
      rw [hErr x s e hr]
      rfl
    | ok v =>
      obtain ⟨s', h1, h2⟩ := hOk x s v hr
      have := ih s'
      rw [h1]
      cases hm : xs.mapM result with
      | error e =>
        rw [hm] at this
        simp only [bind, Except.bind]
        exact this
      | ok l =>
        rw [hm] at this
        obtain ⟨s'', h3, h4⟩ := this
        simp only [bind, Except.bind, pure, Except.pure]
        exact ⟨s'', h3, by rw [h4, h2, List.append_assoc]; rfl⟩

theorem forEach_mapM_of {σ ρ ε β : Type} {xs : List Nat} {body : Nat → σ → M σ ρ σ} {s : σ} {w : M σ ρ (σ × Bool)}
    (hw : forEach xs body s = w) (proj : σ → List (Option β)) (result : Nat → Except ε β) (e0 : Exc)
    (hOk : ∀ x s v, result x = .ok v → ∃ s', body x s = .ok s' ∧ proj s' = proj s ++ [some v])
    (hErr : ∀ x s e, result x = .error e → body x s = .error (.exc e0)) :
    match xs.mapM result with
    | .ok l => ∃ s', w = .ok (s', true) ∧ proj s' = proj s ++ l.map some
    | .error _ => w = .error (.exc e0) :=
  hw ▸ forEach_mapM body proj result e0 hOk hErr xs s

/-! ### the final `assert` -/

/-- `all(sig is not None for sig in sigs)` fails exactly when the model's `allSome` does -/
theorem all_isSome_of_allSome_none {α : Type} (l : List (Option α)) (h : allSome l = none) :
    l.all (fun x => x.isSome) = false := by
  rw [List.all_eq_false]
  exact ⟨none, allSome_eq_none l h, by simp⟩

theorem all_isSome_of_allSome_some {α : Type} (l : List (Option α)) (l' : List α) (h : allSome l = some l') :
    l.all (fun x => x.isSome) = true ∧ l = l'.map some := by
  have h1 := allSome_eq_some l l' h
  refine ⟨?_, h1⟩
  rw [h1, List.all_eq_true]
  intro x hx
  obtain ⟨a, _, rfl⟩ := List.mem_map.1 hx
  rfl

end GambitV.TieCalc
