import GambitV.Model.Cluster

/-!
Definitions and helper lemmas for `Props/C17`: well-formedness of a SciPy linkage matrix
(`ValidLinkage`), the structural correspondence between the built tree and the linkage
(`Clade.FromLink`), ultrametricity (`Clade.Ultra`), and the loop invariant of `buildClades`.
Core Lean only.
-/
namespace GambitV

/-! ### Well-formed linkage -/

/-- all cluster indices used as a child, in row order -/
def linkChildren (link : List LinkRow) : List Nat := link.flatMap (fun row => [row.left, row.right])

/-- per-row conditions; `k` = number of clusters that exist before the first row of `rows`
(`n` leaves + the rows before it): both children exist already and are distinct, the height is
non-negative and not below the heights of the children (monotone linkage). -/
def rowsOk (n : Nat) (link : List LinkRow) : Nat → List LinkRow → Bool
  | _, [] => true
  | k, row :: rest =>
    decide (row.left < k) && decide (row.right < k) && decide (row.left ≠ row.right) &&
    decide (0 ≤ row.height) &&
    decide (nodeHeight n link row.left ≤ row.height) && decide (nodeHeight n link row.right ≤ row.height) &&
    rowsOk n link (k + 1) rest

/-- What SciPy guarantees about `linkage(…, method='average')` on `n ≥ 1` observations: `n − 1` rows;
row `r` merges two distinct clusters that already exist (`< n + r`); every cluster except the last
one is merged exactly once (the children are a permutation of `0 … 2n−3`); heights are
non-negative and monotone along the tree. -/
def ValidLinkage (n : Nat) (link : List LinkRow) : Bool :=
  decide (1 ≤ n) && decide (link.length = n - 1) && rowsOk n link n link &&
  (linkChildren link).isPerm (List.range (n + link.length - 1))

structure RowOk (n : Nat) (link : List LinkRow) (k : Nat) (row : LinkRow) : Prop where
  left_lt : row.left < k
  right_lt : row.right < k
  ne : row.left ≠ row.right
  height_nonneg : 0 ≤ row.height
  left_le : nodeHeight n link row.left ≤ row.height
  right_le : nodeHeight n link row.right ≤ row.height

theorem rowsOk_spec (n : Nat) (link : List LinkRow) (k : Nat) (rows : List LinkRow)
    (h : rowsOk n link k rows = true) (r : Nat) (row : LinkRow) (hr : rows[r]? = some row) :
    RowOk n link (k + r) row := by
  induction rows generalizing k r with
  | nil => simp at hr
  | cons x rest ih =>
    unfold rowsOk at h
    simp only [Bool.and_eq_true, decide_eq_true_eq] at h
    obtain ⟨⟨⟨⟨⟨⟨h1, h2⟩, h3⟩, h4⟩, h5⟩, h6⟩, h7⟩ := h
    cases r with
    | zero =>
      simp only [List.getElem?_cons_zero, Option.some.injEq] at hr
      subst hr
      exact ⟨h1, h2, h3, h4, h5, h6⟩
    | succ r =>
      simp only [List.getElem?_cons_succ] at hr
      have := ih (k + 1) h7 r hr
      have e : k + 1 + r = k + (r + 1) := by omega
      rw [e] at this
      exact this

theorem ValidLinkage.spec {n : Nat} {link : List LinkRow} (h : ValidLinkage n link = true) :
    1 ≤ n ∧ link.length = n - 1 ∧ (∀ r row, link[r]? = some row → RowOk n link (n + r) row) ∧
      (linkChildren link).Perm (List.range (n + link.length - 1)) := by
  unfold ValidLinkage at h
  simp only [Bool.and_eq_true, decide_eq_true_eq] at h
  obtain ⟨⟨⟨h1, h2⟩, h3⟩, h4⟩ := h
  exact ⟨h1, h2, rowsOk_spec n link n link h3, List.isPerm_iff.1 h4⟩

/-! ### Tree predicates -/

/-- all sub-clades, the clade itself included -/
def Clade.subs : Clade → List Clade
  | .leaf l x => [.leaf l x]
  | .node a b x => .node a b x :: (a.subs ++ b.subs)

/-- `c.Ultra h`: every leaf below `c` is at distance exactly `h` from `c`'s node, and the same holds
(with the appropriate smaller height) at every internal node below. -/
def Clade.Ultra : Clade → Int → Prop
  | .leaf _ _, h => h = 0
  | .node a b _, h => a.Ultra (h - a.len) ∧ b.Ultra (h - b.len)

/-- `c.FromLink n link i`: the clade `c` (its own branch length aside) is the unfolding of cluster
`i` of the linkage: a leaf labelled `i` if `i < n`, otherwise the node of row `i − n`, whose children
are the unfoldings of that row's two clusters, with branch lengths = row height − child height. -/
def Clade.FromLink (n : Nat) (link : List LinkRow) : Clade → Nat → Prop
  | .leaf l _, i => i < n ∧ l = i
  | .node a b _, i => n ≤ i ∧ i < n + link.length ∧
      a.FromLink n link (link.getD (i - n) ⟨0, 0, 0⟩).left ∧
      b.FromLink n link (link.getD (i - n) ⟨0, 0, 0⟩).right ∧
      a.len = (link.getD (i - n) ⟨0, 0, 0⟩).height - nodeHeight n link (link.getD (i - n) ⟨0, 0, 0⟩).left ∧
      b.len = (link.getD (i - n) ⟨0, 0, 0⟩).height - nodeHeight n link (link.getD (i - n) ⟨0, 0, 0⟩).right

theorem Clade.setLen_len (c : Clade) (x : Int) : (c.setLen x).len = x := by cases c <;> rfl
theorem Clade.setLen_leaves (c : Clade) (x : Int) : (c.setLen x).leaves = c.leaves := by cases c <;> rfl
theorem Clade.setLen_depths (c : Clade) (x : Int) : (c.setLen x).depths = c.depths := by cases c <;> rfl
theorem Clade.setLen_nonneg (c : Clade) (x : Int) : (c.setLen x).nonneg = c.nonneg := by cases c <;> rfl
theorem Clade.setLen_ultra (c : Clade) (x h : Int) : (c.setLen x).Ultra h ↔ c.Ultra h := by
  cases c <;> exact Iff.rfl
theorem Clade.setLen_fromLink (n : Nat) (link : List LinkRow) (c : Clade) (x : Int) (i : Nat) :
    (c.setLen x).FromLink n link i ↔ c.FromLink n link i := by
  cases c <;> exact Iff.rfl

/-- in an ultrametric clade every leaf is at depth `h` -/
theorem Clade.Ultra.depths {c : Clade} {h : Int} (hu : c.Ultra h) : ∀ p ∈ c.depths, p.2 = h := by
  induction c generalizing h with
  | leaf l x =>
    intro p hp
    simp only [Clade.depths, List.mem_singleton] at hp
    subst hp
    exact hu.symm
  | node a b x iha ihb =>
    obtain ⟨ha, hb⟩ := hu
    intro p hp
    simp only [Clade.depths, List.mem_append, List.mem_map] at hp
    rcases hp with ⟨q, hq, rfl⟩ | ⟨q, hq, rfl⟩
    · have := iha ha q hq
      simp only; omega
    · have := ihb hb q hq
      simp only; omega

/-- at a node, every leaf of either child is at distance `h` from the node -/
theorem Clade.Ultra.node_depths {a b : Clade} {x h : Int} (hu : (Clade.node a b x).Ultra h) :
    (∀ p ∈ a.depths, p.2 + a.len = h) ∧ (∀ q ∈ b.depths, q.2 + b.len = h) := by
  obtain ⟨ha, hb⟩ := hu
  constructor
  · intro p hp
    have := ha.depths p hp
    omega
  · intro q hq
    have := hb.depths q hq
    omega

theorem nodeHeight_lt {n : Nat} (link : List LinkRow) {i : Nat} (h : i < n) : nodeHeight n link i = 0 := by
  unfold nodeHeight
  rw [if_pos h]

theorem nodeHeight_ge {n : Nat} (link : List LinkRow) {i : Nat} (h : n ≤ i) :
    nodeHeight n link i = (link.getD (i - n) ⟨0, 0, 0⟩).height := by
  unfold nodeHeight
  rw [if_neg (by omega)]

/-- the unfolding of cluster `i` is ultrametric with height `nodeHeight i` -/
theorem Clade.FromLink.ultra {n : Nat} {link : List LinkRow} {c : Clade} {i : Nat}
    (h : c.FromLink n link i) : c.Ultra (nodeHeight n link i) := by
  induction c generalizing i with
  | leaf l x => exact nodeHeight_lt link h.1
  | node a b x iha ihb =>
    obtain ⟨h1, _, h3, h4, h5, h6⟩ := h
    rw [nodeHeight_ge link h1]
    refine ⟨?_, ?_⟩
    · have := iha h3
      rw [h5]
      rw [show ∀ (x y : Int), x - (x - y) = y by intros; omega]
      exact this
    · have := ihb h4
      rw [h6]
      rw [show ∀ (x y : Int), x - (x - y) = y by intros; omega]
      exact this

/-- every sub-clade of an unfolding is itself the unfolding of some cluster -/
theorem Clade.FromLink.subs {n : Nat} {link : List LinkRow} {c : Clade} {i : Nat}
    (h : c.FromLink n link i) : ∀ s ∈ c.subs, ∃ j, s.FromLink n link j := by
  induction c generalizing i with
  | leaf l x =>
    intro s hs
    simp only [Clade.subs, List.mem_singleton] at hs
    subst hs
    exact ⟨i, h⟩
  | node a b x iha ihb =>
    intro s hs
    simp only [Clade.subs, List.mem_cons, List.mem_append] at hs
    rcases hs with hs | hs | hs
    · subst hs; exact ⟨i, h⟩
    · exact iha h.2.2.1 s hs
    · exact ihb h.2.2.2.1 s hs

/-! ### The loop of `buildClades` -/

/-- one iteration of the loop (heights are looked up in the whole linkage) -/
def cladeStep (n : Nat) (link : List LinkRow) (clades : List Clade) (row : LinkRow) : List Clade :=
  let l := (clades.getD row.left (.leaf 0 0)).setLen (row.height - nodeHeight n link row.left)
  let r := (clades.getD row.right (.leaf 0 0)).setLen (row.height - nodeHeight n link row.right)
  clades ++ [Clade.node l r 0]

/-- the clade list after processing the rows `pre` -/
def buildPrefix (n : Nat) (link pre : List LinkRow) : List Clade :=
  pre.foldl (cladeStep n link) ((List.range n).map (fun i => Clade.leaf i 0))

theorem buildClades_eq (n : Nat) (link : List LinkRow) : buildClades n link = buildPrefix n link link := rfl

theorem buildPrefix_snoc (n : Nat) (link pre : List LinkRow) (row : LinkRow) :
    buildPrefix n link (pre ++ [row]) = cladeStep n link (buildPrefix n link pre) row := by
  unfold buildPrefix
  rw [List.foldl_append]
  rfl

theorem getD_append_lt {α : Type} (l t : List α) (d : α) {i : Nat} (h : i < l.length) :
    (l ++ t).getD i d = l.getD i d := by
  rw [List.getD_eq_getElem?_getD, List.getD_eq_getElem?_getD, List.getElem?_append_left h]

theorem getD_append_length {α : Type} (l : List α) (x d : α) : (l ++ [x]).getD l.length d = x := by
  rw [List.getD_eq_getElem?_getD, List.getElem?_append_right (Nat.le_refl _), Nat.sub_self]
  rfl

theorem flatMap_getD_append (cl t : List Clade) (d : Clade) (is : List Nat) (h : ∀ i ∈ is, i < cl.length) :
    is.flatMap (fun i => ((cl ++ t).getD i d).leaves) = is.flatMap (fun i => (cl.getD i d).leaves) := by
  induction is with
  | nil => rfl
  | cons i is ih =>
    rw [List.flatMap_cons, List.flatMap_cons, getD_append_lt cl t d (h i (List.mem_cons_self ..)),
      ih (fun j hj => h j (List.mem_cons_of_mem _ hj))]

theorem linkChildren_snoc (pre : List LinkRow) (row : LinkRow) :
    linkChildren (pre ++ [row]) = linkChildren pre ++ [row.left, row.right] := by
  simp [linkChildren]

/-- the loop invariant after `k` rows -/
structure BuildInv (n : Nat) (link : List LinkRow) (k : Nat) (cl : List Clade) : Prop where
  length_eq : cl.length = n + k
  fromLink : ∀ i, i < n + k → (cl.getD i (.leaf 0 0)).FromLink n link i
  nonneg : ∀ i, i < n + k → (cl.getD i (.leaf 0 0)).nonneg = true
  children_lt : ∀ i ∈ linkChildren (link.take k), i < n + k
  leaves_perm : (cl.flatMap Clade.leaves).Perm
    (List.range n ++ (linkChildren (link.take k)).flatMap (fun i => (cl.getD i (.leaf 0 0)).leaves))

theorem buildInv_zero (n : Nat) (link : List LinkRow) : BuildInv n link 0 (buildPrefix n link []) := by
  have hget : ∀ i, i < n → ((List.range n).map (fun i => Clade.leaf i 0)).getD i (.leaf 0 0) = .leaf i 0 := by
    intro i hi
    rw [List.getD_eq_getElem?_getD]
    simp [hi]
  refine ⟨by simp [buildPrefix], ?_, ?_, ?_, ?_⟩
  · intro i hi
    have hi' : i < n := by omega
    show (((List.range n).map (fun i => Clade.leaf i 0)).getD i (.leaf 0 0)).FromLink n link i
    rw [hget i hi']
    exact ⟨hi', rfl⟩
  · intro i hi
    have hi' : i < n := by omega
    show (((List.range n).map (fun i => Clade.leaf i 0)).getD i (.leaf 0 0)).nonneg = true
    rw [hget i hi']
    rfl
  · intro i hi
    simp [linkChildren] at hi
  · have : ((List.range n).map (fun i => Clade.leaf i 0)).flatMap Clade.leaves = List.range n := by
      generalize List.range n = l
      induction l with
      | nil => rfl
      | cons x l ih => rw [List.map_cons, List.flatMap_cons, ih]; rfl
    show (((List.range n).map (fun i => Clade.leaf i 0)).flatMap Clade.leaves).Perm _
    rw [this]
    simp [linkChildren]

theorem buildInv_succ (n : Nat) (link : List LinkRow)
    (hrows : ∀ r row, link[r]? = some row → RowOk n link (n + r) row)
    (k : Nat) (hk : k < link.length) (cl : List Clade) (inv : BuildInv n link k cl) :
    BuildInv n link (k + 1) (cladeStep n link cl link[k]) := by
  have hrow := hrows k link[k] (List.getElem?_eq_getElem hk)
  have hl : link[k].left < cl.length := by rw [inv.length_eq]; exact hrow.left_lt
  have hr : link[k].right < cl.length := by rw [inv.length_eq]; exact hrow.right_lt
  have hgetD : link.getD k ⟨0, 0, 0⟩ = link[k] := by
    rw [List.getD_eq_getElem?_getD, List.getElem?_eq_getElem hk]; rfl
  have htake : link.take (k + 1) = link.take k ++ [link[k]] := List.take_succ_eq_append_getElem hk
  unfold cladeStep
  simp only
  refine ⟨?_, ?_, ?_, ?_, ?_⟩
  · rw [List.length_append, inv.length_eq]; rfl
  · intro i hi
    by_cases h : i < n + k
    · rw [getD_append_lt _ _ _ (by rw [inv.length_eq]; exact h)]
      exact inv.fromLink i h
    · have e : i = cl.length := by rw [inv.length_eq]; omega
      rw [e, getD_append_length]
      have e2 : cl.length - n = k := by rw [inv.length_eq]; omega
      refine ⟨by rw [inv.length_eq]; omega, by rw [inv.length_eq]; omega, ?_, ?_, ?_, ?_⟩
      · rw [e2, hgetD, Clade.setLen_fromLink]
        exact inv.fromLink _ hrow.left_lt
      · rw [e2, hgetD, Clade.setLen_fromLink]
        exact inv.fromLink _ hrow.right_lt
      · rw [e2, hgetD, Clade.setLen_len]
      · rw [e2, hgetD, Clade.setLen_len]
  · intro i hi
    by_cases h : i < n + k
    · rw [getD_append_lt _ _ _ (by rw [inv.length_eq]; exact h)]
      exact inv.nonneg i h
    · have e : i = cl.length := by rw [inv.length_eq]; omega
      rw [e, getD_append_length]
      simp only [Clade.nonneg, Clade.setLen_len, Clade.setLen_nonneg, Bool.and_eq_true, decide_eq_true_eq]
      have h1 := hrow.left_le
      have h2 := hrow.right_le
      exact ⟨⟨⟨by omega, by omega⟩, inv.nonneg _ hrow.left_lt⟩, inv.nonneg _ hrow.right_lt⟩
  · intro i hi
    rw [htake, linkChildren_snoc, List.mem_append] at hi
    rcases hi with hi | hi
    · have := inv.children_lt i hi; omega
    · simp only [List.mem_cons, List.not_mem_nil, or_false] at hi
      rcases hi with hi | hi
      · rw [hi]; have := hrow.left_lt; omega
      · rw [hi]; have := hrow.right_lt; omega
  · rw [htake, linkChildren_snoc, flatMap_getD_append]
    · rw [List.flatMap_append, List.flatMap_append]
      simp only [List.flatMap_cons, List.flatMap_nil, List.append_nil, Clade.leaves, Clade.setLen_leaves]
      rw [← List.append_assoc (List.range n)]
      exact List.Perm.append_right _ inv.leaves_perm
    · intro i hi
      rw [List.mem_append] at hi
      rcases hi with hi | hi
      · rw [inv.length_eq]; exact inv.children_lt i hi
      · simp only [List.mem_cons, List.not_mem_nil, or_false] at hi
        rcases hi with hi | hi
        · rw [hi]; exact hl
        · rw [hi]; exact hr

theorem buildInv_take (n : Nat) (link : List LinkRow)
    (hrows : ∀ r row, link[r]? = some row → RowOk n link (n + r) row)
    (k : Nat) (hk : k ≤ link.length) : BuildInv n link k (buildPrefix n link (link.take k)) := by
  induction k with
  | zero => exact buildInv_zero n link
  | succ k ih =>
    have hk' : k < link.length := by omega
    rw [List.take_succ_eq_append_getElem hk', buildPrefix_snoc]
    exact buildInv_succ n link hrows k hk' _ (ih (by omega))

theorem buildInv_final (n : Nat) (link : List LinkRow)
    (hrows : ∀ r row, link[r]? = some row → RowOk n link (n + r) row) :
    BuildInv n link link.length (buildClades n link) := by
  have := buildInv_take n link hrows link.length (Nat.le_refl _)
  rw [List.take_length] at this
  exact this

/-- a list's `flatMap` through indices -/
theorem flatMap_take_eq_range (cl : List Clade) (d : Clade) (k : Nat) (hk : k ≤ cl.length) :
    (cl.take k).flatMap Clade.leaves = (List.range k).flatMap (fun i => (cl.getD i d).leaves) := by
  induction k with
  | zero => rfl
  | succ k ih =>
    have hk' : k < cl.length := by omega
    rw [List.take_succ_eq_append_getElem hk', List.range_succ, List.flatMap_append, List.flatMap_append,
      ih (by omega)]
    simp only [List.flatMap_cons, List.flatMap_nil, List.append_nil]
    rw [List.getD_eq_getElem?_getD, List.getElem?_eq_getElem hk']
    rfl

/-- the root of the built tree -/
theorem linkageToTree_eq (n : Nat) (link : List LinkRow) (hn : 1 ≤ n)
    (hlen : (buildClades n link).length = n + link.length) :
    linkageToTree n link = some ((buildClades n link).getD (n + link.length - 1) (.leaf 0 0)) := by
  unfold linkageToTree
  rw [List.getLast?_eq_getElem?, hlen, List.getD_eq_getElem?_getD]
  have : n + link.length - 1 < (buildClades n link).length := by omega
  rw [List.getElem?_eq_getElem this]
  rfl

/-- height of the root cluster = height of the last row (0 if there are no rows) -/
theorem nodeHeight_root (n : Nat) (link : List LinkRow) (hn : 1 ≤ n) :
    nodeHeight n link (n + link.length - 1) = (link.getLast?.map (·.height)).getD 0 := by
  cases hl : link.length with
  | zero =>
    have : link = [] := List.eq_nil_of_length_eq_zero hl
    subst this
    rw [nodeHeight_lt]
    · rfl
    · omega
  | succ m =>
    rw [nodeHeight_ge link (by omega), List.getLast?_eq_getElem?, hl, List.getD_eq_getElem?_getD]
    have e : n + (m + 1) - 1 - n = m + 1 - 1 := by omega
    rw [e]
    have hm : m + 1 - 1 < link.length := by omega
    rw [List.getElem?_eq_getElem hm]
    rfl

/-- the leaves of the root are exactly the labels `0 … n−1`, each once -/
theorem root_leaves_perm (n : Nat) (link : List LinkRow) (hn : 1 ≤ n)
    (inv : BuildInv n link link.length (buildClades n link))
    (hperm : (linkChildren link).Perm (List.range (n + link.length - 1))) :
    ((buildClades n link).getD (n + link.length - 1) (.leaf 0 0)).leaves.Perm (List.range n) := by
  generalize hC : buildClades n link = C at *
  have hlen := inv.length_eq
  have hp := inv.leaves_perm
  rw [List.take_length] at hp
  let L := fun i => (C.getD i (.leaf 0 0)).leaves
  have hm : n + link.length = (n + link.length - 1) + 1 := by omega
  have h1 : C.flatMap Clade.leaves = (List.range (n + link.length - 1)).flatMap L ++ L (n + link.length - 1) := by
    have := flatMap_take_eq_range C (.leaf 0 0) C.length (Nat.le_refl _)
    rw [List.take_length] at this
    rw [this, hlen, hm, List.range_succ, List.flatMap_append]
    simp [L]
  have h2 : ((linkChildren link).flatMap L).Perm ((List.range (n + link.length - 1)).flatMap L) :=
    List.Perm.flatMap_right L hperm
  rw [h1] at hp
  have h3 : ((List.range (n + link.length - 1)).flatMap L ++ L (n + link.length - 1)).Perm
      ((List.range (n + link.length - 1)).flatMap L ++ List.range n) :=
    hp.trans ((List.Perm.append_left _ h2).trans List.perm_append_comm)
  exact (List.perm_append_left_iff _).1 h3

end GambitV
