import GambitV.Model.PyRt
import GambitV.Lemmas.PyRt
import GambitV.Lemmas.Indexing

/-!
Helper lemmas for the tie of the translated `ConcatenatedSignatureArray` / `AdvancedIndexingMixin` methods
(`GambitV.Tie.PyConcat`).  Nothing here mentions the generated term: Python indexing and slicing at natural
positions, the packed representation (`pV`, `pB`) of a list of signatures and what `bounds[i]`,
`values[bounds[i]:bounds[i+1]]`, `bounds[i+1] - bounds[i]` read from it, `SignatureArray.uninitialized` of the list of
sizes, the item-by-item copy (`CArr.putItem`) into it, and the contiguous view.  Core Lean only.
-/
namespace GambitV.TieConcat
open GambitV GambitV.Py

/-! ### Python indexing and slicing at natural positions -/

theorem getItem?_nat {α : Type} (xs : List α) (i : Nat) : Py.getItem? xs (i : Int) = xs[i]? := by
  have h1 : ¬ ((i : Int) < 0) := by omega
  simp only [Py.getItem?, h1, if_false, Int.toNat_natCast]

theorem slice_nat {α : Type} (s : List α) (a b : Nat) :
    Py.slice s (some (a : Int)) (some (b : Int)) = (s.drop a).take (b - a) := by
  unfold Py.slice Py.clampBound
  have ha : ¬ ((a : Int) < 0) := by omega
  have hb : ¬ ((b : Int) < 0) := by omega
  simp only [ha, hb, if_false, Int.toNat_natCast]
  by_cases hle : a ≤ s.length
  · rw [Nat.min_eq_left hle, List.take_eq_take_iff, List.length_drop]
    omega
  · have h1 : min a s.length = s.length := by omega
    rw [h1, List.drop_length, List.drop_eq_nil_of_le (by omega)]
    simp

theorem toNat_natCast_map (l : List Nat) : (l.map (fun (x : Nat) => (x : Int))).map Int.toNat = l := by
  rw [List.map_map]
  have : (Int.toNat ∘ fun (x : Nat) => (x : Int)) = id := by funext x; simp
  rw [this, List.map_id]

theorem natCast_toNat_map (l : List Int) (h : ∀ x ∈ l, 0 ≤ x) :
    (l.map Int.toNat).map (fun (x : Nat) => (x : Int)) = l := by
  rw [List.map_map]
  conv => rhs; rw [← List.map_id l]
  apply List.map_congr_left
  intro x hx
  simp only [Function.comp, id]
  exact Int.toNat_of_nonneg (h x hx)

/-! ### the packed representation of a list of signatures -/

/-- `values` of the packed collection, as Python integers -/
def pV (sigs : List (List Nat)) : List Int := (Concat.ofList sigs).values.map (fun (x : Nat) => (x : Int))
/-- `bounds` of the packed collection, as Python integers -/
def pB (sigs : List (List Nat)) : List Int := (Concat.ofList sigs).bounds.map (fun (x : Nat) => (x : Int))

/-- `bounds[i]` as a natural number: the total length of the first `i` signatures -/
def bnd (sigs : List (List Nat)) (i : Nat) : Nat := (Concat.ofList sigs).bounds.getD i 0

theorem pB_length (sigs : List (List Nat)) : (pB sigs).length = sigs.length + 1 := by
  unfold pB
  rw [List.length_map, ofList_bounds_length]

theorem pB_length_sub_one (sigs : List (List Nat)) : (((pB sigs).length : Nat) : Int) - 1 = (sigs.length : Int) := by
  rw [pB_length]; omega

theorem pV_length (sigs : List (List Nat)) : (pV sigs).length = sigs.flatten.length := by
  unfold pV Concat.ofList
  rw [List.length_map]

/-- `bounds[i]` for `0 ≤ i ≤ n` -/
theorem getItem?_pB (sigs : List (List Nat)) (i : Nat) (h : i ≤ sigs.length) :
    Py.getItem? (pB sigs) (i : Int) = some ((bnd sigs i : Nat) : Int) := by
  have hl : i < (Concat.ofList sigs).bounds.length := by rw [ofList_bounds_length]; omega
  rw [getItem?_nat]
  unfold pB bnd
  rw [List.getElem?_map, List.getD_eq_getElem?_getD, List.getElem?_eq_getElem hl]
  rfl

/-- `bounds[i+1]` for `0 ≤ i < n` -/
theorem getItem?_pB_succ (sigs : List (List Nat)) (i : Nat) (h : i < sigs.length) :
    Py.getItem? (pB sigs) ((i : Int) + 1) = some ((bnd sigs (i + 1) : Nat) : Int) := by
  have := getItem?_pB sigs (i + 1) h
  rwa [Int.natCast_add, Int.natCast_one] at this

/-- consecutive bounds differ by the length of the signature between them -/
theorem bnd_succ (sigs : List (List Nat)) (i : Nat) (h : i < sigs.length) :
    bnd sigs (i + 1) = bnd sigs i + (sigs.getD i []).length := by
  unfold bnd
  rw [ofList_bounds, prefixSums_getD 0 sigs (i + 1) (by omega), prefixSums_getD 0 sigs i (by omega),
    List.take_add_one, List.flatten_append, List.length_append, List.getD_eq_getElem?_getD,
    List.getElem?_eq_getElem h]
  simp

theorem bnd_zero (sigs : List (List Nat)) : bnd sigs 0 = 0 := by
  unfold bnd
  rw [ofList_bounds]
  rfl

theorem bnd_le_total (sigs : List (List Nat)) (i : Nat) (h : i ≤ sigs.length) : bnd sigs i ≤ sigs.flatten.length := by
  have wf := ofList_wf sigs
  have hl := ofList_bounds_length sigs
  have h1 := wf.mono_le i sigs.length h (by omega)
  have h2 := wf.last_le
  have hlast : (Concat.ofList sigs).bounds.getLastD 0 = (Concat.ofList sigs).bounds.getD sigs.length 0 := by
    rw [List.getLastD_eq_getLast?, List.getLast?_eq_getElem?, List.getD_eq_getElem?_getD, hl]
    rfl
  rw [hlast] at h2
  unfold bnd
  have : (Concat.ofList sigs).values = sigs.flatten := rfl
  rw [this] at h2
  omega

/-- `values[bounds[i]:bounds[i+1]]` is signature `i` -/
theorem slice_pV (sigs : List (List Nat)) (i : Nat) :
    Py.slice (pV sigs) (some ((bnd sigs i : Nat) : Int)) (some ((bnd sigs (i + 1) : Nat) : Int))
      = (sigs.getD i []).map (fun (x : Nat) => (x : Int)) := by
  rw [slice_nat, ← ofList_get' sigs i]
  unfold pV bnd Concat.get
  rw [List.map_take, List.map_drop]

/-! ### `SignatureArray.uninitialized(sizes)` -/

theorem boundsOf_sizes (b : Nat) (G : List (List Nat)) :
    CArr.boundsOf (b : Int) (G.map (fun g => ((g.length : Nat) : Int)))
      = (b :: prefixSums b G).map (fun (x : Nat) => (x : Int)) := by
  induction G generalizing b with
  | nil => rfl
  | cons g G ih =>
    rw [List.map_cons, CArr.boundsOf, prefixSums, List.map_cons, ← Int.natCast_add, ih]

/-- the bounds of the fresh array are the cumulative lengths of the signatures to be copied -/
theorem boundsOf_eq_pB (G : List (List Nat)) :
    CArr.boundsOf 0 (G.map (fun g => ((g.length : Nat) : Int))) = pB G := by
  have := boundsOf_sizes 0 G
  rw [Int.natCast_zero] at this
  rw [this, pB, ofList_bounds]

theorem pB_getLastD (G : List (List Nat)) : ((pB G).getLastD 0).toNat = G.flatten.length := by
  have h := prefixSums_getLastD 0 G
  unfold pB
  rw [ofList_bounds, List.getLastD_eq_getLast?, List.getLast?_map]
  rw [List.getLastD_eq_getLast?] at h
  cases hl : (0 :: prefixSums 0 G).getLast? with
  | none => simp at hl
  | some v =>
    rw [hl] at h
    simp only [Option.getD_some] at h
    simp only [Option.map_some, Option.getD_some, Int.toNat_natCast]
    omega

theorem uninitialized_sizes (G : List (List Nat)) :
    CArr.uninitialized (G.map (fun g => ((g.length : Nat) : Int)))
      = { values := List.replicate G.flatten.length 0, bounds := pB G } := by
  unfold CArr.uninitialized
  simp only [boundsOf_eq_pB, pB_getLastD]

/-! ### `np.copyto(out[i], x)` into the fresh array -/

/-- the length check of `np.copyto` passes when the segment has the size announced to `uninitialized` -/
theorem putItemBad_false (G : List (List Nat)) (vals : List Int) (hv : vals.length = G.flatten.length) (t : Nat)
    (ht : t < G.length) (x : List Int) (hx : x.length = (G.getD t []).length) :
    CArr.putItemBad { values := vals, bounds := pB G } (t : Int) x = false := by
  unfold CArr.putItemBad
  simp only [getItem?_pB G t (by omega), getItem?_pB_succ G t ht, slice_nat, List.length_take, List.length_drop,
    decide_eq_false_iff_not, Decidable.not_not]
  have h1 := bnd_succ G t ht
  have h2 := bnd_le_total G (t + 1) (by omega)
  omega

theorem putItem_eq (G : List (List Nat)) (vals : List Int) (t : Nat) (ht : t < G.length) (x : List Int) :
    CArr.putItem { values := vals, bounds := pB G } (t : Int) x
      = { values := Py.putSlice vals ((bnd G t : Nat) : Int) ((bnd G (t + 1) : Nat) : Int) x, bounds := pB G } := by
  unfold CArr.putItem
  simp only [getItem?_pB G t (by omega), getItem?_pB_succ G t ht]

theorem putSlice_nat {α : Type} (xs : List α) (a : Nat) (hi : Int) (vals : List α) (h : a ≤ xs.length) :
    Py.putSlice xs (a : Int) hi vals = xs.take a ++ vals ++ xs.drop (a + vals.length) := by
  unfold Py.putSlice Py.clampBound
  have ha : ¬ ((a : Int) < 0) := by omega
  simp only [ha, if_false, Int.toNat_natCast, Nat.min_eq_left h]

theorem putSlice_length {α : Type} (xs : List α) (a : Nat) (hi : Int) (vals : List α) (h : a + vals.length ≤ xs.length) :
    (Py.putSlice xs (a : Int) hi vals).length = xs.length := by
  rw [putSlice_nat xs a hi vals (by omega)]
  simp only [List.length_append, List.length_take, List.length_drop]
  omega

/-- copying the segments `f j` (`j` running through `js`) into positions `k, k+1, …` of an array whose bounds from position `k` on are the
cumulative sizes starting at `a`: the values from `a` on become the concatenation of the segments -/
theorem foldl_putItem (f : Nat → List Nat) (js : List Nat) (k a : Nat) (pre : List Int) (c : CArr)
    (hk : pre.length = k)
    (hb : c.bounds = pre ++ CArr.boundsOf (a : Int) (js.map (fun j => (((f j).length : Nat) : Int))))
    (hv : c.values.length = a + ((js.map f).flatten).length) :
    let r := (enumerateFrom k (js.map (fun (j : Nat) => (j : Int)))).foldl
      (fun (c : CArr) (x : Int × Int) => c.putItem x.1 ((f x.2.toNat).map (fun (v : Nat) => (v : Int)))) c
    r.values = c.values.take a ++ ((js.map f).flatten).map (fun (v : Nat) => (v : Int)) ∧ r.bounds = c.bounds := by
  induction js generalizing k a pre c with
  | nil =>
    refine ⟨?_, rfl⟩
    simp only [List.map_nil, enumerateFrom, List.foldl_nil, List.flatten_nil, List.append_nil]
    rw [List.take_of_length_le]
    simp only [List.map_nil, List.flatten_nil, List.length_nil] at hv
    omega
  | cons j js ih =>
    simp only [List.map_cons, enumerateFrom, List.foldl_cons, Int.toNat_natCast, List.flatten_cons, List.map_append]
    simp only [List.map_cons, CArr.boundsOf, List.flatten_cons, List.length_append] at hb hv
    have g1 : Py.getItem? c.bounds (k : Int) = some (a : Int) := by
      rw [getItem?_nat, hb, List.getElem?_append_right (by omega), hk, Nat.sub_self]
      rfl
    have g2 : Py.getItem? c.bounds ((k : Int) + 1) = some ((a : Int) + (((f j).length : Nat) : Int)) := by
      have : ((k : Int) + 1) = ((k + 1 : Nat) : Int) := by omega
      rw [this, getItem?_nat, hb, List.getElem?_append_right (by omega), hk]
      have : k + 1 - k = 1 := by omega
      rw [this, List.getElem?_cons_succ]
      cases js <;> rfl
    have hc' : c.putItem (k : Int) ((f j).map (fun (v : Nat) => (v : Int)))
        = { values := c.values.take a ++ (f j).map (fun (v : Nat) => (v : Int)) ++ c.values.drop (a + (f j).length),
            bounds := c.bounds } := by
      unfold CArr.putItem
      simp only [g1, g2]
      rw [putSlice_nat _ _ _ _ (by omega), List.length_map]
    rw [hc']
    obtain ⟨r1, r2⟩ := ih (k + 1) (a + (f j).length) (pre ++ [(a : Int)])
      { values := c.values.take a ++ (f j).map (fun (v : Nat) => (v : Int)) ++ c.values.drop (a + (f j).length),
        bounds := c.bounds }
      (by rw [List.length_append, hk]; rfl)
      (by
        show c.bounds = _
        rw [hb, List.append_assoc, Int.natCast_add]
        rfl)
      (by
        show (_ ++ _ ++ _ : List Int).length = _
        simp only [List.length_append, List.length_take, List.length_drop, List.length_map]
        omega)
    refine ⟨?_, r2⟩
    rw [r1]
    show (_ ++ _ ++ _ : List Int).take _ ++ _ = _
    have hl : (c.values.take a ++ (f j).map (fun (v : Nat) => (v : Int))).length = a + (f j).length := by
      simp only [List.length_append, List.length_take, List.length_map]
      omega
    rw [List.take_append_of_le_length (by omega), List.take_of_length_le (by omega), List.append_assoc]

/-- the whole copy loop of `_getitem_int_array`, started on the fresh array -/
theorem copy_all (f : Nat → List Nat) (js : List Nat) :
    (enumerate (js.map (fun (j : Nat) => (j : Int)))).foldl
        (fun (c : CArr) (x : Int × Int) => c.putItem x.1 ((f x.2.toNat).map (fun (v : Nat) => (v : Int))))
        { values := List.replicate (js.map f).flatten.length 0, bounds := pB (js.map f) }
      = { values := pV (js.map f), bounds := pB (js.map f) } := by
  have h := foldl_putItem f js 0 0 [] { values := List.replicate (js.map f).flatten.length 0, bounds := pB (js.map f) } rfl
    (by
      show pB (js.map f) = _
      rw [← boundsOf_eq_pB, List.map_map]
      rfl)
    (by
      show (List.replicate _ _).length = _
      rw [List.length_replicate, Nat.zero_add])
  obtain ⟨h1, h2⟩ := h
  unfold enumerate
  generalize List.foldl _ _ _ = r at h1 h2
  obtain ⟨rv, rb⟩ := r
  simp only at h1 h2
  rw [h1, h2]
  simp only [List.take_zero, List.nil_append]
  rfl

/-- one copy into an array with the bounds of `G` and room for all of `G`: the length check passes, bounds and size are kept -/
theorem putItem_ok (G : List (List Nat)) (c : CArr) (hb : c.bounds = pB G) (hv : c.values.length = G.flatten.length)
    (t : Nat) (ht : t < G.length) (x : List Int) (hx : x.length = (G.getD t []).length) :
    c.putItemBad (t : Int) x = false ∧ (c.putItem (t : Int) x).bounds = pB G
      ∧ (c.putItem (t : Int) x).values.length = G.flatten.length := by
  obtain ⟨vals, bnds⟩ := c
  simp only at hb hv
  subst hb
  refine ⟨putItemBad_false G vals hv t ht x hx, ?_, ?_⟩
  · rw [putItem_eq G vals t ht x]
  · rw [putItem_eq G vals t ht x]
    show (Py.putSlice vals ((bnd G t : Nat) : Int) ((bnd G (t + 1) : Nat) : Int) x).length = _
    have h1 := bnd_succ G t ht
    have h2 := bnd_le_total G (t + 1) (by omega)
    rw [putSlice_length vals (bnd G t) _ x (by omega), hv]

/-! ### `enumerate` -/

theorem mem_enumerateFrom {α : Type} (k : Nat) (l : List α) (x : Int × α) (h : x ∈ enumerateFrom k l) :
    ∃ t, ∃ ht : t < l.length, x = (((k + t : Nat) : Int), l[t]) := by
  induction l generalizing k with
  | nil => cases h
  | cons a l ih =>
    rw [enumerateFrom, List.mem_cons] at h
    rcases h with rfl | h
    · exact ⟨0, by simp, rfl⟩
    · obtain ⟨t, ht, rfl⟩ := ih (k + 1) h
      refine ⟨t + 1, by simp; omega, ?_⟩
      simp only [List.getElem_cons_succ, Nat.add_assoc, Nat.add_comm 1 t]

theorem mem_enumerate {α : Type} (l : List α) (x : Int × α) (h : x ∈ enumerate l) :
    ∃ t, ∃ ht : t < l.length, x = ((t : Int), l[t]) := by
  obtain ⟨t, ht, rfl⟩ := mem_enumerateFrom 0 l x h
  exact ⟨t, ht, by rw [Nat.zero_add]⟩

/-! ### loop rule -/

/-- A `for` loop whose body falls through (`ok (step s x)`) on every element satisfying `Q`, from every state satisfying the invariant
`P`, is a left fold (the rule of `TieRI.forEach_fold_of`, restated here to keep the imports light).  The loop is passed as an equation so
that the body is found by unification. -/
theorem forEach_fold_of {α σ ρ : Type} {xs : List α} {body : α → σ → M σ ρ σ} {s : σ} {w : M σ ρ (σ × Bool)}
    (hw : forEach xs body s = w) (P : σ → Prop) (Q : α → Prop) (step : σ → α → σ)
    (hb : ∀ x s, Q x → P s → body x s = .ok (step s x) ∧ P (step s x))
    (hx : ∀ x ∈ xs, Q x) (hs : P s) : w = .ok (xs.foldl step s, true) := by
  subst hw
  induction xs generalizing s with
  | nil => rfl
  | cons x xs ih =>
    obtain ⟨h1, h2⟩ := hb x s (hx x (List.mem_cons_self ..)) hs
    rw [forEach_cons, h1]
    exact ih (fun y hy => hx y (List.mem_cons_of_mem _ hy)) h2

/-! ### the contiguous view -/

/-- the two arrays built by the fast path of `_getitem_slice`, read back as a `Concat`, are the model's view -/
theorem view_eq (sigs : List (List Nat)) (s e : Nat) :
    ({ values := (Py.slice (pV sigs) (some ((bnd sigs s : Nat) : Int)) (some ((bnd sigs e : Nat) : Int))).map Int.toNat,
       bounds := ((Py.slice (pB sigs) (some (s : Int)) (some ((e : Int) + 1))).map
          (fun (x_ : Int) => x_ - ((bnd sigs s : Nat) : Int))).map Int.toNat } : Concat)
      = (Concat.ofList sigs).sliceView s e := by
  have h1 : ((e : Int) + 1) = ((e + 1 : Nat) : Int) := by omega
  rw [h1, slice_nat, slice_nat]
  unfold Concat.sliceView pV pB bnd
  simp only [← List.map_drop, ← List.map_take, List.map_map]
  congr 1
  · have : (Int.toNat ∘ fun (x : Nat) => (x : Int)) = id := by funext x; simp
    rw [this, List.map_id]
  · apply List.map_congr_left
    intro x _
    simp only [Function.comp]
    omega

end GambitV.TieConcat
