import GambitV.Model.Fasta
import GambitV.Lemmas.Find

/-! Helper lemmas for `Props/C06`: strand membership under reverse complement / case, and the
FASTA writer/reader pair (`renderFasta` / `parseFasta`).  Core Lean only. -/
namespace GambitV

/-! ### Strand membership -/

/-- Membership contributed by one contig: either strand. -/
def PairMem (k : Nat) (pre s : List UInt8) (x : Nat) : Prop :=
  StrandMem k pre s x ∨ StrandMem k pre (revcomp s) x

theorem pairMem_revcomp (k : Nat) (pre s : List UInt8) (x : Nat) :
    PairMem k pre (revcomp s) x ↔ PairMem k pre s x := by
  unfold PairMem
  rw [C07.revcomp_involutive]
  exact Or.comm

theorem specMem_def (k : Nat) (pre : List UInt8) (seqs : List (List UInt8)) (x : Nat) :
    SpecMem k pre seqs x ↔ ∃ s ∈ seqs, PairMem k pre s x := Iff.rfl

theorem specMem_nil (k : Nat) (pre : List UInt8) (x : Nat) : ¬ SpecMem k pre [] x := by
  rintro ⟨s, hs, _⟩; cases hs

theorem specMem_cons (k : Nat) (pre s : List UInt8) (seqs : List (List UInt8)) (x : Nat) :
    SpecMem k pre (s :: seqs) x ↔ PairMem k pre s x ∨ SpecMem k pre seqs x := by
  simp only [specMem_def, List.mem_cons]
  constructor
  · rintro ⟨t, rfl | ht, h⟩
    · exact Or.inl h
    · exact Or.inr ⟨t, ht, h⟩
  · rintro (h | ⟨t, ht, h⟩)
    · exact ⟨s, Or.inl rfl, h⟩
    · exact ⟨t, Or.inr ht, h⟩

theorem specMem_singleton (k : Nat) (pre s : List UInt8) (x : Nat) :
    SpecMem k pre [s] x ↔ PairMem k pre s x := by
  rw [specMem_cons]
  exact ⟨fun h => h.elim id (fun h => absurd h (specMem_nil k pre x)), Or.inl⟩

theorem upper_take_drop (t : List UInt8) (a n : Nat) :
    upper ((t.drop a).take n) = ((upper t).drop a).take n := by
  simp [upper, List.map_take, List.map_drop]

/-- Strand membership only looks at the upper-cased sequence. -/
theorem strandMem_upper (k : Nat) (pre t : List UInt8) (x : Nat) :
    StrandMem k pre t x ↔
      ∃ i, matchAt (upper t) pre i = true ∧ i + pre.length + k ≤ (upper t).length ∧
        encode (((upper t).drop (i + pre.length)).take k) = some x := by
  unfold StrandMem
  simp only [← upper_take_drop, C07.encode_upper, upper_length]

theorem strandMem_case (k : Nat) (pre t t' : List UInt8) (x : Nat) (h : upper t = upper t') :
    StrandMem k pre t x ↔ StrandMem k pre t' x := by
  rw [strandMem_upper, strandMem_upper, h]

theorem pairMem_case (k : Nat) (pre t t' : List UInt8) (x : Nat) (h : upper t = upper t') :
    PairMem k pre t x ↔ PairMem k pre t' x := by
  unfold PairMem
  rw [strandMem_case k pre t t' x h,
    strandMem_case k pre (revcomp t) (revcomp t') x (by rw [upper_revcomp, upper_revcomp, h])]

/-! ### FASTA: lines joined by a line ending -/

/-- `eol.join(lines)` -/
def joinLines (eol : List UInt8) : List (List UInt8) → List UInt8
  | [] => []
  | [l] => l
  | l :: l' :: ls => l ++ eol ++ joinLines eol (l' :: ls)

theorem intersperse_flatten (eol : List UInt8) (L : List (List UInt8)) :
    (L.intersperse eol).flatten = joinLines eol L := by
  induction L with
  | nil => rfl
  | cons l L ih =>
    cases L with
    | nil => simp [joinLines]
    | cons l' L =>
      rw [List.intersperse_cons_cons, List.flatten_cons, List.flatten_cons, ih, joinLines,
        List.append_assoc]

/-! ### universal newlines -/

theorem universalNewlines_lf (rest : List UInt8) :
    universalNewlines (10 :: rest) = 10 :: universalNewlines rest := by
  rw [universalNewlines.eq_4] <;> simp

theorem universalNewlines_crlf (rest : List UInt8) :
    universalNewlines (13 :: 10 :: rest) = 10 :: universalNewlines rest := by
  rw [universalNewlines.eq_2]

theorem universalNewlines_clean (l rest : List UInt8) (h : ∀ c ∈ l, c ≠ 13) :
    universalNewlines (l ++ rest) = l ++ universalNewlines rest := by
  induction l with
  | nil => rfl
  | cons c l ih =>
    have hc : c ≠ 13 := h c (by simp)
    rw [List.cons_append, universalNewlines.eq_4 _ _ (fun _ e => absurd e hc) (fun e => absurd e hc),
      ih (fun d hd => h d (by simp [hd])), List.cons_append]

theorem universalNewlines_eol (eol : List UInt8) (heol : eol = [10] ∨ eol = [13, 10]) (rest : List UInt8) :
    universalNewlines (eol ++ rest) = 10 :: universalNewlines rest := by
  rcases heol with rfl | rfl
  · exact universalNewlines_lf rest
  · exact universalNewlines_crlf rest

theorem universalNewlines_join (eol : List UInt8) (heol : eol = [10] ∨ eol = [13, 10])
    (L : List (List UInt8)) (hL : ∀ l ∈ L, ∀ c ∈ l, c ≠ 13) (T : List UInt8) :
    universalNewlines (joinLines eol L ++ T) = joinLines [10] L ++ universalNewlines T := by
  induction L with
  | nil => rfl
  | cons l L ih =>
    cases L with
    | nil => exact universalNewlines_clean l T (hL l (by simp))
    | cons l' L =>
      simp only [joinLines, List.append_assoc]
      rw [universalNewlines_clean l _ (hL l (by simp)), universalNewlines_eol eol heol,
        ih (fun m hm => hL m (by simp [hm]))]
      simp

/-! ### splitting into lines -/

def splitStep (acc : List (List UInt8) × List UInt8) (c : UInt8) : List (List UInt8) × List UInt8 :=
  if c == 10 then (acc.2.reverse :: acc.1, []) else (acc.1, c :: acc.2)

def splitFin (go : List (List UInt8) × List UInt8) : List (List UInt8) :=
  (if go.2.isEmpty then go.1 else go.2.reverse :: go.1).reverse

theorem splitLines_eq (s : List UInt8) : splitLines s = splitFin (s.foldl splitStep ([], [])) := rfl

theorem split_clean (l rest : List UInt8) (acc : List (List UInt8)) (cur : List UInt8)
    (h : ∀ c ∈ l, c ≠ 10) :
    (l ++ rest).foldl splitStep (acc, cur) = rest.foldl splitStep (acc, l.reverse ++ cur) := by
  induction l generalizing cur with
  | nil => rfl
  | cons c l ih =>
    have hc : c ≠ 10 := h c (by simp)
    rw [List.cons_append, List.foldl_cons]
    have : splitStep (acc, cur) c = (acc, c :: cur) := by simp [splitStep, hc]
    rw [this, ih _ (fun d hd => h d (by simp [hd]))]
    simp

theorem split_nl (rest : List UInt8) (acc : List (List UInt8)) (cur : List UInt8) :
    (10 :: rest).foldl splitStep (acc, cur) = rest.foldl splitStep (cur.reverse :: acc, []) := by
  rw [List.foldl_cons]; rfl

theorem split_join (L : List (List UInt8)) (hL : ∀ l ∈ L, ∀ c ∈ l, c ≠ 10) (hne : L ≠ [])
    (acc : List (List UInt8)) :
    ∃ init last, L = init ++ [last] ∧
      (joinLines [10] L).foldl splitStep (acc, []) = (init.reverse ++ acc, last.reverse) := by
  induction L generalizing acc with
  | nil => exact absurd rfl hne
  | cons l L ih =>
    cases L with
    | nil =>
      refine ⟨[], l, rfl, ?_⟩
      have := split_clean l [] acc [] (hL l (by simp))
      simpa [joinLines] using this
    | cons l' L =>
      obtain ⟨init, last, e, hf⟩ := ih (fun m hm => hL m (by simp [hm])) (by simp) (l :: acc)
      refine ⟨l :: init, last, by rw [e]; rfl, ?_⟩
      simp only [joinLines, List.append_assoc]
      rw [split_clean l _ acc [] (hL l (by simp))]
      simp only [List.append_nil, List.singleton_append]
      rw [split_nl, List.reverse_reverse, hf]
      simp

/-- Clean, non-empty lines joined by `\n`, with or without a final `\n`, split back into the lines. -/
theorem splitLines_join (L : List (List UInt8)) (hL : ∀ l ∈ L, ∀ c ∈ l, c ≠ 10)
    (hnonempty : ∀ l ∈ L, l ≠ []) (hne : L ≠ []) (finalNl : Bool) :
    splitLines (joinLines [10] L ++ (if finalNl then [10] else [])) = L := by
  obtain ⟨init, last, e, hf⟩ := split_join L hL hne []
  rw [splitLines_eq, List.foldl_append, hf]
  cases finalNl with
  | true =>
    simp only [if_true, List.append_nil]
    rw [split_nl]
    simp [splitFin, e]
  | false =>
    have hlast : last ≠ [] := hnonempty last (by rw [e]; simp)
    simp [splitFin, e, hlast]

/-! ### FASTA records -/

def fastaStep (acc : List (List UInt8) × Option (List UInt8)) (line : List UInt8) :
    List (List UInt8) × Option (List UInt8) :=
  if line.head? == some (62 : UInt8) then
    (match acc.2 with | some cur => cur :: acc.1 | none => acc.1, some [])
  else match acc.2 with
    | some cur => (acc.1, some (cur ++ line.filter (fun c => c != 32 && c != 13)))
    | none => acc

def fastaFin (go : List (List UInt8) × Option (List UInt8)) : List (List UInt8) :=
  (match go.2 with | some cur => cur :: go.1 | none => go.1).reverse

theorem fastaRecords_eq (lines : List (List UInt8)) :
    fastaRecords lines = fastaFin (lines.foldl fastaStep ([], none)) := rfl

theorem fastaStep_title (acc : List (List UInt8)) (o : Option (List UInt8)) (name : List UInt8) :
    fastaStep (acc, o) (62 :: name) = (match o with | some cur => cur :: acc | none => acc, some []) := by
  simp [fastaStep]

theorem fastaStep_seq (acc : List (List UInt8)) (cur line : List UInt8)
    (hhead : line.head? ≠ some 62) (hclean : ∀ c ∈ line, c ≠ 32 ∧ c ≠ 13) :
    fastaStep (acc, some cur) line = (acc, some (cur ++ line)) := by
  have hf : line.filter (fun c => c != 32 && c != 13) = line := by
    rw [List.filter_eq_self]
    intro c hc
    have := hclean c hc
    simp [this.1, this.2]
  have hh : (line.head? == some (62 : UInt8)) = false := by
    cases h : line.head? == some (62 : UInt8) with
    | false => rfl
    | true => exact absurd (beq_iff_eq.1 h) hhead
  simp only [fastaStep, hh, hf]
  rfl

theorem fasta_seqLines (cs : List (List UInt8)) (rest : List (List UInt8)) (acc : List (List UInt8))
    (cur : List UInt8)
    (h : ∀ l ∈ cs, l.head? ≠ some 62 ∧ ∀ c ∈ l, c ≠ 32 ∧ c ≠ 13) :
    (cs ++ rest).foldl fastaStep (acc, some cur) = rest.foldl fastaStep (acc, some (cur ++ cs.flatten)) := by
  induction cs generalizing cur with
  | nil => simp
  | cons l cs ih =>
    rw [List.cons_append, List.foldl_cons, fastaStep_seq acc cur l (h l (by simp)).1 (h l (by simp)).2,
      ih _ (fun m hm => h m (by simp [hm]))]
    simp

/-! ### chunks -/

theorem chunks_flatten (width : Nat) (fuel : Nat) (s : List UInt8) (h : s.length ≤ fuel) :
    (chunks width s fuel).flatten = s := by
  induction fuel generalizing s with
  | zero =>
    have : s = [] := List.eq_nil_of_length_eq_zero (by omega)
    subst this; rfl
  | succ fuel ih =>
    rw [chunks]
    cases s with
    | nil => rfl
    | cons c s =>
      simp only [List.isEmpty_cons, Bool.false_eq_true, if_false]
      split
      · simp
      · rw [List.flatten_cons, ih _ (by simp only [List.length_drop, List.length_cons] at h ⊢; omega),
          List.take_append_drop]

theorem chunks_mem (width : Nat) (fuel : Nat) (s : List UInt8) :
    ∀ l ∈ chunks width s fuel, l ≠ [] ∧ ∀ c ∈ l, c ∈ s := by
  induction fuel generalizing s with
  | zero => intro l hl; simp [chunks] at hl
  | succ fuel ih =>
    intro l hl
    rw [chunks] at hl
    cases s with
    | nil => simp at hl
    | cons c s =>
      simp only [List.isEmpty_cons, Bool.false_eq_true, if_false] at hl
      split at hl
      · simp only [List.mem_singleton] at hl
        subst hl
        exact ⟨by simp, fun _ h => h⟩
      · rename_i hw
        rcases List.mem_cons.1 hl with e | hl
        · subst e
          refine ⟨?_, fun d hd => List.mem_of_mem_take hd⟩
          cases width with
          | zero => exact absurd rfl hw
          | succ w => simp
        · have := ih _ l hl
          exact ⟨this.1, fun d hd => List.mem_of_mem_drop (this.2 d hd)⟩

/-! ### the lines the writer produces -/

def recordLines (width : Nat) (records : List (List UInt8 × List UInt8)) : List (List UInt8) :=
  records.flatMap (fun r => (62 :: r.1) :: chunks width r.2 (r.2.length + 1))

theorem renderFasta_eq (width : Nat) (eol : List UInt8) (finalNl : Bool)
    (records : List (List UInt8 × List UInt8)) :
    renderFasta width eol finalNl records =
      joinLines eol (recordLines width records) ++ (if finalNl then eol else []) := by
  unfold renderFasta recordLines
  simp only [intersperse_flatten]
  cases finalNl <;> simp

theorem recordLines_cons (width : Nat) (r : List UInt8 × List UInt8)
    (records : List (List UInt8 × List UInt8)) :
    recordLines width (r :: records) =
      (62 :: r.1) :: (chunks width r.2 (r.2.length + 1) ++ recordLines width records) := by
  simp [recordLines]

theorem fasta_recordLines (width : Nat) (records : List (List UInt8 × List UInt8))
    (hseq : ∀ r ∈ records, ∀ c ∈ r.2, c ≠ 13 ∧ c ≠ 32 ∧ c ≠ 62)
    (acc : List (List UInt8)) (o : Option (List UInt8)) :
    fastaFin ((recordLines width records).foldl fastaStep (acc, o)) =
      fastaFin (acc, o) ++ records.map (·.2) := by
  induction records generalizing acc o with
  | nil => simp [recordLines]
  | cons r records ih =>
    have hr := hseq r (by simp)
    rw [recordLines_cons, List.foldl_cons, fastaStep_title, fasta_seqLines, List.nil_append,
      chunks_flatten _ _ _ (Nat.le_succ _), ih (fun q hq => hseq q (by simp [hq]))]
    · cases o <;> simp [fastaFin]
    · intro l hl
      obtain ⟨hne, hmem⟩ := chunks_mem width _ r.2 l hl
      refine ⟨?_, fun c hc => ⟨(hr c (hmem c hc)).2.1, (hr c (hmem c hc)).1⟩⟩
      cases l with
      | nil => exact absurd rfl hne
      | cons c l =>
        simp only [List.head?_cons, ne_eq, Option.some.injEq]
        exact (hr c (hmem c (by simp))).2.2

theorem recordLines_clean (width : Nat) (records : List (List UInt8 × List UInt8))
    (P : UInt8 → Prop) (h62 : P 62)
    (hname : ∀ r ∈ records, ∀ c ∈ r.1, P c) (hseq : ∀ r ∈ records, ∀ c ∈ r.2, P c) :
    ∀ l ∈ recordLines width records, ∀ c ∈ l, P c := by
  intro l hl c hc
  simp only [recordLines, List.mem_flatMap, List.mem_cons] at hl
  obtain ⟨r, hr, hl | hl⟩ := hl
  · subst hl
    rcases List.mem_cons.1 hc with e | hc
    · subst e; exact h62
    · exact hname r hr c hc
  · exact hseq r hr c ((chunks_mem width _ r.2 l hl).2 c hc)

theorem recordLines_nonempty (width : Nat) (records : List (List UInt8 × List UInt8)) :
    ∀ l ∈ recordLines width records, l ≠ [] := by
  intro l hl
  simp only [recordLines, List.mem_flatMap, List.mem_cons] at hl
  obtain ⟨r, _, hl | hl⟩ := hl
  · subst hl; simp
  · exact (chunks_mem width _ r.2 l hl).1

end GambitV
