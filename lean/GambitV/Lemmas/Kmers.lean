import GambitV.Model.Kmers

/-! Helper lemmas for `Props/C07`, `Props/C01`. Core Lean only. -/
namespace GambitV

/-- Quantification over all 256 bytes reduces to a decidable bounded quantification. -/
theorem forall_byte (P : UInt8 → Prop) (h : ∀ n : Fin 256, P (UInt8.ofNat n.val)) : ∀ b, P b := by
  intro b
  have := h ⟨b.toNat, b.toNat_lt⟩
  simpa using this

theorem list_snoc_induction {α : Type} {P : List α → Prop} (nil : P [])
    (snoc : ∀ s a, P s → P (s ++ [a])) : ∀ s, P s := by
  intro s
  have h : ∀ r : List α, P r.reverse := by
    intro r
    induction r with
    | nil => simpa using nil
    | cons a r ih => simpa using snoc _ a ih
  simpa using h s.reverse

/-! ### Per-byte facts (each checked over the whole byte range by the kernel) -/

theorem comp_comp (b : UInt8) : comp (comp b) = b := by
  revert b; apply forall_byte; decide +kernel

theorem nucCode_lt (b : UInt8) : ∀ d, nucCode b = some d → d < 4 := by
  revert b; apply forall_byte; decide +kernel

theorem nucCode_comp (b : UInt8) : nucCode (comp b) = (nucCode b).map (3 - ·) := by
  revert b; apply forall_byte; decide +kernel

theorem nucCode_upperByte (b : UInt8) : nucCode (upperByte b) = nucCode b := by
  revert b; apply forall_byte; decide +kernel

/-- The bytes accepted by the encoder are exactly the eight letters `ACGTacgt`. -/
theorem nucCode_isSome_iff (b : UInt8) :
    (nucCode b).isSome = true ↔ b ∈ [65, 67, 71, 84, 97, 99, 103, 116] := by
  revert b; apply forall_byte; decide +kernel

theorem nucLetter_nucCode (b : UInt8) : ∀ d, nucCode b = some d → nucLetter d = upperByte b := by
  revert b; apply forall_byte; decide +kernel

theorem nucCode_nucLetter (d : Nat) (h : d < 4) : nucCode (nucLetter d) = some d := by
  have : d = 0 ∨ d = 1 ∨ d = 2 ∨ d = 3 := by omega
  rcases this with h | h | h | h <;> subst h <;> decide

/-- Complementing preserves case and fixes non-nucleotide bytes. -/
theorem comp_spec (b : UInt8) :
    (b = 65 → comp b = 84) ∧ (b = 84 → comp b = 65) ∧ (b = 67 → comp b = 71) ∧ (b = 71 → comp b = 67) ∧
    (b = 97 → comp b = 116) ∧ (b = 116 → comp b = 97) ∧ (b = 99 → comp b = 103) ∧ (b = 103 → comp b = 99) ∧
    (b ∉ [65, 67, 71, 84, 97, 99, 103, 116] → comp b = b) := by
  revert b; apply forall_byte; decide +kernel

/-! ### Encoder -/

theorem encodeFrom_append (acc : Nat) (s t : List UInt8) :
    encodeFrom acc (s ++ t) = (encodeFrom acc s).bind (fun a => encodeFrom a t) := by
  induction s generalizing acc with
  | nil => simp [encodeFrom]
  | cons b s ih =>
    simp only [List.cons_append, encodeFrom]
    cases nucCode b with
    | none => simp
    | some d => simp [ih]

theorem encodeFrom_eq (acc : Nat) (s : List UInt8) :
    encodeFrom acc s = (encodeFrom 0 s).map (acc * 4 ^ s.length + ·) := by
  induction s generalizing acc with
  | nil => simp [encodeFrom]
  | cons b s ih =>
    simp only [encodeFrom, List.length_cons]
    cases nucCode b with
    | none => simp
    | some d =>
      simp only []
      rw [ih (acc * 4 + d), ih (0 * 4 + d)]
      cases encodeFrom 0 s with
      | none => simp
      | some r =>
        simp only [Option.map_some, Option.some.injEq]
        rw [Nat.pow_succ]
        have : (acc * 4 + d) * 4 ^ s.length = acc * (4 ^ s.length * 4) + (0 * 4 + d) * 4 ^ s.length := by
          rw [Nat.add_mul, Nat.zero_mul, Nat.zero_add, Nat.mul_assoc, Nat.mul_comm 4]
        omega

theorem encodeFrom_lt (acc j : Nat) (s : List UInt8) (h : acc < 4 ^ j) :
    ∀ i, encodeFrom acc s = some i → i < 4 ^ (j + s.length) := by
  induction s generalizing acc j with
  | nil => intro i hi; simp [encodeFrom] at hi; subst hi; simpa using h
  | cons b s ih =>
    intro i hi
    simp only [encodeFrom] at hi
    cases hb : nucCode b with
    | none => simp [hb] at hi
    | some d =>
      simp only [hb] at hi
      have hd := nucCode_lt b d hb
      have : acc * 4 + d < 4 ^ (j + 1) := by rw [Nat.pow_succ]; omega
      have := ih (acc * 4 + d) (j + 1) this i hi
      simpa [Nat.add_assoc, Nat.add_comm 1] using this

theorem encodeFrom_none_iff (acc : Nat) (s : List UInt8) :
    encodeFrom acc s = none ↔ ∃ b ∈ s, nucCode b = none := by
  induction s generalizing acc with
  | nil => simp [encodeFrom]
  | cons b s ih =>
    simp only [encodeFrom, List.mem_cons, exists_eq_or_imp]
    cases hb : nucCode b with
    | none => simp
    | some d => simp [ih]

theorem encodeFrom_map_upper (acc : Nat) (s : List UInt8) :
    encodeFrom acc (s.map upperByte) = encodeFrom acc s := by
  induction s generalizing acc with
  | nil => rfl
  | cons b s ih =>
    simp only [List.map_cons, encodeFrom, nucCode_upperByte]
    cases nucCode b <;> simp [ih]

theorem encodeFrom_map_comp (acc : Nat) (s : List UInt8) :
    encodeFrom acc (s.map comp) = encodeCompFrom acc s := by
  induction s generalizing acc with
  | nil => rfl
  | cons b s ih =>
    simp only [List.map_cons, encodeFrom, encodeCompFrom, nucCode_comp]
    cases nucCode b <;> simp [ih]

theorem decode_length (i k : Nat) : (decode i k).length = k := by
  induction k generalizing i with
  | zero => rfl
  | succ k ih => simp [decode, ih]

theorem encode_snoc (s : List UInt8) (b : UInt8) :
    encode (s ++ [b]) = (encode s).bind (fun a => (nucCode b).map (fun d => a * 4 + d)) := by
  unfold encode
  rw [encodeFrom_append]
  cases encodeFrom 0 s with
  | none => rfl
  | some a =>
    simp only [Option.bind_some, encodeFrom]
    cases nucCode b <;> rfl

end GambitV
