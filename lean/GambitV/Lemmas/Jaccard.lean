import GambitV.Model.Jaccard
import Mathlib.Data.Finset.Card
import Mathlib.Data.Finset.SymmDiff
import Mathlib.Data.List.Pairwise

/-! Helper lemmas for `Props/C02`, `Props/C15`: the two-pointer merge count `unionCount`. -/
namespace GambitV

theorem unionCount_nil_left (b : List Nat) : unionCount [] b = b.length := by
  simp [unionCount]

theorem unionCount_nil_right (a : List Nat) : unionCount a [] = a.length := by
  cases a <;> simp [unionCount]

theorem unionCount_cons_cons (a : Nat) (as : List Nat) (b : Nat) (bs : List Nat) :
    unionCount (a :: as) (b :: bs) =
      if a < b then unionCount as (b :: bs) + 1
      else if b < a then unionCount (a :: as) bs + 1
      else unionCount as bs + 1 := by
  rw [unionCount]

theorem unionCount_comm' (a b : List Nat) : unionCount a b = unionCount b a := by
  induction a, b using unionCount.induct with
  | case1 bs => rw [unionCount_nil_left, unionCount_nil_right]
  | case2 a as => rw [unionCount_nil_left, unionCount_nil_right]
  | case3 a as b bs h ih =>
    rw [unionCount_cons_cons, unionCount_cons_cons, if_pos h, if_neg (by omega), if_pos h, ih]
  | case4 a as b bs h1 h2 ih =>
    rw [unionCount_cons_cons, unionCount_cons_cons, if_neg h1, if_pos h2, if_pos h2, ih]
  | case5 a as b bs h1 h2 ih =>
    rw [unionCount_cons_cons, unionCount_cons_cons, if_neg h1, if_neg h2, if_neg h2, if_neg h1, ih]

theorem length_le_unionCount_left (a b : List Nat) : a.length ≤ unionCount a b := by
  induction a, b using unionCount.induct with
  | case1 bs => simp
  | case2 a as => rw [unionCount_nil_right]
  | case3 a as b bs h ih =>
    rw [unionCount_cons_cons, if_pos h]; simp only [List.length_cons]; omega
  | case4 a as b bs h1 h2 ih =>
    rw [unionCount_cons_cons, if_neg h1, if_pos h2]; omega
  | case5 a as b bs h1 h2 ih =>
    rw [unionCount_cons_cons, if_neg h1, if_neg h2]; simp only [List.length_cons]; omega

theorem length_le_unionCount_right (a b : List Nat) : b.length ≤ unionCount a b := by
  rw [unionCount_comm']; exact length_le_unionCount_left b a

theorem unionCount_le_add (a b : List Nat) : unionCount a b ≤ a.length + b.length := by
  induction a, b using unionCount.induct with
  | case1 bs => rw [unionCount_nil_left]; omega
  | case2 a as => rw [unionCount_nil_right]; omega
  | case3 a as b bs h ih =>
    rw [unionCount_cons_cons, if_pos h]; simp only [List.length_cons] at ih ⊢; omega
  | case4 a as b bs h1 h2 ih =>
    rw [unionCount_cons_cons, if_neg h1, if_pos h2]; simp only [List.length_cons] at ih ⊢; omega
  | case5 a as b bs h1 h2 ih =>
    rw [unionCount_cons_cons, if_neg h1, if_neg h2]; simp only [List.length_cons] at ih ⊢; omega

/-- On strictly increasing inputs the merge counts exactly the elements of the set union. -/
theorem unionCount_eq_card' {a b : List Nat} (ha : a.Pairwise (· < ·)) (hb : b.Pairwise (· < ·)) :
    unionCount a b = (a.toFinset ∪ b.toFinset).card := by
  induction a, b using unionCount.induct with
  | case1 bs =>
    rw [unionCount_nil_left]
    simp only [List.toFinset_nil, Finset.empty_union]
    exact (List.toFinset_card_of_nodup (hb.imp (fun h => Nat.ne_of_lt h))).symm
  | case2 a as =>
    rw [unionCount_nil_right]
    simp only [List.toFinset_nil, Finset.union_empty]
    exact (List.toFinset_card_of_nodup (ha.imp (fun h => Nat.ne_of_lt h))).symm
  | case3 a as b bs h ih =>
    rw [unionCount_cons_cons, if_pos h, ih (List.Pairwise.of_cons ha) hb]
    have ha' := List.pairwise_cons.mp ha
    have hb' := List.pairwise_cons.mp hb
    rw [List.toFinset_cons (a := a), Finset.insert_union, Finset.card_insert_of_notMem]
    simp only [Finset.mem_union, List.mem_toFinset, List.mem_cons, not_or]
    refine ⟨fun hm => Nat.lt_irrefl _ (ha'.1 a hm), Nat.ne_of_lt h, fun hm => ?_⟩
    have := hb'.1 a hm; omega
  | case4 a as b bs h1 h2 ih =>
    rw [unionCount_cons_cons, if_neg h1, if_pos h2, ih ha (List.Pairwise.of_cons hb)]
    have ha' := List.pairwise_cons.mp ha
    have hb' := List.pairwise_cons.mp hb
    rw [List.toFinset_cons (a := b), Finset.union_insert, Finset.card_insert_of_notMem]
    simp only [Finset.mem_union, List.mem_toFinset, List.mem_cons, not_or]
    refine ⟨⟨Nat.ne_of_lt h2, fun hm => ?_⟩, fun hm => Nat.lt_irrefl _ (hb'.1 b hm)⟩
    have := ha'.1 b hm; omega
  | case5 a as b bs h1 h2 ih =>
    rw [unionCount_cons_cons, if_neg h1, if_neg h2,
      ih (List.Pairwise.of_cons ha) (List.Pairwise.of_cons hb)]
    have hab : a = b := by omega
    subst hab
    have ha' := List.pairwise_cons.mp ha
    have hb' := List.pairwise_cons.mp hb
    rw [List.toFinset_cons, List.toFinset_cons, Finset.insert_union, Finset.union_insert,
      Finset.insert_idem, Finset.card_insert_of_notMem]
    simp only [Finset.mem_union, List.mem_toFinset, not_or]
    exact ⟨fun hm => Nat.lt_irrefl _ (ha'.1 a hm), fun hm => Nat.lt_irrefl _ (hb'.1 a hm)⟩

theorem length_eq_card_of_sorted {a : List Nat} (ha : a.Pairwise (· < ·)) :
    a.length = a.toFinset.card :=
  (List.toFinset_card_of_nodup (ha.imp (fun h => Nat.ne_of_lt h))).symm

/-- `|A ∆ B| + |A| + |B| = 2 |A ∪ B|`. -/
theorem card_symmDiff_add (A B : Finset Nat) :
    (symmDiff A B).card + A.card + B.card = 2 * (A ∪ B).card := by
  have h1 : symmDiff A B = (A ∪ B) \ (A ∩ B) := by
    ext x; simp only [Finset.mem_symmDiff, Finset.mem_sdiff, Finset.mem_union, Finset.mem_inter]
    tauto
  have h2 : (A ∩ B) ⊆ (A ∪ B) := fun x hx =>
    Finset.mem_union_left _ (Finset.mem_inter.mp hx).1
  have h3 := Finset.card_sdiff_add_card_eq_card h2
  have h4 := Finset.card_union_add_card_inter A B
  rw [h1]; omega

end GambitV
