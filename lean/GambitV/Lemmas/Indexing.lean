import GambitV.Model.Indexing

/-! Helper lemmas for `Props/C20` (advanced indexing, concatenated storage). Core Lean only. -/
namespace GambitV

/-! ### `checkIndex` -/

/-- The wrapped position of a (possibly negative) Python index. -/
def wrapIdx (n : Nat) (i : Int) : Nat := (if i < 0 then i + n else i).toNat

theorem checkIndex_ok_iff' (n : Nat) (i : Int) (j : Nat) :
    checkIndex n i = .ok j ↔
      (0 ≤ i ∧ i < n ∧ (j : Int) = i) ∨ (i < 0 ∧ 0 ≤ i + n ∧ (j : Int) = i + n) := by
  unfold checkIndex
  simp only []
  by_cases hi : i < 0
  · rw [if_pos hi]
    by_cases h : 0 ≤ i + (n : Int) ∧ i + (n : Int) < n
    · rw [if_pos h]
      simp only [Except.ok.injEq]
      omega
    · rw [if_neg h]
      simp only [reduceCtorEq, false_iff]
      omega
  · rw [if_neg hi]
    by_cases h : 0 ≤ i ∧ i < n
    · rw [if_pos h]
      simp only [Except.ok.injEq]
      omega
    · rw [if_neg h]
      simp only [reduceCtorEq, false_iff]
      omega

theorem checkIndex_error' (n : Nat) (i : Int) (e : IdxErr) :
    checkIndex n i = .error e → e = .indexError ∧ (i ≥ n ∨ i < -(n : Int)) := by
  unfold checkIndex
  simp only []
  by_cases hi : i < 0
  · simp only [hi, if_true]
    by_cases h : 0 ≤ i + (n : Int) ∧ i + (n : Int) < n
    · rw [if_pos h]; intro h'; cases h'
    · rw [if_neg h]; intro h'; cases h'
      refine ⟨rfl, ?_⟩; omega
  · simp only [hi, if_false]
    by_cases h : 0 ≤ i ∧ i < n
    · rw [if_pos h]; intro h'; cases h'
    · rw [if_neg h]; intro h'; cases h'
      refine ⟨rfl, ?_⟩; omega

theorem checkIndex_in_range (n : Nat) (i : Int) (h1 : -(n : Int) ≤ i) (h2 : i < n) :
    checkIndex n i = .ok (wrapIdx n i) := by
  rw [checkIndex_ok_iff']
  unfold wrapIdx
  by_cases hi : i < 0
  · rw [if_pos hi]; omega
  · rw [if_neg hi]; omega

theorem checkIndex_out_of_range (n : Nat) (i : Int) (h : i < -(n : Int) ∨ i ≥ n) :
    checkIndex n i = .error .indexError := by
  cases hc : checkIndex n i with
  | error e => rw [(checkIndex_error' n i e hc).1]
  | ok j => have := (checkIndex_ok_iff' n i j).1 hc; omega

theorem wrapIdx_lt (n : Nat) (i : Int) (h1 : -(n : Int) ≤ i) (h2 : i < n) : wrapIdx n i < n := by
  unfold wrapIdx
  by_cases hi : i < 0
  · rw [if_pos hi]; omega
  · rw [if_neg hi]; omega

theorem wrapIdx_nonneg (n : Nat) (i : Int) (h : 0 ≤ i) : wrapIdx n i = i.toNat := by
  unfold wrapIdx
  rw [if_neg (by omega)]

/-! ### `normIndices` -/

theorem normIndices_nil (n : Nat) : normIndices n [] = .ok [] := rfl

theorem normIndices_cons (n : Nat) (i : Int) (l : List Int) :
    normIndices n (i :: l) =
      (checkIndex n i >>= fun j => normIndices n l >>= fun js => pure (j :: js)) := by
  unfold normIndices
  rw [List.mapM_cons]

theorem normIndices_ok (n : Nat) (l : List Int) (h : ∀ i ∈ l, -(n : Int) ≤ i ∧ i < n) :
    normIndices n l = .ok (l.map (wrapIdx n)) := by
  induction l with
  | nil => rfl
  | cons i l ih =>
    rw [normIndices_cons, checkIndex_in_range n i (h i (by simp)).1 (h i (by simp)).2,
      ih (fun k hk => h k (by simp [hk]))]
    rfl

theorem normIndices_error (n : Nat) (l : List Int) (h : ∃ i ∈ l, i < -(n : Int) ∨ i ≥ n) :
    normIndices n l = .error .indexError := by
  induction l with
  | nil => obtain ⟨i, hi, _⟩ := h; cases hi
  | cons i l ih =>
    rw [normIndices_cons]
    by_cases hi : i < -(n : Int) ∨ i ≥ n
    · rw [checkIndex_out_of_range n i hi]; rfl
    · rw [checkIndex_in_range n i (by omega) (by omega)]
      have : ∃ k ∈ l, k < -(n : Int) ∨ k ≥ n := by
        obtain ⟨k, hk, hk'⟩ := h
        rcases List.mem_cons.1 hk with rfl | hk
        · exact absurd hk' hi
        · exact ⟨k, hk, hk'⟩
      rw [ih this]; rfl

/-- Whatever `normIndices` returns is in range. -/
theorem normIndices_lt (n : Nat) (l : List Int) (js : List Nat) (h : normIndices n l = .ok js) :
    ∀ j ∈ js, j < n := by
  induction l generalizing js with
  | nil => cases h; intro j hj; cases hj
  | cons i l ih =>
    rw [normIndices_cons] at h
    cases hc : checkIndex n i with
    | error e => rw [hc] at h; cases h
    | ok j0 =>
      rw [hc] at h
      cases hn : normIndices n l with
      | error e => rw [hn] at h; cases h
      | ok js0 =>
        rw [hn] at h
        cases h
        intro j hj
        rcases List.mem_cons.1 hj with rfl | hj
        · have := (checkIndex_ok_iff' n i j).1 hc; omega
        · exact ih js0 hn j hj

/-! ### `sliceIndices` -/

theorem adjustBound_pos (n : Nat) (st b : Int) (h : st > 0) :
    0 ≤ adjustBound n st b ∧ adjustBound n st b ≤ n := by
  unfold adjustBound
  simp only []
  have hs : ¬ st < 0 := by omega
  simp only [hs, if_false]
  split
  · split <;> omega
  · split <;> omega

theorem adjustBound_neg (n : Nat) (st b : Int) (h : st < 0) :
    -1 ≤ adjustBound n st b ∧ adjustBound n st b ≤ (n : Int) - 1 := by
  unfold adjustBound
  simp only [h, if_true]
  split
  · split <;> omega
  · split <;> omega

theorem sliceIndices_bounds' (n : Nat) (a b c : Option Int) (hc : c ≠ some 0) :
    (sliceIndices n a b c).2.2 ≠ 0 ∧
    ((sliceIndices n a b c).2.2 > 0 →
      0 ≤ (sliceIndices n a b c).1 ∧ (sliceIndices n a b c).1 ≤ n ∧
      0 ≤ (sliceIndices n a b c).2.1 ∧ (sliceIndices n a b c).2.1 ≤ n) ∧
    ((sliceIndices n a b c).2.2 < 0 →
      -1 ≤ (sliceIndices n a b c).1 ∧ (sliceIndices n a b c).1 ≤ (n : Int) - 1 ∧
      -1 ≤ (sliceIndices n a b c).2.1 ∧ (sliceIndices n a b c).2.1 ≤ (n : Int) - 1) := by
  have hst : c.getD 1 ≠ 0 := by
    cases c with
    | none => simp
    | some v => simpa using hc
  unfold sliceIndices
  simp only []
  refine ⟨hst, ?_, ?_⟩
  · intro hp
    have hn : ¬ c.getD 1 < 0 := by omega
    have := fun v => adjustBound_pos n (c.getD 1) v hp
    cases a with
    | none => cases b with
      | none => simp only [hn, if_false]; omega
      | some y => have := this y; simp only [hn, if_false]; omega
    | some x => cases b with
      | none => have := this x; simp only [hn, if_false]; omega
      | some y => have h1 := this x; have h2 := this y; simp only []; omega
  · intro hp
    have := fun v => adjustBound_neg n (c.getD 1) v hp
    cases a with
    | none => cases b with
      | none => simp only [hp, if_true]; omega
      | some y => have := this y; simp only [hp, if_true]; omega
    | some x => cases b with
      | none => have := this x; simp only [hp, if_true]; omega
      | some y => have h1 := this x; have h2 := this y; simp only []; omega

/-! ### `rangeLen`, `arange` -/

theorem lt_rangeLen_iff (s e st : Int) (hst : st ≠ 0) (t : Nat) :
    t < rangeLen s e st ↔ (st > 0 → s + t * st < e) ∧ (st < 0 → e < s + t * st) := by
  unfold rangeLen
  by_cases hp : st > 0
  · rw [if_pos hp]
    have hn : ¬ st < 0 := by omega
    have hmul : 0 ≤ (t : Int) * st := Int.mul_nonneg (by omega) (by omega)
    by_cases hse : s < e
    · rw [if_pos hse]
      have hq : 0 ≤ (e - s - 1) / st := Int.ediv_nonneg (by omega) (by omega)
      have key : (t : Int) ≤ (e - s - 1) / st ↔ (t : Int) * st ≤ e - s - 1 :=
        Int.le_ediv_iff_mul_le hp
      constructor
      · intro h
        have : (t : Int) * st ≤ e - s - 1 := key.1 (by omega)
        exact ⟨fun _ => by omega, fun h' => absurd h' hn⟩
      · intro h
        have := key.2 (by have := h.1 hp; omega)
        omega
    · rw [if_neg hse]
      constructor
      · intro h; omega
      · intro h; have := h.1 hp; omega
  · rw [if_neg hp]
    have hn : st < 0 := by omega
    rw [if_pos hn]
    have hmul : 0 ≤ (t : Int) * (-st) := Int.mul_nonneg (by omega) (by omega)
    have hneg : (t : Int) * (-st) = -((t : Int) * st) := Int.mul_neg _ _
    by_cases hse : e < s
    · rw [if_pos hse]
      have hq : 0 ≤ (s - e - 1) / (-st) := Int.ediv_nonneg (by omega) (by omega)
      have key : (t : Int) ≤ (s - e - 1) / (-st) ↔ (t : Int) * (-st) ≤ s - e - 1 :=
        Int.le_ediv_iff_mul_le (by omega)
      constructor
      · intro h
        have : (t : Int) * (-st) ≤ s - e - 1 := key.1 (by omega)
        exact ⟨fun h' => absurd h' hp, fun _ => by omega⟩
      · intro h
        have := key.2 (by have := h.2 hn; omega)
        omega
    · rw [if_neg hse]
      constructor
      · intro h; omega
      · intro h; have := h.2 hn; omega

theorem arange_mem' (s e st : Int) (hst : st ≠ 0) (x : Int) :
    x ∈ arange s e st ↔
      ∃ t : Nat, x = s + t * st ∧ (st > 0 → x < e) ∧ (st < 0 → e < x) := by
  unfold arange
  rw [List.mem_map]
  constructor
  · rintro ⟨t, ht, rfl⟩
    rw [List.mem_range, lt_rangeLen_iff s e st hst] at ht
    exact ⟨t, rfl, ht⟩
  · rintro ⟨t, rfl, ht⟩
    refine ⟨t, ?_, rfl⟩
    rw [List.mem_range, lt_rangeLen_iff s e st hst]
    exact ht

theorem pairwise_range_map_lt (f : Nat → Int) (n : Nat) (h : ∀ a b : Nat, a < b → f a < f b) :
    ((List.range n).map f).Pairwise (· < ·) := by
  rw [List.pairwise_map]
  exact List.Pairwise.imp (fun {a b} hab => h a b hab) List.pairwise_lt_range

theorem pairwise_range_map_gt (f : Nat → Int) (n : Nat) (h : ∀ a b : Nat, a < b → f b < f a) :
    ((List.range n).map f).Pairwise (· > ·) := by
  rw [List.pairwise_map]
  exact List.Pairwise.imp (fun {a b} hab => h a b hab) List.pairwise_lt_range

theorem arange_pairwise_pos (s e st : Int) (h : st > 0) : (arange s e st).Pairwise (· < ·) := by
  unfold arange
  apply pairwise_range_map_lt
  intro a b hab
  have : (a : Int) * st < (b : Int) * st := Int.mul_lt_mul_of_pos_right (by omega) h
  omega

theorem arange_pairwise_neg (s e st : Int) (h : st < 0) : (arange s e st).Pairwise (· > ·) := by
  unfold arange
  apply pairwise_range_map_gt
  intro a b hab
  have : (a : Int) * (-st) < (b : Int) * (-st) := Int.mul_lt_mul_of_pos_right (by omega) (by omega)
  rw [Int.mul_neg, Int.mul_neg] at this
  omega

/-- With unit step, `arange` is the contiguous run `s, s+1, …, e-1`. -/
theorem arange_one (s e : Int) :
    arange s e 1 = (List.range (e - s).toNat).map (fun (t : Nat) => s + (t : Int)) := by
  unfold arange rangeLen
  have : (if (1 : Int) > 0 then (if s < e then ((e - s - 1) / 1 + 1).toNat else 0) else
      if (1 : Int) < 0 then (if e < s then ((s - e - 1) / (-1) + 1).toNat else 0) else 0) =
      (e - s).toNat := by
    rw [if_pos (by decide), Int.ediv_one]
    split <;> omega
  rw [this]
  apply List.map_congr_left
  intro t _
  rw [Int.mul_one]

/-! ### `flatnonzero` -/

theorem flatnonzero_cons (b : Bool) (m : List Bool) :
    flatnonzero (b :: m) = (if b then [0] else []) ++ (flatnonzero m).map (· + 1) := by
  unfold flatnonzero
  rw [List.length_cons, List.range_succ_eq_map, List.filter_cons, List.filter_map]
  have : ((fun i => (b :: m).getD i false) ∘ Nat.succ) = (fun i => m.getD i false) := by
    funext i; simp
  rw [this]
  cases b <;> simp

theorem flatnonzero_map_getD {α : Type} (d : α) (m : List Bool) (xs : List α)
    (h : m.length = xs.length) :
    (flatnonzero m).map (fun j => xs.getD j d) = ((xs.zip m).filter (·.2)).map (·.1) := by
  induction m generalizing xs with
  | nil =>
    cases xs with
    | nil => rfl
    | cons x xs => cases h
  | cons b m ih =>
    cases xs with
    | nil => cases h
    | cons x xs =>
      have h' : m.length = xs.length := by simpa using h
      rw [flatnonzero_cons, List.map_append, List.map_map]
      have : ((fun j => (x :: xs).getD j d) ∘ fun x => x + 1) = fun j => xs.getD j d := by
        funext j; simp
      rw [this, ih xs h']
      cases b <;> simp

theorem flatnonzero_lt (m : List Bool) : ∀ j ∈ flatnonzero m, j < m.length := by
  intro j hj
  unfold flatnonzero at hj
  exact List.mem_range.1 (List.mem_filter.1 hj).1

/-! ### Cumulative bounds (`Concat.ofList`) -/

/-- Running totals `b + |s₀|, b + |s₀| + |s₁|, …` (the tail of the `bounds` array). -/
def prefixSums (b : Nat) : List (List Nat) → List Nat
  | [] => []
  | s :: r => (b + s.length) :: prefixSums (b + s.length) r

theorem foldl_bounds (acc : List Nat) (sigs : List (List Nat)) :
    sigs.foldl (fun acc s => acc ++ [acc.getLastD 0 + s.length]) acc =
      acc ++ prefixSums (acc.getLastD 0) sigs := by
  induction sigs generalizing acc with
  | nil => simp [prefixSums]
  | cons s r ih =>
    rw [List.foldl_cons, ih]
    simp [prefixSums]

theorem ofList_bounds (sigs : List (List Nat)) :
    (Concat.ofList sigs).bounds = 0 :: prefixSums 0 sigs := by
  unfold Concat.ofList
  simp only []
  rw [foldl_bounds]
  rfl

theorem length_prefixSums (b : Nat) (sigs : List (List Nat)) :
    (prefixSums b sigs).length = sigs.length := by
  induction sigs generalizing b with
  | nil => rfl
  | cons s r ih => simp [prefixSums, ih]

theorem ofList_bounds_length (sigs : List (List Nat)) :
    (Concat.ofList sigs).bounds.length = sigs.length + 1 := by
  rw [ofList_bounds, List.length_cons, length_prefixSums]

theorem ofList_len' (sigs : List (List Nat)) : (Concat.ofList sigs).len = sigs.length := by
  unfold Concat.len
  rw [ofList_bounds_length]; rfl

/-- Closed form of the cumulative bounds: entry `i` is the total length of the first `i`
signatures. -/
theorem prefixSums_getD (b : Nat) (sigs : List (List Nat)) (i : Nat) (h : i ≤ sigs.length) :
    (b :: prefixSums b sigs).getD i 0 = b + (sigs.take i).flatten.length := by
  induction sigs generalizing b i with
  | nil =>
    have : i = 0 := by simpa using h
    subst this; simp
  | cons s r ih =>
    cases i with
    | zero => simp
    | succ i =>
      have h' : i ≤ r.length := by simpa using h
      rw [prefixSums, List.getD_cons_succ, ih _ _ h']
      simp [Nat.add_assoc]

theorem prefixSums_getD_gt (b : Nat) (sigs : List (List Nat)) (i : Nat) (h : sigs.length < i) :
    (b :: prefixSums b sigs).getD i 0 = 0 := by
  rw [List.getD_eq_getElem?_getD, List.getElem?_eq_none]
  · rfl
  · rw [List.length_cons, length_prefixSums]; omega

theorem get_prefixSums (pre : List Nat) (b : Nat) (hb : pre.length = b) (sigs : List (List Nat))
    (i : Nat) :
    ((pre ++ sigs.flatten).drop ((b :: prefixSums b sigs).getD i 0)).take
        ((b :: prefixSums b sigs).getD (i + 1) 0 - (b :: prefixSums b sigs).getD i 0) =
      sigs.getD i [] := by
  induction sigs generalizing pre b i with
  | nil =>
    cases i <;> simp [prefixSums]
  | cons s r ih =>
    cases i with
    | zero =>
      subst hb
      simp [prefixSums]
    | succ i =>
      rw [prefixSums, List.getD_cons_succ, List.getD_cons_succ, List.getD_cons_succ,
        List.flatten_cons, ← List.append_assoc]
      exact ih (pre ++ s) (b + s.length) (by simp [hb]) i

/-- Reading signature `i` back from the cumulative representation (out-of-range positions read
as the empty signature on both sides). -/
theorem ofList_get' (sigs : List (List Nat)) (i : Nat) :
    (Concat.ofList sigs).get i = sigs.getD i [] := by
  unfold Concat.get
  rw [ofList_bounds]
  have := get_prefixSums [] 0 rfl sigs i
  simpa [Concat.ofList] using this

theorem range_map_getD {α : Type} (l : List α) (d : α) :
    (List.range l.length).map (fun i => l.getD i d) = l := by
  apply List.ext_getElem
  · simp
  · intro i h1 h2
    simp [List.getElem?_eq_getElem h2]

theorem ofList_toList' (sigs : List (List Nat)) : (Concat.ofList sigs).toList = sigs := by
  unfold Concat.toList
  rw [ofList_len']
  have : (Concat.ofList sigs).get = fun i => sigs.getD i [] := funext (ofList_get' sigs)
  rw [this, range_map_getD]

theorem gather_toList (c : Concat) (js : List Nat) : (c.gather js).toList = js.map c.get := by
  unfold Concat.gather
  rw [ofList_toList']

/-! ### Well-formedness and the contiguous view -/

/-- Well-formed concatenated storage: `bounds` is non-empty and monotone (it may start anywhere,
as it does for a view), and its last entry does not exceed the number of stored values. -/
structure Concat.WF (c : Concat) : Prop where
  ne : c.bounds ≠ []
  mono : ∀ i, i + 1 < c.bounds.length → c.bounds.getD i 0 ≤ c.bounds.getD (i + 1) 0
  last_le : c.bounds.getLastD 0 ≤ c.values.length

theorem Concat.WF.mono_le {c : Concat} (wf : c.WF) (i j : Nat) (hij : i ≤ j)
    (hj : j < c.bounds.length) : c.bounds.getD i 0 ≤ c.bounds.getD j 0 := by
  induction j with
  | zero => have : i = 0 := by omega
            subst this; exact Nat.le_refl _
  | succ j ih =>
    by_cases h : i = j + 1
    · subst h; exact Nat.le_refl _
    · exact Nat.le_trans (ih (by omega) (by omega)) (wf.mono j hj)

theorem window_eq {α : Type} (v : List α) (b0 p q bS : Nat) (h1 : b0 ≤ p) (h2 : p ≤ q)
    (h3 : q ≤ bS) :
    (((v.drop b0).take (bS - b0)).drop (p - b0)).take ((q - b0) - (p - b0)) =
      (v.drop p).take (q - p) := by
  rw [List.drop_take, List.drop_drop, List.take_take]
  have e1 : b0 + (p - b0) = p := by omega
  have e2 : min (q - b0 - (p - b0)) (bS - b0 - (p - b0)) = q - p := by omega
  rw [e1, e2]

theorem sliceView_bounds_length (c : Concat) (start stop : Nat) (h1 : start ≤ stop)
    (h2 : stop < c.bounds.length) : (c.sliceView start stop).bounds.length = stop + 1 - start := by
  unfold Concat.sliceView
  simp only [List.length_map, List.length_take, List.length_drop]
  omega

theorem sliceView_len (c : Concat) (start stop : Nat) (h1 : start ≤ stop)
    (h2 : stop < c.bounds.length) : (c.sliceView start stop).len = stop - start := by
  unfold Concat.len
  rw [sliceView_bounds_length c start stop h1 h2]; omega

theorem sliceView_bounds_getD (c : Concat) (start stop t : Nat) (h1 : start + t ≤ stop)
    (h2 : stop < c.bounds.length) :
    (c.sliceView start stop).bounds.getD t 0 = c.bounds.getD (start + t) 0 - c.bounds.getD start 0 := by
  unfold Concat.sliceView
  simp only [List.getD_eq_getElem?_getD, List.getElem?_map, List.getElem?_take,
    List.getElem?_drop]
  rw [if_pos (by omega)]
  have : start + t < c.bounds.length := by omega
  rw [List.getElem?_eq_getElem this]
  rfl

theorem sliceView_get (c : Concat) (wf : c.WF) (start stop t : Nat) (h1 : start + t < stop)
    (h2 : stop < c.bounds.length) :
    (c.sliceView start stop).get t = c.get (start + t) := by
  unfold Concat.get
  rw [sliceView_bounds_getD c start stop t (by omega) h2,
    sliceView_bounds_getD c start stop (t + 1) (by omega) h2]
  have m1 := wf.mono_le start (start + t) (by omega) (by omega)
  have m2 := wf.mono (start + t) (by omega)
  have m3 := wf.mono_le (start + t + 1) stop (by omega) h2
  rw [← Nat.add_assoc]
  exact window_eq c.values _ _ _ _ m1 m2 m3

/-- The fast-path view denotes the contiguous run of signatures `start, …, stop-1`. -/
theorem sliceView_toList (c : Concat) (wf : c.WF) (start stop : Nat) (h1 : start ≤ stop)
    (h2 : stop ≤ c.len) :
    (c.sliceView start stop).toList = (List.range (stop - start)).map (fun t => c.get (start + t)) := by
  have hne := wf.ne
  have hlen : 0 < c.bounds.length := List.length_pos_iff.2 hne
  have h2' : stop < c.bounds.length := by unfold Concat.len at h2; omega
  unfold Concat.toList
  rw [sliceView_len c start stop h1 h2']
  apply List.map_congr_left
  intro t ht
  exact sliceView_get c wf start stop t (by have := List.mem_range.1 ht; omega) h2'


theorem prefixSums_mono (b : Nat) (sigs : List (List Nat)) (i : Nat) (h : i < sigs.length) :
    (b :: prefixSums b sigs).getD i 0 ≤ (b :: prefixSums b sigs).getD (i + 1) 0 := by
  induction sigs generalizing b i with
  | nil => cases h
  | cons s r ih =>
    cases i with
    | zero => simp [prefixSums]
    | succ i =>
      rw [prefixSums, List.getD_cons_succ, List.getD_cons_succ]
      exact ih _ i (by simpa using h)

theorem prefixSums_getLastD (b : Nat) (sigs : List (List Nat)) :
    (b :: prefixSums b sigs).getLastD 0 = b + sigs.flatten.length := by
  induction sigs generalizing b with
  | nil => simp [prefixSums]
  | cons s r ih =>
    have ih' := ih (b + s.length)
    rw [List.getLastD_cons] at ih'
    rw [prefixSums, List.getLastD_cons, List.getLastD_cons, ih']
    simp [Nat.add_assoc]

theorem ofList_wf (sigs : List (List Nat)) : (Concat.ofList sigs).WF := by
  refine ⟨?_, ?_, ?_⟩
  · rw [ofList_bounds]; exact List.cons_ne_nil _ _
  · intro i hi
    rw [ofList_bounds_length] at hi
    rw [ofList_bounds]
    exact prefixSums_mono 0 sigs i (by omega)
  · rw [ofList_bounds, prefixSums_getLastD]
    simp [Concat.ofList]

/-- The fast-path view of a cumulative representation selects the contiguous run. -/
theorem ofList_sliceView_toList (sigs : List (List Nat)) (start stop : Nat) (h1 : start ≤ stop)
    (h2 : stop ≤ sigs.length) :
    ((Concat.ofList sigs).sliceView start stop).toList =
      (List.range (stop - start)).map (fun t => sigs.getD (start + t) []) := by
  rw [sliceView_toList _ (ofList_wf sigs) start stop h1 (by rw [ofList_len']; exact h2)]
  apply List.map_congr_left
  intro t _
  exact ofList_get' sigs (start + t)

/-- A view of a well-formed array is well-formed. -/
theorem sliceView_wf (c : Concat) (wf : c.WF) (start stop : Nat) (h1 : start ≤ stop)
    (h2 : stop ≤ c.len) : (c.sliceView start stop).WF := by
  have hlen : 0 < c.bounds.length := List.length_pos_iff.2 wf.ne
  have h2' : stop < c.bounds.length := by unfold Concat.len at h2; omega
  have hbl := sliceView_bounds_length c start stop h1 h2'
  refine ⟨?_, ?_, ?_⟩
  · intro h; rw [h] at hbl; simp at hbl; omega
  · intro i hi
    rw [hbl] at hi
    rw [sliceView_bounds_getD c start stop i (by omega) h2',
      sliceView_bounds_getD c start stop (i + 1) (by omega) h2']
    have := wf.mono (start + i) (by omega)
    rw [← Nat.add_assoc]
    omega
  · have hl : ∀ l : List Nat, l.getLastD 0 = l.getD (l.length - 1) 0 := by
      intro l
      rw [List.getLastD_eq_getLast?, List.getLast?_eq_getElem?, List.getD_eq_getElem?_getD]
    rw [hl, hbl, sliceView_bounds_getD c start stop (stop + 1 - start - 1) (by omega) h2']
    have e : start + (stop + 1 - start - 1) = stop := by omega
    rw [e]
    have m1 := wf.mono_le stop (c.bounds.length - 1) (by omega) (by omega)
    have m2 := wf.last_le
    rw [hl] at m2
    unfold Concat.sliceView
    simp only [List.length_take, List.length_drop]
    omega

/-! ### Mutation -/

theorem insertIdx_eq_take_drop {α : Type} (l : List α) (i : Nat) (x : α) (h : i ≤ l.length) :
    l.insertIdx i x = l.take i ++ [x] ++ l.drop i := by
  induction l generalizing i with
  | nil => have : i = 0 := by simpa using h
           subst this; simp
  | cons a l ih =>
    cases i with
    | zero => simp
    | succ i => simp [List.insertIdx_succ_cons, ih i (by simpa using h)]

theorem pyInsertPos_le (n : Nat) (i : Int) : pyInsertPos n i ≤ n := by
  unfold pyInsertPos
  split <;> split <;> omega

end GambitV
