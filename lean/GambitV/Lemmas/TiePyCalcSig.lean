import GambitV.Model.PyRt
import GambitV.Model.Find
import GambitV.Lemmas.PyRt
import GambitV.Lemmas.Find
import GambitV.Props.C07

/-!
Helper lemmas for `Tie/PyCalcSig.lean` (`KmerMatch.kmer_index`, `accumulate_kmers`, `calc_signature`).  Core Lean only.
Nothing here mentions a generated definition: a loop rule for bodies that fall through or `continue`, facts about the
accumulator of the run-time library, and the facts about the model (`Model/Find.lean`) the array accumulator needs
(an index obtained from a slice of at most `k` bytes is below `4^k`; reverse matches are at positions `≥ k`).
-/
namespace GambitV.TieCalcSig
open GambitV GambitV.Py

/-! ### loop rule -/

/-- A `for` loop whose body, on every element of the list and from every state satisfying the invariant `I`, either falls through
or `continue`s, and changes the observed component `obs` by `upd · i` when `g x = some i` and not at all when `g x = none`: the loop
runs to completion and the observed component is the left fold of `upd` over `xs.filterMap g`.
The loop is passed as an equation so that the body is found by unification. -/
theorem forEach_filterMap_sim {α σ ρ β γ : Type} {xs : List α} {body : α → σ → M σ ρ σ} {s : σ} {w : M σ ρ (σ × Bool)}
    (hw : forEach xs body s = w) (obs : σ → β) (I : σ → Prop) (g : α → Option γ) (upd : β → γ → β)
    (hnone : ∀ x ∈ xs, ∀ s, I s → g x = none →
      ∃ s', (body x s = .ok s' ∨ body x s = .error (.cont s')) ∧ I s' ∧ obs s' = obs s)
    (hsome : ∀ x ∈ xs, ∀ s i, I s → g x = some i →
      ∃ s', (body x s = .ok s' ∨ body x s = .error (.cont s')) ∧ I s' ∧ obs s' = upd (obs s) i)
    (hs : I s) :
    ∃ r, w = .ok (r, true) ∧ I r ∧ obs r = (xs.filterMap g).foldl upd (obs s) := by
  subst hw
  induction xs generalizing s with
  | nil => exact ⟨s, rfl, hs, rfl⟩
  | cons x xs ih =>
    have hn' : ∀ y ∈ xs, ∀ s, I s → g y = none →
        ∃ s', (body y s = .ok s' ∨ body y s = .error (.cont s')) ∧ I s' ∧ obs s' = obs s :=
      fun y hy => hnone y (List.mem_cons_of_mem _ hy)
    have hs' : ∀ y ∈ xs, ∀ s i, I s → g y = some i →
        ∃ s', (body y s = .ok s' ∨ body y s = .error (.cont s')) ∧ I s' ∧ obs s' = upd (obs s) i :=
      fun y hy => hsome y (List.mem_cons_of_mem _ hy)
    cases hg : g x with
    | none =>
      obtain ⟨s', hb, hI, ho⟩ := hnone x (List.mem_cons_self ..) s hs hg
      obtain ⟨r, hr, hIr, hor⟩ := ih hn' hs' hI
      refine ⟨r, ?_, hIr, ?_⟩
      · rw [forEach_cons]
        rcases hb with hb | hb <;> rw [hb] <;> exact hr
      · rw [hor, ho, List.filterMap_cons_none hg]
    | some i =>
      obtain ⟨s', hb, hI, ho⟩ := hsome x (List.mem_cons_self ..) s i hs hg
      obtain ⟨r, hr, hIr, hor⟩ := ih hn' hs' hI
      refine ⟨r, ?_, hIr, ?_⟩
      · rw [forEach_cons]
        rcases hb with hb | hb <;> rw [hb] <;> exact hr
      · rw [hor, ho, List.filterMap_cons_some hg, List.foldl_cons]

/-- `tryExcept` around a computation that succeeds, or raises the handled class -/
theorem tryExcept_ok {σ ρ α : Type} (a : α) (e : Exc) (h : M σ ρ α) : tryExcept (.ok a) e h = .ok a := rfl
theorem tryExcept_same {σ ρ α : Type} (e : Exc) (h : M σ ρ α) : tryExcept (.error (.exc e)) e h = h := by
  unfold tryExcept Exc.catches
  simp only [beq_self_eq_true, Bool.true_or, if_true]

/-! ### the accumulator -/

/-- a natural number below `4^k` is accepted by both flavours of accumulator of that `k` -/
theorem addBad_false (a : Acc) (i : Nat) (h : i < 4 ^ a.k) : Acc.addBad a (i : Int) = false := by
  unfold Acc.addBad
  have h1 : ¬ ((i : Int) < 0) := by omega
  have h2 : ¬ ((4 : Int) ^ a.k ≤ (i : Int)) := by
    have : ((4 ^ a.k : Nat) : Int) = (4 : Int) ^ a.k := by simp only [Int.natCast_pow, Int.cast_ofNat_Int]
    rw [← this]
    omega
  simp only [h1, h2, decide_false, Bool.and_false, Bool.or_false]

theorem add_natCast (a : Acc) (i : Nat) : Acc.add a (i : Int) = { a with elems := a.elems ++ [i] } := by
  unfold Acc.add
  rw [Int.toNat_natCast]

/-- adding the elements of a list one after the other appends the list -/
theorem foldl_add (l : List Nat) (a : Acc) :
    l.foldl (fun (a : Acc) (i : Nat) => ({ a with elems := a.elems ++ [i] } : Acc)) a = { a with elems := a.elems ++ l } := by
  induction l generalizing a with
  | nil => simp only [List.foldl_nil, List.append_nil]
  | cons x xs ih => rw [List.foldl_cons, ih]; simp only [List.append_assoc, List.singleton_append]

theorem foldl_append_elems (f : List UInt8 → List Nat) (seqs : List (List UInt8)) (a : Acc) :
    seqs.foldl (fun (a : Acc) (s : List UInt8) => ({ a with elems := a.elems ++ f s } : Acc)) a
      = { a with elems := a.elems ++ seqs.flatMap f } := by
  induction seqs generalizing a with
  | nil => simp only [List.foldl_nil, List.flatMap_nil, List.append_nil]
  | cons x xs ih => rw [List.foldl_cons, ih]; simp only [List.flatMap_cons, List.append_assoc]

/-! ### the model: bounds of the indices, positions of the reverse matches -/

theorem pySlice_length_le (s : List UInt8) (a b : Nat) : (pySlice s a b).length ≤ b - a := by
  unfold pySlice
  rw [List.length_take]
  exact Nat.min_le_left _ _

theorem fwdKmer_length_le (k p : Nat) (s : List UInt8) (loc : Nat) : (fwdKmer k p s loc).length ≤ k := by
  have := pySlice_length_le s (loc + p) (loc + p + k)
  unfold fwdKmer
  omega

theorem revKmer_length_le (k : Nat) (s : List UInt8) (loc : Nat) : (revKmer k s loc).length ≤ k := by
  have := pySlice_length_le s (loc - k) loc
  unfold revKmer
  omega

/-- an index the forward wrapper returns for a slice of at most `k` bytes is below `4^k` -/
theorem kmerToIndex_lt (w : List UInt8) (i k : Nat) (hw : w.length ≤ k) (h : kmerToIndex w = .ok i) : i < 4 ^ k := by
  unfold kmerToIndex at h
  split at h
  · cases h
  · cases he : encode w with
    | none => rw [he] at h; cases h
    | some j =>
      rw [he] at h
      injection h with h
      subst h
      exact Nat.lt_of_lt_of_le (C07.encode_lt w j he) (Nat.pow_le_pow_right (by decide) hw)

theorem kmerToIndexRc_lt (w : List UInt8) (i k : Nat) (hw : w.length ≤ k) (h : kmerToIndexRc w = .ok i) : i < 4 ^ k := by
  unfold kmerToIndexRc at h
  split at h
  · cases h
  · cases he : encodeRc w with
    | none => rw [he] at h; cases h
    | some j =>
      rw [he] at h
      injection h with h
      subst h
      rw [C07.encodeRc_eq] at he
      have := C07.encode_lt _ j he
      rw [C07.revcomp_length] at this
      exact Nat.lt_of_lt_of_le this (Nat.pow_le_pow_right (by decide) hw)

/-- the reverse search starts at offset `k` -/
theorem le_of_mem_revMatches (k : Nat) (pre hay : List UInt8) (loc : Nat) (h : loc ∈ revMatches k pre hay) : k ≤ loc := by
  rw [revMatches_eq, List.mem_filter, List.mem_range'_1] at h
  exact h.1.1

/-! ### the matches `find_kmers` yields, and the index of each -/

/-- the list `find_kmers` returns (by `Tie.Py.find_kmers_eq'`) -/
def matchList (k : Nat) (pre s : List UInt8) : List (Int × Bool) :=
  (fwdMatches k pre (haystack s)).map (fun (l : Nat) => ((l : Int), false))
    ++ (revMatches k pre (haystack s)).map (fun (l : Nat) => ((l : Int) + (pre.length : Int) - 1, true))

/-- the index `accumulate_kmers` adds for a match (`none`: the wrapper raises `ValueError`, the match is skipped) -/
def matchIndex (k : Nat) (pre s : List UInt8) (m : Int × Bool) : Option Nat :=
  if m.2 then (kmerToIndexRc (revKmer k s (m.1 - (pre.length : Int) + 1).toNat)).toOption
  else (kmerToIndex (fwdKmer k pre.length s m.1.toNat)).toOption

theorem matchIndex_fwd (k : Nat) (pre s : List UInt8) (l : Nat) :
    matchIndex k pre s ((l : Int), false) = (kmerToIndex (fwdKmer k pre.length s l)).toOption := by
  simp only [matchIndex, Bool.false_eq_true, if_false, Int.toNat_natCast]

theorem matchIndex_rev (k : Nat) (pre s : List UInt8) (l : Nat) :
    matchIndex k pre s ((l : Int) + (pre.length : Int) - 1, true) = (kmerToIndexRc (revKmer k s l)).toOption := by
  have : ((l : Int) + (pre.length : Int) - 1 - (pre.length : Int) + 1).toNat = l := by omega
  simp only [matchIndex, if_true, this]

theorem filterMap_matchList (k : Nat) (pre s : List UInt8) :
    (matchList k pre s).filterMap (matchIndex k pre s) = seqIndices k pre s := by
  have h1 : (matchIndex k pre s ∘ fun (l : Nat) => ((l : Int), false))
      = fun loc => (kmerToIndex (fwdKmer k pre.length s loc)).toOption := by
    funext l; exact matchIndex_fwd k pre s l
  have h2 : (matchIndex k pre s ∘ fun (l : Nat) => ((l : Int) + (pre.length : Int) - 1, true))
      = fun loc => (kmerToIndexRc (revKmer k s loc)).toOption := by
    funext l; exact matchIndex_rev k pre s l
  unfold matchList seqIndices
  simp only [List.filterMap_append, List.filterMap_map, h1, h2]

/-- every match is a forward one at a natural position, or a reverse one found at a position `≥ k` -/
theorem mem_matchList (k : Nat) (pre s : List UInt8) (m : Int × Bool) (h : m ∈ matchList k pre s) :
    (∃ l : Nat, m = ((l : Int), false)) ∨ (∃ l : Nat, k ≤ l ∧ m = ((l : Int) + (pre.length : Int) - 1, true)) := by
  unfold matchList at h
  rw [List.mem_append, List.mem_map, List.mem_map] at h
  rcases h with ⟨l, -, rfl⟩ | ⟨l, hl, rfl⟩
  · exact Or.inl ⟨l, rfl⟩
  · exact Or.inr ⟨l, le_of_mem_revMatches _ _ _ _ hl, rfl⟩

/-- the index of a match is below `4^k` -/
theorem matchIndex_lt (k : Nat) (pre s : List UInt8) (m : Int × Bool) (i : Nat) (h : matchIndex k pre s m = some i) :
    i < 4 ^ k := by
  unfold matchIndex at h
  split at h
  · cases hc : kmerToIndexRc (revKmer k s (m.1 - (pre.length : Int) + 1).toNat) with
    | error e => rw [hc] at h; cases h
    | ok j =>
      rw [hc] at h
      injection h with h
      subst h
      exact kmerToIndexRc_lt _ _ _ (revKmer_length_le ..) hc
  · cases hc : kmerToIndex (fwdKmer k pre.length s m.1.toNat) with
    | error e => rw [hc] at h; cases h
    | ok j =>
      rw [hc] at h
      injection h with h
      subst h
      exact kmerToIndex_lt _ _ _ (fwdKmer_length_le ..) hc

end GambitV.TieCalcSig
