import GambitV.Lemmas.PyRt
import GambitV.Lemmas.Bulk
import GambitV.Model.Bulk

/-!
Helper lemmas for the tie of the translated `jaccarddist_pairwise` (`GambitV.Tie.PyPairwise`).  Nothing here mentions the
generated term: a `for i in range(m)` loop under an invariant indexed by the iteration number, the run-time built-ins
(`getItem?`, `slice`, `putSlice`, `listSet`, `ND.view1`, …) on natural-number arguments, the prefix of the condensed output
after `i` rows, and one iteration of the square loop (`putRow`, then `putCol` of the row just written) as one step of
`pairwiseSquareLoop`.  Core Lean only.
-/
namespace GambitV.TiePair
open GambitV GambitV.Py

/-! ### loops -/

/-- A `for` loop whose body falls through on element number `i` from every state satisfying `P (k + i)`, establishing
`P (k + i + 1)`. -/
theorem forEach_idx_inv {α σ ρ : Type} (xs : List α) (body : α → σ → M σ ρ σ) (P : Nat → σ → Prop) (k : Nat)
    (hb : ∀ i (h : i < xs.length) s, P (k + i) s → ∃ s', body xs[i] s = .ok s' ∧ P (k + i + 1) s')
    (s : σ) (h0 : P k s) : ∃ s', forEach xs body s = .ok (s', true) ∧ P (k + xs.length) s' := by
  induction xs generalizing k s with
  | nil => exact ⟨s, rfl, h0⟩
  | cons x xs ih =>
    obtain ⟨s1, e1, p1⟩ := hb 0 (Nat.zero_lt_succ _) s h0
    rw [forEach_cons]
    simp only [List.getElem_cons_zero] at e1
    rw [e1]
    obtain ⟨s2, e2, p2⟩ := ih (k + 1) (fun i h s hp => by
      have := hb (i + 1) (Nat.succ_lt_succ h) s (by rw [← Nat.add_assoc, Nat.add_right_comm]; exact hp)
      simpa only [List.getElem_cons_succ, ← Nat.add_assoc, Nat.add_right_comm k i 1] using this) s1 p1
    refine ⟨s2, e2, ?_⟩
    rw [List.length_cons, ← Nat.add_assoc, Nat.add_right_comm]
    exact p2

/-- `for i in range(m)` (translated as a loop over `0 + j`, `j < m`) under an invariant indexed by the iteration number; the loop
is passed as an equation so that the body is found by unification. -/
theorem forEach_range_inv {σ ρ : Type} {m : Nat} {body : Int → σ → M σ ρ σ} {s : σ} {w : M σ ρ (σ × Bool)}
    (hw : forEach ((List.range m).map (fun (j : Nat) => (0 : Int) + (j : Int))) body s = w) (P : Nat → σ → Prop)
    (hb : ∀ i s, i < m → P i s → ∃ s', body (i : Int) s = .ok s' ∧ P (i + 1) s')
    (h0 : P 0 s) : ∃ s', w = .ok (s', true) ∧ P m s' := by
  subst hw
  have := forEach_idx_inv ((List.range m).map (fun (j : Nat) => (0 : Int) + (j : Int))) body P 0
    (fun i h s hp => by
      have hi : i < m := by simpa using h
      simp only [Nat.zero_add] at hp ⊢
      simp only [List.getElem_map, List.getElem_range, Int.zero_add]
      exact hb i s hi hp) s h0
  simpa using this

/-- The same rule with the body's value named by an equation (`body i s = r`).  With a large generated body this keeps the goal small
while the facts of the invariant are taken apart (`obtain` on hypotheses was observed not to terminate in reasonable time when the
goal is the whole generated loop body); the equation is substituted just before the body is simplified. -/
theorem forEach_range_inv_eq {σ ρ : Type} {m : Nat} {body : Int → σ → M σ ρ σ} {s : σ} {w : M σ ρ (σ × Bool)}
    (hw : forEach ((List.range m).map (fun (j : Nat) => (0 : Int) + (j : Int))) body s = w) (P : Nat → σ → Prop)
    (hb : ∀ i s, i < m → P i s → ∀ r, body (i : Int) s = r → ∃ s', r = .ok s' ∧ P (i + 1) s')
    (h0 : P 0 s) : ∃ s', w = .ok (s', true) ∧ P m s' :=
  forEach_range_inv hw P (fun i s hi hP => hb i s hi hP _ rfl) h0

/-! ### built-ins on natural numbers -/

theorem getItem?_nat {α : Type} (xs : List α) (i : Nat) : getItem? xs (i : Int) = xs[i]? := by
  unfold getItem?
  have h1 : ¬ ((i : Int) < 0) := by omega
  simp only [h1, if_false, Int.toNat_natCast]

theorem clampBound_nat (n d a : Nat) (h : a ≤ n) : clampBound n d (some (a : Int)) = a := by
  unfold clampBound
  have h1 : ¬ ((a : Int) < 0) := by omega
  simp only [h1, if_false, Int.toNat_natCast]
  omega

/-- `xs[a:b]` for naturals `a ≤ b ≤ len(xs)` -/
theorem slice_nat {α : Type} (xs : List α) (a b : Nat) (hb : b ≤ xs.length) (hab : a ≤ b) :
    slice xs (some (a : Int)) (some (b : Int)) = (xs.drop a).take (b - a) := by
  unfold slice
  simp only [clampBound_nat _ _ a (Nat.le_trans hab hb), clampBound_nat _ _ b hb]

/-- `xs[a:] ` written `xs[a:len(xs)]` -/
theorem slice_nat_to_end {α : Type} (xs : List α) (a : Nat) (ha : a ≤ xs.length) :
    slice xs (some (a : Int)) (some (xs.length : Int)) = xs.drop a := by
  rw [slice_nat xs a xs.length (Nat.le_refl _) ha]
  apply List.take_of_length_le
  rw [List.length_drop]
  exact Nat.le_refl _

theorem putSlice_nat {α : Type} (xs : List α) (a : Nat) (hi : Int) (v : List α) (ha : a ≤ xs.length) :
    putSlice xs (a : Int) hi v = writeSlice xs a v := by
  unfold putSlice writeSlice
  simp only [clampBound_nat _ _ a ha]

theorem listSet_nat {α : Type} (xs : List α) (i : Nat) (v : α) : listSet xs (i : Int) v = xs.set i v := by
  unfold listSet
  have h1 : ¬ ((i : Int) < 0) := by omega
  simp only [h1, if_false, Int.toNat_natCast]

/-! ### collections and distance arrays -/

theorem arrs_getElem? (c : Sigs) (i : Nat) (h : i < c.items.length) :
    c.arrs[i]? = some { dtype := c.dtype, vals := c.items[i] } := by
  unfold Sigs.arrs
  rw [List.getElem?_map, List.getElem?_eq_getElem h]
  rfl

/-- `sigs[i]` for `i < len(sigs)` -/
theorem getItem?_arrs (c : Sigs) (i : Nat) (h : i < c.items.length) :
    getItem? c.arrs (i : Int) = some { dtype := c.dtype, vals := c.items[i] } := by
  rw [getItem?_nat, arrs_getElem? c i h]

/-- `sigs[a:len(sigs)]` -/
theorem sigs_slice_to_end (c : Sigs) (a : Nat) (h : a ≤ c.items.length) :
    c.get? (Py.Index.slice (a : Int) (c.items.length : Int)) = some { c with items := c.items.drop a } := by
  show some (c.getSlice (a : Int) (c.items.length : Int)) = _
  unfold Sigs.getSlice
  rw [slice_nat_to_end c.items a h]

/-- `out[a:b]` of a one-dimensional array -/
theorem view1_nat (o : ND) (vals : List UInt32) (h : o.rows = [vals]) (a b : Nat) (hb : b ≤ vals.length) (hab : a ≤ b) :
    o.view1 (a : Int) (b : Int) = { okDtype := o.okDtype, shape := [b - a], rows := [(vals.drop a).take (b - a)] } := by
  unfold ND.view1 ND.vals1
  rw [h, List.headD_cons, slice_nat vals a b hb hab]
  have : ((vals.drop a).take (b - a)).length = b - a := by
    rw [List.length_take, List.length_drop]; omega
  simp only [this]

/-- `out[a:b] = src` on a one-dimensional array -/
theorem put1_nat (o : ND) (vals : List UInt32) (h : o.rows = [vals]) (a : Nat) (hi : Int) (src : ND) (ha : a ≤ vals.length) :
    o.put1 (a : Int) hi src = { o with rows := [writeSlice vals a src.vals1] } := by
  unfold ND.put1 ND.vals1
  rw [h, List.headD_cons, putSlice_nat vals a hi _ ha]

/-! ### the condensed output after `i` rows -/

theorem flatMap_range_succ {γ : Type} (f : Nat → List γ) (i : Nat) :
    (List.range (i + 1)).flatMap f = (List.range i).flatMap f ++ f i := by
  rw [List.range_succ, List.flatMap_append]
  simp only [List.flatMap_cons, List.flatMap_nil, List.append_nil]

theorem flatMap_range_length_le {γ : Type} (f : Nat → List γ) (k m : Nat) (h : k ≤ m) :
    ((List.range k).flatMap f).length ≤ ((List.range m).flatMap f).length := by
  induction m with
  | zero =>
    have : k = 0 := by omega
    subst this; exact Nat.le_refl _
  | succ m ih =>
    by_cases hk : k = m + 1
    · subst hk; exact Nat.le_refl _
    · rw [flatMap_range_succ, List.length_append]
      exact Nat.le_trans (ih (by omega)) (Nat.le_add_right _ _)

/-- row `i` of the condensed output when item `i` exists -/
theorem flatRow_of_getElem? {α γ : Type} (dist : α → α → γ) (S : List α) (i : Nat) (s : α) (h : S[i]? = some s) :
    flatRow dist S i = (S.drop (i + 1)).map (dist s) := by
  unfold flatRow arrayDists
  rw [h]

/-- writing the next row behind the rows written so far -/
theorem writeSlice_prefix {γ : Type} (vals pre row : List γ) (N : Nat) (hl : vals.length = N)
    (hp : vals.take pre.length = pre) (hle : pre.length + row.length ≤ N) :
    (writeSlice vals pre.length row).length = N
      ∧ (writeSlice vals pre.length row).take (pre ++ row).length = pre ++ row := by
  unfold writeSlice
  rw [hp]
  constructor
  · simp only [List.length_append, List.length_drop]
    omega
  · exact List.take_left' rfl

/-! ### the square output: one iteration of the loop -/

/-- `np.fill_diagonal` on a list of rows, written as in `pairwiseSquareLoop` -/
theorem zipIdx_set_diag {γ : Type} (Z : List (List γ)) (v : γ) :
    Z.zipIdx.map (fun (ri : List γ × Nat) => ri.1.set ri.2 v) = (List.range Z.length).map (fun i => (Z.getD i []).set i v) := by
  apply List.ext_getElem?
  intro a
  rw [List.getElem?_map, List.getElem?_map, List.getElem?_zipIdx]
  by_cases ha : a < Z.length
  · rw [List.getElem?_eq_getElem ha, List.getElem?_range ha]
    simp only [Option.map_some, Nat.zero_add, List.getD_eq_getElem?_getD, List.getElem?_eq_getElem ha, Option.getD_some]
  · rw [List.getElem?_eq_none (Nat.le_of_not_lt ha), List.getElem?_eq_none (by rw [List.length_range]; exact Nat.le_of_not_lt ha)]
    rfl

/-- `out[k, a:hi] = src` -/
theorem putRow_nat (ok : Bool) (sh : List Nat) (M : List (List UInt32)) (k a : Nat) (hi : Int) (src : ND) (rk : List UInt32)
    (hMk : M[k]? = some rk) (ha : a ≤ rk.length) :
    ND.putRow { okDtype := ok, shape := sh, rows := M } (k : Int) (a : Int) hi src
      = { okDtype := ok, shape := sh, rows := M.set k (writeSlice rk a src.vals1) } := by
  unfold ND.putRow
  simp only [getItem?_nat, hMk, Option.getD_some, putSlice_nat rk a hi _ ha, listSet_nat]

/-- `out[k, a:b]` -/
theorem rowView_nat (ok : Bool) (sh : List Nat) (M : List (List UInt32)) (k a b : Nat) (r : List UInt32)
    (hMk : M[k]? = some r) (hb : b ≤ r.length) (hab : a ≤ b) :
    ND.rowView { okDtype := ok, shape := sh, rows := M } (k : Int) (a : Int) (b : Int)
      = { okDtype := ok, shape := [b - a], rows := [(r.drop a).take (b - a)] } := by
  unfold ND.rowView
  have : ((r.drop a).take (b - a)).length = b - a := by
    rw [List.length_take, List.length_drop]; omega
  simp only [getItem?_nat, hMk, Option.getD_some, slice_nat r a b hb hab, this]

/-- `out[a:hi, k] = src` -/
theorem putCol_nat (ok : Bool) (sh : List Nat) (M : List (List UInt32)) (a k : Nat) (hi : Int) (src : ND) (ha : a ≤ M.length) :
    ND.putCol { okDtype := ok, shape := sh, rows := M } (a : Int) hi (k : Int) src
      = { okDtype := ok, shape := sh, rows := M.zipIdx.map (fun (ri : List UInt32 × Nat) =>
            if a ≤ ri.2 ∧ ri.2 < a + src.vals1.length then ri.1.set k (src.vals1.getD (ri.2 - a) 0) else ri.1) } := by
  unfold ND.putCol
  simp only [clampBound_nat _ _ a ha, listSet_nat]

/-- reading back what `out[k, a:n] = row` wrote -/
theorem writeSlice_read {γ : Type} (r row : List γ) (a n : Nat) (hr : r.length = n) (hrow : row.length = n - a) (ha : a ≤ n) :
    ((writeSlice r a row).drop a).take (n - a) = row := by
  unfold writeSlice
  have h1 : (r.take a).length = a := by rw [List.length_take]; omega
  rw [List.append_assoc, List.drop_left' h1]
  have h2 : r.drop (a + row.length) = [] := by
    apply List.drop_eq_nil_of_le; omega
  rw [h2, List.append_nil, ← hrow, List.take_length]

/-- the column copy of `pairwiseSquareLoop` (entry `t` of `row` into cell `k` of row `k + 1 + t`) as one map over the rows -/
theorem colFold_eq_zipIdx (row : List UInt32) (k : Nat) (O : List (List UInt32)) :
    (List.range row.length).foldl (colStep row k) O
      = O.zipIdx.map (fun (ri : List UInt32 × Nat) =>
          if k + 1 ≤ ri.2 ∧ ri.2 < k + 1 + row.length then ri.1.set k (row.getD (ri.2 - (k + 1)) 0) else ri.1) := by
  apply List.ext_getElem?
  intro a
  rw [foldl_range_cells _ (k + 1) _ (colStep_cells row k), List.getElem?_map, List.getElem?_zipIdx]
  cases hO : O[a]? with
  | none => simp
  | some r =>
    simp only [Option.map_some, Nat.zero_add]
    by_cases h : k + 1 ≤ a ∧ a < k + 1 + row.length
    · have ht : a - (k + 1) < row.length := by omega
      simp only [if_pos h, List.getElem?_eq_getElem ht, List.getD_eq_getElem?_getD, Option.getD_some]
    · simp only [if_neg h]

/-- One iteration of the loop of `jaccarddist_pairwise(flat=False)` on the buffer: `out[k, k+1:n] = row` (through the view handed to
`jaccarddist_array`), then `out[k+1:n, k] = out[k, k+1:n]`, is one step of the model `pairwiseSquareLoop`. -/
theorem square_iter (ok : Bool) (sh : List Nat) (M : List (List UInt32)) (n k : Nat) (rk row : List UInt32) (src : ND)
    (hk : k + 1 ≤ n) (hlen : M.length = n) (hMk : M[k]? = some rk) (hrk : rk.length = n)
    (hrow : row.length = n - k - 1) (hsrc : src.vals1 = row) :
    ND.putRow { okDtype := ok, shape := sh, rows := M } (k : Int) ((k + 1 : Nat) : Int) (n : Int) src
        = { okDtype := ok, shape := sh, rows := M.set k (writeSlice rk (k + 1) row) }
    ∧ ND.putCol { okDtype := ok, shape := sh, rows := M.set k (writeSlice rk (k + 1) row) } ((k + 1 : Nat) : Int) (n : Int) (k : Int)
          (ND.rowView { okDtype := ok, shape := sh, rows := M.set k (writeSlice rk (k + 1) row) } (k : Int) ((k + 1 : Nat) : Int) (n : Int))
        = { okDtype := ok, shape := sh,
            rows := (List.range (n - k - 1)).foldl (colStep row k) (M.set k (writeSlice (M.getD k []) (k + 1) row)) } := by
  have hrow' : row.length = n - (k + 1) := by omega
  have hgetD : M.getD k [] = rk := by rw [List.getD_eq_getElem?_getD, hMk]; rfl
  have hset : (M.set k (writeSlice rk (k + 1) row))[k]? = some (writeSlice rk (k + 1) row) := by
    rw [set_getElem?_of_some M k k rk _ hMk, if_pos rfl]
  have hwl : (writeSlice rk (k + 1) row).length = n := writeSlice_row_length rk row k n (by omega) hrk hrow'
  constructor
  · rw [putRow_nat ok sh M k (k + 1) _ src rk hMk (by omega), hsrc]
  · rw [rowView_nat ok sh _ k (k + 1) n _ hset (by omega) hk, writeSlice_read rk row (k + 1) n hrk hrow' hk,
      putCol_nat ok sh _ (k + 1) k _ _ (by rw [List.length_set]; omega), hgetD, ← hrow, colFold_eq_zipIdx]
    rfl

/-- the number of rows under the invariant of `pairwiseSquareLoop` -/
theorem sqInv_length {α γ : Type} (dist : α → α → γ) (zero : γ) (sigs : List α) (k : Nat) (M : List (List γ))
    (hM : SqInv dist zero sigs k M) : M.length = sigs.length := by
  have h1 := List.getElem?_eq_none_iff.1 ((hM sigs.length).1 (Nat.le_refl _))
  by_cases h0 : sigs.length = 0
  · omega
  · obtain ⟨r, hr, _⟩ := (hM (sigs.length - 1)).2 (by omega)
    obtain ⟨h2, _⟩ := List.getElem?_eq_some_iff.1 hr
    omega

end GambitV.TiePair
