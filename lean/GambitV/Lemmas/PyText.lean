import GambitV.Model.PyRt
import GambitV.Model.SeqFiles

/-!
Sanity lemmas about the text / path built-ins of the run-time library (`Py.strStrip`, `Py.strRstripChar`, `Py.pathStr`, `Py.pathJoin`) and the
list-file model built on them.  These functions are part of the trusted base (validated against CPython / pathlib on every run by `pyrt.strip`,
`pyrt.pathstr`, `pyrt.pathjoin`); the lemmas say that they have the algebraic shape the real functions have.
-/
namespace GambitV.Py

/-! ### `dropWhile` at either end -/

private theorem head_dropWhile_false {α : Type} (p : α → Bool) (l : List α) (c : α) (h : (l.dropWhile p).head? = some c) : p c = false := by
  have := List.head?_dropWhile_not p l
  rw [h] at this
  exact this

private theorem dropWhile_eq_self_of_head {α : Type} (p : α → Bool) (l : List α) (h : ∀ c, l.head? = some c → p c = false) :
    l.dropWhile p = l := by
  cases l with
  | nil => rfl
  | cons a t => simp [h a rfl]

/-- dropping at the end: the result is a prefix, so a non-empty result keeps the first element -/
private theorem head_rdrop {α : Type} (p : α → Bool) (l : List α) (c : α)
    (h : ((l.reverse.dropWhile p).reverse).head? = some c) : l.head? = some c := by
  have hp : (l.reverse.dropWhile p).reverse <+: l := by
    have := List.reverse_prefix.mpr (List.dropWhile_suffix (l := l.reverse) p)
    simpa using this
  obtain ⟨t, ht⟩ := hp
  rw [← ht]
  cases hx : (l.reverse.dropWhile p).reverse with
  | nil => rw [hx] at h; simp at h
  | cons a u => rw [hx] at h; simpa using h

private theorem rdrop_eq_self {α : Type} (p : α → Bool) (l : List α) (h : ∀ c, l.getLast? = some c → p c = false) :
    (l.reverse.dropWhile p).reverse = l := by
  rw [dropWhile_eq_self_of_head p l.reverse (by simpa [List.head?_reverse] using h), List.reverse_reverse]

private theorem strStrip_ends' (s : List Char) :
    (∀ c, (strStrip s).head? = some c → isSpace c = false) ∧ (∀ c, (strStrip s).getLast? = some c → isSpace c = false) := by
  unfold strStrip
  constructor
  · intro c h
    exact head_dropWhile_false isSpace s c (head_rdrop isSpace _ c h)
  · intro c h
    rw [List.getLast?_reverse] at h
    exact head_dropWhile_false isSpace _ c h

private theorem strStrip_fixed' (s : List Char) (h1 : ∀ c, s.head? = some c → isSpace c = false) (h2 : ∀ c, s.getLast? = some c → isSpace c = false) :
    strStrip s = s := by
  unfold strStrip
  rw [dropWhile_eq_self_of_head isSpace s h1]
  exact rdrop_eq_self isSpace s h2

/-! ### `splitOnChar` and `intercalate` -/

private theorem splitOnChar_ne_nil (sep : Char) (l : List Char) : splitOnChar sep l ≠ [] := by
  cases l with
  | nil => simp [splitOnChar]
  | cons c cs =>
    unfold splitOnChar
    cases splitOnChar sep cs with
    | nil => simp
    | cons p ps => by_cases hc : (c == sep) = true <;> simp [hc]

private theorem splitOnChar_of_not_mem (sep : Char) (p : List Char) (h : sep ∉ p) : splitOnChar sep p = [p] := by
  induction p with
  | nil => rfl
  | cons c cs ih =>
    have hc : (c == sep) = false := by
      have : c ≠ sep := fun e => h (by simp [e])
      simpa using this
    have hcs : sep ∉ cs := fun m => h (List.mem_cons_of_mem _ m)
    unfold splitOnChar
    rw [ih hcs]
    simp [hc]

private theorem splitOnChar_append_sep (sep : Char) (p rest : List Char) (h : sep ∉ p) :
    splitOnChar sep (p ++ sep :: rest) = p :: splitOnChar sep rest := by
  induction p with
  | nil =>
    rw [List.nil_append]
    conv => lhs; unfold splitOnChar
    cases hr : splitOnChar sep rest with
    | nil => exact absurd hr (splitOnChar_ne_nil sep rest)
    | cons q qs => simp
  | cons c cs ih =>
    have hc : (c == sep) = false := by
      have : c ≠ sep := fun e => h (by simp [e])
      simpa using this
    have hcs : sep ∉ cs := fun m => h (List.mem_cons_of_mem _ m)
    rw [List.cons_append]
    conv => lhs; unfold splitOnChar
    rw [ih hcs]
    simp [hc]

private theorem intercalate_cons_cons (sep p q : List Char) (r : List (List Char)) :
    sep.intercalate (p :: q :: r) = p ++ sep ++ sep.intercalate (q :: r) := by
  simp [List.intercalate, List.intersperse]

private theorem intercalate_singleton (sep p : List Char) : sep.intercalate [p] = p := by
  simp [List.intercalate, List.intersperse]

private theorem splitOnChar_intercalate (sep : Char) (parts : List (List Char)) (hne : parts ≠ []) (h : ∀ p ∈ parts, sep ∉ p) :
    splitOnChar sep ([sep].intercalate parts) = parts := by
  induction parts with
  | nil => exact absurd rfl hne
  | cons p ps ih =>
    cases ps with
    | nil => rw [intercalate_singleton]; exact splitOnChar_of_not_mem sep p (h p (by simp))
    | cons q r =>
      rw [intercalate_cons_cons, List.append_assoc, List.singleton_append,
        splitOnChar_append_sep sep p _ (h p (by simp)), ih (by simp) (fun x hx => h x (List.mem_cons_of_mem _ hx))]

private theorem intercalate_ne_nil (sep p : List Char) (ps : List (List Char)) (hp : p ≠ []) : sep.intercalate (p :: ps) ≠ [] := by
  cases ps with
  | nil => rw [intercalate_singleton]; exact hp
  | cons q r => rw [intercalate_cons_cons]; simp [hp]

/-- stripping is idempotent -/
theorem strStrip_idem (s : List Char) : strStrip (strStrip s) = strStrip s :=
  strStrip_fixed' _ (strStrip_ends' s).1 (strStrip_ends' s).2

/-- a stripped text neither starts nor ends with white space -/
theorem strStrip_ends (s : List Char) :
    (∀ c, (strStrip s).head? = some c → isSpace c = false) ∧ (∀ c, (strStrip s).getLast? = some c → isSpace c = false) :=
  strStrip_ends' s

/-- a text without white space at either end is its own stripped form -/
theorem strStrip_fixed (s : List Char) (h1 : ∀ c, s.head? = some c → isSpace c = false) (h2 : ∀ c, s.getLast? = some c → isSpace c = false) :
    strStrip s = s :=
  strStrip_fixed' s h1 h2

theorem strRstripChar_idem (c : Char) (s : List Char) : strRstripChar c (strRstripChar c s) = strRstripChar c s := by
  unfold strRstripChar
  rw [List.reverse_reverse, dropWhile_eq_self_of_head (· == c) _ (fun x hx => head_dropWhile_false (· == c) _ x hx)]

/-- the lines `read_lines(strip=True, skip_empty=True)` yields are non-empty and stripped, in file order (a sublist of the stripped lines) -/
theorem readLines_stripped (lines : List (List Char)) :
    (∀ l ∈ GambitV.readLines lines true true, l ≠ [] ∧ strStrip l = l)
    ∧ (GambitV.readLines lines true true).Sublist (lines.map strStrip) := by
  unfold GambitV.readLines
  simp only [if_true, Bool.true_and]
  refine ⟨?_, List.filter_sublist⟩
  intro l hl
  rw [List.mem_filter, List.mem_map] at hl
  obtain ⟨⟨x, _, rfl⟩, hne⟩ := hl
  exact ⟨by simpa using hne, strStrip_idem x⟩

/-- pathlib's normal form never ends in a slash unless it is a root, and is never empty -/
theorem pathStr_ne_nil (s : List Char) : pathStr s ≠ [] := by
  have aux : ∀ (root : List Char) (parts : List (List Char)), (∀ p ∈ parts, p ≠ []) →
      (if root.isEmpty && parts.isEmpty then ['.'] else root ++ ['/'].intercalate parts) ≠ [] := by
    intro root parts hparts
    split
    · simp
    · rename_i hc
      intro he
      rw [List.append_eq_nil_iff] at he
      obtain ⟨hr, hb⟩ := he
      apply hc
      rw [hr]
      cases parts with
      | nil => rfl
      | cons p ps => exact absurd hb (intercalate_ne_nil _ p ps (hparts p (by simp)))
  refine aux _ _ ?_
  intro p hp
  have := (List.mem_filter.mp hp).2
  intro e; rw [e] at this; simp at this

/-- the normal form of a relative path made of ordinary components is the path itself -/
theorem pathStr_simple (parts : List (List Char)) (hne : parts ≠ [])
    (h : ∀ p ∈ parts, p ≠ [] ∧ p ≠ ['.'] ∧ '/' ∉ p) :
    pathStr (['/'].intercalate parts) = ['/'].intercalate parts := by
  have hsplit := splitOnChar_intercalate '/' parts hne (fun p hp => (h p hp).2.2)
  have hfilter : parts.filter (fun p => !p.isEmpty && p != ['.']) = parts := by
    rw [List.filter_eq_self]
    intro p hp
    obtain ⟨h1, h2, _⟩ := h p hp
    cases p with
    | nil => exact absurd rfl h1
    | cons a t => simpa using h2
  have hlead : (['/'].intercalate parts).takeWhile (· == '/') = [] := by
    cases parts with
    | nil => exact absurd rfl hne
    | cons p ps =>
      obtain ⟨h1, _, h3⟩ := h p (by simp)
      cases p with
      | nil => exact absurd rfl h1
      | cons a t =>
        have ha : (a == '/') = false := by
          have : a ≠ '/' := fun e => h3 (by simp [e])
          simpa using this
        cases ps with
        | nil => rw [intercalate_singleton]; simp [ha]
        | cons q r => rw [intercalate_cons_cons]; simp [ha]
  unfold pathStr
  simp only [hsplit, hfilter, hlead]
  cases parts with
  | nil => exact absurd rfl hne
  | cons p ps => simp

end GambitV.Py
