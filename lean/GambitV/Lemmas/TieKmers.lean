import GambitV.Model.Loops
import GambitV.Model.Kmers
import GambitV.Lemmas.Kmers

/-! Helper lemmas for `Tie/Kmers`: a simulation rule for `forRangeFrom` with early exit, index-based
option folds and their list forms, list facts about `set`/`drop`. Core Lean only. -/
namespace GambitV.Tie

/-- Index-driven fold with failure: the abstract counterpart of a `for` loop with early `return`. -/
def iterOpt {τ : Type} (f : Nat → τ → Option τ) : (lo n : Nat) → τ → Option τ
  | _, 0, t => some t
  | lo, n + 1, t =>
    match f lo t with
    | some t' => iterOpt f (lo + 1) n t'
    | none => none

/-- Simulation rule for a `for` loop whose body either continues (abstract step `some`) or exits early
with the fixed value `e` (abstract step `none`). Stated against a name `w` for the loop result so
that the generated body is picked up by unification. -/
theorem forRangeFrom_sim {σ ε τ : Type} {body : Nat → σ → Except ε σ} {lo n : Nat} {s : σ}
    {w : Except ε σ} (hw : forRangeFrom lo n body s = w)
    (R : Nat → σ → τ → Prop) (f : Nat → τ → Option τ) (e : ε)
    (hstep : ∀ i s t, lo ≤ i → i < lo + n → R i s t →
      match f i t with
      | some t' => ∃ s', body i s = .ok s' ∧ R (i + 1) s' t'
      | none => body i s = .error e)
    (t : τ) (h0 : R lo s t) :
    match iterOpt f lo n t with
    | some t' => ∃ s', w = .ok s' ∧ R (lo + n) s' t'
    | none => w = .error e := by
  subst hw
  induction n generalizing lo s t with
  | zero => exact ⟨s, rfl, h0⟩
  | succ n ih =>
    have h1 := hstep lo s t (Nat.le_refl _) (by omega) h0
    rw [forRangeFrom_succ]
    simp only [iterOpt]
    cases hf : f lo t with
    | none =>
      rw [hf] at h1
      simp only [h1]
    | some t' =>
      rw [hf] at h1
      obtain ⟨s1, hb, hR⟩ := h1
      simp only [hb]
      have := ih (lo := lo + 1) (s := s1) (t := t')
        (fun i s t hi hlt hR => hstep i s t (by omega) (by omega) hR) hR
      have e1 : lo + 1 + n = lo + (n + 1) := by omega
      rw [e1] at this
      exact this

theorem getD_eq_getElem' {α : Type} (l : List α) (d : α) {i : Nat} (h : i < l.length) :
    l.getD i d = l[i] := by
  simp [List.getD_eq_getElem?_getD, h]

/-- The forward index fold over `l` is the list recursion `encodeU64From`. -/
theorem iterOpt_encodeU64 (l : List UInt8) (n lo : Nat) (acc : UInt64) (h : lo + n = l.length) :
    iterOpt (fun i (t : UInt64) => (nucCode (l.getD i 0)).map (fun d => (t <<< 2) + UInt64.ofNat d)) lo n acc
      = encodeU64From acc (l.drop lo) := by
  induction n generalizing lo acc with
  | zero =>
    have : lo = l.length := by omega
    subst this
    simp [iterOpt, encodeU64From]
  | succ n ih =>
    have hlo : lo < l.length := by omega
    rw [List.drop_eq_getElem_cons hlo]
    simp only [iterOpt, encodeU64From, getD_eq_getElem' l 0 hlo]
    cases nucCode l[lo] with
    | none => rfl
    | some d => exact ih (lo + 1) _ (by omega)

/-- Invariant rule for a `for` loop without early exit, stated against a name for the loop result. -/
theorem forRangeFrom_inv' {σ ε : Type} {body : Nat → σ → Except ε σ} {lo n : Nat} {s : σ}
    {w : Except ε σ} (hw : forRangeFrom lo n body s = w) (P : Nat → σ → Prop)
    (hstep : ∀ i s, lo ≤ i → i < lo + n → P i s → ∃ s', body i s = .ok s' ∧ P (i + 1) s')
    (h0 : P lo s) :
    ∃ s', w = .ok s' ∧ P (lo + n) s' := by
  subst hw
  exact forRangeFrom_inv body P lo n s h0 hstep

theorem drop_set_self {α : Type} (l : List α) (n : Nat) (x : α) (h : n < l.length) :
    (l.set n x).drop n = x :: l.drop (n + 1) := by
  rw [List.drop_set, if_neg (Nat.lt_irrefl n), Nat.sub_self, List.drop_eq_getElem_cons h, List.set_cons_zero]

/-- One iteration of the `c_index_to_kmer` loop, in list form. -/
theorem decode_step (x k i : Nat) (o : List UInt8) (ho : o.length = k) (hi : i < k) :
    decode x (k - i) ++ o.drop (k - i) =
      decode (x / 4) (k - (i + 1)) ++ (o.set (k - (i + 1)) (nucLetter (x % 4))).drop (k - (i + 1)) := by
  have e1 : k - i = (k - (i + 1)) + 1 := by omega
  rw [e1]
  generalize hm : k - (i + 1) = m
  have hmlt : m < o.length := by omega
  rw [drop_set_self _ _ _ hmlt]
  simp [decode]

/-- One iteration of the `c_revcomp` loop, in list form. -/
theorem revcomp_step (seq o : List UInt8) (i : Nat) (hi : i < seq.length) (ho : o.length = seq.length)
    (hinv : o.drop (seq.length - i) = ((seq.take i).map comp).reverse) :
    (o.set (seq.length - (i + 1)) (comp (seq.getD i 0))).drop (seq.length - (i + 1)) =
      ((seq.take (i + 1)).map comp).reverse := by
  have hm : seq.length - (i + 1) < o.length := by omega
  have e1 : seq.length - (i + 1) + 1 = seq.length - i := by omega
  rw [drop_set_self _ _ _ hm, e1, hinv, List.take_succ_eq_append_getElem hi, getD_eq_getElem' _ _ hi]
  simp only [List.map_append, List.reverse_append, List.map_cons, List.map_nil, List.reverse_cons,
    List.reverse_nil, List.nil_append, List.cons_append]

/-! ### Reverse-complement encoder on a 64-bit accumulator -/

/-- Machine-level mirror of `encodeCompFrom` (64-bit accumulator, complemented digit). -/
def encodeCompU64From (acc : UInt64) : List UInt8 → Option UInt64
  | [] => some acc
  | b :: bs =>
    match nucCode b with
    | some d => encodeCompU64From ((acc <<< 2) + UInt64.ofNat (3 - d)) bs
    | none => none

/-- `c_kmer_to_index_rc` on the machine level: the complemented shift-and-add over the reversed k-mer. -/
def encodeRcU64 (s : List UInt8) : Option UInt64 := encodeCompU64From 0 s.reverse

/-- The backward-reading index fold over `l` is `encodeCompU64From` on `l.reverse`. -/
theorem iterOpt_encodeCompU64 (l : List UInt8) (n lo : Nat) (acc : UInt64) (h : lo + n = l.length) :
    iterOpt (fun i (t : UInt64) =>
        (nucCode (l.getD (l.length - i - 1) 0)).map (fun d => (t <<< 2) + UInt64.ofNat (3 - d))) lo n acc
      = encodeCompU64From acc (l.reverse.drop lo) := by
  induction n generalizing lo acc with
  | zero =>
    have : lo = l.reverse.length := by rw [List.length_reverse]; omega
    rw [this, List.drop_length]
    rfl
  | succ n ih =>
    have hlo : lo < l.reverse.length := by rw [List.length_reverse]; omega
    have hlo' : l.length - lo - 1 < l.length := by omega
    rw [List.drop_eq_getElem_cons hlo, List.getElem_reverse]
    simp only [iterOpt, encodeCompU64From, getD_eq_getElem' l 0 hlo']
    have e : l.length - 1 - lo = l.length - lo - 1 := by omega
    simp only [e]
    cases nucCode l[l.length - lo - 1] with
    | none => rfl
    | some d => exact ih (lo + 1) _ (by omega)

/-- No wrap-around for the complemented encoder under the guard (cf. `C07.encodeU64From_eq`). -/
theorem encodeCompU64From_eq (acc : UInt64) (j : Nat) (s : List UInt8)
    (hacc : acc.toNat < 4 ^ j) (hlen : j + s.length ≤ 32) :
    (encodeCompU64From acc s).map UInt64.toNat = encodeCompFrom acc.toNat s := by
  induction s generalizing acc j with
  | nil => simp [encodeCompU64From, encodeCompFrom]
  | cons b s ih =>
    simp only [encodeCompU64From, encodeCompFrom]
    cases hb : nucCode b with
    | none => rfl
    | some d =>
      simp only []
      simp only [List.length_cons] at hlen
      have hj : j + 1 ≤ 32 := by omega
      have hpow : (4:Nat) ^ (j + 1) ≤ 4 ^ 32 := Nat.pow_le_pow_right (by decide) hj
      have hlt : acc.toNat * 4 + (3 - d) < 4 ^ (j + 1) := by rw [Nat.pow_succ]; omega
      have h64 : acc.toNat * 4 + (3 - d) < 2 ^ 64 := by
        have : (4:Nat) ^ 32 = 2 ^ 64 := by decide
        omega
      have hval : ((acc <<< 2) + UInt64.ofNat (3 - d)).toNat = acc.toNat * 4 + (3 - d) := by
        rw [UInt64.toNat_add, UInt64.toNat_shiftLeft]
        have h2 : (2 : UInt64).toNat % 64 = 2 := by decide
        rw [h2, Nat.shiftLeft_eq]
        have hd' : (UInt64.ofNat (3 - d)).toNat = 3 - d := by
          rw [UInt64.toNat_ofNat']; omega
        rw [hd']
        have : (2:Nat)^2 = 4 := by decide
        rw [this]
        omega
      rw [ih _ (j + 1) (by rw [hval]; exact hlt) (by omega), hval]

theorem encodeRcU64_no_wrap (s : List UInt8) (h : s.length ≤ 32) :
    (encodeRcU64 s).map UInt64.toNat = encodeRc s := by
  have := encodeCompU64From_eq 0 0 s.reverse (by decide) (by simpa using h)
  simpa [encodeRcU64, encodeRc] using this

end GambitV.Tie
