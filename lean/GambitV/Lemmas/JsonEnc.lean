import GambitV.Model.JsonResults

/-!
Helper lemmas for `Props/C11Json.lean`: the definitions of `Model/Json.lean` / `Model/JsonResults.lean` with their private string helper
unfolded (all by `rfl`), what `encode` does on an instance / a hooked object / a mapped list, what `toJson` gives for each class of the
result objects under the two exporters, and the injectivity facts about the documented JSON.  Core Lean only.
-/
namespace GambitV.Json

/-! ### the definitions with the string helper unfolded -/

theorem jsonExporter_eq : jsonExporter =
  [("QueryResults".toList, .asdictExcept ["params".toList]),
   ("QueryResultItem".toList, .fields [("query".toList, .attr ["input".toList]), ("predicted_taxon".toList, .attr ["report_taxon".toList]),
        ("next_taxon".toList, .attr ["classifier_result".toList, "next_taxon".toList]),
        ("closest_genomes".toList, .attr ["closest_genomes".toList])]),
   ("QueryInput".toList, .fields [("name".toList, .attr ["label".toList]),
        ("path".toList, .noneIfNone ["file".toList] (.attr ["file".toList, "path".toList])),
        ("format".toList, .noneIfNone ["file".toList] (.attr ["file".toList, "format".toList]))]),
   ("ReferenceGenomeSet".toList, .fields [("id".toList, .attr ["id".toList]), ("key".toList, .attr ["key".toList]),
        ("version".toList, .attr ["version".toList]), ("name".toList, .attr ["name".toList]),
        ("description".toList, .attr ["description".toList])]),
   ("Taxon".toList, .fields [("id".toList, .attr ["id".toList]), ("key".toList, .attr ["key".toList]),
        ("name".toList, .attr ["name".toList]), ("ncbi_id".toList, .attr ["ncbi_id".toList]),
        ("rank".toList, .attr ["rank".toList]), ("distance_threshold".toList, .attr ["distance_threshold".toList])]),
   ("AnnotatedGenome".toList, .fields [("key".toList, .attr ["key".toList]), ("description".toList, .attr ["description".toList]),
        ("organism".toList, .attr ["organism".toList]), ("ncbi_db".toList, .attr ["ncbi_db".toList]),
        ("ncbi_id".toList, .attr ["ncbi_id".toList]), ("genbank_acc".toList, .attr ["genbank_acc".toList]),
        ("refseq_acc".toList, .attr ["refseq_acc".toList]), ("id".toList, .attr ["genome_id".toList]),
        ("taxonomy".toList, .attr ["taxon".toList, "ancestors(incself=True)".toList])])] := rfl

theorem archiveExporter_eq : archiveExporter =
  [("ReferenceGenomeSet".toList, .fields [("key".toList, .attr ["key".toList]), ("version".toList, .attr ["version".toList])]),
   ("Taxon".toList, .fields [("key".toList, .attr ["key".toList])]),
   ("AnnotatedGenome".toList, .fields [("key".toList, .attr ["key".toList])])] := rfl

theorem JTaxon.columns_eq (t : JTaxon) : t.columns =
  [("id".toList, .int t.id), ("key".toList, .str t.key), ("name".toList, .str t.name), ("ncbi_id".toList, optInt t.ncbiId),
   ("rank".toList, optStr t.rank), ("distance_threshold".toList, optFloat t.threshold)] := rfl

theorem JTaxon.toPVal_eq (t : JTaxon) : t.toPVal = .inst "Taxon".toList false t.columns := rfl

theorem JTaxon.toPValWith_eq (t : JTaxon) (l : List JTaxon) : t.toPValWith l =
  .inst "Taxon".toList false (t.columns ++ [("ancestors(incself=True)".toList, .list (l.map JTaxon.toPVal))]) := rfl

theorem JGenome.toPVal_eq (g : JGenome) : g.toPVal =
  .inst "AnnotatedGenome".toList false
    [("key".toList, .str g.key), ("description".toList, optStr g.description), ("organism".toList, optStr g.organism),
     ("ncbi_db".toList, optStr g.ncbiDb), ("ncbi_id".toList, optInt g.ncbiId), ("genbank_acc".toList, optStr g.genbankAcc),
     ("refseq_acc".toList, optStr g.refseqAcc), ("genome_id".toList, .int g.genomeId),
     ("taxon".toList, g.taxon.toPValWith g.taxonomy)] := rfl

theorem JMatch.toPVal_eq (m : JMatch) : m.toPVal =
  .inst "GenomeMatch".toList true
    [("genome".toList, m.genome.toPVal), ("distance".toList, .float m.distance), ("matched_taxon".toList, optTaxon m.matched)] := rfl

theorem JFile.toPVal_eq (f : JFile) : f.toPVal =
  .inst "SequenceFile".toList true
    [("path".toList, .hooked f.path), ("format".toList, .str f.format), ("compression".toList, optStr f.compression)] := rfl

theorem JItem.inputPVal_eq (it : JItem) : it.inputPVal =
  .inst "QueryInput".toList true [("label".toList, .str it.label), ("file".toList, optFile it.file)] := rfl

theorem JItem.resultPVal_eq (it : JItem) : it.resultPVal =
  .inst "ClassifierResult".toList true
    [("success".toList, .bool it.success), ("predicted_taxon".toList, optTaxon it.predicted), ("primary_match".toList, optMatch it.primary),
     ("closest_match".toList, it.closestMatch.toPVal), ("next_taxon".toList, optTaxon it.next),
     ("warnings".toList, .list (it.warnings.map .str)), ("error".toList, optStr it.error)] := rfl

theorem JItem.toPVal_eq (it : JItem) : it.toPVal =
  .inst "QueryResultItem".toList true
    [("input".toList, it.inputPVal), ("classifier_result".toList, it.resultPVal), ("report_taxon".toList, optTaxon it.report),
     ("closest_genomes".toList, .list (it.closest.map JMatch.toPVal))] := rfl

theorem taxonJson_eq (t : JTaxon) : taxonJson t =
  .obj [("id".toList, .int t.id), ("key".toList, .str t.key), ("name".toList, .str t.name), ("ncbi_id".toList, jInt t.ncbiId),
        ("rank".toList, jStr t.rank), ("distance_threshold".toList, jFloat t.threshold)] := rfl

theorem genomeJson_eq (g : JGenome) : genomeJson g =
  .obj [("key".toList, .str g.key), ("description".toList, jStr g.description), ("organism".toList, jStr g.organism),
        ("ncbi_db".toList, jStr g.ncbiDb), ("ncbi_id".toList, jInt g.ncbiId), ("genbank_acc".toList, jStr g.genbankAcc),
        ("refseq_acc".toList, jStr g.refseqAcc), ("id".toList, .int g.genomeId),
        ("taxonomy".toList, .arr (g.taxonomy.map taxonJson))] := rfl

theorem matchJson_eq (m : JMatch) : matchJson m =
  .obj [("genome".toList, genomeJson m.genome), ("distance".toList, .float m.distance),
        ("matched_taxon".toList, optTaxonJson m.matched)] := rfl

theorem inputJson_eq (it : JItem) : inputJson it =
  .obj [("name".toList, .str it.label),
        ("path".toList, match it.file with | some f => .str f.path | Option.none => .null),
        ("format".toList, match it.file with | some f => .str f.format | Option.none => .null)] := rfl

theorem itemJson_eq (it : JItem) : itemJson it =
  .obj [("query".toList, inputJson it), ("predicted_taxon".toList, optTaxonJson it.report), ("next_taxon".toList, optTaxonJson it.next),
        ("closest_genomes".toList, .arr (it.closest.map matchJson))] := rfl

theorem keyJson_eq (k : List Char) : keyJson k = .obj [("key".toList, .str k)] := rfl

theorem archiveMatchJson_eq (m : JMatch) : archiveMatchJson m =
  .obj [("genome".toList, keyJson m.genome.key), ("distance".toList, .float m.distance),
        ("matched_taxon".toList, optKeyJson m.matched)] := rfl

theorem archiveFileJson_some (f : JFile) : archiveFileJson (some f) =
  .obj [("path".toList, .str f.path), ("format".toList, .str f.format), ("compression".toList, jStr f.compression)] := rfl

theorem archiveFileJson_none : archiveFileJson Option.none = .null := rfl

theorem archiveItemJson_eq (it : JItem) : archiveItemJson it =
  .obj [("input".toList, .obj [("label".toList, .str it.label), ("file".toList, archiveFileJson it.file)]),
        ("classifier_result".toList,
          .obj [("success".toList, .bool it.success), ("predicted_taxon".toList, optKeyJson it.predicted),
                ("primary_match".toList, optArchiveMatchJson it.primary),
                ("closest_match".toList, archiveMatchJson it.closestMatch), ("next_taxon".toList, optKeyJson it.next),
                ("warnings".toList, .arr (it.warnings.map .str)), ("error".toList, jStr it.error)]),
        ("report_taxon".toList, optKeyJson it.report),
        ("closest_genomes".toList, .arr (it.closest.map archiveMatchJson))] := rfl

/-! ### the encoder on the shapes that occur -/

theorem encode_inst (ex : Exporter) (n : Nat) (cls : List Char) (b : Bool) (attrs : List (List Char × PVal)) :
    encode ex (n + 1) (.inst cls b attrs) = (toJson ex (.inst cls b attrs)).bind (encode ex n) := by
  simp [encode]

theorem encode_hooked (ex : Exporter) (n : Nat) (s : List Char) : encode ex (n + 1) (.hooked s) = some (.str s) := by
  simp [encode, toJson]

theorem encode_optInt (ex : Exporter) (n : Nat) (o : Option Int) : encode ex n (optInt o) = some (jInt o) := by
  cases o <;> simp [optInt, jInt, encode]

theorem encode_optStr (ex : Exporter) (n : Nat) (o : Option (List Char)) : encode ex n (optStr o) = some (jStr o) := by
  cases o <;> simp [optStr, jStr, encode]

theorem encode_optFloat (ex : Exporter) (n : Nat) (o : Option Nat) : encode ex n (optFloat o) = some (jFloat o) := by
  cases o <;> simp [optFloat, jFloat, encode]

theorem encodeList_map {α : Type} (ex : Exporter) (k : Nat) (f : α → PVal) (g : α → Json)
    (h : ∀ a, encode ex k (f a) = some (g a)) (l : List α) : encodeList ex k (l.map f) = some (l.map g) := by
  induction l with
  | nil => simp [encodeList]
  | cons a l ih => simp [encodeList, h, ih]

theorem encode_list_map {α : Type} (ex : Exporter) (k : Nat) (f : α → PVal) (g : α → Json)
    (h : ∀ a, encode ex k (f a) = some (g a)) (l : List α) : encode ex k (.list (l.map f)) = some (.arr (l.map g)) := by
  simp [encode, encodeList_map ex k f g h]

theorem encode_list_str (ex : Exporter) (k : Nat) (l : List (List Char)) :
    encode ex k (.list (l.map .str)) = some (.arr (l.map .str)) :=
  encode_list_map ex k _ _ (fun s => by simp [encode]) l

/-! ### the converter on the shapes that occur -/

theorem unstructure_inst_false (cls : List Char) (attrs : List (List Char × PVal)) :
    unstructure (.inst cls false attrs) = .inst cls false attrs := by
  simp [unstructure]

theorem unstructure_optStr (o : Option (List Char)) : unstructure (optStr o) = optStr o := by
  cases o <;> simp [optStr, unstructure]

theorem unstructure_taxon (t : JTaxon) : unstructure t.toPVal = t.toPVal := by
  rw [JTaxon.toPVal_eq, unstructure_inst_false]

theorem unstructure_optTaxon (t : Option JTaxon) : unstructure (optTaxon t) = optTaxon t := by
  cases t with
  | none => simp [optTaxon, unstructure]
  | some t => simp [optTaxon, unstructure_taxon]

theorem unstructure_genome (g : JGenome) : unstructure g.toPVal = g.toPVal := by
  rw [JGenome.toPVal_eq, unstructure_inst_false]

theorem unstructureList_map {α : Type} (f g : α → PVal) (h : ∀ a, unstructure (f a) = g a) (l : List α) :
    unstructureList (l.map f) = l.map g := by
  induction l with
  | nil => simp [unstructureList]
  | cons a l ih => simp [unstructureList, h, ih]

/-- what the converter makes of a `GenomeMatch` -/
def JMatch.unst (m : JMatch) : PVal :=
  .dict [("genome".toList, m.genome.toPVal), ("distance".toList, .float m.distance), ("matched_taxon".toList, optTaxon m.matched)]

def optMatchUnst : Option JMatch → PVal
  | some m => m.unst
  | Option.none => .none

/-- what the converter makes of the `file` attribute of a `QueryInput` -/
def optFileUnst : Option JFile → PVal
  | some f => .dict [("path".toList, .str f.path), ("format".toList, .str f.format), ("compression".toList, optStr f.compression)]
  | Option.none => .none

/-- what the converter makes of a `QueryResultItem` -/
def JItem.unst (it : JItem) : PVal :=
  .dict [("input".toList, .dict [("label".toList, .str it.label), ("file".toList, optFileUnst it.file)]),
         ("classifier_result".toList,
           .dict [("success".toList, .bool it.success), ("predicted_taxon".toList, optTaxon it.predicted),
                  ("primary_match".toList, optMatchUnst it.primary), ("closest_match".toList, it.closestMatch.unst),
                  ("next_taxon".toList, optTaxon it.next), ("warnings".toList, .list (it.warnings.map .str)),
                  ("error".toList, optStr it.error)]),
         ("report_taxon".toList, optTaxon it.report),
         ("closest_genomes".toList, .list (it.closest.map JMatch.unst))]

theorem unstructure_match (m : JMatch) : unstructure m.toPVal = m.unst := by
  simp only [JMatch.toPVal_eq, JMatch.unst, unstructure, unstructureFields, unstructure_genome, unstructure_optTaxon]

theorem unstructure_optMatch (m : Option JMatch) : unstructure (optMatch m) = optMatchUnst m := by
  cases m with
  | none => simp [optMatch, optMatchUnst, unstructure]
  | some m => simp [optMatch, optMatchUnst, unstructure_match]

theorem unstructure_optFile (f : Option JFile) : unstructure (optFile f) = optFileUnst f := by
  cases f with
  | none => simp [optFile, optFileUnst, unstructure]
  | some f =>
    simp only [optFile, optFileUnst, JFile.toPVal_eq, unstructure, unstructureFields, unstructure_optStr]

theorem unstructure_list_str (l : List (List Char)) : unstructure (.list (l.map .str)) = .list (l.map .str) := by
  simp only [unstructure, unstructureList_map PVal.str PVal.str (fun s => by simp [unstructure]) l]

theorem unstructure_item (it : JItem) : unstructure it.toPVal = it.unst := by
  simp only [JItem.toPVal_eq, JItem.inputPVal_eq, JItem.resultPVal_eq, JItem.unst, unstructure, unstructureFields,
    unstructure_optTaxon, unstructure_optMatch, unstructure_optFile, unstructure_match, unstructure_optStr,
    unstructureList_map JMatch.toPVal JMatch.unst unstructure_match,
    unstructureList_map PVal.str PVal.str (fun s => by simp [unstructure])]

/-! ### `toJson` under `jsonExporter` -/

theorem toJson_json_taxon (t : JTaxon) : toJson jsonExporter t.toPVal = some (.dict t.columns) := by
  simp [JTaxon.toPVal_eq, toJson, jsonExporter_eq, JTaxon.columns_eq, evalFields, JExpr.eval, walk, PVal.getattr?, lookup]

theorem toJson_json_genome (g : JGenome) : toJson jsonExporter g.toPVal = some (.dict
    [("key".toList, .str g.key), ("description".toList, optStr g.description), ("organism".toList, optStr g.organism),
     ("ncbi_db".toList, optStr g.ncbiDb), ("ncbi_id".toList, optInt g.ncbiId), ("genbank_acc".toList, optStr g.genbankAcc),
     ("refseq_acc".toList, optStr g.refseqAcc), ("id".toList, .int g.genomeId),
     ("taxonomy".toList, .list (g.taxonomy.map JTaxon.toPVal))]) := by
  simp [JGenome.toPVal_eq, JTaxon.toPValWith_eq, toJson, jsonExporter_eq, JTaxon.columns_eq, evalFields, JExpr.eval, walk,
    PVal.getattr?, lookup]

theorem toJson_json_match (m : JMatch) : toJson jsonExporter m.toPVal = some m.unst := by
  rw [← unstructure_match]
  simp [JMatch.toPVal_eq, toJson, jsonExporter_eq, lookup]

theorem toJson_json_input (it : JItem) : toJson jsonExporter it.inputPVal = some (.dict
    [("name".toList, .str it.label),
     ("path".toList, match it.file with | some f => .hooked f.path | Option.none => .none),
     ("format".toList, match it.file with | some f => .str f.format | Option.none => .none)]) := by
  cases h : it.file with
  | none =>
    simp [JItem.inputPVal_eq, h, optFile, toJson, jsonExporter_eq, evalFields, JExpr.eval, walk, PVal.getattr?, lookup]
  | some f =>
    simp [JItem.inputPVal_eq, h, optFile, JFile.toPVal_eq, toJson, jsonExporter_eq, evalFields, JExpr.eval, walk, PVal.getattr?,
      lookup]

theorem toJson_json_item (it : JItem) : toJson jsonExporter it.toPVal = some (.dict
    [("query".toList, it.inputPVal), ("predicted_taxon".toList, optTaxon it.report), ("next_taxon".toList, optTaxon it.next),
     ("closest_genomes".toList, .list (it.closest.map JMatch.toPVal))]) := by
  simp [JItem.toPVal_eq, JItem.resultPVal_eq, toJson, jsonExporter_eq, evalFields, JExpr.eval, walk, PVal.getattr?, lookup]

/-! ### `toJson` under `archiveExporter` -/

theorem toJson_archive_taxon (t : JTaxon) : toJson archiveExporter t.toPVal = some (.dict [("key".toList, .str t.key)]) := by
  simp [JTaxon.toPVal_eq, toJson, archiveExporter_eq, JTaxon.columns_eq, evalFields, JExpr.eval, walk, PVal.getattr?, lookup]

theorem toJson_archive_genome (g : JGenome) : toJson archiveExporter g.toPVal = some (.dict [("key".toList, .str g.key)]) := by
  simp [JGenome.toPVal_eq, toJson, archiveExporter_eq, evalFields, JExpr.eval, walk, PVal.getattr?, lookup]

theorem toJson_archive_item (it : JItem) : toJson archiveExporter it.toPVal = some it.unst := by
  rw [← unstructure_item]
  simp [JItem.toPVal_eq, toJson, archiveExporter_eq, lookup]

theorem encode_archive_taxon (n : Nat) (t : JTaxon) : encode archiveExporter (n + 1) t.toPVal = some (keyJson t.key) := by
  rw [JTaxon.toPVal_eq, encode_inst, ← JTaxon.toPVal_eq, toJson_archive_taxon]
  simp [keyJson_eq, encode, encodeFields]

theorem encode_archive_optTaxon (n : Nat) (t : Option JTaxon) :
    encode archiveExporter (n + 1) (optTaxon t) = some (optKeyJson t) := by
  cases t with
  | none => simp [optTaxon, optKeyJson, encode]
  | some t => simp [optTaxon, optKeyJson, encode_archive_taxon]

theorem encode_archive_genome (n : Nat) (g : JGenome) : encode archiveExporter (n + 1) g.toPVal = some (keyJson g.key) := by
  rw [JGenome.toPVal_eq, encode_inst, ← JGenome.toPVal_eq, toJson_archive_genome]
  simp [keyJson_eq, encode, encodeFields]

theorem encode_archive_match_unst (n : Nat) (m : JMatch) : encode archiveExporter (n + 1) m.unst = some (archiveMatchJson m) := by
  simp [JMatch.unst, archiveMatchJson_eq, encode, encodeFields, encode_archive_genome, encode_archive_optTaxon]

theorem encode_archive_optMatch_unst (n : Nat) (m : Option JMatch) :
    encode archiveExporter (n + 1) (optMatchUnst m) = some (optArchiveMatchJson m) := by
  cases m with
  | none => simp [optMatchUnst, optArchiveMatchJson, encode]
  | some m => simp [optMatchUnst, optArchiveMatchJson, encode_archive_match_unst]

theorem encode_archive_optFile_unst (n : Nat) (f : Option JFile) :
    encode archiveExporter n (optFileUnst f) = some (archiveFileJson f) := by
  cases f with
  | none => simp [optFileUnst, archiveFileJson_none, encode]
  | some f => simp [optFileUnst, archiveFileJson_some, encode, encodeFields, encode_optStr]

/-! ### injectivity of the documented JSON -/

theorem jInt_inj {a b : Option Int} : jInt a = jInt b ↔ a = b := by
  cases a <;> cases b <;> simp [jInt]

theorem jStr_inj {a b : Option (List Char)} : jStr a = jStr b ↔ a = b := by
  cases a <;> cases b <;> simp [jStr]

theorem jFloat_inj {a b : Option Nat} : jFloat a = jFloat b ↔ a = b := by
  cases a <;> cases b <;> simp [jFloat]

theorem taxonJson_inj {a b : JTaxon} : taxonJson a = taxonJson b ↔ a = b := by
  constructor
  · intro h
    simp only [taxonJson_eq, Json.obj.injEq, List.cons.injEq, Prod.mk.injEq, Json.int.injEq, Json.str.injEq, jInt_inj, jStr_inj,
      jFloat_inj, true_and, and_true] at h
    cases a; cases b
    simp_all
  · intro h; rw [h]

theorem optTaxonJson_inj {a b : Option JTaxon} : optTaxonJson a = optTaxonJson b ↔ a = b := by
  cases a <;> cases b <;> simp [optTaxonJson, taxonJson_inj] <;> simp [taxonJson_eq]

/-- the keys-only image of a match / an item, as a function of the keys -/
def optKJson : Option (List Char) → Json
  | some k => keyJson k
  | Option.none => .null

def matchKeysJson (k : MatchKeysJ) : Json :=
  .obj [("genome".toList, keyJson k.genome), ("distance".toList, .float k.distance), ("matched_taxon".toList, optKJson k.matched)]

def optMatchKeysJson : Option MatchKeysJ → Json
  | some k => matchKeysJson k
  | Option.none => .null

def itemKeysJson (k : ItemKeysJ) : Json :=
  .obj [("input".toList, .obj [("label".toList, .str k.label), ("file".toList, archiveFileJson k.file)]),
        ("classifier_result".toList,
          .obj [("success".toList, .bool k.success), ("predicted_taxon".toList, optKJson k.predicted),
                ("primary_match".toList, optMatchKeysJson k.primary),
                ("closest_match".toList, matchKeysJson k.closestMatch), ("next_taxon".toList, optKJson k.next),
                ("warnings".toList, .arr (k.warnings.map .str)), ("error".toList, jStr k.error)]),
        ("report_taxon".toList, optKJson k.report),
        ("closest_genomes".toList, .arr (k.closest.map matchKeysJson))]

theorem optKeyJson_eq (t : Option JTaxon) : optKeyJson t = optKJson (t.map (·.key)) := by
  cases t <;> rfl

theorem archiveMatchJson_keys (m : JMatch) : archiveMatchJson m = matchKeysJson m.keys := by
  simp only [archiveMatchJson_eq, matchKeysJson, JMatch.keys, optKeyJson_eq]

theorem optArchiveMatchJson_keys (m : Option JMatch) : optArchiveMatchJson m = optMatchKeysJson (m.map JMatch.keys) := by
  cases m with
  | none => rfl
  | some m => simp only [optArchiveMatchJson, Option.map, optMatchKeysJson, archiveMatchJson_keys]

theorem archiveItemJson_keys (it : JItem) : archiveItemJson it = itemKeysJson it.keys := by
  have hl : it.closest.map archiveMatchJson = (it.closest.map JMatch.keys).map matchKeysJson := by
    rw [List.map_map]; exact List.map_congr_left (fun m _ => archiveMatchJson_keys m)
  simp only [archiveItemJson_eq, itemKeysJson, JItem.keys, optKeyJson_eq, optArchiveMatchJson_keys, archiveMatchJson_keys, hl]

theorem keyJson_inj {a b : List Char} : keyJson a = keyJson b ↔ a = b := by
  simp [keyJson_eq]

theorem optKJson_inj {a b : Option (List Char)} : optKJson a = optKJson b ↔ a = b := by
  cases a <;> cases b <;> simp [optKJson, keyJson_eq]

theorem matchKeysJson_inj {a b : MatchKeysJ} : matchKeysJson a = matchKeysJson b ↔ a = b := by
  constructor
  · intro h
    simp only [matchKeysJson, Json.obj.injEq, List.cons.injEq, Prod.mk.injEq, Json.float.injEq, keyJson_inj, optKJson_inj,
      true_and, and_true] at h
    cases a; cases b
    simp_all
  · intro h; rw [h]

theorem optMatchKeysJson_inj {a b : Option MatchKeysJ} : optMatchKeysJson a = optMatchKeysJson b ↔ a = b := by
  cases a <;> cases b <;> simp [optMatchKeysJson, matchKeysJson_inj] <;> simp [matchKeysJson]

theorem archiveFileJson_inj {a b : Option JFile} : archiveFileJson a = archiveFileJson b ↔ a = b := by
  cases a with
  | none => cases b <;> simp [archiveFileJson_none, archiveFileJson_some]
  | some f =>
    cases b with
    | none => simp [archiveFileJson_none, archiveFileJson_some]
    | some g =>
      simp only [archiveFileJson_some, Json.obj.injEq, List.cons.injEq, Prod.mk.injEq, Json.str.injEq, jStr_inj, true_and, and_true,
        Option.some.injEq]
      cases f; cases g
      simp

theorem itemKeysJson_inj {a b : ItemKeysJ} : itemKeysJson a = itemKeysJson b ↔ a = b := by
  constructor
  · intro h
    simp only [itemKeysJson, Json.obj.injEq, Json.arr.injEq, List.cons.injEq, Prod.mk.injEq, Json.str.injEq, Json.bool.injEq,
      archiveFileJson_inj, optKJson_inj, optMatchKeysJson_inj, matchKeysJson_inj, jStr_inj,
      List.map_inj_right (fun x y (h : matchKeysJson x = matchKeysJson y) => matchKeysJson_inj.mp h),
      List.map_inj_right (fun x y (h : Json.str x = Json.str y) => Json.str.inj h),
      true_and, and_true] at h
    cases a; cases b
    simp_all
  · intro h; rw [h]

end GambitV.Json
