import GambitV.Model.Taxonomy

/-!
Specifications for C03 / C09 / C10 in the wording of the property statements, independent of how
`classify.py` computes them.  Each has an executable (`Bool` / value) form used by the driver as the
oracle on real outputs; `Props/C03`, `Props/C09`, `Props/C10` prove the model meets them.
-/
namespace GambitV

/-- threshold-bearing members of a genome's lineage, most specific first -/
def thrLineage (F : Forest) (t : Nat) : List Nat := (F.lineage t).filter (fun a => (F.thrOf a).isSome)

/-- "the most specific taxon in that genome's lineage (its own taxon first, then ancestors) that
carries a threshold not smaller than that distance, or no prediction if there is none" -/
def predictedSpec (F : Forest) (t d : Nat) : Option Nat := (thrLineage F t).find? (fun a => F.covers a d)

/-- "the nearest threshold-bearing taxon below the prediction in that lineage (absent when the
prediction is the genome's own taxon [or nothing threshold-bearing lies below it]; the topmost
threshold-bearing one when nothing is predicted)" -/
def nextSpec (F : Forest) (t d : Nat) : Option Nat :=
  let T := thrLineage F t
  match T.findIdx? (fun a => F.covers a d) with
  | some 0 => none
  | some (i + 1) => T[i]?
  | none => T.getLast?

/-- "the first taxon at or above the prediction that is flagged reportable" -/
def reportSpec (F : Forest) : Option Nat → Option Nat
  | none => none
  | some p => (F.lineage p).find? (fun a => F.reportOf a)

/-- The whole default-mode statement as a relation on an observed result. -/
def defaultOk (F : Forest) (gtax ds : List Nat) (closest : Nat) (predicted primary next report : Option Nat) : Bool :=
  let d := ds.getD closest 0
  let t := gtax.getD closest 0
  decide (closest < ds.length) && ds.all (fun x => decide (d ≤ x))      -- a genome at the minimum distance
  && predicted == predictedSpec F t d
  && primary == (if predicted.isSome then some closest else none)
  && next == nextSpec F t d
  && report == reportSpec F predicted

/-! ### C09 -/

def keyLt (ds : List Nat) (i j : Nat) : Bool :=
  ds.getD i 0 < ds.getD j 0 || (ds.getD i 0 == ds.getD j 0 && i < j)

/-- `L` is the list of the `min N n` nearest references in (distance, reference order) order. -/
def closestOk (ds : List Nat) (N : Nat) (L : List Nat) : Bool :=
  decide (L.length = min N ds.length)
  && L.all (fun i => decide (i < ds.length))
  && (List.range L.length).all (fun a => (List.range L.length).all (fun b =>
        !(decide (a < b)) || keyLt ds (L.getD a 0) (L.getD b 0)))
  && (List.range ds.length).all (fun j => L.contains j || L.all (fun i => keyLt ds i j))

/-! ### C10 -/

def properPrefix (p s : List Nat) : Bool := isPrefix p s && decide (p.length < s.length)

/-- the most specific matched taxa: those with no matched taxon strictly below them -/
def maximalPaths (T : List (List Nat)) : List (List Nat) := T.filter (fun m => !(T.any (fun s => properPrefix m s)))

def lcpAll : List (List Nat) → List Nat
  | [] => []
  | p :: ps => ps.foldl lcp p

/-- "the most specific one if they lie on a single lineage, otherwise the lowest common ancestor of
the most specific ones, and no taxon … if they share no ancestor" -/
def consensusSpec (T : List (List Nat)) : Option (List Nat) :=
  if T.isEmpty then none else
  let l := lcpAll (maximalPaths T)
  if l.isEmpty then none else some l

/-- matched taxa strictly below the prediction (all of them when there is no common ancestor) -/
def othersSpec (T : List (List Nat)) : List (List Nat) :=
  match consensusSpec T with
  | none => T
  | some c => T.filter (fun t => properPrefix c t)

def dedup (l : List Nat) : List Nat := l.foldl (fun acc x => if acc.contains x then acc else acc ++ [x]) []

def sortNat (l : List Nat) : List Nat := l.foldr (fun x acc =>
  let rec ins : List Nat → List Nat
    | [] => [x]
    | y :: ys => if x ≤ y then x :: y :: ys else y :: ins ys
  ins acc) []

/-- The strict-mode statement as a relation on an observed result.
`warn` = taxa named in the inconsistency warning (sorted, [] = no such warning). -/
def strictOk (F : Forest) (gtax ds : List Nat) (success : Bool) (predicted primary : Option Nat)
    (closest : Nat) (warn : List Nat) (failed : Bool) : Bool :=
  let matched : List (Option Nat) := (List.range gtax.length).map (fun i => predictedSpec F (gtax.getD i 0) (ds.getD i 0))
  let taxa := dedup (matched.filterMap id)
  let paths := taxa.map F.path
  let cons := consensusSpec paths
  let consNode := cons.bind (fun p => p.getLast?)
  let dmin := ds.getD closest 0
  decide (closest < ds.length) && ds.all (fun x => decide (dmin ≤ x))
  && predicted == consNode
  && failed == (!taxa.isEmpty && cons.isNone)
  && success == !failed
  && (failed || sortNat warn == sortNat ((othersSpec paths).filterMap (fun p => p.getLast?)))
  && (match cons with
      | none => primary.isNone
      | some cp =>
        -- genomes whose matched taxon lies at or below the prediction
        let ok := (List.range gtax.length).filter (fun i => match matched.getD i none with
          | some t => isPrefix cp (F.path t)
          | none => false)
        match primary with
        | none => false
        | some p => ok.contains p && ok.all (fun i => decide (ds.getD p 0 ≤ ds.getD i 0)))

end GambitV
