import GambitV.Model.Find

/-!
Specification of a k-mer signature, independent of how the code searches: the set of k-mers that
directly follow an occurrence of the prefix on either strand of one of the sequences.
`Prop` form (`SpecMem`) for the theorems and an executable brute-force enumeration (`specList`)
used by the driver as the oracle; `Props/C01` proves that they agree and that the model of the
implementation computes exactly this.
-/
namespace GambitV

/-- `x` is the index of a k-mer that directly follows an occurrence of `pre` in `t`
(case ignored for the occurrence; the k-mer must lie inside `t` and be a valid k-mer). -/
def StrandMem (k : Nat) (pre t : List UInt8) (x : Nat) : Prop :=
  ∃ i, matchAt (upper t) pre i = true ∧ i + pre.length + k ≤ t.length ∧
    encode ((t.drop (i + pre.length)).take k) = some x

/-- Membership in the signature of a collection of sequences: either strand of some sequence. -/
def SpecMem (k : Nat) (pre : List UInt8) (seqs : List (List UInt8)) (x : Nat) : Prop :=
  ∃ s ∈ seqs, StrandMem k pre s x ∨ StrandMem k pre (revcomp s) x

/-- Brute force: try every position of one strand. -/
def strandOcc (k : Nat) (pre t : List UInt8) : List Nat :=
  let ut := upper t
  (List.range t.length).filterMap fun i =>
    if matchAt ut pre i && decide (i + pre.length + k ≤ t.length)
    then encode ((t.drop (i + pre.length)).take k) else none

def specList (k : Nat) (pre : List UInt8) (seqs : List (List UInt8)) : List Nat :=
  setAccumulate (seqs.flatMap fun s => strandOcc k pre s ++ strandOcc k pre (revcomp s))

end GambitV
