import GambitV.Model.Json

/-!
What C11 asks of the JSON export, as an executable predicate on (the results object as a Python value, the JSON that was written):
"valid JSON carrying the same label, reported and next taxon, and closest-genome data for each query".  It looks only at what the
statement names, so an export with additional members still satisfies it.  Core Lean only.
-/
namespace GambitV.Json


/-- a JSON-native attribute value and the JSON value written for it -/
def leafEq : Option PVal → Option Json → Bool
  | some .none, some .null => true
  | some (.bool a), some (.bool b) => a == b
  | some (.int a), some (.int b) => a == b
  | some (.float a), some (.float b) => a == b
  | some (.str a), some (.str b) => a == b
  | _, _ => false

/-- a taxon (or `None`) and its JSON: same key, name, rank, NCBI id and threshold (or `null`) -/
def taxonCarried : Option PVal → Option Json → Bool
  | some .none, some .null => true
  | some (.inst cls isA attrs), some (.obj kvs) =>
    ["key".toList, "name".toList, "rank".toList, "ncbi_id".toList, "distance_threshold".toList].all
      (fun k => leafEq ((PVal.inst cls isA attrs).getattr? k) ((Json.obj kvs).get? k))
  | _, _ => false

def zipAll {α β : Type} (p : α → β → Bool) : List α → List β → Bool
  | [], [] => true
  | x :: xs, y :: ys => p x y && zipAll p xs ys
  | _, _ => false

/-- a closest-genome entry: the genome's key and description, the distance to the last bit, the matched taxon, the genome's lineage by key -/
def matchCarried (v : PVal) (j : Json) : Bool :=
  leafEq (walk v ["genome".toList, "key".toList]) (j.path? ["genome".toList, "key".toList])
  && leafEq (walk v ["genome".toList, "description".toList]) (j.path? ["genome".toList, "description".toList])
  && leafEq (walk v ["distance".toList]) (j.get? ("distance".toList))
  && taxonCarried (walk v ["matched_taxon".toList]) (j.get? ("matched_taxon".toList))
  && (match walk v ["genome".toList, "taxon".toList, "ancestors(incself=True)".toList], j.path? ["genome".toList, "taxonomy".toList] with
      | some (.list ts), some (.arr js) => zipAll (fun t x => taxonCarried (some t) (some x)) ts js
      | _, _ => false)

/-- one query: label, reported taxon, next taxon, closest genomes in order -/
def itemCarried (v : PVal) (j : Json) : Bool :=
  leafEq (walk v ["input".toList, "label".toList]) (j.path? ["query".toList, "name".toList])
  && taxonCarried (walk v ["report_taxon".toList]) (j.get? ("predicted_taxon".toList))
  && taxonCarried (walk v ["classifier_result".toList, "next_taxon".toList]) (j.get? ("next_taxon".toList))
  && (match walk v ["closest_genomes".toList], j.get? ("closest_genomes".toList) with
      | some (.list ms), some (.arr js) => zipAll matchCarried ms js
      | _, _ => false)

/-- the whole export: one element per query, in order -/
def resultsCarried (v : PVal) (j : Json) : Bool :=
  match walk v ["items".toList], j.get? ("items".toList) with
  | some (.list its), some (.arr js) => zipAll itemCarried its js
  | _, _ => false

end GambitV.Json
