/-
Line protocol helpers for the correspondence driver. Core Lean only.

request : `<op> <tok> <tok> …`   tokens are separated by single spaces
tokens  : decimal naturals / integers, `-` for an empty list, comma-separated lists, hex byte strings
          (`-` = empty), `~` for None
reply   : `ok` or `FAIL <detail>` or `bad-op <detail>`
-/
namespace Driver

def hexDigit (c : Char) : Option Nat :=
  if '0' ≤ c ∧ c ≤ '9' then some (c.toNat - '0'.toNat)
  else if 'a' ≤ c ∧ c ≤ 'f' then some (c.toNat - 'a'.toNat + 10)
  else if 'A' ≤ c ∧ c ≤ 'F' then some (c.toNat - 'A'.toNat + 10)
  else none

partial def parseHexAux : List Char → List UInt8 → Option (List UInt8)
  | [], acc => some acc.reverse
  | [_], _ => none
  | a :: b :: rest, acc =>
    match hexDigit a, hexDigit b with
    | some x, some y => parseHexAux rest (UInt8.ofNat (x * 16 + y) :: acc)
    | _, _ => none

def parseHex (s : String) : Option (List UInt8) :=
  if s == "-" then some [] else parseHexAux s.toList []

def hexChar (n : Nat) : Char :=
  if n < 10 then Char.ofNat (n + '0'.toNat) else Char.ofNat (n - 10 + 'a'.toNat)

def hexOf (bs : List UInt8) : String :=
  if bs.isEmpty then "-" else
  String.ofList (bs.flatMap fun b => [hexChar (b.toNat / 16), hexChar (b.toNat % 16)])

def parseNats (s : String) : Option (List Nat) :=
  if s == "-" then some [] else (s.splitOn ",").mapM String.toNat?

def parseInts (s : String) : Option (List Int) :=
  if s == "-" then some [] else (s.splitOn ",").mapM String.toInt?

def natsOf (l : List Nat) : String :=
  if l.isEmpty then "-" else ",".intercalate (l.map toString)

def intsOf (l : List Int) : String :=
  if l.isEmpty then "-" else ",".intercalate (l.map toString)

/-- `a;b;c` list of lists of naturals (`_` = no lists at all, `-` = an empty inner list). -/
def parseNatLists (s : String) : Option (List (List Nat)) :=
  if s == "_" then some [] else (s.splitOn ";").mapM parseNats

def natListsOf (l : List (List Nat)) : String :=
  if l.isEmpty then "_" else ";".intercalate (l.map natsOf)

def parseHexList (s : String) : Option (List (List UInt8)) :=
  if s == "_" then some [] else (s.splitOn ";").mapM parseHex

/-- optional natural: `~` = none -/
def parseOptNat (s : String) : Option (Option Nat) :=
  if s == "~" then some none else s.toNat?.map some

def parseOptInt (s : String) : Option (Option Int) :=
  if s == "~" then some none else s.toInt?.map some

def optNatOf : Option Nat → String
  | none => "~"
  | some n => toString n

def optIntOf : Option Int → String
  | none => "~"
  | some n => toString n

def parseOptNats (s : String) : Option (List (Option Nat)) :=
  if s == "-" then some [] else (s.splitOn ",").mapM parseOptNat

def parseBool (s : String) : Option Bool :=
  if s == "1" then some true else if s == "0" then some false else none

def boolOf (b : Bool) : String := if b then "1" else "0"

/-- Compare the model's canonical output with the real one. -/
def expect (model real : String) : String :=
  if model == real then "ok" else s!"FAIL expected={model} got={real}"

def verdict (b : Bool) (detail : String := "") : String :=
  if b then "ok" else s!"FAIL {detail}"

end Driver
