import GambitV.Model.Fasta
import Driver.Proto
import Driver.PyGenCmp
namespace Driver.C06
open GambitV Driver

def handle : List String → Option String
  | ["c06.parse", text, real] => do
    let text ← parseHex text
    let real ← parseHexList real
    pure (if parseFasta text == real then "ok" else s!"FAIL parsed records differ: model {";".intercalate ((parseFasta text).map hexOf)}")
  | ["c06.union", parts, whole] => do
    let parts ← parseNatLists parts
    let whole ← parseNats whole
    pure (expect (natsOf (setAccumulate parts.flatten)) (natsOf whole))
  | ["c06.same", a, b] => pure (expect a b)
  | ["c06.gz", head, real] => do
    let head ← parseHex head
    let r := expect (boolOf (guessGzip head)) real
    if r != "ok" then pure r else
    -- the definition generated from the current source of guess_compression against the real answer
    pure ((PyGen.cmp "guess_compression" Gen.guess_compression.untranslatable
      (PyGen.resStr (fun (t : List Char) => boolOf (t == "gzip".toList)) (Gen.guess_compression head ())) real).getD "ok")
  | _ => none

end Driver.C06
