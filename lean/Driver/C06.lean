import GambitV.Model.Fasta
import Driver.Proto
namespace Driver.C06
open GambitV Driver

def handle : List String → Option String
  | ["c06.parse", text, real] => do
    let text ← parseHex text
    let real ← parseHexList real
    pure (if parseFasta text == real then "ok" else s!"FAIL parsed records differ: model {";".intercalate ((parseFasta text).map hexOf)}")
  | ["c06.union", parts, whole] => do
    let parts ← parseNatLists parts
    let whole ← parseNats whole
    pure (expect (natsOf (setAccumulate parts.flatten)) (natsOf whole))
  | ["c06.same", a, b] => pure (expect a b)
  | ["c06.gz", head, real] => do
    let head ← parseHex head
    pure (expect (boolOf (guessGzip head)) real)
  | _ => none

end Driver.C06
