import GambitV.Gen.PyMatching
import GambitV.Gen.PyLocate
import GambitV.Gen.PyDmatCsv
import GambitV.Model.Csv
import GambitV.Gen.PySeqFiles
import GambitV.Gen.PyAncestors
import GambitV.Gen.PyFindMatches
import GambitV.Gen.PyConsensus
import GambitV.Gen.PyNext
import GambitV.Gen.PyChunks
import GambitV.Gen.PyFindKmers
import GambitV.Gen.PyCheckIndex
import GambitV.Gen.PyKmerWrappers
import GambitV.Gen.PyLabels
import GambitV.Gen.PyReportable
import GambitV.Gen.PyClassify
import GambitV.Gen.PyResultItem
import GambitV.Gen.PyRefDb
import GambitV.Gen.PyCalcFiles
import GambitV.Gen.PyMetric
import GambitV.Gen.PyBulk
import GambitV.Gen.PyConcat
import GambitV.Gen.PyCalcSig
import GambitV.Gen.PySigList
import GambitV.Gen.PyParams
import GambitV.Gen.PyCluster
import GambitV.Gen.PyGetitem
import GambitV.Gen.PyIo
import GambitV.Gen.PyGetattr
import GambitV.Gen.PySigEq
import GambitV.Gen.PyCalcFile
import GambitV.Gen.PySigListGetitem
import GambitV.Model.Params
import GambitV.Model.Bulk
import GambitV.Model.Indexing
import GambitV.Spec.Taxonomy
import Driver.Proto

/-!
Three-way comparison for the Python → Lean translator: the definitions generated from the *current* Python sources
(`GambitV.Gen.*`, translated by harness/py2lean.py) are evaluated next to the value the real code returned.  A difference is a
broken correspondence of the translation (reported as `DIFF generated …`).  When a function could not be translated the
comparison is skipped (the check already treats the tie as broken).
-/
namespace Driver.PyGen
open GambitV Driver

def resStr {α : Type} (f : α → String) : Py.Res α → String
  | .ok a => f a
  | .raised e => "!" ++ e.name
  | .fuelOut => "!fuel"

/-- `none` = the generated definition agrees with the real value (or is not available); a difference is a broken correspondence (`DIFF`, DESIGN §2.5):
whether the input is a *failing* one is decided by the statement's own predicate on the same case -/
def cmp (fn : String) (untranslatable : Bool) (gen real : String) : Option String :=
  if untranslatable || gen == real then none
  else some s!"DIFF generated {fn} (translated from the current source) ~ the real function: generated = {gen}, real = {real}"

/-- a Biopython clade as text: `name:length` for a terminal, `(child,child):length` otherwise; `~` = None -/
partial def cladeStr (c : Py.Clade) : String :=
  let bl := match c.branch_length with | some x => toString x | none => "~"
  if c.clades.isEmpty then (match c.name with | some n => toString n | none => "~") ++ ":" ++ bl
  else "(" ++ ",".intercalate (c.clades.map cladeStr) ++ "):" ++ bl

def matching (F : Forest) (t d : Nat) (real : String) : Option String :=
  cmp "matching_taxon" Gen.matching_taxon.untranslatable (resStr optNatOf (Gen.matching_taxon F t d)) real

def next (F : Forest) (t d : Nat) (real : String) : Option String :=
  cmp "GenomeMatch.next_taxon" Gen.next_taxon.untranslatable (resStr optNatOf (Gen.next_taxon F [t] 0 d)) real

def consensus (F : Forest) (taxa : List Nat) (real : String) : Option String :=
  cmp "consensus_taxon" Gen.consensus_taxon.untranslatable
    (resStr (fun (r : Option Nat × List Nat) => optNatOf r.1 ++ "/" ++ natsOf (sortNat r.2)) (Gen.consensus_taxon F taxa)) real

def fmStr (m : List (Nat × List Int)) : String :=
  if m.isEmpty then "_" else ";".intercalate (m.map (fun e => s!"{e.1}:{intsOf e.2}"))

def findMatches (F : Forest) (gtax ds : List Nat) (real : String) : Option String :=
  cmp "find_matches" Gen.find_matches.untranslatable
    (resStr fmStr (Gen.find_matches F gtax ((List.range gtax.length).zip ds))) real

def pairsStr (l : List (Int × Int)) : String := ";".intercalate (l.map fun ab => s!"{ab.1},{ab.2}")

def chunks (n size : Int) (real : String) : Option String :=
  cmp "chunk_slices" Gen.chunk_slices.untranslatable (resStr pairsStr (Gen.chunk_slices n size)) real

def findKmers (k : Nat) (pre s : List UInt8) (real : String) : Option String :=
  cmp "find_kmers" Gen.find_kmers.untranslatable
    (resStr (fun (l : List (Int × Bool)) =>
      intsOf ((l.filter (fun m => !m.2)).map (·.1)) ++ "|" ++ intsOf ((l.filter (fun m => m.2)).map (·.1)))
      (Gen.find_kmers { k := (k : Int), pre := pre } s)) real

def checkIndex (n : Nat) (i : Int) : Option String :=
  cmp "_check_index" Gen.check_index.untranslatable (resStr toString (Gen.check_index (n : Int) i))
    (match GambitV.checkIndex n i with | .ok j => toString j | .error _ => "!IndexError")

/-- `real` in the wire form of `c07.enc`: `ok:<n>` / `err:<kind>` (every error of the wrappers is a `ValueError`) -/
def encReal (real : String) : String :=
  if real.startsWith "ok:" then (real.drop 3).toString else "!ValueError"

def kmerToIndex (s : List UInt8) (real : String) : Option String :=
  cmp "kmer_to_index" Gen.kmer_to_index.untranslatable (resStr toString (Gen.kmer_to_index s)) (encReal real)

def kmerToIndexRc (s : List UInt8) (real : String) : Option String :=
  cmp "kmer_to_index_rc" Gen.kmer_to_index_rc.untranslatable (resStr toString (Gen.kmer_to_index_rc s)) (encReal real)

def indexDtype (k : Nat) (real : String) : Option String :=
  cmp "index_dtype" Gen.index_dtype.untranslatable (resStr optIntOf (Gen.index_dtype (k : Int))) real

def fileId (path : List Char) (real : String) : Option String :=
  cmp "get_file_id" Gen.get_file_id.untranslatable (resStr String.ofList (Gen.get_file_id path true true)) real

def reportable (F : Forest) (t : Option Nat) (real : String) : Option String :=
  cmp "reportable_taxon" Gen.reportable_taxon.untranslatable (resStr optNatOf (Gen.reportable_taxon F t)) real

/-- the fields of a `ClassifierResult` that the per-property operations observe:
`success/predicted/primary genome/closest genome/inconsistency warning present/not-closest warning present/failed` -/
def clsStr (r : Py.ClassifierResult) : String :=
  s!"{boolOf r.success}/{optNatOf r.predicted_taxon}/{optNatOf (r.primary_match.map (·.genome))}/{r.closest_match.genome}/" ++
  s!"{boolOf (r.warnings.contains "Query matched ")}/{boolOf (r.warnings.contains "Primary genome match is not closest match.")}/{boolOf r.error.isSome}"

def classify (F : Forest) (gtax ds : List Nat) (strict : Bool) (real : String) : Option String :=
  cmp "classify" Gen.classify.untranslatable (resStr clsStr (Gen.classify F gtax (List.range gtax.length) ds strict)) real

/-- the closest-genomes list and the closest match of `get_result_item` depend only on the distance row: evaluated on a one-taxon forest -/
def closestList (ds : List Nat) (n : Nat) (real : String) : Option String :=
  let F : Forest := { parent := [none], thr := [none], report := [true] }
  cmp "get_result_item" Gen.get_result_item.untranslatable
    (resStr (fun (r : Py.QueryResultItem) => natsOf (r.closest_genomes.map (·.genome)) ++ "/" ++ toString r.classifier_result.closest_match.genome)
      (Gen.get_result_item F (List.replicate ds.length 0) () { classify_strict := false, chunksize := none, report_closest := (n : Int) } ds 0)) real

/-- `ReferenceDatabase.__init__`: (genomes, sig_indices) in the wire form of `c04.load` -/
def refdbInit (attr : Option Bool) (gids : List (Option Nat)) (sids : List Nat) (real : String) : Option String :=
  let g := match Gen.refdb_init gids attr sids () () with
    | .ok (gs, ps) => if gs.isEmpty then "ok:-" else "ok:" ++ ";".intercalate ((gs.zip ps).map fun gp => s!"{gp.1},{gp.2}")
    | .raised e => "err:" ++ e.name
    | .fuelOut => "!fuel"
  cmp "ReferenceDatabase.__init__" Gen.refdb_init.untranslatable g real

/-- `ReferenceDatabase.locate_files` on a directory listing, in the wire form of `c04.locate` -/
def locateFiles (names : List (List Char)) (real : String) : Option String :=
  let g := match Gen.locate_files names () [] with
    | .ok (g, s) => "ok:" ++ String.ofList g ++ ":" ++ String.ofList s
    | .raised _ => "err"
    | .fuelOut => "!fuel"
  cmp "ReferenceDatabase.locate_files" Gen.locate_files.untranslatable g real

/-- `get_sequence_files(explicit, listfile, listfile_dir)` generated from the current source (with `read_lines` and `get_file_id`), on the
positional paths and on the lines iterating over the real list file yields: `id|path;…`, `~` = `(None, None)` -/
def seqFiles (pos : List (List Char)) (lines : Option (List (List Char))) (ldir : List Char) (real : String) : Option String :=
  let g := match Gen.get_sequence_files (lines.getD []) (some pos) (lines.map (fun _ => ())) (some ldir) true true with
    | .ok (some (ids, files)) => ";".intercalate ((ids.zip files).map (fun x => String.ofList x.1 ++ "|" ++ String.ofList x.2))
    | .ok none => "~"
    | .raised e => "!" ++ e.name
    | .fuelOut => "!fuel"
  cmp "get_sequence_files" Gen.get_sequence_files.untranslatable g real

/-- `dump_dmat_csv` generated from the current source (the rows it hands to the csv writer, written in the default dialect) against the real file -/
def dmatCsv (rowIds colIds : List (List Char)) (cells : List (List UInt32)) (real : List Char) : Option String :=
  let g := match Gen.dump_dmat_csv () cells rowIds colIds none "0.4f".toList with
    | .ok rows => String.ofList (writeCsv ['\r', '\n'] rows)
    | .raised e => "!" ++ e.name
    | .fuelOut => "!fuel"
  cmp "dump_dmat_csv" Gen.dump_dmat_csv.untranslatable g (String.ofList real)

/-- `Taxon.ancestors(incself)` generated from the current source against the real method -/
def taxonAncestors (F : Forest) (t : Nat) (inc : Bool) (real : String) : Option String :=
  cmp "Taxon.ancestors" Gen.taxon_ancestors.untranslatable (resStr natsOf (Gen.taxon_ancestors F t inc)) real

/-- `calc_file_signatures` on files `0 … n-1` whose signatures are abstracted to their own index (`ok i` = file `i` succeeds), with the
completion order `σ` (`none` = the sequential branch): `ok` = the list in file order, `err` = the call raises -/
def calcFiles (oks : List Bool) (sigma : Option (List Nat)) (realIsErr : Bool) : Option String :=
  let n := oks.length
  let R : List (Option Nat) := (List.range n).map (fun i => if oks.getD i false then some i else none)
  let g := match sigma with
    | none => Gen.calc_file_signatures R [] () (List.range n) () none none none
    | some σ => Gen.calc_file_signatures R σ () (List.range n) () none none (some ())
  let gs := match g with
    | .ok l => if l == (List.range n).map some then "ok" else "ok-but-wrong-list"
    | .raised _ => "err"
    | .fuelOut => "!fuel"
  cmp "calc_file_signatures" Gen.calc_file_signatures.untranslatable gs (if realIsErr then "err" else "ok")

/-- `metric.jaccarddist` / `metric.jaccard` (the Python wrappers) on two arrays of unsigned 64-bit type: `dist:index` bit patterns -/
def distIdx (a b : List Nat) (real : String) : Option String :=
  let dt : Py.DType := { kind := 'u', size := 8, native := true }
  let A : Py.Arr := { dtype := dt, vals := a.map (fun (x : Nat) => (x : Int)) }
  let B : Py.Arr := { dtype := dt, vals := b.map (fun (x : Nat) => (x : Int)) }
  let g := match Gen.jaccarddist A B, Gen.jaccard A B with
    | .ok d, .ok j => s!"{d.toNat}:{j.toNat}"
    | .raised e, _ => "!" ++ e.name
    | _, .raised e => "!" ++ e.name
    | _, _ => "!fuel"
  cmp "metric.jaccarddist / jaccard" (Gen.jaccarddist.untranslatable || Gen.jaccard.untranslatable) g real

/-- `_cast_sigs_array` on an array of the given type: item size of the unsigned result, `~` = refused -/
def castArr (kind : Char) (size : Nat) (native : Bool) (real : String) : Option String :=
  let A : Py.Arr := { dtype := { kind := kind, size := size, native := native }, vals := [0, 0, 0] }
  let g := match Gen.cast_sigs_array A with
    | .ok r => if r.dtype.kind == 'u' then toString r.dtype.size else "bad"
    | .raised .ValueError => "~"
    | .raised e => "!" ++ e.name
    | .fuelOut => "!fuel"
  cmp "_cast_sigs_array" Gen.cast_sigs_array.untranslatable g real

/-- dtype token `u4` / `i8` … -/
def parseDType (s : String) : Option Py.DType :=
  match s.toList with
  | [k, d] => (String.toNat? (String.singleton d)).map (fun n => { kind := k, size := n, native := true })
  | _ => none

def mkArr (dt : Py.DType) (l : List Nat) : Py.Arr := { dtype := dt, vals := l.map (fun (x : Nat) => (x : Int)) }
def mkSigs (kind : Nat) (dt : Py.DType) (ls : List (List Nat)) : Py.Sigs :=
  { kind := kind, dtype := dt, items := ls.map (fun l => l.map (fun (x : Nat) => (x : Int))) }

def ndStr (flat : Bool) (r : Py.Res Py.ND) : String :=
  match r with
  | .ok a => if flat then natsOf (a.vals1.map (·.toNat)) else
      (if a.rows.isEmpty then "_" else natListsOf (a.rows.map (fun row => row.map (·.toNat))))
  | .raised e => "!" ++ e.name
  | .fuelOut => "!fuel"

/-- the index plumbing of the packed collections (definitions generated from the current source) against the model's `getItemConcat`,
for the index forms that reach these methods: slices, non-negative in-range integer arrays, Boolean masks of the right length -/
def concatIndex (sigs : List (List Nat)) (ix : GambitV.Index) : Option String :=
  let c := Concat.ofList sigs
  let V : List Int := c.values.map (fun (x : Nat) => (x : Int))
  let B : List Int := c.bounds.map (fun (x : Nat) => (x : Int))
  let show' : Py.Res Py.CArr → String := fun r => match r with
    | .ok a => natsOf (a.values.map Int.toNat) ++ "|" ++ natsOf (a.bounds.map Int.toNat)
    | .raised e => "!" ++ e.name
    | .fuelOut => "!fuel"
  let model : String := match getItemConcat c ix with
    | .ok (.many m) => natsOf m.values ++ "|" ++ natsOf m.bounds
    | .ok (.one x) => natsOf x
    | .error .valueError => "!ValueError"
    | .error .indexError => "!IndexError"
    | .error .typeError => "!TypeError"
  match ix with
  | .slice a b st =>
    cmp "ConcatenatedSignatureArray._getitem_slice" Gen.concat_getitem_slice.untranslatable (show' (Gen.concat_getitem_slice V B (a, b, st))) model
  | .ints l =>
    if l.all (fun i => decide (0 ≤ i ∧ i < (sigs.length : Int))) then
      cmp "ConcatenatedSignatureArray._getitem_int_array" Gen.concat_getitem_int_array.untranslatable (show' (Gen.concat_getitem_int_array V B l)) model
    else none
  | .mask m =>
    if m.length == sigs.length then
      cmp "AdvancedIndexingMixin._getitem_bool_array" Gen.mixin_getitem_bool_array.untranslatable (show' (Gen.mixin_getitem_bool_array V B m)) model
    else none
  | _ => none

/-- a dynamically typed index as the harness describes it (what `isinstance`, `len` and `np.asarray` say about the object):
`int:i` · `slice:a:b:c` (`~` None, `?` not an integer) · `nd:NDIM/KIND/LEN/ENTRIES` · `sized:LEN:SPECIAL:(NDIM/KIND/LEN/ENTRIES | !)` · `unsized` -/
def parseNd (s : String) : Option Py.NdArr :=
  match s.splitOn "/" with
  | [nd, k, ln, vals] => do
    let ndim ← nd.toNat?
    let kind ← k.toList.head?
    let len0 ← ln.toNat?
    if ndim == 1 && kind == 'b' then
      pure { ndim, kind, len0, ints := [], bools := if vals == "-" then [] else vals.toList.map (· == '1') }
    else if ndim == 1 && (kind == 'i' || kind == 'u') then
      pure { ndim, kind, len0, ints := (← parseInts vals), bools := [] }
    else pure { ndim, kind, len0, ints := [], bools := [] }
  | _ => none

def parseField (s : String) : Option (Option (Option Int)) :=
  if s == "~" then some none else if s == "?" then some (some none) else s.toInt?.map (fun i => some (some i))

def parseIdxVal (s : String) : Option Py.IdxVal :=
  match s.splitOn ":" with
  | ["int", i] => i.toInt?.map Py.IdxVal.int
  | ["slice", a, b, c] => do pure (.slice (← parseField a) (← parseField b) (← parseField c))
  | ["nd", a] => (parseNd a).map Py.IdxVal.nd
  | ["sized", n, sp, a] => do
    let n ← n.toNat?
    if a == "!" then pure (.sized n (sp == "1") none) else pure (.sized n (sp == "1") (some (← parseNd a)))
  | ["unsized"] => some .unsized
  | _ => none

/-- `__getitem__` of the packed collections: the dispatch generated from the current source (with the generated `_getitem_*` methods behind it)
on the index as Python sees it, against what the real collection returned -/
def getitem (sigs : List (List Nat)) (ix : Py.IdxVal) (real : String) : Option String :=
  let c := Concat.ofList sigs
  let V : List Int := c.values.map (fun (x : Nat) => (x : Int))
  let B : List Int := c.bounds.map (fun (x : Nat) => (x : Int))
  let gen : String := match Gen.concat_getitem V B ix with
    | .ok (.one x) => "one:" ++ natsOf (x.map Int.toNat)
    | .ok (.many r) => "many:" ++ natListsOf (Concat.toList { values := r.values.map Int.toNat, bounds := r.bounds.map Int.toNat })
    | .raised e => "err:" ++ e.name
    | .fuelOut => "err:fuel"
  cmp "AdvancedIndexingMixin.__getitem__" Gen.concat_getitem.untranslatable gen real

/-- the same dispatch as the list-backed collection inherits it (`SignatureList`: its own `_getitem_int` / `_getitem_int_array`) -/
def getitemList (sigs : List (List Nat)) (ix : Py.IdxVal) (real : String) : Option String :=
  let L : List (List Int) := sigs.map (fun g => g.map (fun (x : Nat) => (x : Int)))
  let gen : String := match Gen.siglist_getitem L ix with
    | .ok (.one x) => "one:" ++ natsOf (x.map Int.toNat)
    | .ok (.many xs) => "many:" ++ natListsOf (xs.map (fun g => g.map Int.toNat))
    | .raised e => "err:" ++ e.name
    | .fuelOut => "err:fuel"
  cmp "AdvancedIndexingMixin.__getitem__ (SignatureList)" Gen.siglist_getitem.untranslatable gen real

/-- text of a hex token (`-` = empty) -/
def textOfHex (h : String) : Option (List Char) := do
  let bs ← parseHex h
  pure (String.fromUTF8! (ByteArray.mk bs.toArray)).toList

/-- an object graph as the harness writes it: `N` = None, `T<hex>` = a value shown as text, `R(name=obj,…)` = a record -/
partial def parseObj : List Char → Option (Py.Obj × List Char)
  | 'N' :: rest => some (.none, rest)
  | 'T' :: rest =>
    let h := rest.takeWhile (fun c => c.isAlphanum || c == '-')
    (textOfHex (String.ofList h)).map (fun t => (Py.Obj.text t, rest.drop h.length))
  | 'R' :: '(' :: rest => fields rest []
  | _ => none
where
  fields : List Char → List (List Char × Py.Obj) → Option (Py.Obj × List Char)
    | ')' :: rest, acc => some (.record acc.reverse, rest)
    | ',' :: rest, acc => fields rest acc
    | cs, acc =>
      let name := cs.takeWhile (· != '=')
      match cs.drop name.length with
      | '=' :: rest => match parseObj rest with
        | some (o, rest') => fields rest' ((name, o) :: acc)
        | none => none
      | _ => none

def objStr : Py.Obj → String
  | .none => "N"
  | .text t => "T" ++ hexOf (String.ofList t).toUTF8.toList
  | .record _ => "R"

/-- `getattr_nested` generated from the current source against the real function on the real result item -/
def getattrNested (obj path pn real : String) : Option String := do
  let (o, _) ← parseObj obj.toList
  let p ← textOfHex path
  pure ((cmp "getattr_nested" Gen.getattr_nested.untranslatable (resStr objStr (Gen.getattr_nested o p (pn == "1"))) real).getD "ok")

/-- `calc_signature` (default accumulator) on a list of sequences: the definition generated from the current sources of `calc_signature`,
`accumulate_kmers`, `KmerMatch.kmer_index`, `find_kmers`, … against the real signature -/
def calcSignature (k : Nat) (pre : List UInt8) (seqs : List (List UInt8)) (real : String) : Option String :=
  cmp "calc_signature" Gen.calc_signature.untranslatable
    (resStr (fun (l : List Int) => natsOf (l.map Int.toNat)) (Gen.calc_signature { k := (k : Int), pre := pre } seqs none)) real

/-- `calc_file_signature` generated from the current source on the records the real parser yielded, against the real file signature -/
def calcFileSignature (k : Nat) (pre : List UInt8) (recs : List (List UInt8)) (real : String) : Option String :=
  cmp "calc_file_signature" Gen.calc_file_signature.untranslatable
    (resStr (fun (l : List Int) => natsOf (l.map Int.toNat)) (Gen.calc_file_signature recs { k := (k : Int), pre := pre } () none)) real

/-- a history of `SignatureList` mutations through the definitions generated from the current source: final list and the positions of the
operations that raised (a failing operation leaves the list unchanged), in the wire form of `c20.mut` -/
def sigListMuts (sigs : List (List Nat)) (ops : List GambitV.Mut) (real : String) : Option String :=
  let z : List Nat → List Int := fun l => l.map (fun (x : Nat) => (x : Int))
  let step := fun (acc : List (List Int) × List Nat × Nat) (op : GambitV.Mut) =>
    let (xs, errs, n) := acc
    let r := match op with
      | .set i x => Gen.siglist_setitem xs i (z x)
      | .insert i x => Gen.siglist_insert xs i (z x)
      | .del i => Gen.siglist_delitem xs i
    match r with
    | .ok xs' => (xs', errs, n + 1)
    | _ => (xs, errs ++ [n], n + 1)
  let (xs, errs, _) := ops.foldl step (sigs.map z, [], 0)
  cmp "SignatureList.__setitem__ / __delitem__ / insert"
    (Gen.siglist_setitem.untranslatable || Gen.siglist_insert.untranslatable || Gen.siglist_delitem.untranslatable)
    (natListsOf (xs.map (fun l => l.map Int.toNat)) ++ " " ++ natsOf errs) real

def pyKS (s : GambitV.KSpec) : Py.KSpec := { k := (s.k : Int), pre := s.pre }
def textOfBytes (b : List UInt8) : List Char := b.map (fun c => Char.ofNat c.toNat)
def decStr : GambitV.Decision → String
  | .error => "error"
  | .run u => s!"run {u.k}:{hexOf u.pre}"
def genDecStr : Py.Res (Option Py.KSpec) → String
  | .ok (some u) => s!"run {u.k}:{hexOf u.pre}"
  | .ok none => "run-without-parameters"
  | .raised _ => "error"
  | .fuelOut => "!fuel"

/-- the parameter decision of `gambit dist` / `signatures create`: the fragment translated from the current source against the model's table -/
def distParams (ek : Option Nat) (ep : Option (List UInt8)) (q r : Option GambitV.KSpec) (d : GambitV.KSpec) (model : GambitV.Decision) : Option String :=
  cmp "dist_cmd (parameter reconciliation)" Gen.dist_params.untranslatable
    (genDecStr (Gen.dist_params (pyKS d) (ek.map (fun (n : Nat) => (n : Int))) (ep.map textOfBytes) (q.map pyKS) (r.map pyKS))) (decStr model)

def createParams (ek : Option Nat) (ep : Option (List UInt8)) (dbParams : Bool) (db : Option GambitV.KSpec) (d : GambitV.KSpec) (model : GambitV.Decision) : Option String :=
  cmp "signatures create (parameter selection)" Gen.create_params.untranslatable
    (genDecStr (Gen.create_params (pyKS d) (db.map pyKS) (ek.map (fun (n : Nat) => (n : Int))) (ep.map textOfBytes) dbParams)) (decStr model)

end Driver.PyGen
