import GambitV.Model.Schedule
import Driver.Proto
import Driver.PyGenCmp
namespace Driver.C13
open GambitV Driver

/-- per-file result token: natlist `a,b,c` / `-` (ok) or `E` (the single-file computation raises) -/
def parseResults (s : String) : Option (List (Except Unit (List Nat))) :=
  if s == "_" then some [] else
  (s.splitOn ";").mapM fun t => if t == "E" then some (.error ()) else (parseNats t).map .ok

def handle : List String → Option String
  -- c13.run <results per file> <completion order | ~ for sequential> <real: natlists or err>
  | ["c13.run", results, sigma, real] => do
    let rs ← parseResults results
    let n := rs.length
    let result : Nat → Except Unit (List Nat) := fun i => rs.getD i (.error ())
    let out : String ←
      if sigma == "~" then
        pure (match calcSeq n result with | .ok l => natListsOf l | .error _ => "err")
      else do
        let σ ← parseNats sigma
        pure (match calcAll n result σ with
          | .ok (some l) => natListsOf l
          | .ok none => "assertion"
          | .error _ => "err")
    -- specification: one signature per file, in file order, each the single-file result; any failing file fails the call
    let spec := if rs.all (fun r => match r with | .ok _ => true | .error _ => false)
      then natListsOf (rs.filterMap fun r => match r with | .ok l => some l | .error _ => none) else "err"
    let r := expect spec real
    if r != "ok" then pure r else
    if out != spec then pure s!"FAIL model/spec disagree model={out}" else
    let oks := rs.map (fun r => match r with | .ok _ => true | .error _ => false)
    let sg ← if sigma == "~" then pure none else (parseNats sigma).map some
    pure ((PyGen.calcFiles oks sg (real == "err")).getD "ok")
  | _ => none

end Driver.C13
