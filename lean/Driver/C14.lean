import GambitV.Model.Params
import Driver.Proto
import Driver.PyGenCmp
namespace Driver.C14
open GambitV Driver

/-- kspec token: `~` or `k:prefixhex` -/
def parseSpec (s : String) : Option (Option KSpec) :=
  if s == "~" then some none else
  match s.splitOn ":" with
  | [k, p] => do pure (some { k := (← k.toNat?), pre := (← parseHex p) })
  | _ => none

def specTok (s : KSpec) : String := s!"{s.k}:{hexOf s.pre}"

/-- judge an observed run: `status` 0/1 (exit status non-zero?), `wrote` 0/1, `matching` = the
candidate parameter sets whose results equal the output that was written (`;`-separated, `_` = none) -/
def judge (d : Decision) (failed wrote : Bool) (matching : List KSpec) : String :=
  match d with
  | .error => if failed && !wrote then "ok" else s!"FAIL parameters mismatch must be an error with no output (failed={failed}, wrote={wrote})"
  | .run u => if failed then "FAIL command failed although the parameters are consistent"
              else if !wrote then "FAIL no output written"
              else if matching.contains u then "ok" else s!"FAIL output was not computed with {specTok u}"

def parseSpecs (s : String) : Option (List KSpec) :=
  if s == "_" then some [] else (s.splitOn ";").mapM (fun t => (parseSpec t).bind id)

def handle : List String → Option String
  | ["c14.dist", ek, ep, qsig, rsig, dflt, failed, wrote, matching] => do
    let ek ← parseOptNat ek
    let ep ← if ep == "~" then some none else (parseHex ep).map some
    let qsig ← parseSpec qsig
    let rsig ← parseSpec rsig
    let dflt ← (parseSpec dflt).bind id
    let failed ← parseBool failed
    let wrote ← parseBool wrote
    let matching ← parseSpecs matching
    let model := match explicitSpec ek ep with
      | none => Decision.error
      | some e => distDecision e qsig rsig dflt
    let r := judge model failed wrote matching
    if r != "ok" then pure r else
    pure ((PyGen.distParams ek ep qsig rsig dflt model).getD "ok")
  | ["c14.querysig", sig, db, failed, wrote, matching] => do
    let sig ← (parseSpec sig).bind id
    let db ← (parseSpec db).bind id
    pure (judge (querySigDecision sig db) (← parseBool failed) (← parseBool wrote) (← parseSpecs matching))
  | ["c14.create", ek, ep, dbParams, db, dflt, failed, wrote, matching] => do
    let ek ← parseOptNat ek
    let ep ← if ep == "~" then some none else (parseHex ep).map some
    let db ← parseSpec db
    let dflt ← (parseSpec dflt).bind id
    let dbParams ← parseBool dbParams
    let model := match explicitSpec ek ep with
      | none => Decision.error
      | some e => createDecision e dbParams db dflt
    let r := judge model (← parseBool failed) (← parseBool wrote) (← parseSpecs matching)
    if r != "ok" then pure r else
    pure ((PyGen.createParams ek ep dbParams db dflt model).getD "ok")
  | _ => none

end Driver.C14
