import GambitV.Gen.Kmers
import GambitV.Gen.Metric
import GambitV.Model.Kmers
import GambitV.Model.Jaccard
import Driver.Proto
namespace Driver.Gen
open GambitV Driver

/-- Generated definitions (from the current .pyx text) against the hand-written model AND the value
the compiled module returned (`real`): a three-way comparison. -/
def handle : List String → Option String
  | ["gen.enc", h, real] => do
    let s ← parseHex h
    let g := GambitV.Gen.c_kmer_to_index s
    let gs := if g.exc then "err:invalid" else s!"ok:{g.ret.toNat}"
    let m := match encodeU64 s with | some v => s!"ok:{v.toNat}" | none => "err:invalid"
    if gs != m then pure s!"FAIL generated c_kmer_to_index = {gs}, model = {m}" else
    pure (if s.length > 32 then "ok" else expect gs real)
  | ["gen.encrc", h, real] => do
    let s ← parseHex h
    let g := GambitV.Gen.c_kmer_to_index_rc s
    let gs := if g.exc then "err:invalid" else s!"ok:{g.ret.toNat}"
    let m := if s.length ≤ 32 then (match encodeRc s with | some v => s!"ok:{v}" | none => "err:invalid") else gs
    if gs != m then pure s!"FAIL generated c_kmer_to_index_rc = {gs}, model = {m}" else
    pure (if s.length > 32 then "ok" else expect gs real)
  | ["gen.dec", i, k, real] => do
    let i ← i.toNat?
    let k ← k.toNat?
    let g := (GambitV.Gen.c_index_to_kmer (UInt64.ofNat i) (List.replicate k 0)).out
    if g != decode (i % 2 ^ 64) k then pure s!"FAIL generated c_index_to_kmer = {hexOf g}, model = {hexOf (decode i k)}" else
    pure (expect (hexOf g) real)
  | ["gen.rc", h, real] => do
    let s ← parseHex h
    let g := (GambitV.Gen.c_revcomp s (List.replicate s.length 0)).out
    if g != revcomp s then pure s!"FAIL generated c_revcomp = {hexOf g}, model = {hexOf (revcomp s)}" else
    pure (expect (hexOf g) real)
  | ["gen.jac", a, b, real] => do
    let a ← parseNats a
    let b ← parseNats b
    let g := GambitV.Gen.c_jaccarddist a b
    if g.fuelOut then pure "FAIL generated c_jaccarddist ran out of fuel (loop does not terminate within N+M+1 steps)" else
    if g.ret != jaccardBits a b then pure s!"FAIL generated c_jaccarddist = {g.ret.toNat}, model = {(jaccardBits a b).toNat}" else
    pure (expect (toString g.ret.toNat) real)
  | ["gen.facts"] =>
    pure (verdict (GambitV.Gen.prangeWritesOnlyOwnCell && GambitV.Gen.jaccardIsOneMinusDist && GambitV.Gen.jaccarddistIsKernel && GambitV.Gen.prangeBodyIsSliceDist
        && GambitV.Gen.kmerLenGuard == 32 && GambitV.Gen.kmerRcLenGuard == 32 && GambitV.Gen.kmerWrappersCanonical && GambitV.Gen.decodeWrapperCanonical && GambitV.Gen.revcompWrapperCanonical)
      s!"structural facts of metric.pyx: prangeWritesOnlyOwnCell={GambitV.Gen.prangeWritesOnlyOwnCell} jaccardIsOneMinusDist={GambitV.Gen.jaccardIsOneMinusDist} jaccarddistIsKernel={GambitV.Gen.jaccarddistIsKernel} prangeBodyIsSliceDist={GambitV.Gen.prangeBodyIsSliceDist}; kmers.pyx wrappers: guard={GambitV.Gen.kmerLenGuard}/{GambitV.Gen.kmerRcLenGuard} canonical={GambitV.Gen.kmerWrappersCanonical} {GambitV.Gen.decodeWrapperCanonical} {GambitV.Gen.revcompWrapperCanonical}")
  | _ => none

end Driver.Gen
