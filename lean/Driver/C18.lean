import GambitV.Model.Session
import Driver.Proto
namespace Driver.C18
open GambitV Driver

def parseOp (s : String) : Option SOp :=
  match s.splitOn ":" with
  | ["add", x] => x.toNat?.map (fun n => SOp.change (.add n))
  | ["del", x] => x.toNat?.map (fun n => SOp.change (.del n))
  | ["sql", x] => x.toNat?.map (fun n => SOp.rawSql (.add n))
  | ["flush"] => some .flush
  | ["commit"] => some .commit
  | ["txncommit"] => some .txnCommit
  | ["beginblock"] => some .beginBlock
  | ["savepoint"] => some .savepoint
  | ["query"] => some .query
  | ["rollback"] => some .rollback
  | ["close"] => some .close
  | _ => none

def outTok : SOut → String
  | .ok => "ok"
  | .raised => "raised"
  | .rows n => s!"rows:{n}"

def handle : List String → Option String
  -- a library-level history against a ReadOnlySession: per-op outcomes, and whether the file changed
  | ["c18.session", nrows, ops, realOuts, fileChanged] => do
    let n ← nrows.toNat?
    let ops ← if ops == "_" then some [] else (ops.splitOn ",").mapM parseOp
    let (s, outs) := runOps stepRO { durable := List.range n, txn := [], pending := [] } ops
    let changed ← parseBool fileChanged
    if changed then pure "FAIL database file changed" else
    if s.durable != List.range n then pure "FAIL model durable changed (impossible)" else
    pure (expect (",".intercalate (outs.map outTok)) realOuts)
  -- a history of commands: every recorded open of a database file must be a read, every SQL statement a read, hashes unchanged
  | ["c18.commands", opens, sqlWrites, hashSame] => do
    let hashSame ← parseBool hashSame
    let sqlWrites ← sqlWrites.toNat?
    if !hashSame then pure "FAIL a database file changed (sha256 differs)" else
    if sqlWrites != 0 then pure s!"FAIL {sqlWrites} SQL statement(s) other than SELECT/PRAGMA were issued" else
    let bad := (if opens == "_" then [] else opens.splitOn ",").filter (fun m => m != "r")
    pure (verdict bad.isEmpty s!"database file opened with mode(s) {bad}")
  | _ => none

end Driver.C18
