import GambitV.Model.Pipeline
import Driver.Proto
import Driver.C16
import GambitV.Model.SeqFiles
namespace Driver.C08
open GambitV Driver

def handle : List String → Option String
  -- kind: `p` positional paths, `l` list-file lines (labels from the line text), `s` stored ids.
  -- single: row content the real CLI printed for each genome alone; batch*: what it printed for the batch.
  | ["c08.rows", kind, srcs, single, batchLabels, batchContents] => do
    let srcs ← Driver.C16.parseStrs srcs
    let single ← Driver.C16.parseStrs single
    let bl ← Driver.C16.parseStrs batchLabels
    let bc ← Driver.C16.parseStrs batchContents
    let files ← if kind == "s" then some (srcs.map (fun s => (s, s)))
      else if kind == "p" then sequenceFiles srcs none []
      else sequenceFiles [] (some srcs) ['.']
    let labels := if kind == "s" then srcs else fileLabels files
    if bl.length != labels.length ∨ bc.length != labels.length then
      pure s!"FAIL {bl.length} rows for {labels.length} inputs" else
    if bl != labels then pure s!"FAIL labels/order: expected {labels.map String.ofList} got {bl.map String.ofList}" else
    if bc != single then pure "FAIL a row's content differs from the row printed for that genome alone" else pure "ok"
  | ["c08.seqfiles", positional, lines, real] => do
    let pos ← Driver.C16.parseStrs positional
    let lines ← if lines == "~" then some none else (Driver.C16.parseStrs lines).map some
    let r := match sequenceFiles pos lines ['D'] with
      | some fs => ";".intercalate (fs.map (fun f => String.ofList (fileLabel f.1) ++ "|" ++ String.ofList f.2))
      | none => "~"
    pure (expect r (String.ofList (← Driver.C16.strOfHex real)))
  -- the same with pathlib's normal form, stripped list-file lines and a base directory of any form (`sequenceFilesP`)
  | ["c08.seqfilesp", positional, lines, ldir, real] => do
    let pos ← Driver.C16.parseStrs positional
    let lines ← if lines == "~" then some none else (Driver.C16.parseStrs lines).map some
    let ldir ← Driver.C16.strOfHex ldir
    let r := match sequenceFilesP (lines.getD []) (some pos) lines.isSome (some ldir) true true with
      | .ok (some (ids, files)) => ";".intercalate ((ids.zip files).map (fun x => String.ofList x.1 ++ "|" ++ String.ofList x.2))
      | .ok none => "~"
      | .error _ => "!TypeError"
    pure (expect r (String.ofList (← Driver.C16.strOfHex real)))
  | _ => none

end Driver.C08
