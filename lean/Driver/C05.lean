import GambitV.Model.Bulk
import Driver.Proto
import Driver.PyGenCmp
namespace Driver.C05
open GambitV Driver

/-- `dist i j` = the bit pattern the *real* two-signature function returned for (query i, ref j). -/
def lookup (table : List (List Nat)) (i j : Nat) : Nat := (table.getD i []).getD j 0

def parseOptNats (s : String) : Option (Option (List Nat)) :=
  if s == "~" then some none else (parseNats s).map some

def handle : List String → Option String
  | ["c05.matrix", nq, nr, table, refIdx, chunk, out0, real] => do
    let nq ← nq.toNat?
    let nr ← nr.toNat?
    let table ← parseNatLists table
    let refIdx ← parseOptNats refIdx
    let chunk ← parseOptNat chunk
    let out0 ← parseNatLists out0
    let m := matrixModel (lookup table) (List.range nq) (List.range nr) refIdx chunk out0
    pure (expect (natListsOf m) real)
  | ["c05.array", row, real] => do
    let row ← parseNats row
    pure (expect (natsOf (arrayDists (fun (_ : Unit) (j : Nat) => row.getD j 0) () (List.range row.length))) real)
  | ["c05.pairwise", table, items, flat, real] => do
    let table ← parseNatLists table
    let items ← parseNats items
    let flat ← parseBool flat
    if flat then
      pure (expect (natsOf (pairwiseFlat (lookup table) items)) real)
    else
      let sq := pairwiseSquare (lookup table) 0 items
      let r := expect (natListsOf sq) real
      if r != "ok" then pure r else
      -- the loop-shaped model (write row, mirror column) must agree with the closed form for any initial buffer
      let lp := pairwiseSquareLoop (lookup table) 0 items (sq.map (fun row => row.map (fun _ => 7)))
      pure (if lp == sq then "ok" else "FAIL loop model disagrees with closed form")
  | ["c05.chunks", n, size, real] => do
    let n ← n.toNat?
    let size ← size.toNat?
    let r := expect (";".intercalate ((chunkSlices n size).map fun ab => s!"{ab.1},{ab.2}")) real
    if r != "ok" then pure r else
    pure ((PyGen.chunks (n : Int) (size : Int) real).getD "ok")
  | ["c05.cond", n, i, j, real] => do
    pure (expect (toString (condensedIndex (← n.toNat?) (← i.toNat?) (← j.toNat?))) real)
  | _ => none

end Driver.C05
