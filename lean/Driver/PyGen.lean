import Driver.PyGenCmp
import Driver.Tax
import Driver.C16

/-! Operations of the Python-translator tie that have no counterpart among the per-property operations, and the validation of the
run-time library's built-ins (`pyrt.*`) against CPython. -/
namespace Driver.PyGen
open GambitV Driver

def handle : List String → Option String
  | ["pyg.fm", f, gtax, ds, real] => do
    let F ← Driver.Tax.parseForest f
    let gtax ← parseNats gtax
    let ds ← parseNats ds
    let model := fmStr ((GambitV.findMatches F gtax ds).map (fun e => (e.1, e.2.map (fun (i : Nat) => (i : Int)))))
    if model != real then pure s!"FAIL find_matches: model = {model}, real = {real}" else
    pure ((findMatches F gtax ds real).getD "ok")
  | ["pyg.ki", k, pre, pos, rev, real] => do
    let k ← k.toNat?
    let pre ← parseHex pre
    let pos ← pos.toInt?
    let rev ← parseBool rev
    pure ((cmp "KmerMatch.kmer_indices" Gen.kmer_indices.untranslatable
      (resStr (fun (ab : Int × Int) => s!"{ab.1},{ab.2}") (Gen.kmer_indices { k := (k : Int), pre := pre } pos rev)) real).getD "ok")
  -- linkage_to_bio_tree generated from the current source against the real tree (nested structure with scaled branch lengths)
  | ["pyg.linkage", link, labels, real] => do
    let rows ← (if link == "_" then some [] else (link.splitOn ";").mapM fun r => match r.splitOn "," with
      | [a, b, h] => do pure ((← a.toInt?), (← b.toInt?), (← h.toInt?), (0 : Int))
      | _ => none)
    let labels ← parseNats labels
    pure ((cmp "linkage_to_bio_tree" Gen.linkage_to_bio_tree.untranslatable (resStr cladeStr (Gen.linkage_to_bio_tree rows labels)) real).getD "ok")
  | ["pyg.getitem", sigs, ix, real] => do
    pure ((getitem (← parseNatLists sigs) (← parseIdxVal ix) real).getD "ok")
  | ["pyg.getitem.list", sigs, ix, real] => do
    pure ((getitemList (← parseNatLists sigs) (← parseIdxVal ix) real).getD "ok")
  | ["pyg.getattr", obj, path, pn, real] => getattrNested obj path pn real
  | ["pyg.filesig", k, pre, recs, real] => do
    pure ((calcFileSignature (← k.toNat?) (← parseHex pre) (← parseHexList recs) real).getD "ok")
  | ["pyg.sigeq", a, b, real] => do
    let z : List (List Nat) → List (List Int) := fun l => l.map (fun g => g.map (fun (x : Nat) => (x : Int)))
    pure ((cmp "sigarray_eq" Gen.sigarray_eq.untranslatable (resStr (fun (r : Bool) => if r then "1" else "0") (Gen.sigarray_eq (z (← parseNatLists a)) (z (← parseNatLists b)))) real).getD "ok")
  | ["pyg.chunks", n, size, real] => do
    pure ((chunks (← n.toInt?) (← size.toInt?) real).getD "ok")
  | ["pyg.chk", n, i, real] => do
    let n ← n.toNat?
    let i ← i.toInt?
    let r := cmp "_check_index" Gen.check_index.untranslatable (resStr toString (Gen.check_index (n : Int) i)) real
    pure ((r.orElse (fun _ => checkIndex n i)).getD "ok")
  -- the bulk distance functions: definitions generated from the current source against the real results (bit patterns)
  | ["pyg.array", kind, dtq, dtr, q, rs, real] => do
    let q := mkArr (← parseDType dtq) (← parseNats q)
    let c := mkSigs (← kind.toNat?) (← parseDType dtr) (← parseNatLists rs)
    pure ((cmp "jaccarddist_array" Gen.jaccarddist_array.untranslatable (ndStr true (Gen.jaccarddist_array q c none)) real).getD "ok")
  | ["pyg.matrix", kind, dtq, dtr, qs, rs, ridx, chunk, real] => do
    let dq ← parseDType dtq
    let qs := (← parseNatLists qs).map (mkArr dq)
    let c := mkSigs (← kind.toNat?) (← parseDType dtr) (← parseNatLists rs)
    let ridx ← if ridx == "~" then some none else (parseInts ridx).map some
    let chunk ← parseOptInt chunk
    let g := Gen.jaccarddist_matrix qs c ridx none chunk ()
    -- an empty result (no queries or no references) is sent as one empty list per query
    let gs := match g with
      | .ok a => if a.rows.all (·.isEmpty) then natListsOf (qs.map (fun _ => ([] : List Nat))) else ndStr false g
      | _ => ndStr false g
    pure ((cmp "jaccarddist_matrix" Gen.jaccarddist_matrix.untranslatable gs real).getD "ok")
  | ["pyg.pairwise", kind, dt, ss, idx, flat, real] => do
    let c := mkSigs (← kind.toNat?) (← parseDType dt) (← parseNatLists ss)
    let idx ← if idx == "~" then some none else (parseInts idx).map some
    let flat ← parseBool flat
    pure ((cmp "jaccarddist_pairwise" Gen.jaccarddist_pairwise.untranslatable (ndStr flat (Gen.jaccarddist_pairwise c idx flat none ())) real).getD "ok")
  -- built-ins of the run-time library against the real CPython built-ins
  | ["pyrt.find", hay, pat, start, stop, real] => do
    let hay ← parseHex hay
    let pat ← parseHex pat
    pure (expect (toString (Py.bytesFind hay pat (← start.toInt?) (← parseOptInt stop))) real)
  | ["pyrt.slice", xs, lo, hi, real] => do
    let xs ← parseNats xs
    pure (expect (natsOf (Py.slice xs (← parseOptInt lo) (← parseOptInt hi))) real)
  | ["pyrt.getitem", xs, i, real] => do
    let xs ← parseNats xs
    pure (expect (optNatOf (Py.getItem? xs (← i.toInt?))) real)
  | ["pyrt.index", xs, a, real] => do
    let xs ← parseNats xs
    pure (expect (optNatOf (Py.index? xs (← a.toNat?))) real)
  | ["pyrt.lower", b, real] => do
    pure (expect (hexOf (Py.lower (← parseHex b))) real)
  | ["pyrt.upper", b, real] => do
    pure (expect (hexOf (GambitV.upper (← parseHex b))) real)
  | ["pyrt.divmod", a, b, real] => do
    let a ← a.toInt?
    let b ← b.toInt?
    pure (expect s!"{Py.floorDiv a b},{Py.pyMod a b}" real)
  | ["pyrt.lineage", f, t, real] => do
    let F ← Driver.Tax.parseForest f
    let t ← t.toNat?
    let r := expect (natsOf (F.lineage t)) real
    if r != "ok" then pure r else
    pure ((taxonAncestors F t true real).getD "ok")
  | ["pyg.ancestors", f, t, inc, real] => do
    let F ← Driver.Tax.parseForest f
    pure ((taxonAncestors F (← t.toNat?) (inc == "1") real).getD "ok")
  | ["pyg.seqfiles", positional, lines, ldir, real] => do
    let pos ← Driver.C16.parseStrs positional
    let lines ← if lines == "~" then some none else (Driver.C16.parseStrs lines).map some
    let ldir ← Driver.C16.strOfHex ldir
    pure ((seqFiles pos lines ldir (String.ofList (← Driver.C16.strOfHex real))).getD "ok")
  -- text and path built-ins of the run-time library against CPython / pathlib
  | ["pyrt.strip", s, real] => do
    pure (expect (String.ofList (Py.strStrip (← Driver.C16.strOfHex s))) (String.ofList (← Driver.C16.strOfHex real)))
  | ["pyrt.rstripnl", s, real] => do
    pure (expect (String.ofList (Py.strRstripChar '\n' (← Driver.C16.strOfHex s))) (String.ofList (← Driver.C16.strOfHex real)))
  | ["pyrt.pathstr", s, real] => do
    pure (expect (String.ofList (Py.pathStr (← Driver.C16.strOfHex s))) (String.ofList (← Driver.C16.strOfHex real)))
  | ["pyrt.pathjoin", a, b, real] => do
    pure (expect (String.ofList (Py.pathJoin (Py.pathStr (← Driver.C16.strOfHex a)) (← Driver.C16.strOfHex b))) (String.ofList (← Driver.C16.strOfHex real)))
  | _ => none

end Driver.PyGen
