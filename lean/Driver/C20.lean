import GambitV.Model.Indexing
import Driver.Proto
import Driver.PyGenCmp
namespace Driver.C20
open GambitV Driver

def parseIndex (s : String) : Option Index :=
  match s.splitOn ":" with
  | ["int", i] => (String.toInt? i).map Index.int
  | ["slice", a, b, c] => do
    let a ← parseOptInt a
    let b ← parseOptInt b
    let c ← parseOptInt c
    pure (Index.slice a b c)
  | ["slicebad"] => some Index.sliceBadType
  | ["ints", l] => (parseInts l).map Index.ints
  | ["mask", m] => if m == "-" then some (Index.mask []) else some (Index.mask (m.toList.map (· == '1')))
  | ["bad"] => some Index.badArray
  | ["unsized"] => some Index.unsized
  | _ => none

def errOf : IdxErr → String
  | .indexError => "err:IndexError"
  | .typeError => "err:TypeError"
  | .valueError => "err:ValueError"

def selOf : Except IdxErr (Sel (List Nat)) → String
  | .error e => errOf e
  | .ok (.one x) => "one:" ++ natsOf x
  | .ok (.many xs) => "many:" ++ natListsOf xs

def parseMut (s : String) : Option Mut :=
  match s.splitOn ":" with
  | ["s", i, x] => do pure (Mut.set (← String.toInt? i) (← parseNats x))
  | ["i", i, x] => do pure (Mut.insert (← String.toInt? i) (← parseNats x))
  | ["d", i] => do pure (Mut.del (← String.toInt? i))
  | _ => none

/-- run a mutation history; failing operations leave the list unchanged and are recorded -/
def runMuts (xs : List (List Nat)) (ops : List Mut) : List (List Nat) × List Nat :=
  let (xs, errs, _) := ops.foldl (fun (acc : List (List Nat) × List Nat × Nat) op =>
    let (xs, errs, n) := acc
    match applyMut xs op with
    | .ok xs' => (xs', errs, n + 1)
    | .error _ => (xs, errs ++ [n], n + 1)) (xs, [], 0)
  (xs, errs)

def handle : List String → Option String
  -- list semantics (the reference) and the concatenated representation must both give `real`
  | ["c20.get", sigs, idx, real] => do
    let sigs ← parseNatLists sigs
    let idx ← parseIndex idx
    let spec := selOf (getItemList sigs idx)
    let conc := selOf ((getItemConcat (Concat.ofList sigs) idx).map CSel.toSel)
    let r := expect spec real
    if r != "ok" then pure r else
    if conc != spec then pure s!"FAIL concat model disagrees: {conc}" else
    -- an integer index goes through `_check_index`: the definition generated from the current source must agree with the model
    pure (match idx with
      | .int i => (PyGen.checkIndex sigs.length i).getD "ok"
      | _ => (PyGen.concatIndex sigs idx).getD "ok")
  | ["c20.mut", sigs, ops, realList, realErrs] => do
    let sigs ← parseNatLists sigs
    let ops ← if ops == "_" then some [] else (ops.splitOn "|").mapM parseMut
    let (xs, errs) := runMuts sigs ops
    let r := expect (natListsOf xs ++ " " ++ natsOf errs) (realList ++ " " ++ realErrs)
    if r != "ok" then pure r else
    pure ((PyGen.sigListMuts sigs ops (realList ++ " " ++ realErrs)).getD "ok")
  | ["c20.eq", k1, p1, s1, k2, p2, s2, real] => do
    let k1 ← k1.toNat?
    let k2 ← k2.toNat?
    let p1 ← parseHex p1
    let p2 ← parseHex p2
    let s1 ← parseNatLists s1
    let s2 ← parseNatLists s2
    pure (expect (boolOf (sigEq k1 p1 s1 k2 p2 s2)) real)
  | ["c20.sliceidx", n, a, b, c, real] => do
    let n ← n.toNat?
    let a ← parseOptInt a
    let b ← parseOptInt b
    let c ← parseOptInt c
    let (s, e, st) := sliceIndices n a b c
    pure (expect s!"{s},{e},{st}:{intsOf (arange s e st)}" real)
  | _ => none

end Driver.C20
