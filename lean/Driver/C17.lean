import GambitV.Model.Cluster
import Driver.Proto
namespace Driver.C17
open GambitV Driver

def parseIntLists (s : String) : Option (List (List Int)) :=
  if s == "_" then some [] else (s.splitOn ";").mapM parseInts

def parseNode (s : String) : Option FNode :=
  match s.splitOn ":" with
  | [p, l, lab] => do pure { parent := (← parseOptNat p), len := (← String.toInt? l), label := (← parseOptNat lab) }
  | _ => none

def handle : List String → Option String
  | ["c17.tree", nodes, D, nlabels, tol] => do
    let nodes ← (nodes.splitOn ";").mapM parseNode
    let D ← parseIntLists D
    let v := checkTree nodes D (← nlabels.toNat?) (← String.toInt? tol)
    pure (verdict v.ok v.why)
  -- conversion model vs real: linkage rows (scaled) -> leaves order and depths of the model tree must match the real tree's
  | ["c17.convert", n, link, realDepths] => do
    let n ← n.toNat?
    let rows ← (if link == "_" then some [] else (link.splitOn ";").mapM fun r => match r.splitOn "," with
      | [a, b, h] => do pure (LinkRow.mk (← a.toNat?) (← b.toNat?) (← String.toInt? h))
      | _ => none)
    let t ← linkageToTree n rows
    let ds := t.depths.map (fun p => s!"{p.1}:{p.2}")
    pure (expect (",".intercalate ds) realDepths)
  | _ => none

end Driver.C17
