import GambitV.Model.Cluster
import GambitV.Model.Upgma
import Driver.Proto
namespace Driver.C17
open GambitV Driver

def parseIntLists (s : String) : Option (List (List Int)) :=
  if s == "_" then some [] else (s.splitOn ";").mapM parseInts

def parseNode (s : String) : Option FNode :=
  match s.splitOn ":" with
  | [p, l, lab] => do pure { parent := (← parseOptNat p), len := (← String.toInt? l), label := (← parseOptNat lab) }
  | _ => none

def handle : List String → Option String
  | ["c17.tree", nodes, D, nlabels, tol] => do
    let nodes ← (nodes.splitOn ";").mapM parseNode
    let D ← parseIntLists D
    let v := checkTree nodes D (← nlabels.toNat?) (← String.toInt? tol)
    pure (verdict v.ok v.why)
  -- conversion model vs real: linkage rows (scaled) -> leaves order and depths of the model tree must match the real tree's
  | ["c17.convert", n, link, realDepths] => do
    let n ← n.toNat?
    let rows ← (if link == "_" then some [] else (link.splitOn ";").mapM fun r => match r.splitOn "," with
      | [a, b, h] => do pure (LinkRow.mk (← a.toNat?) (← b.toNat?) (← String.toInt? h))
      | _ => none)
    let t ← linkageToTree n rows
    let ds := t.depths.map (fun p => s!"{p.1}:{p.2}")
    pure (expect (",".intercalate ds) realDepths)
  -- hclust: SciPy's merge sequence (l, r, height = P/Q in the scale of D) replayed in the exact UPGMA model: every merge
  -- a minimal pair, every height the exact average (relative 1e-9: float64 summation), n-1 rows ending in one cluster;
  -- where the model meets no tie its own linkage must be the same sequence
  | ["c17.hclust", n, D, rows] => do
    let n ← n.toNat?
    let D ← parseIntLists D
    let rows ← (if rows == "_" then some [] else (rows.splitOn ";").mapM fun r => match r.splitOn "," with
      | [a, b, p, q] => do pure ((← a.toNat?), (← b.toNat?), (← String.toInt? p), (← String.toInt? q))
      | _ => none)
    if rows.length + 1 ≠ n then return s!"FAIL {rows.length} rows for {n} observations"
    match replayRun D (rows.map fun x => (x.1, x.2.1)) (upgmaInit n) with
    | none => pure "FAIL a merge is not a minimal average-linkage pair of active clusters"
    | some s =>
      if s.act.length ≠ 1 then return "FAIL does not end in one cluster"
      let badH := (s.rows.zip rows).filter fun (m, x) =>
        let P := x.2.2.1; let Q := x.2.2.2
        !(decide (0 < Q) && decide (absInt (m.num * Q - P * (m.den : Int)) * 1000000000 ≤ absInt (m.num * Q)))
      if !badH.isEmpty then return s!"FAIL height is not the average distance at row(s) {badH.map fun (m, _) => (m.left, m.right)}"
      if upgmaTieFree D n then
        let mine := (upgma D n).map fun m => (min m.left m.right, max m.left m.right, m.num, m.den)
        let theirs := s.rows.map fun m => (min m.left m.right, max m.left m.right, m.num, m.den)
        if mine != theirs then return s!"FAIL tie-free matrix: model linkage {mine} differs from {theirs}"
      pure "ok"
  | _ => none

end Driver.C17
