import GambitV.Model.Csv
import Driver.Proto
import Driver.C16
namespace Driver.C11
open GambitV Driver

def handle : List String → Option String
  -- rows = header + one row per query, built by the harness from the attributes of the real result objects
  | ["c11.csv", rowsHex, textHex, pyRowsHex] => do
    let rows ← (rowsHex.splitOn "|").mapM Driver.C16.parseStrs
    let text ← Driver.C16.strOfHex textHex
    let pyRows ← (pyRowsHex.splitOn "|").mapM Driver.C16.parseStrs
    if writeCsv ['\n'] rows != text then pure s!"FAIL csv text is not the documented columns: model {String.ofList (writeCsv ['\n'] rows) |>.quote}" else
    if parseCsv text != pyRows then pure "FAIL reader model disagrees with csv.reader" else
    if parseCsv text != rows then pure "FAIL csv does not parse back to the rows written" else pure "ok"
  | ["c11.same", what, a, b] => pure (if a == b then "ok" else s!"FAIL {what}: {a} != {b}")
  | _ => none

end Driver.C11
