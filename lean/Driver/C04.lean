import GambitV.Model.RefDb
import Driver.Proto
import Driver.PyGenCmp
namespace Driver.C04
open GambitV Driver

def errOf : LoadErr → String
  | .typeError => "err:TypeError"
  | .valueError => "err:ValueError"
  | .runtimeError => "err:RuntimeError"

def pairsOf (l : List (Nat × Nat)) : String :=
  if l.isEmpty then "ok:-" else "ok:" ++ ";".intercalate (l.map fun gp => s!"{gp.1},{gp.2}")

def parseAttr (s : String) : Option (Option Bool) :=
  if s == "~" then some none else (parseBool s).map some

def strOfHex (h : String) : Option (List Char) := (parseHex h).map (fun bs => bs.map (fun b => Char.ofNat b.toNat))

def handle : List String → Option String
  | ["c04.load", attr, gids, sids, real] => do
    let attr ← parseAttr attr
    let gids ← parseOptNats gids
    let sids ← parseNats sids
    let r := expect (match loadDb attr gids sids with | .ok m => pairsOf m | .error e => errOf e) real
    if r != "ok" then pure r else
    pure ((PyGen.refdbInit attr gids sids real).getD "ok")
  | ["c04.locate", names, real] => do
    let names ← if names == "_" then some [] else (names.splitOn ";").mapM strOfHex
    let r := match locateFiles names with
      | some (g, s) => "ok:" ++ String.ofList g ++ ":" ++ String.ofList s
      | none => "err"
    let r := expect r real
    if r != "ok" then pure r else
    pure ((PyGen.locateFiles names real).getD "ok")
  -- every distance column j of query row q must be the real pairwise distance to the signature whose stored ID is genome j's ID
  -- gidsInDbOrder: ID code of each genome in db.genomes order; sids: ID codes in file order; table: real pairwise bits q x filepos
  | ["c04.dists", gids, sids, table, rows] => do
    let gids ← parseNats gids
    let sids ← parseNats sids
    let table ← parseNatLists table
    let rows ← parseNatLists rows
    let expected := table.map (fun trow => gids.map (fun id => match sids.idxOf? id with
      | some p => trow.getD p 0
      | none => 0))
    pure (expect (natListsOf expected) (natListsOf rows))
  | _ => none

end Driver.C04
