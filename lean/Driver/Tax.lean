import GambitV.Model.Taxonomy
import GambitV.Spec.Taxonomy
import Driver.Proto
import Driver.PyGenCmp
namespace Driver.Tax
open GambitV Driver

/-- forest token: `parents|thresholds|reports`, each a comma list with `~` for none (reports 0/1) -/
def parseForest (s : String) : Option Forest :=
  match s.splitOn "|" with
  | [p, t, r] => do
    let p ← parseOptNats p
    let t ← parseOptNats t
    let r ← if r == "-" then some [] else (r.splitOn ",").mapM parseBool
    pure { parent := p, thr := t, report := r }
  | _ => none

def resultStr (r : ClassifyResult) : String :=
  s!"{boolOf r.success}/{optNatOf r.predicted}/{optNatOf r.primary}/{r.closest}/{optNatOf r.next}/{natsOf (sortNat r.warnInconsistent)}/{boolOf r.warnNotClosest}/{boolOf r.failed}"

def handle : List String → Option String
  -- single lineage functions: matching / next / reportable
  | ["c03.match", f, t, d, real] => do
    let F ← parseForest f
    let t ← t.toNat?
    let d ← d.toNat?
    let r := expect (optNatOf (predictedSpec F t d)) real
    if r != "ok" then pure r else
    pure ((PyGen.matching F t d real).getD "ok")
  | ["c03.next", f, t, d, real] => do
    let F ← parseForest f
    let t ← t.toNat?
    let d ← d.toNat?
    let r := expect (optNatOf (nextSpec F t d)) real
    if r != "ok" then pure r else
    if nextTaxon F t d != nextSpec F t d then pure "FAIL model/spec disagree (next)" else
    pure ((PyGen.next F t d real).getD "ok")
  | ["c03.report", f, t, real] => do
    let F ← parseForest f
    let t ← parseOptNat t
    let r := expect (optNatOf (reportSpec F t)) real
    if r != "ok" then pure r else
    pure ((PyGen.reportable F t real).getD "ok")
  -- default classification, relation on the real result
  | ["c03.classify", f, gtax, ds, closest, predicted, primary, next, report] => do
    let F ← parseForest f
    let gtax ← parseNats gtax
    let ds ← parseNats ds
    let ok := defaultOk F gtax ds (← closest.toNat?) (← parseOptNat predicted) (← parseOptNat primary)
      (← parseOptNat next) (← parseOptNat report)
    let m := classifyDefault F gtax ds
    if !ok then pure (verdict ok s!"default-mode statement violated; model says {resultStr m} report={optNatOf (reportable F m.predicted)}") else
    pure ((PyGen.classify F gtax ds false s!"1/{predicted}/{primary}/{closest}/0/0/0").getD "ok")
  -- closest genomes list
  | ["c09.closest", ds, n, lst, closestMatch] => do
    let ds ← parseNats ds
    let n ← n.toNat?
    let lst ← parseNats lst
    let cm ← closestMatch.toNat?
    if !closestOk ds n lst then pure s!"FAIL not the (distance, reference order) prefix; expected {natsOf (closestList ds n)}" else
    if lst.head? != some cm && n > 0 && ds.length > 0 then pure s!"FAIL first entry {lst.head?} is not the closest match {cm}" else
    if closestList ds n != lst then pure "FAIL model/spec disagree (closest)" else
    pure (if ds.isEmpty then "ok" else (PyGen.closestList ds n (natsOf lst ++ "/" ++ toString cm)).getD "ok")
  | ["c09.argsort", ds, real] => do
    let ds ← parseNats ds
    pure (expect (natsOf (stableArgsort ds)) real)
  -- consensus of an ordered list of matched taxa
  | ["c10.consensus", f, taxa, cons, others] => do
    let F ← parseForest f
    let taxa ← parseNats taxa
    let paths := taxa.map F.path
    let spec := consensusSpec (dedup taxa |>.map F.path)
    let specOthers := sortNat ((othersSpec (dedup taxa |>.map F.path)).filterMap (fun p => p.getLast?))
    let r := expect (optNatOf (spec.bind (fun p => p.getLast?)) ++ "/" ++ natsOf specOthers) (cons ++ "/" ++ others)
    if r != "ok" then pure r else
    let (mc, mo) := consensusPaths paths
    let ms := optNatOf (mc.bind (fun p => p.getLast?)) ++ "/" ++ natsOf (sortNat (dedup (mo.filterMap (fun p => p.getLast?))))
    if ms != cons ++ "/" ++ others then pure s!"FAIL model/spec disagree (consensus) model={ms}" else
    pure ((PyGen.consensus F taxa (cons ++ "/" ++ others)).getD "ok")
  | ["c10.classify", f, gtax, ds, success, predicted, primary, closest, warn, failed] => do
    let F ← parseForest f
    let gtax ← parseNats gtax
    let ds ← parseNats ds
    let ok := strictOk F gtax ds (← parseBool success) (← parseOptNat predicted) (← parseOptNat primary) (← closest.toNat?)
      (← parseNats warn) (← parseBool failed)
    if !ok then pure (verdict ok s!"strict-mode statement violated; model says {resultStr (classifyStrict F gtax ds)}") else
    -- the definition generated from the current source of classify(): same observable fields (the "not closest" warning is derived)
    let prim ← parseOptNat primary
    let clo ← closest.toNat?
    let warnL ← parseNats warn
    let notClosest := match prim with | some p => p != clo | none => false
    pure ((PyGen.classify F gtax ds true
      s!"{success}/{predicted}/{primary}/{closest}/{boolOf (!warnL.isEmpty)}/{boolOf notClosest}/{failed}").getD "ok")
  | ["tax.path", f, t, real] => do
    let F ← parseForest f
    pure (expect (natsOf (F.path (← t.toNat?))) real)
  | _ => none

end Driver.Tax
