import GambitV.Model.Json
import GambitV.Spec.JsonCarries
import GambitV.Gen.PyJson
import Driver.Proto
namespace Driver.Json
open GambitV GambitV.Json Driver

/-!
C11, JSON exporters.  Wire form of a Python value / a JSON value (no spaces):
  N | B0 | B1 | I<int> | F<binary64 bits, decimal> | S<hex utf-8> | H<hex> (hooked object: its converter string)
  | L[v,…] | D{<hexkey>:v,…} | A<hexcls>(<hexname>=v,…) (attrs instance) | O<hexcls>(<hexname>=v,…) (other instance)
-/

def isLowerHex (c : Char) : Bool := ('0' ≤ c && c ≤ '9') || ('a' ≤ c && c ≤ 'f')

def takeText (cs : List Char) : Option (List Char × List Char) :=
  let h := cs.takeWhile isLowerHex
  match parseHexAux h [] with
  | some bs => some ((String.fromUTF8! (ByteArray.mk bs.toArray)).toList, cs.drop h.length)
  | none => none

def takeInt (cs : List Char) : Option (Int × List Char) :=
  let h := cs.takeWhile (fun c => c.isDigit || c == '-')
  (String.ofList h).toInt?.map (fun i => (i, cs.drop h.length))

mutual
partial def parsePVal : List Char → Option (PVal × List Char)
  | 'N' :: rest => some (.none, rest)
  | 'B' :: '0' :: rest => some (.bool false, rest)
  | 'B' :: '1' :: rest => some (.bool true, rest)
  | 'I' :: rest => (takeInt rest).map (fun (i, r) => (.int i, r))
  | 'F' :: rest => (takeInt rest).map (fun (i, r) => (.float i.toNat, r))
  | 'S' :: rest => (takeText rest).map (fun (t, r) => (.str t, r))
  | 'H' :: rest => (takeText rest).map (fun (t, r) => (.hooked t, r))
  | 'L' :: '[' :: rest => (pItems rest []).map (fun (xs, r) => (.list xs, r))
  | 'D' :: '{' :: rest => (pFields ':' '}' rest []).map (fun (kvs, r) => (.dict kvs, r))
  | 'A' :: rest => do
    let (cls, r) ← takeText rest
    match r with
    | '(' :: r' => (pFields '=' ')' r' []).map (fun (kvs, r'') => (.inst cls true kvs, r''))
    | _ => none
  | 'O' :: rest => do
    let (cls, r) ← takeText rest
    match r with
    | '(' :: r' => (pFields '=' ')' r' []).map (fun (kvs, r'') => (.inst cls false kvs, r''))
    | _ => none
  | _ => none
partial def pItems : List Char → List PVal → Option (List PVal × List Char)
  | ']' :: rest, acc => some (acc.reverse, rest)
  | ',' :: rest, acc => pItems rest acc
  | cs, acc => match parsePVal cs with
    | some (v, rest) => pItems rest (v :: acc)
    | none => none
partial def pFields (sep close : Char) : List Char → List (List Char × PVal) → Option (List (List Char × PVal) × List Char)
  | c :: rest, acc =>
    if c == close then some (acc.reverse, rest)
    else if c == ',' then pFields sep close rest acc
    else match takeText (c :: rest) with
      | some (k, s :: r) => if s == sep then (match parsePVal r with
          | some (v, r') => pFields sep close r' ((k, v) :: acc)
          | none => none) else none
      | _ => none
  | [], _ => none
end

mutual
partial def parseJson : List Char → Option (Json × List Char)
  | 'N' :: rest => some (.null, rest)
  | 'B' :: '0' :: rest => some (.bool false, rest)
  | 'B' :: '1' :: rest => some (.bool true, rest)
  | 'I' :: rest => (takeInt rest).map (fun (i, r) => (.int i, r))
  | 'F' :: rest => (takeInt rest).map (fun (i, r) => (.float i.toNat, r))
  | 'S' :: rest => (takeText rest).map (fun (t, r) => (.str t, r))
  | 'L' :: '[' :: rest => (jItems rest []).map (fun (xs, r) => (.arr xs, r))
  | 'D' :: '{' :: rest => (jFields rest []).map (fun (kvs, r) => (.obj kvs, r))
  | _ => none
partial def jItems : List Char → List Json → Option (List Json × List Char)
  | ']' :: rest, acc => some (acc.reverse, rest)
  | ',' :: rest, acc => jItems rest acc
  | cs, acc => match parseJson cs with
    | some (v, rest) => jItems rest (v :: acc)
    | none => none
partial def jFields : List Char → List (List Char × Json) → Option (List (List Char × Json) × List Char)
  | '}' :: rest, acc => some (acc.reverse, rest)
  | ',' :: rest, acc => jFields rest acc
  | cs, acc => match takeText cs with
    | some (k, ':' :: r) => (match parseJson r with
        | some (v, r') => jFields r' ((k, v) :: acc)
        | none => none)
    | _ => none
end

partial def render : Json → String
  | .null => "null"
  | .bool b => toString b
  | .int i => toString i
  | .float b => s!"f64:{b}"
  | .str s => (String.ofList s).quote
  | .arr xs => "[" ++ ", ".intercalate (xs.map render) ++ "]"
  | .obj kvs => "{" ++ ", ".intercalate (kvs.map (fun kv => (String.ofList kv.1).quote ++ ": " ++ render kv.2)) ++ "}"

/-- where two JSON values first differ (members compared by name), for the failure message -/
partial def firstDiff (path : String) : Json → Json → Option String
  | .arr xs, .arr ys =>
    if xs.length != ys.length then some s!"{path}: {xs.length} elements in the model, {ys.length} written"
    else ((xs.zip ys).zipIdx).findSome? (fun ((x, y), i) => firstDiff s!"{path}[{i}]" x y)
  | .obj xs, .obj ys =>
    match xs.findSome? (fun kv => match lookup kv.1 ys with
        | some w => firstDiff s!"{path}.{String.ofList kv.1}" kv.2 w
        | none => some s!"{path}.{String.ofList kv.1}: member missing in what was written") with
    | some d => some d
    | none => (ys.find? (fun kv => (lookup kv.1 xs).isNone)).map (fun kv => s!"{path}.{String.ofList kv.1}: member written that the model does not have")
  | a, b => if a.eqv b then none else some s!"{path}: model {(render a).take 200}, written {(render b).take 200}"

def exporterOf (gen : Bool) : String → Option Exporter
  | "json" => some (if gen then Gen.pyJsonExporter else jsonExporter)
  | "archive" => some (if gen then Gen.pyArchiveExporter else archiveExporter)
  | _ => none

def handle : List String → Option String
  -- the statement's predicate on (results object, JSON written): FAIL = the property is violated on this input
  | ["c11.jsonspec", pv, js] => do
    let (v, _) ← parsePVal pv.toList
    let (j, _) ← parseJson js.toList
    pure (if resultsCarried v j then "ok" else "FAIL the JSON export does not carry the label / reported taxon / next taxon / closest genomes of every query")
  -- model tie: the encoder with the model's rules against what was written (DIFF = the correspondence no longer holds on this input)
  | ["c11.json", which, pv, js] => do
    let ex ← exporterOf false which
    let (v, _) ← parsePVal pv.toList
    let (j, _) ← parseJson js.toList
    pure (match encode ex defaultFuel v with
      | some m => if m.eqv j then "ok" else s!"DIFF Model.Json.encode ({which} exporter) ~ gambit.results: {(firstDiff "$" m j).getD "?"}"
      | none => s!"DIFF Model.Json.encode ({which} exporter) ~ gambit.results: the model's dump raises, the real one wrote a file")
  -- translator tie: the same with the rules read from the current source
  | ["pyg.json", which, pv, js] => do
    let ex ← exporterOf true which
    let unt := if which == "json" then Gen.pyJsonExporter.untranslatable else Gen.pyArchiveExporter.untranslatable
    let (v, _) ← parsePVal pv.toList
    let (j, _) ← parseJson js.toList
    pure (if unt then "ok" else match encode ex defaultFuel v with
      | some m => if m.eqv j then "ok" else s!"DIFF generated {which} exporter rules (read from the current source) ~ gambit.results: {(firstDiff "$" m j).getD "?"}"
      | none => s!"DIFF generated {which} exporter rules (read from the current source) ~ gambit.results: the generated dump raises, the real one wrote a file")
  | _ => none

end Driver.Json
