import Driver.Proto
import Driver.C07
import Driver.C01
import Driver.C02
import Driver.C20
import Driver.C05
import Driver.Tax
import Driver.C04
import Driver.C13
import Driver.C12
import Driver.C14
import Driver.C16
import Driver.C17
import Driver.C06
import Driver.C08
import Driver.C11
import Driver.C18
import Driver.Gen
import Driver.PyGen
import Driver.Json

open Driver

def handlers : List (List String → Option String) := [
  Driver.C07.handle,
  Driver.C01.handle,
  Driver.C02.handle,
  Driver.C20.handle,
  Driver.C05.handle,
  Driver.Tax.handle,
  Driver.C04.handle,
  Driver.C13.handle,
  Driver.C12.handle,
  Driver.C14.handle,
  Driver.C16.handle,
  Driver.C17.handle,
  Driver.C06.handle,
  Driver.C08.handle,
  Driver.C11.handle,
  Driver.C18.handle,
  Driver.Gen.handle,
  Driver.PyGen.handle,
  Driver.Json.handle
]

/-- a reply is one line: control characters and line separators inside a failure message are shown escaped -/
def oneLine (s : String) : String :=
  String.join (s.toList.map fun c =>
    if c.toNat < 32 || c.toNat == 127 || c.toNat == 133 || c.toNat == 8232 || c.toNat == 8233 then s!"\\u{c.toNat}" else c.toString)

def dispatch (toks : List String) : String :=
  match handlers.findSome? (fun h => h toks) with
  | some r => oneLine r
  | none => s!"bad-op {" ".intercalate (toks.take 1)}"

partial def loop (h : IO.FS.Stream) (out : IO.FS.Stream) : IO Unit := do
  let line ← h.getLine
  if line.isEmpty then return ()
  let l : String := String.ofList (line.toList.filter (fun c => c != '\n' && c != '\r'))
  if l.isEmpty then
    out.putStrLn "bad-op empty"
  else
    out.putStrLn (dispatch (l.splitOn " "))
  loop h out

def main : IO Unit := do
  let stdin ← IO.getStdin
  let stdout ← IO.getStdout
  loop stdin stdout
