import GambitV.Model.SigFile
import Driver.Proto
namespace Driver.C12
open GambitV Driver

def opTok : WOp → String
  | .createFile => "file"
  | .setAttr n => "attr:" ++ n
  | .createDataset n => "dset:" ++ n
  | .writeChunk _ => "write"
  | .flush => "flush"
  | .close => "close"

def handle : List String → Option String
  | ["c12.rt", fast, k, pre, dt, sigs, rawValues, rawBounds, lk, lpre, ldt, lsigs, idsW, idsL, metaW, metaL] => do
    let fast ← parseBool fast
    let k ← k.toNat?
    let pre ← parseHex pre
    let dt ← dt.toNat?
    let sigs ← parseNatLists sigs
    let rawValues ← parseNats rawValues
    let rawBounds ← parseNats rawBounds
    let c : SigCollection := { k := k, pre := pre, metaAttrs := [some metaW], ids := [idsW], sigs := sigs, dtypeBytes := dt }
    let store := writeSigs fast c
    if store.values != rawValues then pure s!"FAIL stored values differ from the model: {natsOf store.values}" else
    if store.bounds != rawBounds then pure s!"FAIL stored bounds differ from the model: {natsOf store.bounds}" else
    let loaded : SigCollection := { k := (← lk.toNat?), pre := (← parseHex lpre), metaAttrs := [some metaL], ids := [idsL],
                                     sigs := (← parseNatLists lsigs), dtypeBytes := (← ldt.toNat?) }
    -- the specification: what is loaded is what was written
    if loaded != c then pure "FAIL loaded collection differs from the written one" else
    pure (if readSigs store == .loaded c then "ok" else "FAIL model read(write c) != c")
  -- the same for a `SignatureArray` that is a window of a larger values array (bounds neither start at 0 nor end at the end): the arrays
  -- are stored as they are, so they are not the canonical ones; what is stored must still *read* (model reader) as the collection written
  | ["c12.rtw", k, pre, dt, sigs, rawValues, rawBounds, lk, lpre, ldt, lsigs, idsW, idsL, metaW, metaL] => do
    let k ← k.toNat?
    let pre ← parseHex pre
    let dt ← dt.toNat?
    let sigs ← parseNatLists sigs
    let rawValues ← parseNats rawValues
    let rawBounds ← parseNats rawBounds
    let c : SigCollection := { k := k, pre := pre, metaAttrs := [some metaW], ids := [idsW], sigs := sigs, dtypeBytes := dt }
    let store := { writeSigs true c with values := rawValues, bounds := rawBounds }
    let loaded : SigCollection := { k := (← lk.toNat?), pre := (← parseHex lpre), metaAttrs := [some metaL], ids := [idsL],
                                     sigs := (← parseNatLists lsigs), dtypeBytes := (← ldt.toNat?) }
    if loaded != c then pure "FAIL loaded collection differs from the written one" else
    pure (if readSigs store == .loaded c then "ok" else "FAIL the stored values / bounds do not read back as the collection written")
  | ["c12.foreign", kind, real] => do
    let img ← if kind == "nothdf5" then some FileImage.notHdf5
      else if kind == "othermarkerless" then some (FileImage.hdf5 { marker := none, k := 0, pre := [], metaAttrs := [], ids := [], values := [], bounds := [], dtypeBytes := 0 })
      else none
    let out := match loadFile img with
      | .sigFileError => "sfe"
      | .otherError => "other"
      | .loaded _ => "loaded"
    pure (expect out real)
  -- crash after `n` storage calls: the file must not load, unless the write completed (then it loads exactly)
  | ["c19.crash", fast, nsigs, n, real] => do
    let fast ← parseBool fast
    let nsigs ← nsigs.toNat?
    let n ← n.toNat?
    let full : SigStore := { marker := some 1, k := 1, pre := [], metaAttrs := [], ids := [], values := [], bounds := [0], dtypeBytes := 1 }
    let out := match loadFile (crashImage (writerTrace fast nsigs) full n) with
      | .loaded _ => "loaded-same"
      | _ => "err"
    pure (expect out real)
  -- the writer is interrupted by an exception before call `n` (cleanup handlers run): same verdict
  | ["c19.unwind", fast, nsigs, n, real] => do
    let fast ← parseBool fast
    let nsigs ← nsigs.toNat?
    let n ← n.toNat?
    let full : SigStore := { marker := some 1, k := 1, pre := [], metaAttrs := [], ids := [], values := [], bounds := [0], dtypeBytes := 1 }
    let out := match loadFile (unwindImage (writerTrace fast nsigs) full n) with
      | .loaded _ => "loaded-same"
      | _ => "err"
    pure (expect out real)
  | ["c19.trace", fast, nsigs, real] => do
    let fast ← parseBool fast
    let nsigs ← nsigs.toNat?
    pure (expect (",".intercalate ((writerTrace fast nsigs).map opTok)) real)
  | _ => none

end Driver.C12
