import GambitV.Model.Kmers
import Driver.Proto
namespace Driver.C07
open GambitV Driver

def showEnc : Except KmerErr Nat → String
  | .ok n => s!"ok:{n}"
  | .error .tooLong => "err:toolong"
  | .error .invalidChar => "err:invalid"

def handle : List String → Option String
  | ["c07.enc", h, real] => do
    let s ← parseHex h
    pure (expect (showEnc (kmerToIndex s)) real)
  | ["c07.encrc", h, real] => do
    let s ← parseHex h
    pure (expect (showEnc (kmerToIndexRc s)) real)
  | ["c07.dec", i, k, real] => do
    let i ← i.toNat?
    let k ← k.toNat?
    pure (expect (hexOf (decode i k)) real)
  | ["c07.rc", h, real] => do
    let s ← parseHex h
    pure (expect (hexOf (revcomp s)) real)
  | ["c07.dtype", k, real] => do
    let k ← k.toNat?
    pure (expect (optNatOf (indexDtypeBytes k)) real)
  | _ => none

end Driver.C07
