import GambitV.Model.Kmers
import Driver.Proto
import Driver.PyGenCmp
namespace Driver.C07
open GambitV Driver

def showEnc : Except KmerErr Nat → String
  | .ok n => s!"ok:{n}"
  | .error .tooLong => "err:toolong"
  | .error .invalidChar => "err:invalid"

def handle : List String → Option String
  | ["c07.enc", h, real] => do
    let s ← parseHex h
    let r := expect (showEnc (GambitV.kmerToIndex s)) real
    if r != "ok" then pure r else
    pure ((PyGen.kmerToIndex s real).getD "ok")
  | ["c07.encrc", h, real] => do
    let s ← parseHex h
    let r := expect (showEnc (GambitV.kmerToIndexRc s)) real
    if r != "ok" then pure r else
    pure ((PyGen.kmerToIndexRc s real).getD "ok")
  | ["c07.dec", i, k, real] => do
    let i ← i.toNat?
    let k ← k.toNat?
    pure (expect (hexOf (decode i k)) real)
  | ["c07.rc", h, real] => do
    let s ← parseHex h
    pure (expect (hexOf (revcomp s)) real)
  | ["c07.dtype", k, real] => do
    let k ← k.toNat?
    let r := expect (optNatOf (indexDtypeBytes k)) real
    if r != "ok" then pure r else
    pure ((PyGen.indexDtype k real).getD "ok")
  | _ => none

end Driver.C07
