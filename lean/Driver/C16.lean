import GambitV.Model.Cli
import Driver.Proto
import Driver.PyGenCmp
namespace Driver.C16
open GambitV Driver

/-- list of strings as `;`-separated hex of UTF-8 bytes (`_` = empty list; `-` = empty string) -/
def parseStrs (s : String) : Option (List (List Char)) :=
  if s == "_" then some [] else (s.splitOn ";").mapM fun h => do
    let bs ← parseHex h
    pure (String.fromUTF8! (ByteArray.mk bs.toArray)).toList

def strOfHex (h : String) : Option (List Char) := do
  let bs ← parseHex h
  pure (String.fromUTF8! (ByteArray.mk bs.toArray)).toList

def handle : List String → Option String
  -- labels: kind `f` = derived from a path, `s` = stored id used as is
  | ["c16.dist", qkind, qs, rkind, rs, table, realHex] => do
    let qs ← parseStrs qs
    let rs ← parseStrs rs
    let table ← parseNatLists table
    let real ← strOfHex realHex
    let ql := if qkind == "f" then qs.map fileLabel else qs
    let rl := if rkind == "f" then rs.map fileLabel else rs
    let expected := distCsv ql rl (table.map (fun row => row.map UInt32.ofNat))
    if expected != real then pure s!"FAIL expected csv {String.ofList expected |>.quote} got {String.ofList real |>.quote}" else
    pure ((PyGen.dmatCsv ql rl (table.map (fun row => row.map UInt32.ofNat)) real).getD "ok")
  | ["c16.label", path, real] => do
    let path ← strOfHex path
    let real ← strOfHex real
    let r := expect (String.ofList (fileLabel path)) (String.ofList real)
    if r != "ok" then pure r else
    pure ((PyGen.fileId path (String.ofList real)).getD "ok")
  | ["c16.csvrt", lt, rowsHex, textHex, pyRowsHex] => do
    -- writer model vs real text; reader model on the real text vs CPython's reader
    let lt ← strOfHex lt
    let rows ← (rowsHex.splitOn "|").mapM parseStrs
    let text ← strOfHex textHex
    let pyRows ← (pyRowsHex.splitOn "|").mapM parseStrs
    if writeCsv lt rows != text then pure s!"FAIL writer model: {String.ofList (writeCsv lt rows) |>.quote}" else
    if parseCsv text != pyRows then pure "FAIL reader model disagrees with csv.reader" else pure "ok"
  | _ => none

end Driver.C16
