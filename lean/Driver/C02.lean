import GambitV.Model.Jaccard
import Driver.Proto
import Driver.PyGenCmp
import Std.Data.HashSet
namespace Driver.C02
open GambitV Driver

/-- Set-level counts computed without any merge logic (hash sets): (|A ∪ B|, |A ∩ B|). -/
def setCounts (a b : List Nat) : Nat × Nat :=
  let sa : Std.HashSet Nat := Std.HashSet.ofList a
  let sb : Std.HashSet Nat := Std.HashSet.ofList b
  let inter := sa.fold (fun acc x => if sb.contains x then acc + 1 else acc) 0
  (sa.size + sb.size - inter, inter)

def parseBits (s : String) : Option UInt32 := s.toNat?.map UInt32.ofNat

/-- exact comparison of two decoded non-negative values: `a ≤ b` -/
def valLe (a b : Nat × Int) : Bool :=
  let e := min a.2 b.2
  a.1 * 2 ^ (a.2 - e).toNat ≤ b.1 * 2 ^ (b.2 - e).toNat

/-- `a ≤ b + c + 2^-22` exactly -/
def triLe (a b c : Nat × Int) : Bool :=
  let e := min (min a.2 b.2) (min c.2 (-22))
  a.1 * 2 ^ (a.2 - e).toNat ≤ b.1 * 2 ^ (b.2 - e).toNat + c.1 * 2 ^ (c.2 - e).toNat + 2 ^ ((-22 : Int) - e).toNat

def handle : List String → Option String
  -- real distance / index bits for explicit arrays
  | ["c02.dist", a, b, dbits, ibits] => do
    let a ← parseNats a
    let b ← parseNats b
    let (u, i) := setCounts a b
    let spec := jaccardSpecBits (u - i) u
    let model := jaccardBits a b
    let idx := F32.sub F32.oneBits spec
    let r := expect s!"{spec.toNat}:{idx.toNat}" s!"{dbits}:{ibits}"
    if r != "ok" then pure r else
    if model != spec then pure s!"FAIL model/spec disagree model={model.toNat} spec={spec.toNat}" else
    pure ((PyGen.distIdx a b s!"{dbits}:{ibits}").getD "ok")
  -- arrays given by sizes only (harness builds [0,N) and [N-I, N-I+M)); spec from counts
  | ["c02.sizes", n, m, i, dbits] => do
    let n ← n.toNat?
    let m ← m.toNat?
    let i ← i.toNat?
    let u := n + m - i
    let spec := jaccardSpecBits (u - i) u
    pure (expect s!"{spec.toNat}" dbits)
  | ["c02.f32", "ofnat", n, real] => do
    let n ← n.toNat?
    pure (expect s!"{(F32.ofNat n).toNat}" real)
  | ["c02.f32", "div", a, b, real] => do
    let a ← parseBits a
    let b ← parseBits b
    pure (expect s!"{(F32.div a b).toNat}" real)
  | ["c02.f32", "sub", a, b, real] => do
    let a ← parseBits a
    let b ← parseBits b
    pure (expect s!"{(F32.sub a b).toNat}" real)
  | ["c02.f32", "fmt4", a, real] => do
    let a ← parseBits a
    pure (expect (F32.fmt4 a) real)
  | ["c02.cast", kind, size, native, real] => do
    let size ← size.toNat?
    let k ← kind.toList.head?
    let native ← parseBool native
    let r := expect (optNatOf (castDtype k size native)) real
    if r != "ok" then pure r else
    pure ((PyGen.castArr k size native real).getD "ok")
  -- metric laws on real bit patterns of a triple (a,b,c): dab dba dbc dac daa
  | ["c15.triple", a, b, c, dab, dba, dbc, dac, daa] => do
    let a ← parseNats a
    let b ← parseNats b
    let c ← parseNats c
    let dab ← parseBits dab
    let dba ← parseBits dba
    let dbc ← parseBits dbc
    let dac ← parseBits dac
    let daa ← parseBits daa
    let vab ← F32.decode dab
    let vbc ← F32.decode dbc
    let vac ← F32.decode dac
    let (uab, iab) := setCounts a b
    let one : Nat × Int := (1, 0)
    let inUnit := valLe vab one && valLe vbc one && valLe vac one
    let eqSets := (uab == iab)            -- |A∪B| = |A∩B|  ⇔  A = B
    let disj := (iab == 0 && uab > 0)
    let big := uab ≥ 2 ^ 24
    if !inUnit then pure "FAIL distance outside [0,1]" else
    if daa != 0 then pure "FAIL d(a,a) != 0" else
    if dab != dba then pure s!"FAIL not symmetric {dab.toNat} {dba.toNat}" else
    if !big && ((dab == 0) != eqSets) then pure "FAIL zero iff equal" else
    if !big && ((dab == F32.oneBits) != disj) then pure "FAIL one iff disjoint non-empty" else
    if !triLe vac vab vbc then pure "FAIL triangle inequality beyond 2^-22" else
    pure "ok"
  -- adding a common new element: before/after bit patterns, union size before
  | ["c15.addcommon", u, before, after] => do
    let u ← u.toNat?
    let before ← parseBits before
    let after ← parseBits after
    let vb ← F32.decode before
    let va ← F32.decode after
    if before == 0 then pure (verdict (after == 0) "distance 0 must stay 0") else
    let _ := u
    pure (verdict (valLe va vb && after != before) "not strictly decreasing")
  | _ => none

end Driver.C02
