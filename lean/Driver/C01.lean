import GambitV.Model.Find
import GambitV.Spec.Signature
import Driver.Proto
import Driver.PyGenCmp
namespace Driver.C01
open GambitV Driver

def handle : List String → Option String
  -- c01.sig k prefix seqs dtypeBytes realSig : real signature must equal the *specification* list; dtype minimal
  | ["c01.sig", k, pre, seqs, dt, real] => do
    let k ← k.toNat?
    let pre ← parseHex pre
    let seqs ← parseHexList seqs
    let spec := specList k pre seqs
    let model := signature k pre seqs
    let r1 := expect (natsOf spec ++ ":" ++ optNatOf (indexDtypeBytes k)) (real ++ ":" ++ dt)
    if r1 != "ok" then pure r1 else
    if model != spec then pure s!"FAIL model/spec disagree model={natsOf model}" else
    pure ((PyGen.calcSignature k pre seqs real).getD "ok")
  -- c01.find k prefix seq fwdPositions revPositions : positions reported by find_kmers
  | ["c01.find", k, pre, s, fwd, rev] => do
    let k ← k.toNat?
    let pre ← parseHex pre
    let s ← parseHex s
    let hay := haystack s
    let mf := fwdMatches k pre hay
    let mr := (revMatches k pre hay).map (· + pre.length - 1)
    let r := expect (natsOf mf ++ "|" ++ natsOf mr) (fwd ++ "|" ++ rev)
    if r != "ok" then pure r else
    pure ((PyGen.findKmers k pre s (fwd ++ "|" ++ rev)).getD "ok")
  -- c01.bfind hay pat start stop real : bytes.find with normalised bounds
  | ["c01.bfind", hay, pat, start, stop, real] => do
    let hay ← parseHex hay
    let pat ← parseHex pat
    let start ← start.toNat?
    let stop ← stop.toNat?
    pure (expect (optNatOf (bytesFind hay pat start stop)) real)
  | _ => none

end Driver.C01
