import GambitV.Gen.PyAncestors
import GambitV.Tie.PyNext

/-!
Tie: `Taxon.ancestors` (db/models.py) as it stands in the *current* source — the walk along `parent` every classification step rests on —
against the model's `Forest.lineage` / `Forest.properAncestors`.  Until now the lineage was part of the environment of the other
translated functions (`t.ancestors(incself=…)` read as `F.lineage t`), validated by the `pyrt.lineage` operation only.
-/
namespace GambitV.Tie.Py
open GambitV

/-- bottom to top, starting with the taxon itself (`incself=True`) or its parent; the fuel `F.size + 1` suffices in a well-formed forest -/
theorem taxon_ancestors_eq (F : Forest) (hF : ForestWF F) (t : Nat) (ht : t < F.size) (inc : Bool) :
    Gen.taxon_ancestors F t inc = .ok (if inc then F.lineage t else F.properAncestors t) := by
  sorry

/-- the reading the other translations use: `t.ancestors(incself=True)` is `F.lineage t` -/
theorem py_ancestors_incself (F : Forest) (hF : ForestWF F) (t : Nat) (ht : t < F.size) :
    Gen.taxon_ancestors F t true = .ok (F.lineage t) := by
  sorry

theorem py_ancestors_proper (F : Forest) (hF : ForestWF F) (t : Nat) (ht : t < F.size) :
    Gen.taxon_ancestors F t false = .ok (F.properAncestors t) := by
  sorry

/-- the first ancestor reported with `incself=True` is the taxon itself, and every later one is the parent of the one before -/
theorem py_ancestors_chain (F : Forest) (hF : ForestWF F) (t : Nat) (ht : t < F.size) (l : List Nat)
    (h : Gen.taxon_ancestors F t true = .ok l) :
    l.head? = some t ∧ ∀ i, i + 1 < l.length → F.parentOf (l.getD i 0) = some (l.getD (i + 1) 0) := by
  sorry

end GambitV.Tie.Py
