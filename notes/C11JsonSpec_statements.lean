import GambitV.Props.C11Json
import GambitV.Spec.JsonCarries

/-!
C11, JSON side, second batch — the statement's predicate (`Spec/JsonCarries.lean`) holds of the documented JSON.
Final file: GambitV/Props/C11JsonSpec.lean.
-/
namespace GambitV.Json

theorem taxonCarried_json (t : JTaxon) : taxonCarried (some t.toPVal) (some (taxonJson t)) = true := by
  cases t with | mk id key name ncbiId rank threshold =>
  cases ncbiId <;> cases rank <;> cases threshold <;>
    simp [taxonCarried, JTaxon.toPVal_eq, JTaxon.columns_eq, taxonJson_eq, PVal.getattr?, Json.get?, lookup, leafEq, optInt, optStr, optFloat, jInt, jStr, jFloat]

theorem optTaxonCarried_json (t : Option JTaxon) : taxonCarried (some (optTaxon t)) (some (optTaxonJson t)) = true := sorry

theorem matchCarried_json (m : JMatch) : matchCarried m.toPVal (matchJson m) = true := sorry

/-- the documented element of `items` carries the label, the reported taxon, the next taxon and the closest genomes of the query -/
theorem itemCarried_json (it : JItem) : itemCarried it.toPVal (itemJson it) = true := sorry

/-- … and so does the whole export, whatever else the results object holds -/
theorem resultsCarried_json (items : List JItem) (p : PVal) (rest : List (List Char × PVal)) (restJ : List (List Char × Json)) :
    resultsCarried (.inst "QueryResults".toList true (("items".toList, .list (items.map JItem.toPVal)) :: ("params".toList, p) :: rest))
      (.obj (("items".toList, .arr (items.map itemJson)) :: restJ)) = true := sorry

/-- the predicate is not vacuous: it tells two labels apart, and two distances that differ in the last bit -/
theorem itemCarried_label (a b : JItem) (h : itemCarried a.toPVal (itemJson b) = true) : a.label = b.label := sorry
theorem matchCarried_distance (a b : JMatch) (h : matchCarried a.toPVal (matchJson b) = true) :
    a.distance = b.distance ∧ a.genome.key = b.genome.key ∧ a.genome.description = b.genome.description := sorry
theorem itemCarried_report (a b : JItem) (h : itemCarried a.toPVal (itemJson b) = true) :
    a.report.map (·.key) = b.report.map (·.key) ∧ a.next.map (·.key) = b.next.map (·.key) ∧ a.closest.length = b.closest.length := sorry

end GambitV.Json
