import GambitV.Gen.PyMetaRules
import GambitV.Model.MetaAttrs

/-!
Tie: which attribute of the HDF5 group holds which field, as the writing side (`_init_attrs`, `write_metadata`) and the reading side
(`HDF5Signatures.__init__`, `read_metadata`) of the *current* source say (tables read by harness/pytrace.py on every run), and the
round trip through them: what the reader reads is what the writer wrote, for every header.  Core Lean only.
-/
namespace GambitV.Tie.Py
open GambitV GambitV.MetaAttrs

theorem meta_writer_eq : Gen.pyMetaWriter = writerTable := by decide
theorem meta_reader_eq : Gen.pyMetaReader = readerTable := by decide
theorem meta_translated : Gen.pyMetaRules.untranslatable = false := by decide

/-- the attributes the model's writer stores -/
theorem writeAttrs_model (k : Nat) (pre : String) (id name idAttr version description extra : Option String) :
    writeAttrs writerTable (mkHeader k pre id name idAttr version description extra) =
      [("gambit_signatures_version", .int 1), ("kmerspec_k", .int k), ("kmerspec_prefix", .text pre),
       ("id", optV id), ("name", optV name), ("id_attr", optV idAttr), ("version", optV version), ("description", optV description),
       ("extra", optV extra)] := by
  simp [writeAttrs, writerTable, mkHeader, Src.value, fieldOf, List.foldl, List.filter, List.find?]

/-- round trip on the model's tables: every header is read back as it was written (`None` fields included) -/
theorem meta_roundtrip (k : Nat) (pre : String) (id name idAttr version description extra : Option String) :
    readHeader readerTable (writeAttrs writerTable (mkHeader k pre id name idAttr version description extra))
      = some (mkHeader k pre id name idAttr version description extra) := by
  rw [writeAttrs_model]
  cases id <;> cases name <;> cases idAttr <;> cases version <;> cases description <;> cases extra <;>
    simp [readHeader, readerTable, lookupRow, readInt, readText, readOpt, getAttr, optV, mkHeader, List.find?, List.filter, List.mapM_cons, List.mapM_nil]

/-- … and on the tables as the current source has them -/
theorem py_meta_roundtrip (k : Nat) (pre : String) (id name idAttr version description extra : Option String) :
    readHeader Gen.pyMetaReader (writeAttrs Gen.pyMetaWriter (mkHeader k pre id name idAttr version description extra))
      = some (mkHeader k pre id name idAttr version description extra) := by
  rw [meta_writer_eq, meta_reader_eq]; exact meta_roundtrip ..

/-- no attribute name is written twice, so nothing the writer stores is overwritten by a later store -/
theorem py_meta_names_distinct : (Gen.pyMetaWriter.map (·.1)).Nodup := by decide

/-- a reader that looked for one field under another field's name would not round-trip: the tie is not vacuous -/
example : readHeader [("k", "kmerspec_k", .int), ("pre", "kmerspec_prefix", .text), ("format_version", "gambit_signatures_version", .int),
                      ("id", "name", .opt), ("name", "id", .opt)]
            (writeAttrs writerTable (mkHeader 11 "ATGAC" (some "a") (some "b") none none none none))
          ≠ some { version := 1, k := 11, pre := "ATGAC", fields := [("id", some "a"), ("name", some "b")] } := by decide

end GambitV.Tie.Py
