import GambitV.Model.JsonResults

/-!
C11, JSON side — STATEMENTS handed to the proof agent (final file: GambitV/Props/C11Json.lean, every `sorry` replaced by a proof;
statements may not be weakened; helper lemmas go in front, marked `private` or into GambitV/Lemmas/JsonEnc.lean).
-/
namespace GambitV.Json

/-! ### `JSONResultsExporter`: the encoder run with the exporter's rules writes the documented JSON -/

theorem encode_json_taxon (n : Nat) (t : JTaxon) : encode jsonExporter (n + 1) t.toPVal = some (taxonJson t) := sorry
theorem encode_json_optTaxon (n : Nat) (t : Option JTaxon) : encode jsonExporter (n + 1) (optTaxon t) = some (optTaxonJson t) := sorry
theorem encode_json_genome (n : Nat) (g : JGenome) : encode jsonExporter (n + 2) g.toPVal = some (genomeJson g) := sorry
theorem encode_json_match (n : Nat) (m : JMatch) : encode jsonExporter (n + 3) m.toPVal = some (matchJson m) := sorry
/-- one query's element: label / path / format of the input, reported taxon, next taxon, closest genomes in order -/
theorem json_item (n : Nat) (it : JItem) : encode jsonExporter (n + 4) it.toPVal = some (itemJson it) := sorry
theorem json_item_default (it : JItem) : encode jsonExporter defaultFuel it.toPVal = some (itemJson it) := sorry

/-- the whole export: `items` has one element per query, in order, each the documented image; `params` is omitted; the other
attributes of the results object are written under their own names -/
theorem json_results (n : Nat) (items : List JItem) (p : PVal) (rest : List (List Char × PVal)) (restJ : List (List Char × Json))
    (hrest : ∀ kv ∈ rest, kv.1 ≠ "params".toList)
    (henc : encodeFields jsonExporter (n + 5) rest = some restJ) :
    encode jsonExporter (n + 6) (.inst "QueryResults".toList true (("items".toList, .list (items.map JItem.toPVal)) :: ("params".toList, p) :: rest))
      = some (.obj (("items".toList, .arr (items.map itemJson)) :: restJ)) := sorry

/-- what the statement asks of the JSON export: label, reported taxon, next taxon and closest-genome data can be read off it -/
theorem json_projection (it : JItem) :
    (itemJson it).path? ["query".toList, "name".toList] = some (.str it.label)
    ∧ (itemJson it).get? "predicted_taxon".toList = some (optTaxonJson it.report)
    ∧ (itemJson it).get? "next_taxon".toList = some (optTaxonJson it.next)
    ∧ (itemJson it).get? "closest_genomes".toList = some (.arr (it.closest.map matchJson)) := sorry

theorem taxonJson_injective : Function.Injective taxonJson := sorry
theorem optTaxonJson_injective : Function.Injective optTaxonJson := sorry
/-- a closest-genome entry determines the genome's identifiers and description, its lineage, the distance (to the last bit) and the matched taxon -/
theorem matchJson_faithful (a b : JMatch) (h : matchJson a = matchJson b) :
    a.genome.key = b.genome.key ∧ a.genome.description = b.genome.description ∧ a.genome.genomeId = b.genome.genomeId
    ∧ a.genome.taxonomy = b.genome.taxonomy ∧ a.distance = b.distance ∧ a.matched = b.matched := sorry
/-- faithful image: two items with the same JSON agree on label, reported taxon, next taxon and the closest-genome entries -/
theorem itemJson_faithful (a b : JItem) (h : itemJson a = itemJson b) :
    a.label = b.label ∧ a.report = b.report ∧ a.next = b.next ∧ a.closest.map matchJson = b.closest.map matchJson := sorry

/-- an object of a class the exporter has no rule for, and that is not an `attrs` class, is never written silently: the dump raises -/
theorem encode_unknown_raises (ex : Exporter) (n : Nat) (cls : List Char) (attrs : List (List Char × PVal)) (h : lookup cls ex = none) :
    encode ex n (.inst cls false attrs) = none := sorry

/-! ### `ResultsArchiveWriter`: keys only -/

theorem archive_match (n : Nat) (m : JMatch) : encode archiveExporter (n + 2) m.toPVal = some (archiveMatchJson m) := sorry
theorem archive_item (n : Nat) (it : JItem) : encode archiveExporter (n + 4) it.toPVal = some (archiveItemJson it) := sorry
theorem archive_item_default (it : JItem) : encode archiveExporter defaultFuel it.toPVal = some (archiveItemJson it) := sorry

/-- the archive keeps of the database objects their keys and nothing else … -/
theorem archive_keys_only (a b : JItem) (h : a.keys = b.keys) : archiveItemJson a = archiveItemJson b := sorry
/-- … and loses nothing of the keys, distances (bit patterns), warnings, error, success flag, label and file -/
theorem archive_faithful (a b : JItem) (h : archiveItemJson a = archiveItemJson b) : a.keys = b.keys := sorry

end GambitV.Json
