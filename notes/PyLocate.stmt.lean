import GambitV.Gen.PyLocate
import GambitV.Model.RefDb
import GambitV.Props.C04

/-!
Tie: `ReferenceDatabase.locate_files` as it stands in the *current* source (translated by harness/py2lean.py on every run; the
environment `DIR` is the list of names `path.iterdir()` yields, the local helper `check_single_match` is inlined at both call sites)
against the model `locateFiles`: exactly one genome file and exactly one signature file, else `DatabaseLoadError`.  Core Lean only.
-/
namespace GambitV.Tie.Py
open GambitV

theorem pathSuffix_eq (name : List Char) : Py.pathSuffix name = pathSuffix name := rfl

/-- the translated `locate_files` is the model's `locateFiles`: the pair of files when there is exactly one of each kind, a raise otherwise -/
theorem locate_files_eq (DIR : List (List Char)) (path : List Char) :
    Gen.locate_files DIR () path =
      match locateFiles DIR with
      | some (g, s) => .ok (g, s)
      | none => .raised .Other := by
  sorry

/-- on the translated code: the call succeeds exactly when the directory holds one `.gdb`/`.db` file and one `.gs`/`.h5` file, and then
returns those two (C04 `locate_ok_iff`) -/
theorem py_locate_ok_iff (DIR : List (List Char)) (path g s : List Char) :
    Gen.locate_files DIR () path = .ok (g, s) ↔ DIR.filter isGenomesFile = [g] ∧ DIR.filter isSignaturesFile = [s] := by
  sorry

/-- … and it never returns silently otherwise -/
theorem py_locate_raises (DIR : List (List Char)) (path : List Char)
    (h : ¬ ((DIR.filter isGenomesFile).length = 1 ∧ (DIR.filter isSignaturesFile).length = 1)) :
    Gen.locate_files DIR () path = .raised .Other := by
  sorry

end GambitV.Tie.Py
