import GambitV.Tie.PyJson
import GambitV.Props.C11Json
import GambitV.Props.C11JsonSpec

/-!
The properties of the JSON exporters stated of the conversion rules *read from the current source* (`Gen.pyJsonExporter`,
`Gen.pyArchiveExporter`).  Final file: GambitV/Tie/PyJsonProps.lean.
-/
namespace GambitV.Tie.Py
open GambitV GambitV.Json

theorem py_json_item (n : Nat) (it : JItem) : encode Gen.pyJsonExporter (n + 4) it.toPVal = some (itemJson it) := sorry

theorem py_json_results (n : Nat) (items : List JItem) (p : PVal) (rest : List (List Char × PVal)) (restJ : List (List Char × Json))
    (hrest : ∀ kv ∈ rest, kv.1 ≠ "params".toList)
    (henc : encodeFields Gen.pyJsonExporter (n + 5) rest = some restJ) :
    encode Gen.pyJsonExporter (n + 6) (.inst "QueryResults".toList true (("items".toList, .list (items.map JItem.toPVal)) :: ("params".toList, p) :: rest))
      = some (.obj (("items".toList, .arr (items.map itemJson)) :: restJ)) := sorry

/-- what the current `JSONResultsExporter` writes for a query carries its label, reported taxon, next taxon and closest genomes -/
theorem py_json_carries (n : Nat) (it : JItem) :
    ∃ j, encode Gen.pyJsonExporter (n + 4) it.toPVal = some j ∧ itemCarried it.toPVal j = true := sorry

theorem py_archive_item (n : Nat) (it : JItem) : encode Gen.pyArchiveExporter (n + 4) it.toPVal = some (archiveItemJson it) := sorry

/-- what the current `ResultsArchiveWriter` writes for two items is the same exactly when they agree on the keys of their database objects,
their distances (bit patterns), warnings, error, success flag, label and file -/
theorem py_archive_keys (n : Nat) (a b : JItem) :
    encode Gen.pyArchiveExporter (n + 4) a.toPVal = encode Gen.pyArchiveExporter (n + 4) b.toPVal ↔ a.keys = b.keys := sorry

end GambitV.Tie.Py
