import GambitV.Gen.PySeqFiles
import GambitV.Model.SeqFiles
import GambitV.Model.Pipeline
import GambitV.Tie.PyLabels

/-!
Tie: `read_lines` (util/io.py) and `get_sequence_files` (cli/common.py) as they stand in the *current* source against the models
`readLines` / `sequenceFilesP`, and the link to the coarser `sequenceFiles` / `fileLabels` the theorems of C08 are about.
Environment of the translation: `LINES`, the lines iterating over the opened list file yields; a path is its text, `str(Path(p))`
pathlib's normal form `Py.pathStr`.
-/
namespace GambitV.Tie.Py
open GambitV

theorem read_lines_eq (LINES : List (List Char)) (strip skip : Bool) :
    Gen.read_lines LINES () strip skip = .ok (readLines LINES strip skip) := by
  sorry

/-- the translated `get_sequence_files` is `sequenceFilesP` (a `TypeError` when a list file is given without a base directory and has lines) -/
theorem get_sequence_files_eq (LINES : List (List Char)) (explicit : Option (List (List Char))) (listfile : Option Unit)
    (ldir : Option (List Char)) (sd se : Bool) :
    Gen.get_sequence_files LINES explicit listfile ldir sd se =
      match sequenceFilesP LINES explicit listfile.isSome ldir sd se with
      | .ok r => .ok r
      | .error _ => .raised .TypeError := by
  sorry

/-- one label and one file per input, in input order: positional -/
theorem py_seqfiles_positional (LINES : List (List Char)) (ps : List (List Char)) (hne : ps ≠ []) (listfile : Option Unit) (ldir : Option (List Char)) :
    Gen.get_sequence_files LINES (some ps) listfile ldir true true
      = .ok (some ((ps.map Py.pathStr).map fileLabel, ps.map Py.pathStr)) := by
  sorry

/-- … and list file: the non-empty stripped lines, labelled by the line itself, opened below the base directory -/
theorem py_seqfiles_list (LINES : List (List Char)) (d : List Char) :
    Gen.get_sequence_files LINES none (some ()) (some d) true true
      = .ok (some ((readLines LINES true true).map fileLabel, (readLines LINES true true).map (fun l => Py.pathJoin (Py.pathStr d) l))) := by
  sorry

/-- on positional paths that are their own normal form the labels are those of the model C08's theorems are about -/
theorem py_seqfiles_labels_positional (LINES : List (List Char)) (ps : List (List Char)) (hne : ps ≠ []) (hnorm : ∀ p ∈ ps, Py.pathStr p = p)
    (listfile : Option Unit) (ldir : Option (List Char)) :
    ∃ files, sequenceFiles ps none [] = some files ∧
      Gen.get_sequence_files LINES (some ps) listfile ldir true true = .ok (some (fileLabels files, files.map (·.2))) := by
  sorry

end GambitV.Tie.Py
