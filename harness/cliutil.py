"""Run the gambit CLI in-process (click CliRunner) or in a subprocess."""
import os
import subprocess
import sys

from core import REPO


def run_cli(args, env=None, cwd=None):
	"""In-process. Returns (exit_code, stdout, stderr, exception).

	NOTE `gambit query` must always be given `-o FILE` here: its `-o` default is the sys.stdout object captured at
	import time, which CliRunner does not redirect.
	"""
	from click.testing import CliRunner
	from gambit.cli import cli
	runner = CliRunner()
	old = os.getcwd()
	if cwd is not None:
		os.chdir(cwd)
	try:
		r = runner.invoke(cli, [str(a) for a in args], env=env, catch_exceptions=True)
	finally:
		os.chdir(old)
	try:
		err = r.stderr
	except Exception:
		err = ''
	return r.exit_code, r.stdout, err, r.exception


def run_cli_subprocess(args, env=None, cwd=None, timeout=300):
	e = dict(os.environ)
	e['PYTHONPATH'] = str(REPO / 'src') + os.pathsep + e.get('PYTHONPATH', '')
	if env:
		e.update(env)
	r = subprocess.run([sys.executable, '-m', 'gambit', *[str(a) for a in args]], capture_output=True, text=True, env=e, cwd=cwd, timeout=timeout)
	return r.returncode, r.stdout, r.stderr
