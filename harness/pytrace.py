"""Translator T, storage-trace part:  src/gambit/sigs/hdf5.py  ->  Lean definitions GambitV.Gen.PyHdf5 (regenerated on every run).

The signature-file writer `dump_signatures_hdf5` (with everything it calls: `HDF5Signatures.create`, `_init_attrs`, `write_metadata`,
`_init_datasets`) is interpreted symbolically over its `ast`: only what touches the storage library is kept, as the list of storage
calls the model of C12 / C19 is about (`GambitV.WOp`):

  h5.File(path, 'w')                       -> .createFile          (any other mode / extra keyword: not translated)
  group.attrs[K] = v                       -> .setAttr K
  group.create_dataset(name, …)            -> .createDataset name
  dataset[…] = v                           -> .writeChunk n        (n-th write into a dataset)
  for i in range(len(signatures)): ds[…]=… -> one .writeChunk per signature
  if isinstance(signatures, SignatureArray) -> if fast then … else …
  with f: …                                -> … then .close
  anything.flush()                         -> .flush

Statements that do not mention a storage object (the file, a group parameter bound to it, a dataset) are skipped; a statement that does
and is none of the above is reported as untranslatable (nothing is skipped silently).  A conditional whose condition is not the
fast/slow test must produce the same calls in both branches.  Also read structurally: the exception handler of the writer (removes the
partial file and re-raises) and the order of the checks of `load_signatures_hdf5` (magic number, then open read-only, then the marker).
"""
from __future__ import annotations

import ast
import re
import hashlib
from pathlib import Path


class Untranslatable(Exception):
	pass


def lean_str(s: str) -> str:
	return '"' + s.replace('\\', '\\\\').replace('"', '\\"') + '"'


class Tracer:
	def __init__(self, tree: ast.Module):
		self.tree = tree
		self.consts = {st.targets[0].id: st.value.value for st in tree.body
		               if isinstance(st, ast.Assign) and len(st.targets) == 1 and isinstance(st.targets[0], ast.Name)
		               and isinstance(st.value, ast.Constant)}
		self.funcs = {}
		for st in tree.body:
			if isinstance(st, ast.FunctionDef):
				self.funcs[st.name] = st
			elif isinstance(st, ast.ClassDef):
				for m in st.body:
					if isinstance(m, ast.FunctionDef):
						self.funcs[f'{st.name}.{m.name}'] = m
		self.nwrites = 0          # static dataset writes emitted so far
		self.depth = 0

	# storage objects of the frame being interpreted: name -> 'file' | 'group' | 'dataset'
	def mentions(self, node, env) -> bool:
		return any(isinstance(x, ast.Name) and x.id in env for x in ast.walk(node))

	def const_str(self, node):
		if isinstance(node, ast.Constant) and isinstance(node.value, str):
			return node.value
		if isinstance(node, ast.Name) and isinstance(self.consts.get(node.id), str):
			return self.consts[node.id]
		raise Untranslatable(f'name of an attribute / dataset is not a literal (line {node.lineno})')

	def block(self, stmts, env, nsig) -> str:
		"""Lean term of type List WOp for a statement list"""
		parts = []
		for st in stmts:
			t = self.stmt(st, env, nsig)
			if t:
				parts.append(t)
		return ' ++ '.join(parts) if parts else '[]'

	def stmt(self, st, env, nsig) -> str:
		# --- calls of the module's own functions with a storage object among the arguments: inlined
		call = st.value if isinstance(st, (ast.Expr, ast.Return, ast.Assign)) and isinstance(getattr(st, 'value', None), ast.Call) else None
		if isinstance(st, ast.Assign) and call is not None and self.is_h5file(call):
			mode = call.args[1].value if len(call.args) == 2 and isinstance(call.args[1], ast.Constant) else None
			if len(call.args) != 2 or call.keywords or mode != 'w':
				raise Untranslatable(f'the writer opens the file with {ast.unparse(call)} (expected h5.File(path, \'w\'))')
			if len(st.targets) != 1 or not isinstance(st.targets[0], ast.Name):
				raise Untranslatable('file object not bound to a name')
			env[st.targets[0].id] = 'file'
			return '[WOp.createFile]'
		if call is not None and not self.is_h5file(call):
			callee = self.resolve(call.func)
			if callee is not None and any(self.mentions(a, env) for a in call.args + [k.value for k in call.keywords]):
				return self.inline(callee, call, env, nsig)
			if isinstance(call.func, ast.Name) and call.func.id == 'cls':
				return ''       # HDF5Signatures(group): the constructor only reads
		if not self.mentions(st, env):
			if isinstance(st, ast.Assign) and len(st.targets) == 1 and isinstance(st.targets[0], ast.Name) and self.is_len_sigs(st.value):
				nsig.add(st.targets[0].id)       # n = len(signatures)
			if isinstance(st, (ast.If, ast.For, ast.While, ast.With, ast.Try)):
				pass      # compound statement without storage objects anywhere inside
			return ''
		# --- statements that touch a storage object
		if isinstance(st, ast.With):
			items = st.items
			if len(items) == 1 and isinstance(items[0].context_expr, ast.Name) and env.get(items[0].context_expr.id) == 'file' and items[0].optional_vars is None:
				return f'{self.block(st.body, env, nsig)} ++ [WOp.close]'
			raise Untranslatable(f'with statement at line {st.lineno}')
		if isinstance(st, ast.Try):
			if st.finalbody or st.orelse or len(st.handlers) != 1:
				raise Untranslatable(f'try statement at line {st.lineno}')
			self.handler = st.handlers[0]
			return self.block(st.body, env, nsig)
		if isinstance(st, ast.Assign) and len(st.targets) == 1:
			tgt, v = st.targets[0], st.value
			# group.attrs[K] = v
			if (isinstance(tgt, ast.Subscript) and isinstance(tgt.value, ast.Attribute) and tgt.value.attr == 'attrs'
					and isinstance(tgt.value.value, ast.Name) and env.get(tgt.value.value.id) in ('file', 'group') and not self.mentions(v, env)):
				return f'[WOp.setAttr {lean_str(self.const_str(tgt.slice))}]'
			# ds = group.create_dataset(name, …)
			if isinstance(tgt, ast.Name) and self.is_create_dataset(v, env):
				env[tgt.id] = 'dataset'
				return f'[WOp.createDataset {lean_str(self.const_str(v.args[0]))}]'
			# ds[…] = v
			if isinstance(tgt, ast.Subscript) and isinstance(tgt.value, ast.Name) and env.get(tgt.value.id) == 'dataset':
				n = self.nwrites
				self.nwrites += 1
				return f'[WOp.writeChunk {n}]'
		if isinstance(st, ast.Expr) and isinstance(st.value, ast.Call):
			c = st.value
			if self.is_create_dataset(c, env):
				return f'[WOp.createDataset {lean_str(self.const_str(c.args[0]))}]'
			if isinstance(c.func, ast.Attribute) and c.func.attr == 'flush':
				return '[WOp.flush]'
		if isinstance(st, ast.If):
			a = self.block(st.body, dict(env), nsig)
			saved = self.nwrites
			b = self.block(st.orelse, dict(env), nsig)
			if self.is_fast_test(st.test):
				# the two ways of writing the data; datasets created in either branch are not used afterwards
				return f'(if fast then {a} else {b})'
			if a != b:
				raise Untranslatable(f'the storage calls depend on the condition at line {st.lineno}: {a} / {b}')
			self.nwrites = saved
			return a
		if isinstance(st, ast.For):
			# for i in range(n): values[…] = signatures[i]   with n = len(signatures)
			it = st.iter
			if (isinstance(it, ast.Call) and isinstance(it.func, ast.Name) and it.func.id == 'range' and len(it.args) == 1
					and (isinstance(it.args[0], ast.Name) and it.args[0].id in nsig or self.is_len_sigs(it.args[0])) and not st.orelse):
				base = self.nwrites
				body = self.block(st.body, dict(env), nsig)
				if body != f'[WOp.writeChunk {base}]':
					raise Untranslatable(f'the per-signature loop at line {st.lineno} does not make exactly one dataset write per signature: {body}')
				return f'(List.range nsigs).map (fun i => WOp.writeChunk (i + {base}))'
			raise Untranslatable(f'loop over storage objects at line {st.lineno}')
		if isinstance(st, ast.Return):
			return ''
		raise Untranslatable(f'statement at line {st.lineno} touches the storage: {ast.unparse(st)[:80]}')

	def is_h5file(self, c):
		return isinstance(c, ast.Call) and isinstance(c.func, ast.Attribute) and c.func.attr == 'File' and isinstance(c.func.value, ast.Name) and c.func.value.id == 'h5'

	def is_create_dataset(self, c, env):
		return (isinstance(c, ast.Call) and isinstance(c.func, ast.Attribute) and c.func.attr == 'create_dataset'
		        and isinstance(c.func.value, ast.Name) and env.get(c.func.value.id) in ('file', 'group') and len(c.args) >= 1)

	def is_len_sigs(self, v):
		return isinstance(v, ast.Call) and isinstance(v.func, ast.Name) and v.func.id == 'len' and len(v.args) == 1 and isinstance(v.args[0], ast.Name) and v.args[0].id == 'signatures'

	def is_fast_test(self, t):
		return (isinstance(t, ast.Call) and isinstance(t.func, ast.Name) and t.func.id == 'isinstance' and len(t.args) == 2
		        and isinstance(t.args[0], ast.Name) and t.args[0].id == 'signatures' and isinstance(t.args[1], ast.Name) and t.args[1].id == 'SignatureArray')

	def resolve(self, f):
		if isinstance(f, ast.Name) and f.id in self.funcs:
			return self.funcs[f.id]
		if isinstance(f, ast.Attribute) and isinstance(f.value, ast.Name):
			owner = 'HDF5Signatures' if f.value.id in ('cls', 'self', 'HDF5Signatures') else f.value.id
			return self.funcs.get(f'{owner}.{f.attr}')
		return None

	def inline(self, fn: ast.FunctionDef, call: ast.Call, env, nsig) -> str:
		self.depth += 1
		if self.depth > 8:
			raise Untranslatable('recursion among the writer functions')
		params = [a.arg for a in fn.args.args + fn.args.kwonlyargs if a.arg not in ('cls', 'self')]
		bound = dict(zip(params, call.args))
		for k in call.keywords:
			if k.arg is not None:
				bound[k.arg] = k.value
		new = {}
		for p, a in bound.items():
			if isinstance(a, ast.Name) and a.id in env:
				new[p] = 'group' if env[a.id] in ('file', 'group') else env[a.id]
			elif self.mentions(a, env):
				raise Untranslatable(f'storage object passed inside an expression to {fn.name}')
		try:
			return '(' + self.block(fn.body, new, set(nsig)) + ')'
		finally:
			self.depth -= 1


def handler_facts(h: ast.ExceptHandler | None) -> bool:
	"""`except BaseException:` … os.unlink(path) … raise"""
	if h is None or not (isinstance(h.type, ast.Name) and h.type.id == 'BaseException'):
		return False
	def is_unlink(st):
		return (isinstance(st, ast.Expr) and isinstance(st.value, ast.Call) and isinstance(st.value.func, ast.Attribute)
		        and st.value.func.attr in ('unlink', 'remove') and st.value.args and isinstance(st.value.args[0], ast.Name) and st.value.args[0].id == 'path')
	# unconditionally: a top-level statement of the handler, or the first statement of a top-level `try:` (whose handler only ignores OSError)
	unlinks = any(is_unlink(st) or (isinstance(st, ast.Try) and st.body and is_unlink(st.body[0])) for st in h.body)
	reraises = bool(h.body) and isinstance(h.body[-1], ast.Raise) and h.body[-1].exc is None
	return unlinks and reraises


def loader_facts(fn: ast.FunctionDef | None) -> dict:
	"""order of the checks of load_signatures_hdf5: 8-byte magic number -> open (read-only) -> marker attribute"""
	f = {'magic': False, 'readonly': False, 'marker': False, 'order': False}
	if fn is None:
		return f
	pos = {}
	for i, st in enumerate(fn.body):
		src = ast.unparse(st)
		if isinstance(st, ast.If) and "b'\\x89HDF\\r\\n\\x1a\\n'" in src and 'header !=' in src.replace('  ', ' ') and any(isinstance(x, ast.Raise) for x in st.body):
			pos['magic'] = i
		if isinstance(st, ast.With) and "open(path, 'rb')" in src and 'read(8)' in src:
			pos['read'] = i
		if isinstance(st, ast.Assign) and isinstance(st.value, ast.Call) and isinstance(st.value.func, ast.Attribute) and st.value.func.attr == 'File':
			c = st.value
			pos['open'] = i
			f['readonly'] = len(c.args) == 1 and all(k.arg is None for k in c.keywords)     # h5.File(path, **kw): default mode 'r'
		if isinstance(st, ast.If) and 'FMT_VERSION_ATTR not in' in src and any(isinstance(x, ast.Raise) for x in st.body):
			pos['marker'] = i
	f['magic'] = 'magic' in pos and 'read' in pos and pos['read'] < pos['magic']
	f['marker'] = 'marker' in pos
	f['order'] = all(k in pos for k in ('magic', 'open', 'marker')) and pos['magic'] < pos['open'] < pos['marker']
	return f


def binding_facts(repo: Path) -> dict:
	"""which compiled functions the public names are: `gambit.seq.revcomp` and `gambit.kmers.index_to_kmer` are the Cython functions themselves
	(imported, never re-bound), `gambit.kmers.revcomp` is `gambit.seq.revcomp`, and `ckmers` / `_cmetric` are the compiled modules"""
	f = dict.fromkeys(['seqRevcomp', 'kmersIndexToKmer', 'kmersRevcomp', 'kmersModule', 'metricModule'], False)

	def tree_of(path):
		try:
			return ast.parse((repo / 'src' / 'gambit' / path).read_text())
		except (SyntaxError, OSError):
			return None

	def imported_from(tree, name, module):
		"""`from <module> import … name …` at module level, and `name` bound by nothing else anywhere at module level"""
		if tree is None: return False
		hits, others = 0, 0
		for st in tree.body:
			if isinstance(st, ast.ImportFrom):
				for a in st.names:
					if (a.asname or a.name) == name:
						if st.module == module and a.asname is None and st.level == 0: hits += 1
						else: others += 1
			elif isinstance(st, ast.Import):
				others += sum(1 for a in st.names if (a.asname or a.name.split('.')[0]) == name)
			elif isinstance(st, (ast.FunctionDef, ast.ClassDef, ast.AsyncFunctionDef)):
				others += st.name == name
			else:
				others += sum(1 for x in ast.walk(st) if isinstance(x, ast.Name) and x.id == name and isinstance(x.ctx, (ast.Store, ast.Del)))
		return hits == 1 and others == 0

	def module_alias(tree, alias, module):
		if tree is None: return False
		hits = sum(1 for st in tree.body if isinstance(st, ast.Import) for a in st.names if a.name == module and a.asname == alias)
		stores = sum(1 for st in tree.body if not isinstance(st, (ast.Import, ast.ImportFrom)) for x in ast.walk(st)
		             if isinstance(x, ast.Name) and x.id == alias and isinstance(x.ctx, (ast.Store, ast.Del)))
		return hits == 1 and stores == 0
	seq, km, me = tree_of('seq.py'), tree_of('kmers.py'), tree_of('metric.py')
	f['seqRevcomp'] = imported_from(seq, 'revcomp', 'gambit._cython.kmers')
	f['kmersIndexToKmer'] = imported_from(km, 'index_to_kmer', 'gambit._cython.kmers')
	f['kmersRevcomp'] = imported_from(km, 'revcomp', 'gambit.seq')
	f['kmersModule'] = module_alias(km, 'ckmers', 'gambit._cython.kmers')
	f['metricModule'] = module_alias(me, '_cmetric', 'gambit._cython.metric')
	return f


def accumulator_facts(repo: Path) -> dict:
	"""the two k-mer accumulators of sigs/calc.py as `Py.Acc` models them: adding an index marks it, the signature is the marked indices in
	increasing order, a fresh accumulator marks nothing"""
	f = dict.fromkeys(['arrayInit', 'arrayAdd', 'arraySignature', 'setInit', 'setAdd', 'setSignature', 'onlyAddUsed'], False)
	try:
		tree = ast.parse((repo / 'src' / 'gambit' / 'sigs' / 'calc.py').read_text())
	except (SyntaxError, OSError):
		return f

	def method(cls, name):
		c = next((st for st in tree.body if isinstance(st, ast.ClassDef) and st.name == cls), None)
		m = next((x for x in (c.body if c else []) if isinstance(x, ast.FunctionDef) and x.name == name), None)
		return None if m is None else ([a.arg for a in m.args.args], [ast.unparse(x) for x in _body(m)])
	f['arrayInit'] = method('ArrayAccumulator', '__init__') == (['self', 'k'], ['self.k = k', 'self.array = np.zeros(nkmers(k), dtype=bool)', 'self._dtype = index_dtype(self.k)'])
	f['arrayAdd'] = method('ArrayAccumulator', 'add') == (['self', 'i'], ['self.array[i] = True'])
	f['arraySignature'] = method('ArrayAccumulator', 'signature') == (['self'], ['return np.flatnonzero(self.array).astype(self._dtype)'])
	f['setInit'] = method('SetAccumulator', '__init__') == (['self', 'k'], ['self.k = k', 'self.set = set()', 'self._dtype = index_dtype(self.k)'])
	f['setAdd'] = method('SetAccumulator', 'add') == (['self', 'index'], ['self.set.add(self._dtype.type(index))'])
	f['setSignature'] = method('SetAccumulator', 'signature') == (['self'], ['sig = np.fromiter(self.set, dtype=self._dtype)', 'sig.sort()', 'return sig'])
	# accumulate_kmers / calc_signature touch an accumulator only through add() and signature()
	uses = set()
	for fn in tree.body:
		if isinstance(fn, ast.FunctionDef) and fn.name in ('accumulate_kmers', 'calc_signature'):
			for x in ast.walk(fn):
				if isinstance(x, ast.Attribute) and isinstance(x.value, ast.Name) and x.value.id == 'accumulator':
					uses.add(x.attr)
	f['onlyAddUsed'] = uses == {'add', 'signature'}
	return f


def class_facts(repo: Path) -> dict:
	"""method resolution of the signature collections, as the translator's `self_calls` tables assume it: which class defines which of the
	indexing methods, and the order of the base classes that makes the mixin's `__getitem__` the one that runs"""
	f = dict.fromkeys(['concatBases', 'concatMethods', 'arrayInherits', 'hdf5Inherits', 'listBases', 'listMethods', 'mixinMethods', 'refSigsNeutral', 'annotatedDelegates'], False)
	try:
		base = ast.parse((repo / 'src' / 'gambit' / 'sigs' / 'base.py').read_text())
		h5 = ast.parse((repo / 'src' / 'gambit' / 'sigs' / 'hdf5.py').read_text())
		ix = ast.parse((repo / 'src' / 'gambit' / 'util' / 'indexing.py').read_text())
	except (SyntaxError, OSError):
		return f
	INDEXING = {'__getitem__', '_check_index', '_getitem_int', '_getitem_slice', '_getitem_int_array', '_getitem_bool_array', '__len__', 'sizeof'}

	def cls(tree, name):
		return next((st for st in tree.body if isinstance(st, ast.ClassDef) and st.name == name), None)

	def bases(c):
		return [ast.unparse(b) for b in c.bases] if c is not None else None

	def defined(c):
		"""names bound in the class body: methods, assignments, anything else that could shadow an inherited method"""
		out = set()
		for st in (c.body if c is not None else []):
			if isinstance(st, (ast.FunctionDef, ast.AsyncFunctionDef, ast.ClassDef)):
				out.add(st.name)
			elif isinstance(st, (ast.Assign, ast.AnnAssign, ast.AugAssign)):
				out |= {x.id for x in ast.walk(st) if isinstance(x, ast.Name) and isinstance(x.ctx, ast.Store)}
		return out
	cc, sa, sl, rs, hs, mx = (cls(base, 'ConcatenatedSignatureArray'), cls(base, 'SignatureArray'), cls(base, 'SignatureList'),
	                          cls(base, 'ReferenceSignatures'), cls(h5, 'HDF5Signatures'), cls(ix, 'AdvancedIndexingMixin'))
	f['concatBases'] = bases(cc) == ['AdvancedIndexingMixin', 'AbstractSignatureArray']
	f['concatMethods'] = cc is not None and defined(cc) & INDEXING == {'__len__', '_getitem_int', '_getitem_slice', '_getitem_int_array', 'sizeof'}
	f['arrayInherits'] = bases(sa) == ['ConcatenatedSignatureArray'] and not (defined(sa) & INDEXING)
	f['hdf5Inherits'] = bases(hs) == ['ConcatenatedSignatureArray', 'ReferenceSignatures'] and not (defined(hs) & INDEXING)
	f['listBases'] = bases(sl) is not None and bases(sl)[:2] == ['AdvancedIndexingMixin', 'AbstractSignatureArray']
	f['listMethods'] = sl is not None and defined(sl) & INDEXING == {'__len__', '_getitem_int', '_getitem_int_array'}
	f['mixinMethods'] = mx is not None and not mx.bases and defined(mx) & INDEXING == {'__getitem__', '_check_index', '_getitem_int', '_getitem_slice', '_getitem_int_array', '_getitem_bool_array'}
	f['refSigsNeutral'] = bases(rs) == ['AbstractSignatureArray'] and not (defined(rs) & INDEXING)
	# the annotated wrapper delegates: indexing, length, iteration, parameters and integer type are those of the wrapped collection
	an = cls(base, 'AnnotatedSignatures')

	def mbody(c, name):
		m = next((x for x in (c.body if c is not None else []) if isinstance(x, ast.FunctionDef) and x.name == name), None)
		return None if m is None else [ast.unparse(x) for x in _body(m)]
	init = mbody(an, '__init__') or []
	f['annotatedDelegates'] = (bases(an) == ['ReferenceSignatures']
	                           and mbody(an, '__getitem__') == ['return self.signatures[index]'] and mbody(an, '__len__') == ['return len(self.signatures)']
	                           and mbody(an, '__iter__') == ['return iter(self.signatures)'] and mbody(an, 'kmerspec') == ['return self.signatures.kmerspec']
	                           and mbody(an, 'dtype') == ['return self.signatures.dtype']
	                           and 'self.signatures = signatures' in init and 'self.ids = ids' in init and 'self.meta = meta' in init
	                           and any(t.startswith('if ids is None:') and 'ids = range(len(signatures))' in t and 'elif len(ids) != len(signatures):' in t and 'raise ValueError' in t for t in init))
	return f


def reader_facts(repo: Path) -> dict:
	"""`HDF5Signatures.__init__`: what is checked and what is read from where when a signature file is opened"""
	f = dict.fromkeys(['marker', 'version', 'kmerspec', 'meta', 'datasets', 'ids', 'order'], False)
	try:
		tree = ast.parse((repo / 'src' / 'gambit' / 'sigs' / 'hdf5.py').read_text())
		c = next(st for st in tree.body if isinstance(st, ast.ClassDef) and st.name == 'HDF5Signatures')
		m = next(x for x in c.body if isinstance(x, ast.FunctionDef) and x.name == '__init__')
	except Exception:
		return f
	body = _body(m)
	t = [ast.unparse(st) for st in body]

	def at(pred):
		return next((i for i, st in enumerate(body) if pred(st, t[i])), None)
	i_mark = at(lambda st, x: isinstance(st, ast.If) and ast.unparse(st.test) == 'FMT_VERSION_ATTR not in group.attrs' and not st.orelse
	            and len(st.body) == 1 and isinstance(st.body[0], ast.Raise) and ast.unparse(st.body[0].exc.func) == 'SignaturesFileError')
	i_ver_read = at(lambda st, x: x == 'self.format_version = group.attrs[FMT_VERSION_ATTR]')
	i_ver = at(lambda st, x: isinstance(st, ast.If) and ast.unparse(st.test) == 'self.format_version != CURRENT_FMT_VERSION' and not st.orelse
	           and len(st.body) == 1 and isinstance(st.body[0], ast.Raise))
	i_ks = at(lambda st, x: x == "self.kmerspec = KmerSpec(group.attrs['kmerspec_k'], group.attrs['kmerspec_prefix'])")
	i_meta = at(lambda st, x: x == 'self.meta = read_metadata(group)')
	i_val = at(lambda st, x: x == "self.values = group['values']")
	i_bnd = at(lambda st, x: x == "self.bounds = group['bounds']")
	i_idsd = at(lambda st, x: x == "ids_data = group['ids']")
	i_ids = at(lambda st, x: isinstance(st, ast.If) and ast.unparse(st.test) == "ids_data.dtype.kind == 'O'"
	           and [ast.unparse(y) for y in st.body] == ['self.ids = ids_data.asstr()[:]'] and [ast.unparse(y) for y in st.orelse] == ['self.ids = ids_data[:]'])
	f['marker'] = i_mark is not None
	f['version'] = i_ver_read is not None and i_ver is not None and i_ver_read < i_ver
	f['kmerspec'] = i_ks is not None
	f['meta'] = i_meta is not None
	f['datasets'] = i_val is not None and i_bnd is not None
	f['ids'] = i_idsd is not None and i_ids is not None and i_idsd < i_ids
	idx = [i_mark, i_ver_read, i_ver, i_ks]
	f['order'] = all(i is not None for i in idx) and idx == sorted(idx) and t[0] == 'self.group = group' and i_mark == 1
	return f


def query_flow_facts(repo: Path) -> dict:
	"""`gambit.query.query`: which distances each result item is made of"""
	f = dict.fromkeys(['dists', 'rows', 'inputsChecked', 'noOtherStores', 'result'], False)
	try:
		tree = ast.parse((repo / 'src' / 'gambit' / 'query.py').read_text())
		q = next(st for st in tree.body if isinstance(st, ast.FunctionDef) and st.name == 'query')
	except Exception:
		return f
	body = _body(q)
	texts = [ast.unparse(st) for st in body]
	d = [st for st in body if isinstance(st, ast.Assign) and ast.unparse(st.targets[0]) == 'dmat']
	if len(d) == 1 and isinstance(d[0].value, ast.Call):
		c = d[0].value
		kws = {k.arg: ast.unparse(k.value) for k in c.keywords}
		f['dists'] = (ast.unparse(c.func) == 'jaccarddist_matrix' and [ast.unparse(a) for a in c.args] == ['queries', 'db.signatures']
		              and kws.get('ref_indices') == 'db.sig_indices' and kws.get('chunksize') == 'params.chunksize' and set(kws) <= {'ref_indices', 'chunksize', 'progress'})
	w = [st for st in body if isinstance(st, ast.With)]
	if len(w) == 1 and len(w[0].items) == 1 and ast.unparse(w[0].items[0].context_expr).startswith('iter_progress(inputs, ') and ast.unparse(w[0].items[0].optional_vars) == 'inputs_iter':
		f['rows'] = [ast.unparse(st) for st in w[0].body] == ['items = [get_result_item(db, params, dmat[i, :], input) for (i, input) in enumerate(inputs_iter)]'] \
			or [ast.unparse(st) for st in w[0].body] == ['items = [get_result_item(db, params, dmat[i, :], input) for i, input in enumerate(inputs_iter)]']
	chk = next((st for st in body if isinstance(st, ast.If) and ast.unparse(st.test) == 'inputs is not None'), None)
	if chk is not None:
		inner = [ast.unparse(st) for st in chk.body]
		f['inputsChecked'] = (inner[:1] == ['inputs = list(map(QueryInput.convert, inputs))'] and len(chk.body) == 2 and isinstance(chk.body[1], ast.If)
		                      and ast.unparse(chk.body[1].test) == 'len(inputs) != len(queries)' and isinstance(chk.body[1].body[-1], ast.Raise)
		                      and [ast.unparse(st) for st in chk.orelse] == ['inputs = [QueryInput(str(i + 1)) for i in range(len(queries))]'])
	stores = {}
	for x in ast.walk(q):
		if isinstance(x, ast.Name) and isinstance(x.ctx, ast.Store):
			stores[x.id] = stores.get(x.id, 0) + 1
	f['noOtherStores'] = stores.get('dmat') == 1 and stores.get('items') == 1 and stores.get('queries') == 1 and stores.get('inputs') == 2
	last = body[-1]
	if isinstance(last, ast.Return) and isinstance(last.value, ast.Call) and ast.unparse(last.value.func) == 'QueryResults':
		kws = {k.arg: ast.unparse(k.value) for k in last.value.keywords}
		f['result'] = not last.value.args and kws == {'items': 'items', 'params': 'params', 'genomeset': 'db.genomeset', 'signaturesmeta': 'db.signatures.meta'}
	return f


def dist_flow_facts(repo: Path) -> dict:
	"""`gambit dist`: which labels go with which signatures, which distance function fills the matrix, how the CSV is laid out.
	Each fact is the presence of one statement in one place, compared as normalised text (ast.unparse), plus the absence of any other
	assignment to the names involved."""
	f = dict.fromkeys(['queryIds', 'refIds', 'square', 'matrix', 'sigsFromFiles', 'dump', 'noOtherStores', 'csvHeader', 'csvRows', 'csvFmt'], False)

	def fn_of(path, name):
		try:
			tree = ast.parse((repo / 'src' / 'gambit' / path).read_text())
		except (SyntaxError, OSError):
			return None
		return next((st for st in ast.walk(tree) if isinstance(st, ast.FunctionDef) and st.name == name), None)

	def find_if(body, test):
		return next((st for st in body if isinstance(st, ast.If) and ast.unparse(st.test) == test), None)

	def texts(stmts):
		# (a, b) = …  and  a, b = …  are the same statement (the unparser's choice differs between Python versions)
		return [re.sub(r'^\((\w+, \w+)\) = ', r'\1 = ', ast.unparse(st)) for st in stmts]

	def chain(ifst):
		"""[(test text, body)] of an if / elif / else chain (else has test None)"""
		out = []
		while True:
			out.append((ast.unparse(ifst.test), ifst.body))
			if len(ifst.orelse) == 1 and isinstance(ifst.orelse[0], ast.If):
				ifst = ifst.orelse[0]
			else:
				out.append((None, ifst.orelse))
				return out
	d = fn_of('cli/dist.py', 'dist_cmd')
	if d is not None:
		try:
			q = chain(find_if(d.body, 'qs is not None'))
			f['queryIds'] = ([t for t, _ in q] == ['qs is not None', None]
			                 and texts(q[0][1])[:2] == ['query_sigs = load_signatures(qs)', 'query_ids = query_sigs.ids']
			                 and texts(q[1][1])[:1] == ['query_ids, query_files = common.get_sequence_files(q, ql, qdir)'])
			r = chain(find_if(d.body, 'rs is not None'))
			f['refIds'] = ([t for t, _ in r] == ['rs is not None', 'use_db', 'square', None]
			               and texts(r[0][1])[:2] == ['ref_sigs = load_signatures(rs)', 'ref_ids = ref_sigs.ids']
			               and 'ref_sigs = ctxobj.signatures' in texts(r[1][1]) and 'ref_ids = ref_sigs.ids' in texts(r[1][1])
			               and texts(r[1][1]).index('ref_sigs = ctxobj.signatures') < texts(r[1][1]).index('ref_ids = ref_sigs.ids')
			               and texts(r[2][1])[:1] == ['ref_ids = query_ids']
			               and texts(r[3][1])[:1] == ['ref_ids, ref_files = common.get_sequence_files(r, rl, rdir)'])
			sq = [st for st in d.body if isinstance(st, ast.If) and ast.unparse(st.test) == 'square']
			if len(sq) == 1:
				c = chain(sq[0])
				f['square'] = texts(c[0][1]) == ['dmat = jaccarddist_pairwise(query_sigs, progress=dist_pconf)']
				f['matrix'] = bool(c[1][1]) and texts(c[1][1])[-1] == 'dmat = jaccarddist_matrix(query_sigs, ref_sigs, progress=dist_pconf)'
				inner = find_if(c[1][1], 'ref_sigs is None')
				qi = find_if(d.body, 'query_sigs is None')
				f['sigsFromFiles'] = (inner is not None and qi is not None and not inner.orelse and not qi.orelse
				                      and "ref_sigfiles = SequenceFile.from_paths(ref_files, 'fasta', 'auto')" in texts(inner.body)
				                      and any(t.startswith('ref_sigs = calc_file_signatures(kspec, ref_sigfiles') for t in texts(inner.body))
				                      and "query_sigfiles = SequenceFile.from_paths(query_files, 'fasta', 'auto')" in texts(qi.body)
				                      and any(t.startswith('query_sigs = calc_file_signatures(kspec, query_sigfiles') for t in texts(qi.body)))
			f['dump'] = texts(d.body)[-1] == 'dump_dmat_csv(output, dmat, query_ids, ref_ids)'
			stores = {}
			for x in ast.walk(d):
				if isinstance(x, ast.Name) and isinstance(x.ctx, ast.Store):
					stores[x.id] = stores.get(x.id, 0) + 1
			# … and no option of the command is given another value inside it (a silently changed `square` / `use_db` / source option changes which branch runs)
			params = {a_.arg for a_ in d.args.args + d.args.kwonlyargs}
			f['noOtherStores'] = (stores.get('query_ids') == 2 and stores.get('ref_ids') == 4 and stores.get('dmat') == 2
			                      and stores.get('query_sigs') == 3 and stores.get('ref_sigs') == 5 and not (params & set(stores)))
		except Exception:
			pass
	w = fn_of('cluster.py', 'dump_dmat_csv')
	if w is not None:
		try:
			body = _body(w)
			args = ast.unparse(w.args)
			f['csvFmt'] = "fmt: str='0.4f'" in args and args.startswith('file') and [a.arg for a in w.args.args] == ['file', 'dmat', 'row_ids', 'col_ids', 'corner', 'fmt']
			wi = body[0] if len(body) == 1 and isinstance(body[0], ast.With) else None
			if wi is not None:
				t = texts(wi.body)
				f['csvHeader'] = t[:2] == ['writer = csv.writer(fobj)', "writer.writerow([corner or '', *map(str, col_ids)])"] and len(t) == 3
				loop = wi.body[2] if len(wi.body) == 3 and isinstance(wi.body[2], ast.For) else None
				f['csvRows'] = (loop is not None and ast.unparse(loop.target).strip('()') == 'row_id, values' and ast.unparse(loop.iter) == 'zip_strict(row_ids, dmat)'
				                and not loop.orelse
				                and texts(loop.body) == ['values_str = (format(d, fmt) for d in values)', 'writer.writerow([str(row_id), *values_str])'])
		except Exception:
			pass
	return f


def cli_facts(repo: Path) -> dict:
	out = {'dist': False, 'create': False, 'query': False, 'query_parse': False}

	def fn_of(path, name):
		try:
			tree = ast.parse((repo / 'src' / 'gambit' / path).read_text())
		except (SyntaxError, OSError):
			return None
		return next((st for st in ast.walk(tree) if isinstance(st, ast.FunctionDef) and st.name == name), None)

	def uses_kspec(fn, stop_prefix):
		"""after the first top-level statement starting with stop_prefix: no assignment to kspec, >= 1 calc_file_signatures call, each with kspec first"""
		if fn is None: return False
		texts = [ast.unparse(st) for st in fn.body]
		idx = [i for i, t in enumerate(texts) if t.startswith(stop_prefix)]
		if not idx: return False
		rest = fn.body[idx[0]:]
		calls = [c for st in rest for c in ast.walk(st) if isinstance(c, ast.Call) and ast.unparse(c.func) == 'calc_file_signatures']
		stores = [x for st in rest for x in ast.walk(st) if isinstance(x, ast.Name) and x.id == 'kspec' and isinstance(x.ctx, ast.Store)]
		return bool(calls) and not stores and all(c.args and isinstance(c.args[0], ast.Name) and c.args[0].id == 'kspec' for c in calls)
	out['dist'] = uses_kspec(fn_of('cli/dist.py', 'dist_cmd'), "prog = 'click' if progress else None")
	out['create'] = uses_kspec(fn_of('cli/signatures.py', 'create'), 'if meta_file is not None')
	q = fn_of('cli/query.py', 'query_cmd')
	if q is not None:
		blk = next((st for st in q.body if isinstance(st, ast.If) and ast.unparse(st.test) == 'sigfile'), None)
		if blk is not None and len(blk.body) >= 2:
			chk = blk.body[1]
			ok = (ast.unparse(blk.body[0]) == 'sigs = load_signatures(sigfile)' and isinstance(chk, ast.If)
			      and ast.unparse(chk.test) == 'sigs.kmerspec != db.signatures.kmerspec' and not chk.orelse
			      and isinstance(chk.body[-1], ast.Raise) and ast.unparse(chk.body[-1].exc.func) == 'click.ClickException')
			before = [c for st in blk.body[:2] for c in ast.walk(st) if isinstance(c, ast.Call) and ast.unparse(c.func) in ('query', 'query_parse')]
			out['query'] = ok and not before
	qp = fn_of('query.py', 'query_parse')
	if qp is not None:
		calls = [c for c in ast.walk(qp) if isinstance(c, ast.Call) and ast.unparse(c.func) == 'calc_file_signatures']
		out['query_parse'] = len(calls) == 1 and bool(calls[0].args) and ast.unparse(calls[0].args[0]) == 'db.signatures.kmerspec'
	return out


def _body(fn):
	"""statements of a function without its doc-string"""
	b = list(fn.body)
	if b and isinstance(b[0], ast.Expr) and isinstance(b[0].value, ast.Constant) and isinstance(b[0].value.value, str):
		b = b[1:]
	return b


def _only_raises_typeerror(fn) -> bool:
	b = _body(fn)
	return (len(b) == 1 and isinstance(b[0], ast.Raise) and isinstance(b[0].exc, ast.Call) and isinstance(b[0].exc.func, ast.Name)
	        and b[0].exc.func.id == 'TypeError')


def session_facts(tree: ast.Module | None) -> dict:
	"""src/gambit/db/sqla.py read structurally: what the read-only session overrides and how the default session maker is built"""
	f = {'flushNoop': False, 'commitRaises': False, 'hookRaises': False, 'defaultReadOnly': False, 'engineDefault': False, 'noOtherOverrides': False}
	if tree is None:
		return f
	ros = next((st for st in tree.body if isinstance(st, ast.ClassDef) and st.name == 'ReadOnlySession'), None)
	if ros is not None and [ast.unparse(b) for b in ros.bases] == ['Session']:
		meths = {m.name: m for m in ros.body if isinstance(m, ast.FunctionDef)}
		fl, cm = meths.get('flush'), meths.get('commit')
		f['flushNoop'] = fl is not None and all(isinstance(x, ast.Pass) for x in _body(fl)) and not fl.decorator_list
		f['commitRaises'] = cm is not None and _only_raises_typeerror(cm) and not cm.decorator_list
		f['noOtherOverrides'] = set(meths) <= {'flush', 'commit'} and all(isinstance(x, (ast.FunctionDef, ast.Expr)) for x in ros.body)
	for st in tree.body:
		if isinstance(st, ast.FunctionDef) and any(ast.unparse(d) == "event.listens_for(ReadOnlySession, 'before_commit')" for d in st.decorator_list):
			f['hookRaises'] = _only_raises_typeerror(st)
	fsm = next((st for st in tree.body if isinstance(st, ast.FunctionDef) and st.name == 'file_sessionmaker'), None)
	if fsm is not None:
		args = fsm.args
		names = [a.arg for a in args.args]
		defaults = dict(zip(names[len(names) - len(args.defaults):], args.defaults))
		ro_default = isinstance(defaults.get('readonly'), ast.Constant) and defaults['readonly'].value is True
		cls_default = isinstance(defaults.get('cls'), ast.Constant) and defaults['cls'].value is None
		body = _body(fsm)
		picks = (len(body) == 3 and isinstance(body[0], ast.If) and ast.unparse(body[0].test) == 'cls is None' and not body[0].orelse
		         and [ast.unparse(x) for x in body[0].body] == ['cls = ReadOnlySession if readonly else Session'])
		f['defaultReadOnly'] = ro_default and cls_default and picks and ast.unparse(body[2]) == 'return sessionmaker(engine, class_=cls, **kw)'
		eng = body[1] if len(body) == 3 else None
		f['engineDefault'] = (isinstance(eng, ast.Assign) and isinstance(eng.value, ast.Call) and ast.unparse(eng.value.func) == 'create_engine'
		                      and len(eng.value.args) == 1 and not eng.value.keywords
		                      and ast.unparse(eng.value.args[0]) == "f'sqlite:///{os.fspath(path)}'" and ast.unparse(eng.targets[0]) == 'engine')
	return f


# ------------------------------------------------------------------------------------------------
# results.py / util/json.py: the conversion rules of the two JSON exporters (C11)
# ------------------------------------------------------------------------------------------------
def _jexpr(node, obj: str):
	"""an expression of a conversion rule, relative to the object `obj`:  obj.a.b  |  None if obj.a is None else <expr>  |
	list(obj.a.ancestors(incself=True))  (the lineage, materialised by the harness under the pseudo-attribute of that name)"""
	def path(n):
		parts = []
		while isinstance(n, ast.Attribute):
			parts.append(n.attr)
			n = n.value
		if isinstance(n, ast.Name) and n.id == obj:
			return parts[::-1]
		raise Untranslatable(f'expression {ast.unparse(node)!r} is not an attribute path of {obj}')
	if isinstance(node, ast.Name) and node.id == obj:
		return ('attr', [])
	if isinstance(node, ast.Attribute):
		return ('attr', path(node))
	if isinstance(node, ast.IfExp):
		t = node.test
		if (isinstance(t, ast.Compare) and len(t.ops) == 1 and isinstance(t.ops[0], ast.Is) and isinstance(t.comparators[0], ast.Constant)
				and t.comparators[0].value is None and isinstance(node.body, ast.Constant) and node.body.value is None):
			return ('noneIfNone', path(t.left), _jexpr(node.orelse, obj))
	if (isinstance(node, ast.Call) and isinstance(node.func, ast.Name) and node.func.id == 'list' and len(node.args) == 1 and not node.keywords):
		c = node.args[0]
		if (isinstance(c, ast.Call) and isinstance(c.func, ast.Attribute) and c.func.attr == 'ancestors' and not c.args
				and [(k.arg, ast.unparse(k.value)) for k in c.keywords] == [('incself', 'True')]):
			return ('attr', path(c.func.value) + ['ancestors(incself=True)'])
	raise Untranslatable(f'expression {ast.unparse(node)!r} of a conversion rule')


def _str_list(node):
	if isinstance(node, (ast.List, ast.Tuple)) and all(isinstance(e, ast.Constant) and isinstance(e.value, str) for e in node.elts):
		return [e.value for e in node.elts]
	raise Untranslatable(f'{ast.unparse(node)!r} is not a literal list of names')


def _rule(fn: ast.FunctionDef):
	"""one `@to_json.register(X)` method -> ('fields', [(key, expr)]) | ('asdictExcept', [keys])"""
	if len(fn.args.args) != 2 or fn.args.vararg or fn.args.kwarg or fn.args.kwonlyargs:
		raise Untranslatable(f'{fn.name}: parameters')
	obj = fn.args.args[1].arg
	body = _body(fn)
	if not body or not isinstance(body[-1], ast.Return) or body[-1].value is None:
		raise Untranslatable(f'{fn.name}: does not end in a return of a value')
	ret = body[-1].value

	def todict(call):
		if (isinstance(call, ast.Call) and isinstance(call.func, ast.Name) and call.func.id == '_todict' and len(call.args) == 2 and not call.keywords
				and isinstance(call.args[0], ast.Name) and call.args[0].id == obj):
			return [(n, ('attr', [n])) for n in _str_list(call.args[1])]
		return None
	if len(body) == 1:
		if isinstance(ret, ast.Call) and isinstance(ret.func, ast.Name) and ret.func.id == 'dict' and not ret.args and all(k.arg for k in ret.keywords):
			return ('fields', [(k.arg, _jexpr(k.value, obj)) for k in ret.keywords])
		td = todict(ret)
		if td is not None:
			return ('fields', td)
		raise Untranslatable(f'{fn.name}: returns {ast.unparse(ret)!r}')
	# data = <start>; (data[k] = e | del data[k])*; return data
	first = body[0]
	if not (isinstance(first, ast.Assign) and len(first.targets) == 1 and isinstance(first.targets[0], ast.Name)
			and isinstance(ret, ast.Name) and ret.id == first.targets[0].id):
		raise Untranslatable(f'{fn.name}: shape of the body')
	var = first.targets[0].id
	td = todict(first.value)
	if td is not None:
		kvs = list(td)
		for st in body[1:-1]:
			if (isinstance(st, ast.Assign) and len(st.targets) == 1 and isinstance(st.targets[0], ast.Subscript) and isinstance(st.targets[0].value, ast.Name)
					and st.targets[0].value.id == var and isinstance(st.targets[0].slice, ast.Constant) and isinstance(st.targets[0].slice.value, str)):
				k = st.targets[0].slice.value
				kvs = [kv for kv in kvs if kv[0] != k] + [(k, _jexpr(st.value, obj))]
			else:
				raise Untranslatable(f'{fn.name}: statement {ast.unparse(st)!r}')
		return ('fields', kvs)
	if ast.unparse(first.value) == f'asdict({obj}, recurse=False)':
		drop = []
		for st in body[1:-1]:
			if (isinstance(st, ast.Delete) and len(st.targets) == 1 and isinstance(st.targets[0], ast.Subscript) and isinstance(st.targets[0].value, ast.Name)
					and st.targets[0].value.id == var and isinstance(st.targets[0].slice, ast.Constant) and isinstance(st.targets[0].slice.value, str)):
				drop.append(st.targets[0].slice.value)
			else:
				raise Untranslatable(f'{fn.name}: statement {ast.unparse(st)!r}')
		return ('asdictExcept', drop)
	raise Untranslatable(f'{fn.name}: starts from {ast.unparse(first.value)!r}')


def _exporter_rules(cls: ast.ClassDef):
	"""the rules a JSON exporter class registers, in source order: [(class name, rule)]; the class must consist of a doc-string,
	`to_json = singledispatchmethod(BaseJSONResultsExporter.to_json)` and `@to_json.register(X)` methods only"""
	rules, saw_dispatch = [], False
	for st in cls.body:
		if isinstance(st, ast.Expr) and isinstance(st.value, ast.Constant) and isinstance(st.value.value, str):
			continue
		if isinstance(st, ast.Assign) and ast.unparse(st) == 'to_json = singledispatchmethod(BaseJSONResultsExporter.to_json)':
			saw_dispatch = True
			continue
		if isinstance(st, ast.FunctionDef) and len(st.decorator_list) == 1:
			d = st.decorator_list[0]
			if (isinstance(d, ast.Call) and ast.unparse(d.func) == 'to_json.register' and len(d.args) == 1 and isinstance(d.args[0], ast.Name) and not d.keywords):
				if d.args[0].id in [r[0] for r in rules]:
					raise Untranslatable(f'{cls.name}: two rules for {d.args[0].id}')
				rules.append((d.args[0].id, _rule(st)))
				continue
		raise Untranslatable(f'{cls.name}: member {ast.unparse(st).splitlines()[0]!r}')
	if not saw_dispatch:
		raise Untranslatable(f'{cls.name}: to_json is not the singledispatchmethod over BaseJSONResultsExporter.to_json')
	return rules


def _lean_jexpr(e) -> str:
	if e[0] == 'attr':
		return '(.attr [' + ', '.join(lean_str(a) + '.toList' for a in e[1]) + '])'
	return '(.noneIfNone [' + ', '.join(lean_str(a) + '.toList' for a in e[1]) + '] ' + _lean_jexpr(e[2]) + ')'


def _lean_rules(rules) -> str:
	out = []
	for cls, r in rules:
		if r[0] == 'fields':
			body = '.fields [' + ', '.join(f'({lean_str(k)}.toList, {_lean_jexpr(e)})' for k, e in r[1]) + ']'
		else:
			body = '.asdictExcept [' + ', '.join(lean_str(k) + '.toList' for k in r[1]) + ']'
		out.append(f'({lean_str(cls)}.toList, {body})')
	return '[' + ',\n   '.join(out) + ']'


def json_facts(repo: Path, out_dir: Path, report: dict) -> dict:
	"""Gen/PyJson.lean: the conversion rules of JSONResultsExporter and ResultsArchiveWriter as data (re-read from the current source),
	and — as structural facts — what surrounds them: the base class's to_json / export, `_todict`, the converter and its hooks"""
	b = lambda x: 'true' if x else 'false'
	bad = []
	jr = ar = None
	f = dict.fromkeys(['baseToJson', 'export', 'todict', 'converter', 'hooks', 'csvExport'], False)
	try:
		rtree = ast.parse((repo / 'src' / 'gambit' / 'results.py').read_text())
		classes = {st.name: st for st in rtree.body if isinstance(st, ast.ClassDef)}
		funcs = {st.name: st for st in rtree.body if isinstance(st, ast.FunctionDef)}
		for name in ('JSONResultsExporter', 'ResultsArchiveWriter'):
			try:
				if name not in classes or [ast.unparse(x) for x in classes[name].bases] != ['BaseJSONResultsExporter']:
					raise Untranslatable(f'{name}: not a direct subclass of BaseJSONResultsExporter')
				rules = _exporter_rules(classes[name])
				if name == 'JSONResultsExporter':
					jr = rules
				else:
					ar = rules
			except Untranslatable as e:
				bad.append(f'results.py:{e}')
		base = classes.get('BaseJSONResultsExporter')
		if base is not None:
			meths = {m.name: m for m in base.body if isinstance(m, ast.FunctionDef)}
			f['baseToJson'] = ('to_json' in meths and [ast.unparse(x) for x in _body(meths['to_json'])] == ['return gjson.to_json(obj)']
			                   and sorted(meths) == ['export', 'to_json'])
			f['export'] = ('export' in meths and [ast.unparse(x) for x in _body(meths['export'])] ==
			               ['opts = dict(indent=4, sort_keys=True) if self.pretty else dict()',
			                "with maybe_open(file_or_path, 'w') as f:\n    json.dump(results, f, default=self.to_json, **opts)"])
		f['todict'] = '_todict' in funcs and [ast.unparse(x) for x in _body(funcs['_todict'])] == ['return {a: getattr(obj, a) for a in attrs}']
		imports = [ast.unparse(st) for st in rtree.body if isinstance(st, (ast.Import, ast.ImportFrom))]
		f['todict'] = f['todict'] and 'import gambit.util.json as gjson' in imports and 'import json' in imports and 'from attr import attrs, attrib, asdict' in imports
		csvc = classes.get('CSVResultsExporter')
		if csvc is not None:
			exp = next((m for m in csvc.body if isinstance(m, ast.FunctionDef) and m.name == 'export'), None)
			f['csvExport'] = exp is not None and [ast.unparse(x) for x in _body(exp)] == [
				"with maybe_open(file_or_path, 'w') as f:\n    writer = csv.writer(f, **self.format_opts)\n    writer.writerow(self.get_header())\n"
				"    for item in results.items:\n        writer.writerow(self.get_row(item))"]
		jtree = ast.parse((repo / 'src' / 'gambit' / 'util' / 'json.py').read_text())
		top = [ast.unparse(st) for st in jtree.body]
		jfun = {st.name: st for st in jtree.body if isinstance(st, ast.FunctionDef)}
		f['converter'] = ('converter = cattr.Converter()' in top and 'to_json' in jfun
		                  and [ast.unparse(x) for x in _body(jfun['to_json'])] == ['return converter.unstructure(obj)']
		                  and sum(1 for t in top if t.startswith('converter =') or t.startswith('to_json =')) == 1)
		want = ['register_hooks(datetime, datetime.isoformat, datetime.fromisoformat)', 'register_hooks(date, date.isoformat, date.fromisoformat)',
		        'register_hooks(Path, str, Path)', 'converter.register_unstructure_hook(np.integer, int)', 'converter.register_unstructure_hook(np.floating, float)']
		regs = [ast.unparse(st) for st in jtree.body if isinstance(st, ast.Expr) and ('register_unstructure_hook(' in ast.unparse(st) or ast.unparse(st).startswith('register_hooks('))]
		f['hooks'] = (regs == want and 'register_hooks' in jfun and [ast.unparse(x) for x in _body(jfun['register_hooks'])][0] == 'converter.register_unstructure_hook(cls, unstructure)')
	except (SyntaxError, OSError, StopIteration) as e:
		bad.append(f'results.py / util/json.py: {e!r}')
	DOC = {'baseToJson': '`BaseJSONResultsExporter.to_json(obj)` is `gjson.to_json(obj)`, and the class defines nothing but `to_json` and `export`',
	       'export': '`export` is `json.dump(results, f, default=self.to_json, **opts)` into the opened file, `opts` being `indent` / `sort_keys` (pretty) or nothing',
	       'todict': '`_todict(obj, attrs)` is `{a: getattr(obj, a) for a in attrs}`; `json`, `gjson`, `asdict` are the modules / function of these names',
	       'converter': '`gambit.util.json.to_json(obj)` is `converter.unstructure(obj)` of the module\'s one `cattr.Converter()`',
	       'hooks': 'the unstructure hooks registered on it are exactly: datetime / date -> isoformat, Path -> str, np.integer -> int, np.floating -> float',
	       'csvExport': '`CSVResultsExporter.export` writes the header row, then `get_row(item)` for every item of `results.items` in order'}
	text = ('/-\nGENERATED by harness/pytrace.py from src/gambit/results.py and src/gambit/util/json.py — do not edit.\n'
	        'Regenerated at the start of every check; `GambitV.Tie.PyJson` proves the rules equal to the model\'s exporters.\n-/\n'
	        'import GambitV.Model.Json\nnamespace GambitV.Gen\nopen GambitV.Json\n\n'
	        '/-- the conversion rules `JSONResultsExporter` registers (`@to_json.register(X)`), in source order -/\n'
	        f'def pyJsonExporter : Exporter :=\n  {_lean_rules(jr or [])}\n'
	        f'def pyJsonExporter.untranslatable : Bool := {b(jr is None)}\n\n'
	        '/-- the conversion rules `ResultsArchiveWriter` registers -/\n'
	        f'def pyArchiveExporter : Exporter :=\n  {_lean_rules(ar or [])}\n'
	        f'def pyArchiveExporter.untranslatable : Bool := {b(ar is None)}\n\n'
	        + ''.join(f'/-- {DOC[k]} -/\ndef pyJson_{k} : Bool := {b(v)}\n' for k, v in f.items()) + '\nend GambitV.Gen\n')
	p = out_dir / 'PyJson.lean'
	if not p.exists() or p.read_text() != text:
		p.write_text(text)
	report['modules']['PyJson'] = hashlib.sha1(text.encode()).hexdigest()[:12]
	report['functions'].append('results.py JSONResultsExporter / ResultsArchiveWriter (conversion rules as data), BaseJSONResultsExporter, util/json.py converter (structural facts)')
	for u in bad:
		report['untranslatable'].append(u)
		report.setdefault('untranslatable_by_module', {}).setdefault('PyJson', []).append(u)
	return f


# ------------------------------------------------------------------------------------------------
# glue whose shape the models rely on, pinned statement by statement (structural facts): the tree command (C17), the archive reader (C11),
# how a database is opened by the library and by the command line (C04, C18)
# ------------------------------------------------------------------------------------------------
# module -> (source files, [(fact name, file, qualified name, expected statements, what it says)])
FLOW_FACTS = {
	'PyTreeFlow': ('src/gambit/cli/tree.py, src/gambit/cluster.py', [
		('treeCmd', 'cli/tree.py', 'tree_cmd', [
			"common.check_params_group(ctx, ['files_arg', 'listfile', 'sigfile'], True, True)",
			'if cores is not None:\n    omp_set_num_threads(cores)',
			"pconf = progress_config('click' if progress else None)",
			"if sigfile is not None:\n    sigs = load_signatures(sigfile)\n    labels = [str(id_) for id_ in sigs.ids]\nelse:\n"
			"    labels, genome_files = common.get_sequence_files(files_arg, listfile, ldir)\n"
			"    common.warn_duplicate_file_ids(labels, 'Warning: the following file IDs are present more than once: {ids}')\n"
			"    kspec = common.kspec_from_params(k, prefix, default=True)\n    sigfiles = SequenceFile.from_paths(genome_files, 'fasta', 'auto')\n"
			"    sigs = calc_file_signatures(kspec, sigfiles, progress=pconf.update(desc='Calculating signatures'), max_workers=cores)",
			"dmat = jaccarddist_pairwise(sigs, progress=pconf.update(desc='Calculating distances'))",
			'link = hclust(dmat)', 'tree = linkage_to_bio_tree(link, labels)', "Phylo.write(tree, sys.stdout, 'newick')"],
		 '`gambit tree`: labels are the decimal text of the signature file\'s IDs, or what `get_sequence_files` returns with the files (whose signatures '
		 '`calc_file_signatures` returns in file order); the matrix is `jaccarddist_pairwise(sigs)` (square, all of them); the tree is '
		 '`linkage_to_bio_tree(hclust(dmat), labels)` written as Newick; none of these names is assigned anywhere else'),
		('hclust', 'cluster.py', 'hclust', ['assert dmat.ndim == 2', 'sm = squareform(dmat)', "return linkage(sm, method='average')"],
		 '`hclust(dmat)` is SciPy\'s `linkage(squareform(dmat), method=\'average\')`: average linkage (UPGMA) on the condensed form of the matrix'),
	]),
	'PyArchiveReader': ('src/gambit/results.py', [
		('init', 'results.py', 'ResultsArchiveReader.__init__', ['self.session = session', 'self._init_converter()', 'self._current_genomeset = None'],
		 'a reader keeps the session it is given, builds its converter once, and holds no genome set between reads'),
		('converter', 'results.py', 'ResultsArchiveReader._init_converter', [
			'self._converter = gjson.converter.copy()',
			'self._converter.register_structure_hook(ReferenceGenomeSet, self._structure_genomeset)',
			'self._converter.register_structure_hook(AnnotatedGenome, self._structure_genome)',
			'self._converter.register_structure_hook(Taxon, self._structure_taxon)'],
		 'the converter is a copy of the module\'s converter with structure hooks for exactly the three database classes'),
		('read', 'results.py', 'ResultsArchiveReader.read', ['with maybe_open(file_or_path) as f:\n    data = json.load(f)', 'return self.results_from_json(data)'],
		 '`read` parses the file as JSON and structures it'),
		('fromJson', 'results.py', 'ResultsArchiveReader.results_from_json', [
			"gset_key = data['genomeset']['key']", "gset_version = data['genomeset']['version']",
			'self._current_genomeset = self.session.query(ReferenceGenomeSet).filter_by(key=gset_key, version=gset_version).one()',
			'try:\n    return self._converter.structure(data, QueryResults)\nfinally:\n    self._current_genomeset = None'],
		 'the genome set is looked up by the archived key *and* version (exactly one), set for the duration of this read and cleared afterwards whatever happens'),
		('genomeset', 'results.py', 'ResultsArchiveReader._structure_genomeset', ['return self._current_genomeset'],
		 'an archived genome set becomes the genome set of this read'),
		('genome', 'results.py', 'ResultsArchiveReader._structure_genome', [
			"key = data['key']", 'gset_id = self._current_genomeset.id',
			'return self.session.query(AnnotatedGenome).join(Genome).filter(AnnotatedGenome.genome_set_id == gset_id, Genome.key == key).one()'],
		 'an archived genome is looked up afresh by its key within the genome set of this read (exactly one; nothing remembered from earlier reads)'),
		('taxon', 'results.py', 'ResultsArchiveReader._structure_taxon', [
			"key = data['key']", 'gset_id = self._current_genomeset.id', 'return self.session.query(Taxon).filter_by(genome_set_id=gset_id, key=key).one()'],
		 'an archived taxon is looked up afresh by its key within the genome set of this read'),
	]),
	'PyLoadFlow': ('src/gambit/db/refdb.py, src/gambit/cli/common.py, src/gambit/db/models.py, src/gambit/sigs/base.py', [
		('loadGenomeset', 'db/refdb.py', 'load_genomeset', ['session = file_sessionmaker(db_file)()', 'gset = only_genomeset(session)', 'return (session, gset)'],
		 '`load_genomeset(file)` opens the default (read-only) session of `file_sessionmaker(file)` and takes the only genome set'),
		('load', 'db/refdb.py', 'ReferenceDatabase.load', ['session, gset = load_genomeset(genomes_file)', 'sigs = load_signatures(signatures_file)', 'return cls(gset, sigs)'],
		 '`ReferenceDatabase.load` pairs that genome set with `load_signatures(signatures_file)` through the constructor'),
		('loadFromDir', 'db/refdb.py', 'ReferenceDatabase.load_from_dir', ['genomes_file, signatures_file = cls.locate_files(path)', 'return cls.load(genomes_file, signatures_file)'],
		 '`load_from_dir` loads the two files `locate_files` names, genome file first'),
		('onlyGenomeset', 'db/models.py', 'only_genomeset', [
			"try:\n    return session.query(ReferenceGenomeSet).one()\nexcept MultipleResultsFound as e:\n    raise RuntimeError('Database contains multiple genome sets.') from e\n"
			"except NoResultFound as e:\n    raise RuntimeError('Database contains no genome sets.') from e"],
		 '`only_genomeset` is the single `ReferenceGenomeSet` row, an error when there are none or several'),
		('loadSignatures', 'sigs/base.py', 'load_signatures', ['from .hdf5 import load_signatures_hdf5', 'return load_signatures_hdf5(path, **kw)'],
		 '`load_signatures(path)` is `load_signatures_hdf5(path)`'),
		('cliFindDb', 'cli/common.py', 'CLIContext._find_db', [
			'if self._db_found:\n    return',
			'if self.db_path is None:\n    self._has_genomes = self._has_signatures = False\nelse:\n    try:\n'
			'        self._genomes_path, self._signatures_path = ReferenceDatabase.locate_files(self.db_path)\n    except DatabaseLoadError as e:\n'
			'        raise click.ClickException(str(e))\n    self._has_genomes = self._has_signatures = True',
			'self._db_found = True'],
		 'the command line locates the two files with the same `locate_files`, once'),
		('cliInitGenomes', 'cli/common.py', 'CLIContext._init_genomes', [
			'if self._engine is not None or not self.has_genomes:\n    return',
			"self._engine = create_engine(f'sqlite:///{self._genomes_path}')",
			'self._Session = sessionmaker(self.engine, class_=ReadOnlySession)'],
		 'the command line\'s session maker is `sessionmaker(engine, class_=ReadOnlySession)` on an engine created from the file URL alone'),
		('cliEngine', 'cli/common.py', 'CLIContext.engine', ['self._init_genomes()', 'return self._engine'], '`engine` is that engine'),
		('cliSession', 'cli/common.py', 'CLIContext.Session', ['self._init_genomes()', 'return self._Session'], '`Session` is that session maker'),
		('cliSignatures', 'cli/common.py', 'CLIContext.signatures', [
			'if self._signatures is None and self.has_signatures:\n    self._signatures = load_signatures(self._signatures_path)', 'return self._signatures'],
		 'the command line\'s signatures are `load_signatures` of the located file, loaded once'),
		('cliGetDatabase', 'cli/common.py', 'CLIContext.get_database', [
			'self.require_database()', 'session = self.Session()', 'gset = only_genomeset(session)', 'return ReferenceDatabase(gset, self.signatures)'],
		 '`get_database` pairs the only genome set of a read-only session with those signatures through the same constructor'),
	]),
}


# ------------------------------------------------------------------------------------------------
# sigs/hdf5.py: which attribute of the HDF5 group holds which field, on the writing and on the reading side (C12), as data
# ------------------------------------------------------------------------------------------------
def meta_rules(repo: Path, out_dir: Path, report: dict):
	"""Gen/PyMetaRules.lean: the writer's table (attribute name -> what is stored) from `_init_attrs` + `write_metadata`, the reader's table (field -> attribute
	name) from `HDF5Signatures.__init__` + `read_metadata`.  Accepted statements only; anything else is untranslatable."""
	bad, wr, rd = [], None, None
	try:
		tree = ast.parse((repo / 'src' / 'gambit' / 'sigs' / 'hdf5.py').read_text())
		consts = {st.targets[0].id: st.value.value for st in tree.body if isinstance(st, ast.Assign) and len(st.targets) == 1
		          and isinstance(st.targets[0], ast.Name) and isinstance(st.value, ast.Constant)}
		funcs = {st.name: st for st in tree.body if isinstance(st, ast.FunctionDef)}
		cls = next(st for st in tree.body if isinstance(st, ast.ClassDef) and st.name == 'HDF5Signatures')
		meths = {m.name: m for m in cls.body if isinstance(m, ast.FunctionDef)}

		def attr_name(node):
			if isinstance(node, ast.Constant) and isinstance(node.value, str):
				return node.value
			if isinstance(node, ast.Name) and isinstance(consts.get(node.id), str):
				return consts[node.id]
			raise Untranslatable(f'attribute name {ast.unparse(node)!r}')

		def store_target(st):
			t = st.targets[0] if isinstance(st, ast.Assign) and len(st.targets) == 1 else None
			if isinstance(t, ast.Subscript) and ast.unparse(t.value) == 'group.attrs':
				return attr_name(t.slice)
			return None
		# ---- writer ---------------------------------------------------------------------------
		wr = []
		for st in _body(meths['_init_attrs']):
			name = store_target(st)
			if name is not None:
				v = ast.unparse(st.value)
				if isinstance(st.value, ast.Name) and isinstance(consts.get(st.value.id), int):
					wr.append((name, f'.version {consts[st.value.id]}'))
				elif v == 'kmerspec.k':
					wr.append((name, '.k'))
				elif v == 'kmerspec.prefix_str':
					wr.append((name, '.pre'))
				else:
					raise Untranslatable(f'_init_attrs stores {v!r}')
			elif ast.unparse(st) == 'write_metadata(group, meta)':
				for w in _body(funcs['write_metadata']):
					name = store_target(w)
					if name is not None:
						c = w.value
						if (isinstance(c, ast.Call) and ast.unparse(c.func) == 'none_to_empty' and len(c.args) == 2 and ast.unparse(c.args[1]) == 'STR_DTYPE'
								and isinstance(c.args[0], ast.Attribute) and ast.unparse(c.args[0].value) == 'meta'):
							wr.append((name, f'.field {lean_str(c.args[0].attr)}'))
						else:
							raise Untranslatable(f'write_metadata stores {ast.unparse(c)!r}')
					elif (isinstance(w, ast.If) and ast.unparse(w.test) == 'meta.extra is not None' and len(w.body) == 1 and len(w.orelse) == 1
							and store_target(w.body[0]) is not None and store_target(w.body[0]) == store_target(w.orelse[0])
							and ast.unparse(w.body[0].value) == 'json.dumps(meta.extra)' and ast.unparse(w.orelse[0].value) == 'h5.Empty(STR_DTYPE)'):
						wr.append((store_target(w.body[0]), '.json "extra"'))
					else:
						raise Untranslatable(f'write_metadata: statement {ast.unparse(w).splitlines()[0]!r}')
			else:
				raise Untranslatable(f'_init_attrs: statement {ast.unparse(st)!r}')
		# ---- reader ---------------------------------------------------------------------------
		rd = []
		init = [ast.unparse(x) for x in _body(meths['__init__'])]
		import re as _re
		ks = [x for x in init if x.startswith('self.kmerspec = ')]
		m = _re.fullmatch(r"self\.kmerspec = KmerSpec\(group\.attrs\['(\w+)'\], group\.attrs\['(\w+)'\]\)", ks[0]) if len(ks) == 1 else None
		if not m:
			raise Untranslatable('__init__: the k-mer parameters are not KmerSpec(group.attrs[…], group.attrs[…])')
		rd += [('k', m.group(1), 'int'), ('pre', m.group(2), 'text')]
		if 'self.format_version = group.attrs[FMT_VERSION_ATTR]' not in init:
			raise Untranslatable('__init__: the format version is not read from group.attrs[FMT_VERSION_ATTR]')
		rd.append(('format_version', consts['FMT_VERSION_ATTR'], 'int'))
		rm = _body(funcs['read_metadata'])
		rtexts = [ast.unparse(x) for x in rm]
		ex = _re.fullmatch(r"extra_str = empty_to_none\(group\.attrs\.get\('(\w+)'\)\)", rtexts[0]) if rtexts else None
		if not (ex and len(rm) == 3 and rtexts[1] == 'extra = None if extra_str is None else json.loads(extra_str)' and isinstance(rm[2], ast.Return)
				and isinstance(rm[2].value, ast.Call) and ast.unparse(rm[2].value.func) == 'SignaturesMeta' and not rm[2].value.args):
			raise Untranslatable('read_metadata: shape of the body')
		for kw in rm[2].value.keywords:
			v = ast.unparse(kw.value)
			g = _re.fullmatch(r"empty_to_none\(group\.attrs\.get\('(\w+)'\)\)", v)
			if g:
				rd.append((kw.arg, g.group(1), 'opt'))
			elif v == 'extra' and kw.arg == 'extra':
				rd.append(('extra', ex.group(1), 'json'))
			else:
				raise Untranslatable(f'read_metadata: field {kw.arg} = {v!r}')
	except Untranslatable as e:
		bad.append(f'sigs/hdf5.py: {e}')
		wr = rd = None
	except (SyntaxError, OSError, StopIteration, KeyError, IndexError) as e:
		bad.append(f'sigs/hdf5.py: {e!r}')
		wr = rd = None
	b = lambda x: 'true' if x else 'false'
	kind = {'int': '.int', 'text': '.text', 'opt': '.opt', 'json': '.json'}
	text = ('/-\nGENERATED by harness/pytrace.py from src/gambit/sigs/hdf5.py — do not edit.\n'
	        'Regenerated at the start of every check; `GambitV.Tie.PyMetaRules` proves that what the reader reads is what the writer wrote.\n-/\n'
	        'import GambitV.Model.MetaAttrs\nnamespace GambitV.Gen\nopen GambitV.MetaAttrs\n\n'
	        '/-- `HDF5Signatures._init_attrs` + `write_metadata`: (attribute name, what is stored under it), in program order -/\n'
	        'def pyMetaWriter : List (String × Src) :=\n  [' + ', '.join(f'({lean_str(n)}, {v})' for n, v in (wr or [])) + ']\n\n'
	        '/-- `HDF5Signatures.__init__` + `read_metadata`: (field, attribute name it is read from, how) -/\n'
	        'def pyMetaReader : List (String × String × Kind) :=\n  [' + ', '.join(f'({lean_str(f_)}, {lean_str(n)}, {kind[k]})' for f_, n, k in (rd or [])) + ']\n\n'
	        f'def pyMetaRules.untranslatable : Bool := {b(wr is None)}\n\nend GambitV.Gen\n')
	p = out_dir / 'PyMetaRules.lean'
	if not p.exists() or p.read_text() != text:
		p.write_text(text)
	report['modules']['PyMetaRules'] = hashlib.sha1(text.encode()).hexdigest()[:12]
	report['functions'].append('sigs/hdf5.py _init_attrs, write_metadata, __init__, read_metadata (which attribute holds which field, as data)')
	for u in bad:
		report['untranslatable'].append(u)
		report.setdefault('untranslatable_by_module', {}).setdefault('PyMetaRules', []).append(u)


def _load_flow_json():
	"""further pinned functions, kept as data (harness/flow_facts.json: module -> files, facts with their expected statements and what they say)"""
	import json
	p = Path(__file__).resolve().parent / 'flow_facts.json'
	for module, d in json.loads(p.read_text()).items():
		FLOW_FACTS[module] = (d['files'], [(f['name'], f['file'], f['qual'], f['want'], f['doc']) for f in d['facts']])


_load_flow_json()


def class_shape(node: ast.ClassDef) -> list:
	"""the members of a class as far as they decide what an instance is: decorators and bases, every non-method statement as it is (attrs fields with
	their defaults and options), every method by decorators and name (its body is pinned or translated elsewhere, or does not matter)"""
	out = ['@' + ast.unparse(d) for d in node.decorator_list] + ['bases: ' + ', '.join(ast.unparse(b) for b in node.bases)]
	for st in node.body:
		if isinstance(st, ast.Expr) and isinstance(st.value, ast.Constant) and isinstance(st.value.value, str):
			continue
		if isinstance(st, ast.FunctionDef):
			out.append(' '.join(['@' + ast.unparse(d) for d in st.decorator_list] + [f'def {st.name}']))
		else:
			out.append(ast.unparse(st))
	return out


def flow_facts(repo: Path, out_dir: Path, report: dict):
	"""Gen/PyTreeFlow.lean, PyArchiveReader.lean, PyLoadFlow.lean: one Boolean per pinned function (its statements are exactly the expected ones)"""
	b = lambda x: 'true' if x else 'false'
	trees = {}
	for module, (files, facts) in FLOW_FACTS.items():
		lines = []
		for name, file, qual, want, doc in facts:
			ok = False
			try:
				if file not in trees:
					trees[file] = ast.parse((repo / 'src' / 'gambit' / file).read_text())
				body, node = trees[file].body, None
				for part in qual.split('.'):
					node = next((x for x in body if isinstance(x, (ast.FunctionDef, ast.ClassDef)) and x.name == part), None)
					if node is None:
						# a constant: the one assignment to that name at this level
						asg = [x for x in body if isinstance(x, ast.Assign) and len(x.targets) == 1 and ast.unparse(x.targets[0]) == part]
						node = asg[0] if len(asg) == 1 else None
						break
					body = node.body
				if isinstance(node, ast.Assign):
					ok = ['= ' + ast.unparse(node.value)] == want
				elif isinstance(node, ast.ClassDef):
					ok = class_shape(node) == want      # a class is pinned by its shape: bases, fields with their defaults, method names with decorators
				else:
					ok = isinstance(node, ast.FunctionDef) and [ast.unparse(x) for x in _body(node)] == want
			except (SyntaxError, OSError):
				ok = False
			lines.append(f'/-- {doc} -/\ndef py{module[2:]}_{name} : Bool := {b(ok)}\n')
		text = (f'/-\nGENERATED by harness/pytrace.py from {files} — do not edit.\n'
		        f'Regenerated at the start of every check; `GambitV.Tie.{module}` proves them.\n-/\nnamespace GambitV.Gen\n\n' + ''.join(lines) + '\nend GambitV.Gen\n')
		p = out_dir / f'{module}.lean'
		if not p.exists() or p.read_text() != text:
			p.write_text(text)
		report['modules'][module] = hashlib.sha1(text.encode()).hexdigest()[:12]
		report['functions'].append(f'{files} ({len(facts)} functions pinned statement by statement, structural facts)')


HEADER = '''/-
GENERATED by harness/pytrace.py from src/gambit/sigs/hdf5.py — do not edit.
Regenerated at the start of every check; `GambitV.Tie.PyHdf5` proves the trace equal to the model's `writerTrace`.
-/
import GambitV.Model.SigFile
namespace GambitV.Gen
open GambitV

'''


def regenerate(repo: Path, out_dir: Path) -> dict:
	path = repo / 'src' / 'gambit' / 'sigs' / 'hdf5.py'
	report = {'functions': [], 'untranslatable': []}
	trace, hfact, lf = None, False, loader_facts(None)
	try:
		tree = ast.parse(path.read_text())
		tr = Tracer(tree)
		entry = tr.funcs.get('dump_signatures_hdf5')
		if entry is None:
			raise Untranslatable('dump_signatures_hdf5 not found')
		tr.handler = None
		trace = tr.block(entry.body, {}, set())
		hfact = handler_facts(tr.handler)
		lf = loader_facts(tr.funcs.get('load_signatures_hdf5'))
		report['functions'].append('dump_signatures_hdf5 (storage trace)')
		report['ast_sha1'] = hashlib.sha1(ast.dump(tree).encode()).hexdigest()[:12]
	except (Untranslatable, SyntaxError, OSError) as e:
		report['untranslatable'].append(f'sigs/hdf5.py:dump_signatures_hdf5: {e}')
	b = lambda x: 'true' if x else 'false'
	text = HEADER
	if trace is not None:
		text += ('/-- the storage-library calls of `dump_signatures_hdf5`, in program order (`fast` = the collection is a `SignatureArray`) -/\n'
		         f'def pyWriterTrace (fast : Bool) (nsigs : Nat) : List WOp :=\n  {trace}\n'
		         'def pyWriterTrace.untranslatable : Bool := false\n\n')
	else:
		text += ('/-- the writer could not be translated: ' + report['untranslatable'][0].replace('-/', '- /') + ' -/\n'
		         'def pyWriterTrace (_fast : Bool) (_nsigs : Nat) : List WOp := []\n'
		         'def pyWriterTrace.untranslatable : Bool := true\n\n')
	text += ('/-- the writer\'s exception handler removes the partial file and re-raises -/\n'
	         f'def pyWriterUnwindRemoves : Bool := {b(hfact)}\n'
	         '/-- `load_signatures_hdf5`: reads 8 bytes and refuses anything without the HDF5 magic number -/\n'
	         f'def pyLoaderChecksMagic : Bool := {b(lf["magic"])}\n'
	         '/-- … opens the file with the library\'s default (read-only) mode -/\n'
	         f'def pyLoaderOpensReadOnly : Bool := {b(lf["readonly"])}\n'
	         '/-- … refuses an HDF5 file without the format-marker attribute -/\n'
	         f'def pyLoaderChecksMarker : Bool := {b(lf["marker"])}\n'
	         '/-- … in this order: magic number, open, marker -/\n'
	         f'def pyLoaderOrder : Bool := {b(lf["order"])}\n\nend GambitV.Gen\n')
	out_dir.mkdir(parents=True, exist_ok=True)
	p = out_dir / 'PyHdf5.lean'
	if not p.exists() or p.read_text() != text:
		p.write_text(text)
	report['modules'] = {'PyHdf5': hashlib.sha1(text.encode()).hexdigest()[:12]}
	if report['untranslatable']:
		report['untranslatable_by_module'] = {'PyHdf5': list(report['untranslatable'])}
	# --- src/gambit/db/sqla.py ---------------------------------------------------------------------------------------------
	try:
		stree = ast.parse((repo / 'src' / 'gambit' / 'db' / 'sqla.py').read_text())
	except (SyntaxError, OSError):
		stree = None
	sf = session_facts(stree)
	stext = ('/-\nGENERATED by harness/pytrace.py from src/gambit/db/sqla.py — do not edit.\n'
	         'Regenerated at the start of every check; `GambitV.Tie.PySession` proves the facts the session model of C18 rests on.\n-/\n'
	         'namespace GambitV.Gen\n\n'
	         '/-- `ReadOnlySession.flush` does nothing -/\n' + f'def pySessionFlushNoop : Bool := {b(sf["flushNoop"])}\n'
	         '/-- `ReadOnlySession.commit` only raises `TypeError` -/\n' + f'def pySessionCommitRaises : Bool := {b(sf["commitRaises"])}\n'
	         '/-- the `before_commit` listener registered for `ReadOnlySession` raises `TypeError` unconditionally -/\n' + f'def pySessionHookRaises : Bool := {b(sf["hookRaises"])}\n'
	         '/-- `ReadOnlySession(Session)` overrides nothing else -/\n' + f'def pySessionNoOtherOverrides : Bool := {b(sf["noOtherOverrides"])}\n'
	         '/-- `file_sessionmaker(path)`: `readonly=True`, `cls=None` by default, `cls = ReadOnlySession if readonly else Session` -/\n' + f'def pySessionDefaultReadOnly : Bool := {b(sf["defaultReadOnly"])}\n'
	         '/-- … on an engine created from the file URL alone (no isolation level or other engine option) -/\n' + f'def pySessionEngineDefault : Bool := {b(sf["engineDefault"])}\n\n'
	         'end GambitV.Gen\n')
	sp = out_dir / 'PySession.lean'
	if not sp.exists() or sp.read_text() != stext:
		sp.write_text(stext)
	report['modules']['PySession'] = hashlib.sha1(stext.encode()).hexdigest()[:12]
	report['functions'].append('db/sqla.py (structural facts)')
	# --- src/gambit/cli/{dist,signatures,query}.py: where the reconciled parameters go -----------------------------------------
	cf = cli_facts(repo)
	ftext = ('/-\nGENERATED by harness/pytrace.py from src/gambit/cli/dist.py, signatures.py, query.py — do not edit.\n'
	         'Regenerated at the start of every check; `GambitV.Tie.PyCliFacts` proves them.\n-/\nnamespace GambitV.Gen\n\n'
	         '/-- `gambit dist`: after the fragment that settles `kspec` the name is not assigned again, and every `calc_file_signatures` call computes with it -/\n'
	         f'def pyDistUsesKspec : Bool := {b(cf["dist"])}\n'
	         '/-- `gambit signatures create`: the same -/\n' f'def pyCreateUsesKspec : Bool := {b(cf["create"])}\n'
	         '/-- `gambit query -s`: the comparison of the file\'s parameters with the database\'s, raising `ClickException`, comes before the query is run, '
	         'and genome files are parsed with the database\'s parameters (`query_parse` uses `db.signatures.kmerspec`) -/\n'
	         f'def pyQuerySigChecked : Bool := {b(cf["query"])}\n' f'def pyQueryFilesUseDb : Bool := {b(cf["query_parse"])}\n\nend GambitV.Gen\n')
	fp = out_dir / 'PyCliFacts.lean'
	if not fp.exists() or fp.read_text() != ftext:
		fp.write_text(ftext)
	report['modules']['PyCliFacts'] = hashlib.sha1(ftext.encode()).hexdigest()[:12]
	report['functions'].append('cli/dist.py, cli/signatures.py, cli/query.py (where the parameters go)')
	# --- src/gambit/cli/dist.py, cluster.py: the data flow of the distance command and the layout of its CSV ------------------------------
	df = dist_flow_facts(repo)
	DOC = {'queryIds': 'the query labels are the IDs of the query signature file, else what `get_sequence_files(q, ql, qdir)` returns with the files',
	       'refIds': 'the reference labels are the IDs of the reference signature file / of the database\'s signatures / the query labels (`--square`) / what `get_sequence_files(r, rl, rdir)` returns',
	       'square': '`--square`: the matrix is `jaccarddist_pairwise(query_sigs)` (square form: no `flat`, no `indices`)',
	       'matrix': 'otherwise it is `jaccarddist_matrix(query_sigs, ref_sigs)` (no index selection, default chunking)',
	       'sigsFromFiles': 'signatures that were not given pre-computed are `calc_file_signatures(kspec, SequenceFile.from_paths(<the files of that side>, \'fasta\', \'auto\'))`, which returns them in file order',
	       'dump': 'the last statement is `dump_dmat_csv(output, dmat, query_ids, ref_ids)`: rows = queries, columns = references',
	       'noOtherStores': 'the labels, the signatures and the matrix are assigned nowhere else in the function, and no option of the command is assigned at all',
	       'csvHeader': '`dump_dmat_csv` writes one header row: the corner cell, then `str` of every column label',
	       'csvRows': '… then one row per `zip_strict(row_ids, dmat)` pair: `str(row_id)` followed by `format(d, fmt)` of every cell of that matrix row',
	       'csvFmt': '… with `fmt` defaulting to `0.4f`'}
	dtext = ('/-\nGENERATED by harness/pytrace.py from src/gambit/cli/dist.py and src/gambit/cluster.py — do not edit.\n'
	         'Regenerated at the start of every check; `GambitV.Tie.PyDistFlow` proves them.\n-/\nnamespace GambitV.Gen\n\n'
	         + ''.join(f'/-- {DOC[k]} -/\ndef pyDist_{k} : Bool := {b(v)}\n' for k, v in df.items()) + '\nend GambitV.Gen\n')
	dp = out_dir / 'PyDistFlow.lean'
	if not dp.exists() or dp.read_text() != dtext:
		dp.write_text(dtext)
	report['modules']['PyDistFlow'] = hashlib.sha1(dtext.encode()).hexdigest()[:12]
	report['functions'].append('cli/dist.py dist_cmd, cluster.py dump_dmat_csv (data flow and CSV layout, structural facts)')
	# --- src/gambit/query.py: which distances a result item is made of ------------------------------------------------------------------------
	qf = query_flow_facts(repo)
	QDOC = {'dists': 'the distance matrix is `jaccarddist_matrix(queries, db.signatures, ref_indices=db.sig_indices, chunksize=params.chunksize)`: column j is the reference genome j of the database, through the index the loader paired it with',
	        'rows': 'result item i is `get_result_item(db, params, dmat[i, :], input_i)`: the i-th row of distances with the i-th input',
	        'inputsChecked': 'given inputs are converted one by one and must be as many as the queries; otherwise they are numbered 1, 2, …',
	        'noOtherStores': 'the matrix, the items, the queries and the inputs are assigned nowhere else in the function',
	        'result': 'the items are returned as they are, with the parameters, the genome set and the signatures\' metadata of this database'}
	qtext = ('/-\nGENERATED by harness/pytrace.py from src/gambit/query.py — do not edit.\n'
	         'Regenerated at the start of every check; `GambitV.Tie.PyQueryFlow` proves them.\n-/\nnamespace GambitV.Gen\n\n'
	         + ''.join(f'/-- {QDOC[k]} -/\ndef pyQuery_{k} : Bool := {b(v)}\n' for k, v in qf.items()) + '\nend GambitV.Gen\n')
	qp = out_dir / 'PyQueryFlow.lean'
	if not qp.exists() or qp.read_text() != qtext:
		qp.write_text(qtext)
	report['modules']['PyQueryFlow'] = hashlib.sha1(qtext.encode()).hexdigest()[:12]
	report['functions'].append('query.py query (which distances a result item is made of, structural facts)')
	# --- src/gambit/sigs/calc.py: the accumulator classes as Py.Acc models them -----------------------------------------------------------------
	af = accumulator_facts(repo)
	ADOC = {'arrayInit': '`ArrayAccumulator(k)`: a Boolean array of `nkmers(k)` zeros (nothing marked)',
	        'arrayAdd': '`ArrayAccumulator.add(i)` is `self.array[i] = True`',
	        'arraySignature': '`ArrayAccumulator.signature()` is `np.flatnonzero(self.array)` in the index type: the marked indices, increasing',
	        'setInit': '`SetAccumulator(k)`: an empty set',
	        'setAdd': '`SetAccumulator.add(index)` adds the index (as a scalar of the index type) to the set',
	        'setSignature': '`SetAccumulator.signature()` is the sorted array of the set',
	        'onlyAddUsed': '`accumulate_kmers` and `calc_signature` touch the accumulator through `add` and `signature` only'}
	atext = ('/-\nGENERATED by harness/pytrace.py from src/gambit/sigs/calc.py — do not edit.\n'
	         'Regenerated at the start of every check; `GambitV.Tie.PyAccFacts` proves them.\n-/\nnamespace GambitV.Gen\n\n'
	         + ''.join(f'/-- {ADOC[k]} -/\ndef pyAcc_{k} : Bool := {b(v)}\n' for k, v in af.items()) + '\nend GambitV.Gen\n')
	ap = out_dir / 'PyAccFacts.lean'
	if not ap.exists() or ap.read_text() != atext:
		ap.write_text(atext)
	report['modules']['PyAccFacts'] = hashlib.sha1(atext.encode()).hexdigest()[:12]
	report['functions'].append('sigs/calc.py ArrayAccumulator, SetAccumulator (structural facts)')
	# --- sigs/base.py, sigs/hdf5.py, util/indexing.py: which class defines which indexing method ----------------------------------------------
	kf = class_facts(repo)
	KDOC = {'concatBases': '`ConcatenatedSignatureArray(AdvancedIndexingMixin, AbstractSignatureArray)`: the mixin comes first, so its `__getitem__` is the one that runs',
	        'concatMethods': '… and defines, of the indexing methods, exactly `__len__`, `_getitem_int`, `_getitem_slice`, `_getitem_int_array`, `sizeof`',
	        'arrayInherits': '`SignatureArray(ConcatenatedSignatureArray)` overrides none of the indexing methods',
	        'hdf5Inherits': '`HDF5Signatures(ConcatenatedSignatureArray, ReferenceSignatures)` overrides none of them either',
	        'listBases': '`SignatureList(AdvancedIndexingMixin, AbstractSignatureArray, …)`: the mixin first',
	        'listMethods': '… and defines exactly `__len__`, `_getitem_int`, `_getitem_int_array` (slices and masks: the mixin\'s defaults)',
	        'mixinMethods': '`AdvancedIndexingMixin` has no base class and defines `__getitem__`, `_check_index` and the four `_getitem_*`',
	        'refSigsNeutral': '`ReferenceSignatures(AbstractSignatureArray)` defines none of the indexing methods',
	        'annotatedDelegates': '`AnnotatedSignatures` delegates `__getitem__`, `__len__`, `__iter__`, `kmerspec`, `dtype` to the wrapped collection, keeps the IDs and metadata it is given, and refuses IDs of another length'}
	ktext = ('/-\nGENERATED by harness/pytrace.py from src/gambit/sigs/base.py, sigs/hdf5.py, util/indexing.py — do not edit.\n'
	         'Regenerated at the start of every check; `GambitV.Tie.PyClassFacts` proves them.\n-/\nnamespace GambitV.Gen\n\n'
	         + ''.join(f'/-- {KDOC[k]} -/\ndef pyClass_{k} : Bool := {b(v)}\n' for k, v in kf.items()) + '\nend GambitV.Gen\n')
	kp = out_dir / 'PyClassFacts.lean'
	if not kp.exists() or kp.read_text() != ktext:
		kp.write_text(ktext)
	report['modules']['PyClassFacts'] = hashlib.sha1(ktext.encode()).hexdigest()[:12]
	report['functions'].append('sigs/base.py, sigs/hdf5.py, util/indexing.py (method resolution of the collections, structural facts)')
	# --- sigs/hdf5.py: what HDF5Signatures.__init__ checks and reads ------------------------------------------------------------------------
	rf = reader_facts(repo)
	RDOC = {'marker': 'a group without the format-marker attribute is refused with `SignaturesFileError`',
	        'version': 'the format version is read from the marker attribute and anything but the current version is refused',
	        'kmerspec': 'the k-mer parameters are `KmerSpec(attrs[\'kmerspec_k\'], attrs[\'kmerspec_prefix\'])` — the two attributes the writer sets',
	        'meta': 'the metadata are `read_metadata(group)`',
	        'datasets': '`values` and `bounds` are the datasets of these names (what the inherited indexing methods slice)',
	        'ids': 'the IDs are the `ids` dataset, decoded to `str` when it is a string dataset, read as it is otherwise',
	        'order': 'the marker is checked first (right after the group is stored), then the version, before anything else is read'}
	rtext = ('/-\nGENERATED by harness/pytrace.py from src/gambit/sigs/hdf5.py — do not edit.\n'
	         'Regenerated at the start of every check; `GambitV.Tie.PyHdf5Reader` proves them.\n-/\nnamespace GambitV.Gen\n\n'
	         + ''.join(f'/-- {RDOC[k]} -/\ndef pyReader_{k} : Bool := {b(v)}\n' for k, v in rf.items()) + '\nend GambitV.Gen\n')
	rp = out_dir / 'PyHdf5Reader.lean'
	if not rp.exists() or rp.read_text() != rtext:
		rp.write_text(rtext)
	report['modules']['PyHdf5Reader'] = hashlib.sha1(rtext.encode()).hexdigest()[:12]
	report['functions'].append('sigs/hdf5.py HDF5Signatures.__init__ (what is checked and read, structural facts)')
	# --- which compiled functions the public names are ---------------------------------------------------------------------------------------
	bf = binding_facts(repo)
	BDOC = {'seqRevcomp': '`gambit.seq.revcomp` is `gambit._cython.kmers.revcomp` itself (imported at module level, bound by nothing else)',
	        'kmersIndexToKmer': '`gambit.kmers.index_to_kmer` is `gambit._cython.kmers.index_to_kmer` itself',
	        'kmersRevcomp': '`revcomp` in `gambit.kmers` (used by `find_kmers` and `KmerMatch.kmer`) is `gambit.seq.revcomp`',
	        'kmersModule': '`ckmers` in `gambit.kmers` is the compiled module `gambit._cython.kmers`',
	        'metricModule': '`_cmetric` in `gambit.metric` is the compiled module `gambit._cython.metric`'}
	btext = ('/-\nGENERATED by harness/pytrace.py from src/gambit/seq.py, kmers.py, metric.py — do not edit.\n'
	         'Regenerated at the start of every check; `GambitV.Tie.PyBindings` proves them.\n-/\nnamespace GambitV.Gen\n\n'
	         + ''.join(f'/-- {BDOC[k]} -/\ndef pyBind_{k} : Bool := {b(v)}\n' for k, v in bf.items()) + '\nend GambitV.Gen\n')
	bp = out_dir / 'PyBindings.lean'
	if not bp.exists() or bp.read_text() != btext:
		bp.write_text(btext)
	report['modules']['PyBindings'] = hashlib.sha1(btext.encode()).hexdigest()[:12]
	report['functions'].append('seq.py, kmers.py, metric.py (which compiled functions the public names are, structural facts)')
	# --- src/gambit/results.py: the column table of the CSV exporter -----------------------------------------------------------
	cols = None
	try:
		rtree = ast.parse((repo / 'src' / 'gambit' / 'results.py').read_text())
		cls = next(st for st in rtree.body if isinstance(st, ast.ClassDef) and st.name == 'CSVResultsExporter')
		tab = next(st for st in cls.body if isinstance(st, ast.Assign) and ast.unparse(st.targets[0]) == 'COLUMNS')
		cols = [(e.elts[0].value, e.elts[1].value) for e in tab.value.elts]
		if not all(isinstance(a_, str) and isinstance(b_, str) for a_, b_ in cols):
			cols = None
		hdr = next(m for m in cls.body if isinstance(m, ast.FunctionDef) and m.name == 'get_header')
		row = next(m for m in cls.body if isinstance(m, ast.FunctionDef) and m.name == 'get_row')
		hdr_ok = [ast.unparse(x) for x in _body(hdr)] == ['return [name for name, _ in self.COLUMNS]']
		row_ok = [ast.unparse(x) for x in _body(row)] == ['return [getattr_nested(item, attrs, pass_none=True) for _, attrs in self.COLUMNS]']
	except Exception:
		cols, hdr_ok, row_ok = None, False, False
	ctext = ('/-\nGENERATED by harness/pytrace.py from src/gambit/results.py — do not edit.\n'
	         'Regenerated at the start of every check; `GambitV.Tie.PyCsvColumns` proves the table equal to the model\'s columns.\n-/\n'
	         'namespace GambitV.Gen\n\n'
	         '/-- `CSVResultsExporter.COLUMNS`: (column name, attribute path) -/\n'
	         'def pyCsvColumns : List (String × String) :=\n  [' + ', '.join(f'({lean_str(a_)}, {lean_str(b_)})' for a_, b_ in (cols or [])) + ']\n'
	         '/-- `get_header` returns the names of `COLUMNS`, `get_row` the value of `getattr_nested(item, path, pass_none=True)` for every column, in order -/\n'
	         f'def pyCsvHeaderIsNames : Bool := {b(hdr_ok)}\n' f'def pyCsvRowIsPaths : Bool := {b(row_ok)}\n\nend GambitV.Gen\n')
	cp = out_dir / 'PyCsvColumns.lean'
	if not cp.exists() or cp.read_text() != ctext:
		cp.write_text(ctext)
	report['modules']['PyCsvColumns'] = hashlib.sha1(ctext.encode()).hexdigest()[:12]
	report['functions'].append('results.py CSVResultsExporter.COLUMNS (table)')
	if cols is None:
		report['untranslatable'].append('results.py:CSVResultsExporter.COLUMNS: not a literal list of (name, path) string pairs')
		report.setdefault('untranslatable_by_module', {}).setdefault('PyCsvColumns', []).append(report['untranslatable'][-1])
	jf = json_facts(repo, out_dir, report)
	flow_facts(repo, out_dir, report)
	meta_rules(repo, out_dir, report)
	return report


if __name__ == '__main__':
	import json
	import sys
	repo = Path(sys.argv[1] if len(sys.argv) > 1 else '/repo')
	out = Path(sys.argv[2] if len(sys.argv) > 2 else Path(__file__).resolve().parent.parent / 'lean' / 'GambitV' / 'Gen')
	print(json.dumps(regenerate(repo, out), indent=1))
