"""C14 — signatures built with different k-mer parameters are never compared silently."""
import io
import os

from core import hx, opt, b01, exc_kind, safe_check
import dbutil
from cliutil import run_cli

PROPS = ('GambitV.Props.C14', 'GambitV.C14')
TIE = [('GambitV.Tie.PyCliFacts', 'GambitV.Tie.Py'), ('GambitV.Tie.PyParams', 'GambitV.Tie.Py'), ('GambitV.Tie.PyMetaRules', 'GambitV.Tie.Py'), ('GambitV.Tie.PyKmerSpecFacts', 'GambitV.Tie.Py'), ('GambitV.Tie.PyCliParams', 'GambitV.Tie.Py')]
RULE = ('(command, how each side is supplied, explicit -k/-p or not, parameters of each pre-computed side). gambit dist over the 3 x 5 ways of supplying '
        'queries x references with parameter sets differing in k, in prefix, in both, or equal; gambit query -s SIGFILE against databases with equal / '
        'different parameters (incl. prefixes > 16 nt sharing their first 16 nt, and the library default given explicitly); several signature calculations in one '
        'process with parameter sets sharing k or the prefix (sequential, shared executor, sequential then process pool), each result judged by the Lean signature model; gambit signatures create with -k/-p, --db-params, both, neither; invalid -k/-p combinations. Observed: exit status, whether '
        'the output file exists, and which candidate parameter set reproduces the written output through the real library. Judged by the Lean decision '
        'table (GambitV.distDecision etc.). Non-trivial = distinct case in which two pre-computed sources, or explicit options and a source, meet.')
TRUSTED = ['harness/props/c14.py, harness/cliutil.py + Driver/C14.lean', 'click option parsing']
ASSUMPTIONS = []

DEFAULT = (11, 'ATGAC')
SPECS = [(6, 'AT'), (7, 'AT'), (6, 'AC'), (7, 'AC'), (5, 'ATG'), (6, 'AT')]


def spec_tok(s):
	return '~' if s is None else f'{s[0]}:{hx(s[1].encode())}'


class World:
	"""scratch genomes, signature files per parameter set, databases per parameter set"""

	def __init__(self, rng):
		from gambit.seq import SequenceFile
		self.sc = dbutil.Scratch('gv_c14_')
		self.rng = rng
		base = dbutil.rand_dna(rng, 500)
		self.qfiles, self.rfiles = [], []
		for i in range(3):
			p = self.sc.path(f'q{i}.fasta')
			dbutil.write_fasta(p, dbutil.split_contigs(rng, dbutil.mutate(rng, base, 0.05), 2))
			self.qfiles.append(p)
		for i in range(3):
			p = self.sc.path(f'r{i}.fa')
			dbutil.write_fasta(p, dbutil.split_contigs(rng, dbutil.mutate(rng, base, 0.08), 1))
			self.rfiles.append(p)
		self.qlist = self.sc.path('qlist.txt')
		self.qlist.write_text(''.join(f'{p.name}\n' for p in self.qfiles))
		self.rlist = self.sc.path('rlist.txt')
		self.rlist.write_text(''.join(f'{p.name}\n' for p in self.rfiles))
		self._sigs = {}
		self._dbs = {}

	def kspec(self, s):
		from gambit.kmers import KmerSpec
		return KmerSpec(s[0], s[1])

	def file_sigs(self, s, files):
		from gambit.sigs.calc import calc_file_signatures
		from gambit.seq import SequenceFile
		return calc_file_signatures(self.kspec(s), SequenceFile.from_paths(files, 'fasta', 'auto'), concurrency=None)

	def sigfile(self, which, s):
		key = (which, s)
		if key not in self._sigs:
			from gambit.sigs import AnnotatedSignatures, dump_signatures, SignaturesMeta
			files = self.qfiles if which == 'q' else self.rfiles
			sigs = self.file_sigs(s, files)
			p = self.sc.path(f'{which}_{s[0]}_{s[1]}.gs')
			dump_signatures(p, AnnotatedSignatures(sigs, [f'{which}sig{i}' for i in range(len(files))], SignaturesMeta(id_attr='key')))
			self._sigs[key] = p
		return self._sigs[key]

	def db(self, s):
		if s not in self._dbs:
			d = self.sc.subdir(f'db_{s[0]}_{s[1]}')
			taxa = [{'name': 'root', 'parent': None, 'thr': 0.9}, {'name': 'sp', 'parent': 0, 'thr': 0.5}]
			genomes = [{'key': f'R{i}', 'taxon': i % 2} for i in range(len(self.rfiles))]
			from Bio import SeqIO
			seqs = [[bytes(r.seq) for r in SeqIO.parse(str(p), 'fasta')] for p in self.rfiles]
			dbutil.build_refdb(d, taxa=taxa, genomes=genomes, kspec=self.kspec(s), seqs=seqs)
			self._dbs[s] = d
		return self._dbs[s]

	def cleanup(self):
		self.sc.cleanup()


_world = None


def world(ctx):
	global _world
	if _world is None:
		_world = World(__import__('random').Random(12345))
	return _world


def _dist_expected(w, case, u):
	"""CSV text the real library produces when every computed side uses parameter set u"""
	from gambit.sigs import load_signatures
	from gambit.metric import jaccarddist_matrix, jaccarddist_pairwise
	from gambit.cluster import dump_dmat_csv
	closers = []
	try:
		if case['q'] == 'sigs':
			qs = load_signatures(w.sigfile('q', tuple(case['qspec']))); closers.append(qs)
			qids = list(qs.ids)
		else:
			qs = w.file_sigs(u, w.qfiles)
			qids = [p.name.rsplit('.', 1)[0] for p in w.qfiles]
		if case['r'] == 'square':
			dmat = jaccarddist_pairwise(qs)
			rids = qids
		else:
			if case['r'] == 'sigs':
				rs = load_signatures(w.sigfile('r', tuple(case['rspec']))); closers.append(rs)
				rids = list(rs.ids)
			elif case['r'] == 'db':
				rs = load_signatures(w.db(tuple(case['rspec'])) / 'ref.gs'); closers.append(rs)
				rids = list(rs.ids)
			else:
				rs = w.file_sigs(u, w.rfiles)
				rids = [p.name.rsplit('.', 1)[0] for p in w.rfiles]
			dmat = jaccarddist_matrix(qs, rs)
		buf = io.StringIO()
		dump_dmat_csv(buf, dmat, qids, rids)
		return buf.getvalue()
	finally:
		for c in closers:
			c.close()


def check(ctx, case):
	w = world(ctx)
	out = w.sc.path(suffix='.out')
	if out.exists():
		out.unlink()
	cmd = case['cmd']
	ek, ep = case.get('ek'), case.get('ep')
	kp = ([] if ek is None else ['-k', ek]) + ([] if ep is None else ['-p', ep])
	ep_tok = '~' if ep is None else hx(ep.encode('utf-8', 'replace'))
	if cmd == 'dist':
		args = []
		qsig = rsig = None
		if case['r'] == 'db':
			args += ['-d', w.db(tuple(case['rspec']))]
		args += ['dist', '-o', out, '--no-progress'] + kp
		if case['q'] == 'files':
			for p in w.qfiles:
				args += ['-q', p]
		elif case['q'] == 'list':
			args += ['--ql', w.qlist, '--qdir', w.sc.dir]
		else:
			args += ['--qs', w.sigfile('q', tuple(case['qspec']))]
			qsig = tuple(case['qspec'])
		if case['r'] == 'files':
			for p in w.rfiles:
				args += ['-r', p]
		elif case['r'] == 'list':
			args += ['--rl', w.rlist, '--rdir', w.sc.dir]
		elif case['r'] == 'sigs':
			args += ['--rs', w.sigfile('r', tuple(case['rspec']))]
			rsig = tuple(case['rspec'])
		elif case['r'] == 'db':
			args += ['--use-db']
			rsig = tuple(case['rspec'])
		else:
			args += ['--square']
		code, so, se, exc = run_cli(args)
		wrote = out.exists()
		matching = []
		if wrote:
			text = out.read_bytes().decode()
			cands = {DEFAULT}
			for c in (qsig, rsig):
				if c:
					cands.add(c)
			if ek is not None and ep is not None:
				try:
					cands.add((int(ek), ep.upper()))
				except Exception:
					pass
			for u in cands:
				try:
					if _dist_expected(w, case, u) == text:
						matching.append(u)
				except Exception:
					pass
		pf = []
		if code != 0 and not (se or so or exc):
			pf.append('non-zero exit without a message')
		case['_nt'] = (qsig is not None and rsig is not None) or (ek is not None and (qsig or rsig))
		return [f'c14.dist {opt(ek) if isinstance(ek, int) else ("~" if ek is None else ek)} {ep_tok} {spec_tok(qsig)} {spec_tok(rsig)} {spec_tok(DEFAULT)} '
		        f'{b01(code != 0)} {b01(wrote)} {";".join(spec_tok(m) for m in matching) if matching else "_"}'], pf
	if cmd == 'querysig':
		dbs, qs = tuple(case['dbspec']), tuple(case['qspec'])
		args = ['-d', w.db(dbs), 'query', '-o', out, '--no-progress', '-s', w.sigfile('q', qs)]
		code, so, se, exc = run_cli(args)
		wrote = out.exists() and out.stat().st_size > 0
		matching = []
		if wrote:
			from gambit.db import ReferenceDatabase
			from gambit.sigs import load_signatures
			from gambit.query import query, QueryInput
			from gambit.results import CSVResultsExporter
			db = ReferenceDatabase.load_from_dir(w.db(dbs))
			sg = load_signatures(w.sigfile('q', qs))
			try:
				res = query(db, sg, inputs=[QueryInput(i) for i in sg.ids])
				buf = io.StringIO()
				CSVResultsExporter().export(buf, res)
				if buf.getvalue() == out.read_bytes().decode() and sg.kmerspec == db.signatures.kmerspec:
					matching.append(dbs)
			finally:
				sg.close(); db.signatures.close(); db.session.close()
		case['_nt'] = True
		return [f'c14.querysig {spec_tok(qs)} {spec_tok(dbs)} {b01(code != 0)} {b01(wrote)} {";".join(spec_tok(m) for m in matching) if matching else "_"}'], []
	if cmd == 'create':
		dbs = tuple(case['dbspec']) if case.get('dbspec') else None
		args = (['-d', w.db(dbs)] if dbs else []) + ['signatures', 'create', '-o', out, '--no-progress'] + kp + (['--db-params'] if case.get('db_params') else [])
		args += [str(p) for p in w.qfiles]
		code, so, se, exc = run_cli(args)
		wrote = out.exists()
		matching = []
		if wrote:
			from gambit.sigs import load_signatures
			import numpy as np
			try:
				sg = load_signatures(out)
				u = (int(sg.kmerspec.k), sg.kmerspec.prefix_str)
				exp = w.file_sigs(u, w.qfiles)
				if len(sg) == len(exp) and all(np.array_equal(sg[i], exp[i]) for i in range(len(exp))):
					matching.append(u)
				sg.close()
			except Exception:
				pass
		case['_nt'] = bool(case.get('db_params')) or ek is not None
		return [f'c14.create {"~" if ek is None else ek} {ep_tok} {b01(case.get("db_params"))} {spec_tok(dbs)} {spec_tok(DEFAULT)} {b01(code != 0)} {b01(wrote)} '
		        f'{";".join(spec_tok(m) for m in matching) if matching else "_"}'], []
	if cmd == 'seqcalc':
		# several signature calculations in ONE process with parameter sets that share k (or share the prefix): every result must be
		# the signature for the parameter set asked for (judged by the Lean signature model), whatever ran before on that worker
		from concurrent.futures import ThreadPoolExecutor
		from gambit.sigs.calc import calc_file_signatures
		from gambit.seq import SequenceFile
		from Bio import SeqIO
		files = w.qfiles + w.rfiles
		contigs = [[bytes(r.seq) for r in SeqIO.parse(str(p), 'fasta')] for p in files]
		lines, pf = [], []
		pool = ThreadPoolExecutor(max_workers=1) if case['mode'] == 'shared-executor' else None
		try:
			for sp in case['specs']:
				ks = w.kspec(tuple(sp))
				sfs = SequenceFile.from_paths(files, 'fasta', 'auto')
				if case['mode'] == 'shared-executor':
					res = calc_file_signatures(ks, sfs, executor=pool)
				elif case['mode'] == 'sequential-then-pool' and sp is case['specs'][-1]:
					res = calc_file_signatures(ks, sfs, concurrency='processes', max_workers=2)
				else:
					res = calc_file_signatures(ks, sfs, concurrency=None)
				if res.kmerspec != ks:
					pf.append(f'result labelled {res.kmerspec} for request {ks}')
				for cs, sig in zip(contigs, res):
					lines.append(f'c01.sig {sp[0]} {hx(sp[1].encode())} {";".join(hx(c) for c in cs)} {sig.dtype.itemsize} {",".join(map(str, sig.tolist())) if len(sig) else "-"}')
		finally:
			if pool is not None:
				pool.shutdown()
		case['_nt'] = len({tuple(x) for x in case['specs']}) > 1
		return lines, pf
	raise ValueError(cmd)


def run(ctx):
	rng = ctx.rng
	global _world

	def sub(case, tag):
		lines, pf = safe_check(check, ctx, case)
		nt = case.pop('_nt', False)
		ctx.submit(case, lines, nontrivial=bool(nt), tags=[tag, f'{case.get("q")}x{case.get("r")}'], pyfails=pf)

	try:
		specs = [(6, 'AT'), (7, 'AT'), (6, 'AC'), (7, 'AC')]
		# one process, several calculations: same k / other prefix, same prefix / other k, back and forth
		for mode in ('sequential', 'shared-executor', 'sequential-then-pool'):
			for j in range(ctx.q(2, 8)):
				seqs = [list(rng.choice(specs + [(5, 'ATG'), (6, 'ATG')])) for _ in range(rng.randint(2, 4))]
				if j == 0:
					seqs = [[6, 'AT'], [6, 'AC'], [7, 'AC'], [6, 'AT']]
				sub({'cmd': 'seqcalc', 'mode': mode, 'specs': seqs}, f'seqcalc-{mode}')
		# prefixes longer than 16 nt that share their first 16 nt, and the 16-nt stem itself; and the library default given explicitly
		LONG = [(6, 'ATGACGTTAGCCATGGA'), (6, 'ATGACGTTAGCCATGGC'), (6, 'ATGACGTTAGCCATGG')]
		for a in LONG:
			for b in LONG:
				for r in ('sigs', 'db'):
					for e in ((None, None), LONG[2], a):
						sub({'cmd': 'dist', 'q': 'sigs', 'r': r, 'qspec': list(a), 'rspec': list(b), 'ek': e[0], 'ep': e[1]}, 'dist-long-prefix')
				sub({'cmd': 'querysig', 'qspec': list(a), 'dbspec': list(b)}, 'query-sigfile-long-prefix')
		for q, r in (('sigs', 'sigs'), ('sigs', 'db'), ('sigs', 'square'), ('files', 'sigs'), ('files', 'db'), ('sigs', 'files')):
			for sp in (specs[0], DEFAULT):
				sub({'cmd': 'dist', 'q': q, 'r': r, 'qspec': list(sp), 'rspec': list(sp), 'ek': DEFAULT[0], 'ep': DEFAULT[1]}, 'dist-explicit-default')
		# query -s: every (sigfile params, db params) pair
		for qs in specs:
			for dbs in specs[:3]:
				sub({'cmd': 'querysig', 'qspec': list(qs), 'dbspec': list(dbs)}, 'query-sigfile')
		# parameter sets of the same total length whose prefixes differ by leading A's only (k and prefix both differ: `5/AAT` vs `6/AT`):
		# anything that identifies a parameter set by a derived number rather than by (k, prefix) confuses exactly these
		for a, b in (((5, 'AAT'), (6, 'AT')), ((6, 'AT'), (5, 'AAT')), ((6, 'AAC'), (7, 'AC'))):
			sub({'cmd': 'querysig', 'qspec': list(a), 'dbspec': list(b)}, 'query-sigfile-traded-A')
			for r in ('sigs', 'db'):
				sub({'cmd': 'dist', 'q': 'sigs', 'r': r, 'qspec': list(a), 'rspec': list(b), 'ek': None, 'ep': None}, 'dist-traded-A')
		# dist: 3 x 5 sources x parameter relations x explicit options
		for q in ('files', 'list', 'sigs'):
			for r in ('files', 'list', 'sigs', 'db', 'square'):
				for rel in ('same', 'k', 'prefix', 'both'):
					qspec = specs[0]
					rspec = {'same': specs[0], 'k': specs[1], 'prefix': specs[2], 'both': specs[3]}[rel]
					if rel != 'same' and not (q == 'sigs' and r in ('sigs', 'db')):
						continue
					for expl in (None, 'q', 'r', 'other'):
						if not ctx.time_left(0.85):
							break
						e = {None: (None, None), 'q': qspec, 'r': rspec, 'other': (8, 'GG')}[expl]
						ep = e[1]
						if ep is not None and rng.random() < 0.3:
							ep = ep.lower()
						sub({'cmd': 'dist', 'q': q, 'r': r, 'qspec': list(qspec), 'rspec': list(rspec), 'ek': e[0], 'ep': ep}, 'dist')
		# invalid explicit options
		for ek, ep in [(6, None), (None, 'AT'), (4, 'AT'), (6, 'A'), (6, 'AX'), (0, 'AT'), (6, 'NN')]:
			for q, r in [('files', 'files'), ('sigs', 'sigs'), ('files', 'square')]:
				sub({'cmd': 'dist', 'q': q, 'r': r, 'qspec': list(specs[0]), 'rspec': list(specs[0]), 'ek': ek, 'ep': ep}, 'dist-invalid-options')
		# signatures create
		for dbp in (False, True):
			for dbs in (None, specs[0], specs[3]):
				for e in ((None, None), specs[1], (6, None), (None, 'AT'), (3, 'AT')):
					sub({'cmd': 'create', 'db_params': dbp, 'dbspec': list(dbs) if dbs else None, 'ek': e[0], 'ep': e[1]}, 'create')
	finally:
		if _world is not None:
			_world.cleanup()
			_world = None
