"""C20 — signature collections index like NumPy sequences and compare by content."""
import itertools
import os
import shutil
import tempfile

from core import nats, natlists, hx, exc_kind, safe_check

PROPS = ('GambitV.Props.C20', 'GambitV.C20')
TIE = [('GambitV.Tie.PyCheckIndex', 'GambitV.Tie.Py'), ('GambitV.Tie.PyPropsC20', 'GambitV.Tie.Py'), ('GambitV.Tie.PyConcat', 'GambitV.Tie.Py'), ('GambitV.Tie.PySigList', 'GambitV.Tie.Py'), ('GambitV.Tie.PyGetitem', 'GambitV.Tie.Py'), ('GambitV.Tie.PySigListGetitem', 'GambitV.Tie.Py'), ('GambitV.Tie.PyClassFacts', 'GambitV.Tie.Py'), ('GambitV.Tie.PySigEq', 'GambitV.Tie.Py'), ('GambitV.Tie.PyEqFlow', 'GambitV.Tie.Py'), ('GambitV.Tie.PySigArrayInit', 'GambitV.Tie.Py')]
RULE = ('(collection content, container type in {SignatureArray, SignatureList, HDF5Signatures}, index expression). Exhaustive: every '
        'slice with start/stop/step in -R..R ∪ {None} over lengths 0..L (R,L = 4,4 quick / 7,6 thorough); all integer index lists up to '
        'length 3/4 with entries in -(n+1)..n; all boolean masks of length n-1..n+1. Random: NumPy integer dtypes, tuples/lists/arrays, '
        'ill-typed indices (float, None, str, 2-d, float arrays, slice with float field, zero step), mutation histories of '
        'SignatureList (set/insert/delete, lengths <= 200), equality over pairs differing in one element / dtype / parameters / length. '
        'Non-trivial = distinct case on a collection of >= 2 signatures whose result is not an error.')
TRUSTED = ['harness/props/c20.py + Driver/C20.lean', 'CPython slice.indices / list ops, numpy.arange/flatnonzero modelled (validated by c20.sliceidx and the list cross-check)']
ASSUMPTIONS = ['h5py dataset slicing returns the stored values']

_tmp = None
_h5cache = {}


def _tmpdir():
	global _tmp
	if _tmp is None:
		_tmp = tempfile.mkdtemp(prefix='gv_c20_')
	return _tmp


def cleanup():
	global _tmp
	for f in _h5cache.values():
		try:
			f.close()
		except Exception:
			pass
	_h5cache.clear()
	if _tmp:
		shutil.rmtree(_tmp, ignore_errors=True)
		_tmp = None


def make_container(kind, sigs, k=11, prefix='ATGAC', dt=None):
	import numpy as np
	from gambit.kmers import KmerSpec
	from gambit.sigs.base import SignatureArray, SignatureList, dump_signatures, load_signatures
	kspec = KmerSpec(k, prefix)
	dt = np.dtype(dt) if dt else kspec.index_dtype
	arrs = [np.array(s, dtype=dt) for s in sigs]
	if kind == 'array':
		return SignatureArray(arrs, kspec, dtype=dt)
	if kind == 'list':
		return SignatureList(arrs, kspec, dtype=dt)
	if kind == 'hdf5':
		key = (tuple(map(tuple, sigs)), k, prefix, dt.str)
		if key not in _h5cache:
			path = os.path.join(_tmpdir(), f'c{len(_h5cache)}.gs')
			dump_signatures(path, SignatureArray(arrs, kspec, dtype=dt))
			_h5cache[key] = load_signatures(path)
		return _h5cache[key]
	raise ValueError(kind)


def build_index(spec):
	"""abstract index (wire form) -> Python object, honouring the requested concrete representation"""
	import numpy as np
	form = spec.get('form')
	t = spec['t']
	if t == 'int':
		i = spec['i']
		return np.dtype(form).type(i) if form else i
	if t == 'slice':
		return slice(spec['a'], spec['b'], spec['c'])
	if t == 'slicebad':
		return slice(spec.get('a', 0), 2.5, None)
	if t == 'ints':
		l = spec['l']
		if form == 'tuple':
			return tuple(l)
		if form and form.startswith('array.'):
			import array
			return array.array(form[6:], l)
		if form == 'memoryview':
			return memoryview(np.array(l, dtype=np.int64))
		if form and form != 'list':
			return np.array(l, dtype=form)
		return list(l)
	if t == 'mask':
		m = [bool(x) for x in spec['m']]
		if form == 'array' or not m:
			return np.array(m, dtype=bool)
		return m
	if t == 'bad':
		return {'2d': np.zeros((2, 2), dtype=int), 'float': np.array([0.0, 1.0]), 'str': 'ab', 'strs': ['a', 'b'],
		        'emptyfloat': np.array([]), 'obj': [None, 1], 'ragged': [[1], [1, 2]],
		        'emptystr': '', 'emptybytes': b'', 'emptydict': {}, 'emptyset': set(), 'dict': {0: 1}, 'set': {0}}[form]
	if t == 'unsized':
		return {'float': 1.5, 'none': None}[form]
	raise ValueError(t)


def wire_index(spec):
	t = spec['t']
	o = lambda x: '~' if x is None else str(x)
	if t == 'int':
		return f'int:{spec["i"]}'
	if t == 'slice':
		return f'slice:{o(spec["a"])}:{o(spec["b"])}:{o(spec["c"])}'
	if t == 'slicebad':
		return 'slicebad'
	if t == 'ints':
		return 'ints:' + (','.join(map(str, spec['l'])) if spec['l'] else '-')
	if t == 'mask':
		return 'mask:' + (''.join('1' if x else '0' for x in spec['m']) if spec['m'] else '-')
	return t


PACKED = ('array', 'hdf5')


def dyn_index(obj):
	"""the index object as Python and NumPy themselves describe it (isinstance / len / np.asarray): the input of the definition generated
	from `AdvancedIndexingMixin.__getitem__`, which does the classification itself"""
	import numpy as np
	from collections.abc import Mapping, Set

	def ndtok(a):
		kind = a.dtype.kind
		ln = len(a) if a.ndim >= 1 else 0
		if a.ndim == 1 and kind in 'iu':
			vals = ','.join(str(int(x)) for x in a) or '-'
		elif a.ndim == 1 and kind == 'b':
			vals = ''.join('1' if x else '0' for x in a) or '-'
		else:
			vals = '-'
		return f'{a.ndim}/{kind}/{ln}/{vals}'
	if isinstance(obj, (int, np.integer)):
		return f'int:{int(obj)}'
	if isinstance(obj, slice):
		f = lambda x: '~' if x is None else (str(int(x)) if isinstance(x, (int, np.integer)) else '?')
		return f'slice:{f(obj.start)}:{f(obj.stop)}:{f(obj.step)}'
	if isinstance(obj, np.ndarray):
		return 'nd:' + ndtok(obj)
	try:
		n = len(obj)
	except TypeError:
		return 'unsized'
	special = isinstance(obj, (str, bytes, Mapping, Set))
	try:
		import warnings
		with warnings.catch_warnings():
			warnings.simplefilter('ignore')
			tok = ndtok(np.asarray(obj))
	except Exception:
		tok = '!'
	return f'sized:{n}:{int(special)}:{tok}'


def canon(res):
	import numpy as np
	from gambit.sigs.base import AbstractSignatureArray
	if isinstance(res, np.ndarray):
		return 'one:' + nats(res.tolist())
	if isinstance(res, AbstractSignatureArray):
		return 'many:' + natlists([np.asarray(x).tolist() for x in res])
	return 'other:' + type(res).__name__


def check(ctx, case):
	import numpy as np
	kind = case['kind']
	if kind == 'construct':
		return check_construct(ctx, case)
	if kind == 'get':
		sigs = case['sigs']
		cont = make_container(case['cont'], sigs, dt=case.get('dt'))
		idx = build_index(case['idx'])
		import array as _array
		if isinstance(idx, (_array.array, memoryview)):
			before = list(idx)
		else:
			before = idx.copy() if isinstance(idx, np.ndarray) else (list(idx) if isinstance(idx, list) else None)
		pyfails = []
		try:
			res = cont[idx]
			real = canon(res)
			if real.startswith('many:'):
				if res.kmerspec != cont.kmerspec:
					pyfails.append(f'sub-collection lost k-mer parameters: {res.kmerspec} vs {cont.kmerspec}')
				if np.dtype(res.dtype) != np.dtype(cont.dtype):
					pyfails.append(f'sub-collection changed integer type: {res.dtype} vs {cont.dtype}')
			elif real.startswith('one:') and res.dtype != np.dtype(cont.dtype):
				pyfails.append(f'element has dtype {res.dtype}, collection {cont.dtype}')
		except (IndexError, TypeError, ValueError) as e:
			real = 'err:' + type(e).__name__ if type(e) in (IndexError, TypeError, ValueError) else 'err:' + exc_kind(e)
		except Exception as e:
			real = 'exc:' + exc_kind(e)
		if before is not None:
			after = idx
			if isinstance(after, (_array.array, memoryview)):
				same = list(after) == before
			else:
				same = (isinstance(after, np.ndarray) and after.dtype == before.dtype and np.array_equal(after, before)) if isinstance(before, np.ndarray) else after == before
			if not same:
				pyfails.append("caller's index array was modified")
		case['_err'] = real.startswith('err')
		lines = [f'c20.get {natlists(sigs)} {wire_index(case["idx"])} {real}']
		if real.startswith(('one:', 'many:')) or real in ('err:IndexError', 'err:TypeError', 'err:ValueError'):
			# three-way: the dispatch generated from the current source (with the collection's own generated _getitem_* methods behind it),
			# on the object as Python sees it
			lines.append(f'pyg.getitem{"" if case["cont"] in PACKED else ".list"} {natlists(sigs)} {dyn_index(idx)} {real}')
		return lines, pyfails
	if kind == 'bigfile':
		# a signature file with more than 2^20 values, read through ONE handle in a given order (ints, iteration, ==, slices, arrays):
		# every access returns what the plain list holds, whatever was read before
		from gambit.kmers import KmerSpec
		from gambit.sigs.base import SignatureArray, dump_signatures, load_signatures
		r_ = __import__('random').Random(case['seed'])
		kspec = KmerSpec(12, 'ATGAC')
		sizes = [r_.choice([0, 1, 17, 40000, 70000, 131072, 262144 + r_.randrange(100), 300000]) for _ in range(case['n'])]
		starts = [r_.randrange(4 ** 12 - sz) if sz else 0 for sz in sizes]
		ref = [np.arange(st, st + sz, dtype=kspec.index_dtype) for st, sz in zip(starts, sizes)]
		path = os.path.join(_tmpdir(), f'big{case["seed"]}.gs')
		dump_signatures(path, SignatureArray(ref, kspec), **({'compression': 'gzip'} if case.get('gz') else {}))
		pf = []
		with load_signatures(path) as f:
			for step, acc in enumerate(case['accesses']):
				try:
					if acc[0] == 'int':
						ok = np.array_equal(f[acc[1]], ref[acc[1]])
					elif acc[0] == 'iter':
						ok = all(np.array_equal(a, b) for a, b in zip(f, ref)) and len(f) == len(ref)
					elif acc[0] == 'eq':
						ok = bool(f == SignatureArray(ref, kspec))
					elif acc[0] == 'slice':
						sl_ = slice(*acc[1])
						got = f[sl_]
						ok = len(got) == len(ref[sl_]) and all(np.array_equal(a, b) for a, b in zip(got, ref[sl_]))
					else:
						got = f[np.array(acc[1], dtype=np.intp)]
						ok = len(got) == len(acc[1]) and all(np.array_equal(a, ref[i]) for a, i in zip(got, acc[1]))
				except Exception as e:
					ok = False
					pf.append(f'access {step} {acc} raised {exc_kind(e)}: {e}')
				if not ok:
					pf.append(f'access {step} {acc} (after {case["accesses"][:step]}) differs from the list of signatures written; sizes {sizes}')
					break
		os.remove(path)
		case['_err'] = False
		return [], pf
	if kind == 'chk':
		# AdvancedIndexingMixin._check_index on a collection of n signatures, against the definition generated from the current source (tie T)
		sl = make_container('list', [[1]] * case['n'])
		try:
			real = str(int(sl._check_index(case['i'])))
		except IndexError:
			real = '!IndexError'
		return [f'pyg.chk {case["n"]} {case["i"]} {real}'], []
	if kind == 'sliceidx':
		n, a, b, c = case['n'], case['a'], case['b'], case['c']
		s, e, st = slice(a, b, c).indices(n)
		o = lambda x: '~' if x is None else str(x)
		lst = list(range(s, e, st))
		np_l = np.arange(s, e, st).tolist()
		pf = [] if lst == np_l else ['range/arange disagree']
		return [f'c20.sliceidx {n} {o(a)} {o(b)} {o(c)} {s},{e},{st}:{",".join(map(str, lst)) if lst else "-"}'], pf
	if kind == 'mut':
		from gambit.sigs.base import SignatureList
		sl = make_container('list', case['sigs'], dt=case.get('dt'))
		ref = [list(s) for s in case['sigs']]
		errs = []
		ops_w = []
		n0 = len(sl)
		snaps = [sl[:], sl[0:n0], sl[-n0:] if n0 else sl[:], sl[list(range(n0))]]
		for n, op in enumerate(case['ops']):
			try:
				# the new signature may be held in a wider integer type than the list's nominal one (values that do not fit it included):
				# a list keeps what it is given
				odt = np.dtype(op[3]) if len(op) > 3 else sl.dtype
				if op[0] == 's':
					ops_w.append(f's:{op[1]}:{nats(op[2])}')
					sl[op[1]] = np.array(op[2], dtype=odt)
				elif op[0] == 'i':
					ops_w.append(f'i:{op[1]}:{nats(op[2])}')
					sl.insert(op[1], np.array(op[2], dtype=odt))
				else:
					ops_w.append(f'd:{op[1]}')
					del sl[op[1]]
			except IndexError:
				errs.append(n)
		final = [np.asarray(x).astype(object).tolist() for x in sl]
		pf = []
		if len(sl) != len(final):
			pf.append('len() inconsistent with iteration')
		for sn in snaps:
			if [np.asarray(x).tolist() for x in sn] != ref:
				pf.append('a sub-collection obtained by slicing / indexing changed when the original list-backed collection was mutated (aliasing)')
				break
		return [f'c20.mut {natlists(case["sigs"])} {"|".join(ops_w) if ops_w else "_"} {natlists(final)} {nats(errs)}'], pf
	if kind == 'eq':
		c1 = make_container(case['c1'], case['s1'], k=case['k1'], prefix=case['p1'], dt=case.get('dt1'))
		c2 = make_container(case['c2'], case['s2'], k=case['k2'], prefix=case['p2'], dt=case.get('dt2'))
		r = c1 == c2
		r2 = c2 == c1
		pf = [] if bool(r) == bool(r2) else ['__eq__ not symmetric']
		from gambit.sigs.base import sigarray_eq
		rs = sigarray_eq(c1, c2)      # three-way: the sequence part, generated from the current source
		return [f'c20.eq {case["k1"]} {hx(case["p1"].encode())} {natlists(case["s1"])} {case["k2"]} {hx(case["p2"].encode())} '
		        f'{natlists(case["s2"])} {"1" if r else "0"}',
		        f'pyg.sigeq {natlists(case["s1"])} {natlists(case["s2"])} {"1" if rs else "0"}'], pf
	raise ValueError(kind)


def check_construct(ctx, case):
	"""SignatureArray / SignatureList built from a sequence of signatures held in different integer types"""
	import numpy as np
	from gambit.kmers import KmerSpec
	from gambit.sigs.base import SignatureArray, SignatureList
	kspec = KmerSpec(32, 'ATGAC')
	arrs = [np.array(s, dtype=dt) for s, dt in zip(case['sigs'], case['dts'])]
	pf = []
	lines = []
	for cls in (SignatureArray, SignatureList):
		try:
			c = cls(arrs, kspec, dtype=np.dtype(case['dtype']) if case.get('dtype') else None)
			got = [np.asarray(x).astype(object).tolist() for x in c]
			real = 'many:' + natlists(got)
		except Exception as e:
			real = 'exc:' + exc_kind(e)
		lines.append(f'c20.get {natlists(case["sigs"])} slice:~:~:~ {real}')
	return lines, pf


def contents(rng, n):
	"""a collection of n signatures with empty / singleton / duplicate members"""
	out = []
	for i in range(n):
		r = rng.random()
		if r < 0.2:
			out.append([])
		elif r < 0.4 and out:
			out.append(list(rng.choice(out)))
		else:
			m = rng.randint(1, 6)
			out.append(sorted(rng.sample(range(0, 4 ** 11), m)))
	return out


def run(ctx):
	rng = ctx.rng
	R = ctx.q(4, 7)
	L = ctx.q(4, 6)
	conts = ['array', 'list', 'hdf5']

	def sub(case, tag):
		lines, pf = safe_check(check, ctx, case)
		err = case.pop('_err', False)
		nt = case['kind'] == 'get' and len(case['sigs']) >= 2 and not err
		ctx.submit(case, lines, nontrivial=nt, tags=[tag, 'err' if err else 'ok'] + ([f'cont={case["cont"]}'] if 'cont' in case else []), pyfails=pf)

	try:
		fixed = {n: contents(rng, n) for n in range(0, L + 1)}
		vals = [None] + list(range(-R, R + 1))
		steps = [None] + [s for s in range(-R, R + 1)]
		for n in range(0, L + 1):
			for i in range(-2 * L - 2, 2 * L + 3):
				sub({'kind': 'chk', 'n': n, 'i': i}, 'exh-check-index')
		# exhaustive slices (step 0 included: must raise ValueError)
		for n in range(0, L + 1):
			for a in vals:
				for b in vals:
					for c in steps:
						sub({'kind': 'sliceidx', 'n': n, 'a': a, 'b': b, 'c': c}, 'exh-sliceidx') if c != 0 else None
						for cont in conts:
							sub({'kind': 'get', 'cont': cont, 'sigs': fixed[n], 'idx': {'t': 'slice', 'a': a, 'b': b, 'c': c}}, 'exh-slice')
		# exhaustive ints / lists / masks
		Lm = ctx.q(3, 4)
		for n in range(0, 4):
			for i in range(-(n + 2), n + 2):
				for cont in conts:
					sub({'kind': 'get', 'cont': cont, 'sigs': fixed[n], 'idx': {'t': 'int', 'i': i}}, 'exh-int')
			for ln in range(0, Lm + 1):
				for l in itertools.product(range(-(n + 1), n + 1), repeat=ln):
					cont = conts[(len(l) + sum(l)) % 3]
					sub({'kind': 'get', 'cont': cont, 'sigs': fixed[n], 'idx': {'t': 'ints', 'l': list(l), 'form': rng.choice(['list', 'tuple', 'i8', 'i4', 'i2'])}}, 'exh-ints')
			for ln in (n - 1, n, n + 1):
				if ln < 0:
					continue
				for m in itertools.product([0, 1], repeat=ln):
					for cont in conts:
						sub({'kind': 'get', 'cont': cont, 'sigs': fixed[n], 'idx': {'t': 'mask', 'm': list(m), 'form': rng.choice(['list', 'array'])}}, 'exh-mask')
		ctx.exhaustive = [f'all slices start/stop/step in -{R}..{R} or None over lengths 0..{L} x 3 containers',
		                  f'all index lists of length <= {Lm} over lengths 0..3', 'all masks of length n-1..n+1 over lengths 0..3']
		# ill-typed
		for n in (0, 1, 3):
			for cont in conts:
				for form in ['2d', 'float', 'str', 'strs', 'emptyfloat', 'obj', 'ragged', 'emptystr', 'emptybytes', 'emptydict', 'emptyset', 'dict', 'set']:
					sub({'kind': 'get', 'cont': cont, 'sigs': fixed[n], 'idx': {'t': 'bad', 'form': form}}, 'ill-typed')
				for form in ['float', 'none']:
					sub({'kind': 'get', 'cont': cont, 'sigs': fixed[n], 'idx': {'t': 'unsized', 'form': form}}, 'ill-typed')
				sub({'kind': 'get', 'cont': cont, 'sigs': fixed[n], 'idx': {'t': 'slicebad'}}, 'ill-typed')
		# random larger
		for j in range(ctx.q(1500, 30000)):
			if not ctx.time_left(0.8):
				break
			n = rng.randint(0, 12)
			sigs = contents(rng, n)
			cont = rng.choice(conts if rng.random() < 0.3 else ['array', 'list'])
			r = rng.random()
			big = lambda: rng.choice([rng.randint(-n - 3, n + 3), rng.randint(-40, 40), None])
			if r < 0.3:
				idx = {'t': 'slice', 'a': big(), 'b': big(), 'c': rng.choice([None, 1, 1, -1, 2, -2, 3, -3, 5, 0])}
			elif r < 0.45:
				idx = {'t': 'int', 'i': rng.randint(-n - 2, n + 1), 'form': rng.choice([None, 'i8', 'i4', 'u2', 'u8', 'i1'])}
				if idx['form'] and idx['form'][0] == 'u' and idx['i'] < 0:
					idx['form'] = None
				if idx['form'] == 'u8' and rng.random() < 0.3:
					idx['i'] = rng.choice([2 ** 64 - 1, 2 ** 64 - max(n, 1), 2 ** 63])
			elif r < 0.8:
				ln = rng.randint(0, 8)
				l = [rng.randint(-n - 1 if rng.random() < 0.1 else -n, n if rng.random() < 0.1 else max(n - 1, 0)) for _ in range(ln)] if n else [rng.randint(-1, 1) for _ in range(ln)]
				form = rng.choice(['list', 'tuple', 'i8', 'i4', 'i2', 'i1', 'u8', 'u4', 'u1'])
				if form[0] == 'u' and any(x < 0 for x in l):
					form = 'i8'
				if rng.random() < 0.12:
					form = rng.choice(['u8', 'u8', 'u4'])
					l = [rng.randint(0, max(n - 1, 0)) for _ in range(rng.randint(1, 4))]
				if form in ('u8', 'u4', 'i8') and l and rng.random() < (0.8 if form == 'u8' else 0.25):
					# values at the top of the index type's range (must be IndexError, never wrap around to a valid position)
					top = {'u8': 2 ** 64, 'u4': 2 ** 32, 'i8': 2 ** 63}[form]
					l[rng.randrange(len(l))] = rng.choice([top - 1, top - max(n, 1), top - 2, top // 2 - (1 if form != 'i8' else 2 ** 62)])
				idx = {'t': 'ints', 'l': l, 'form': form}
			else:
				ln = n if rng.random() < 0.85 else rng.randint(0, n + 2)
				idx = {'t': 'mask', 'm': [rng.randint(0, 1) for _ in range(ln)], 'form': rng.choice(['list', 'array'])}
			dt = rng.choice([None, None, 'u8', 'i8', 'u4']) if cont != 'hdf5' else None
			sub({'kind': 'get', 'cont': cont, 'sigs': sigs, 'idx': idx, 'dt': dt}, 'random-get')
		# collections longer than a narrow index type's range, indexed with that narrow type (negative entries must wrap by the collection's length, not the type's)
		for n in (127, 128, 129, 200, 300):
			big = [[i] for i in range(n)]
			for cont in ('array', 'list'):
				for rep in range(ctx.q(4, 20)):
					l = [rng.choice([-1, -2, -n, -n + 1, -(n // 2), -127, -128 if n >= 128 else -1, 0, n - 1, rng.randint(-n, n - 1)]) for _ in range(rng.randint(1, 5))]
					l = [max(-128, min(127, x)) for x in l]
					sub({'kind': 'get', 'cont': cont, 'sigs': big, 'idx': {'t': 'ints', 'l': l, 'form': 'i1'}}, 'narrow-dtype')
					l2 = [rng.randint(-n, n - 1) for _ in range(rng.randint(1, 4))]
					sub({'kind': 'get', 'cont': cont, 'sigs': big, 'idx': {'t': 'ints', 'l': l2, 'form': rng.choice(['i2', 'i4', 'i8', 'array.q', 'array.h', 'array.i', 'memoryview'])}}, 'narrow-dtype')
		# files with > 2^20 values read through one handle in some order
		for j in range(ctx.q(8, 60)):
			n = rng.randint(6, 14)
			accesses = []
			for _ in range(rng.randint(3, 10)):
				r = rng.random()
				if r < 0.5:
					accesses.append(['int', rng.randrange(n)])
				elif r < 0.6:
					accesses.append(['iter'])
				elif r < 0.7:
					accesses.append(['eq'])
				elif r < 0.85:
					a, b = sorted(rng.sample(range(n + 1), 2))
					accesses.append(['slice', [a, b, rng.choice([None, 1, 2])]])
				else:
					accesses.append(['ints', [rng.randrange(n) for _ in range(rng.randint(1, 4))]])
			if j % 2 == 0:
				accesses = [['int', i] for i in range(n)] + accesses        # sequential read first
			sub({'kind': 'bigfile', 'n': n, 'seed': rng.randrange(10 ** 6), 'accesses': accesses, 'gz': rng.random() < 0.25}, 'big-file-access-history')
		# buffer-protocol index objects on small collections
		for j in range(ctx.q(150, 1500)):
			n = rng.randint(1, 8)
			sigs = contents(rng, n)
			l = [rng.randint(-n, n - 1) for _ in range(rng.randint(1, 5))]
			sub({'kind': 'get', 'cont': rng.choice(['array', 'list']), 'sigs': sigs, 'idx': {'t': 'ints', 'l': l, 'form': rng.choice(['array.q', 'array.b', 'array.i', 'array.l', 'memoryview'])}}, 'buffer-index')
		# construction from mixed-type signature sequences with values up to 2^64-1 (k = 32)
		for j in range(ctx.q(200, 2000)):
			n = rng.randint(1, 5)
			sigs, dts = [], []
			for _ in range(n):
				dt = rng.choice(['u8', 'u8', 'i8', 'i4', 'u4', 'u2'])
				top = {'u8': 2 ** 64 - 1, 'i8': 2 ** 63 - 1, 'i4': 2 ** 31 - 1, 'u4': 2 ** 32 - 1, 'u2': 2 ** 16 - 1}[dt]
				vals = sorted({rng.choice([top, top - 1, top - rng.randrange(1000), 2 ** 53 + 1, 2 ** 53 + rng.randrange(1000), rng.randrange(top + 1)]) % (top + 1) for _ in range(rng.randint(0, 4))})
				sigs.append(vals); dts.append(dt)
			# the collection's type is that of the first signature unless given: it must be able to hold every value (documented; unsafe casting)
			sub({'kind': 'construct', 'sigs': sigs, 'dts': dts, 'dtype': rng.choice([None, 'u8']) if dts[0] == 'u8' else 'u8'}, 'construct-mixed-types')
		# mutation histories
		for j in range(ctx.q(300, 4000)):
			if not ctx.time_left(0.9):
				break
			n = rng.randint(0, 6)
			sigs = contents(rng, n)
			narrow = n > 0 and rng.random() < 0.3       # a list whose nominal type is uint16 (as inferred from a narrow first signature)
			if narrow:
				sigs = [[v % 65536 for v in sg] for sg in sigs]
				sigs = [sorted(set(sg)) for sg in sigs]
			ops = []
			ln = n
			for _ in range(rng.randint(1, ctx.q(30, 200))):
				r = rng.random()
				i = rng.randint(-ln - 2, ln + 2)
				wide = None
				if narrow and rng.random() < 0.3:
					wide = rng.choice(['u4', 'u8', 'i8'])
				newsig = (sorted({v % 65536 for v in contents(rng, 1)[0]}) if narrow else contents(rng, 1)[0]) if wide is None else sorted({rng.choice([70000, 65536, 2 ** 32 - 1 if wide != 'u4' else 99999, rng.randrange(2 ** 31)]) for _ in range(rng.randint(1, 3))})
				if r < 0.35:
					ops.append(['s', i, newsig] + ([wide] if wide else []))
				elif r < 0.7:
					ops.append(['i', i, newsig] + ([wide] if wide else []))
					ln += 1
				else:
					ops.append(['d', i])
					if -ln <= i < ln:
						ln -= 1
			sub(dict({'kind': 'mut', 'sigs': sigs, 'ops': ops}, **({'dt': 'u2'} if narrow else {})), 'mutations' + ('-wider-items' if narrow else ''))
		# equality
		for j in range(ctx.q(400, 5000)):
			if not ctx.time_left(0.97):
				break
			n = rng.randint(0, 5)
			s1 = contents(rng, n)
			s2 = [list(x) for x in s1]
			k2, p2 = 11, 'ATGAC'
			r = rng.random()
			if r < 0.2 and n:
				i = rng.randrange(n)
				s2[i] = sorted(set(s2[i]) ^ {rng.randrange(4 ** 11)})
			elif r < 0.3:
				s2 = s2[:-1] if s2 and rng.random() < 0.5 else s2 + [[]]
			elif r < 0.4:
				k2 = 12
			elif r < 0.5:
				p2 = 'ATGAT'
			elif r < 0.55 and n > 1:
				s2 = s2[::-1]
			elif r < 0.75 and n > 1:
				# the same concatenated values and the same count, split at different bounds
				flat = sorted({x for sg in s1 for x in sg})
				s1 = []
				cuts = sorted(rng.sample(range(len(flat) + 1), min(n - 1, len(flat) + 1))) if flat else []
				cuts = (cuts + [len(flat)] * n)[:n - 1]
				prev = 0
				for c in sorted(cuts):
					s1.append(flat[prev:c]); prev = c
				s1.append(flat[prev:])
				cuts2 = sorted(rng.randint(0, len(flat)) for _ in range(n - 1))
				s2, prev = [], 0
				for c in cuts2:
					s2.append(flat[prev:c]); prev = c
				s2.append(flat[prev:])
			dt2 = rng.choice([None, 'u8', 'i8'])
			sub({'kind': 'eq', 'c1': rng.choice(conts), 'c2': rng.choice(['array', 'array', 'list']), 's1': s1, 's2': s2, 'k1': 11, 'p1': 'ATGAC',
			     'k2': k2, 'p2': p2, 'dt2': dt2}, 'eq')
	finally:
		cleanup()
