"""C17 — the tree command outputs the UPGMA dendrogram of the pairwise distances."""
import math
from fractions import Fraction

from core import hx, exc_kind, safe_check, nats
from cliutil import run_cli
from worlds import GenomeWorld

PROPS = ('GambitV.Props.C17', 'GambitV.C17')
TIE = [('GambitV.Tie.PyCluster', 'GambitV.Tie.Py'), ('GambitV.Tie.PyTreeFlow', 'GambitV.Tie.Py'), ('GambitV.Tie.PySeqFiles', 'GambitV.Tie.Py'), ('GambitV.Tie.PyCalcFiles', 'GambitV.Tie.Py')]
RULE = ('(set of >= 2 genomes / signatures incl. identical genomes (zero distances) and equidistant ones, label set, input channel in {positional files, '
        'list file + --ldir, signature file}, -k/-p, -c). The Newick text printed by `gambit tree` is parsed (quoted labels) and checked by the Lean checker '
        'GambitV.checkTree against D = the real pairwise distance matrix of the real signatures: leaves = labels each once, binary, branch lengths >= 0, '
        'ultrametric, every merge a valid average-linkage step at its height (so path = 2 x merge height), tolerance = printed precision (8 significant digits). '
        'Also linkage_to_bio_tree on random linkage matrices vs the Lean conversion model, and gambit.cluster.hclust on synthetic symmetric matrices '
        '(wide random = tie-free, small ranges / zeros / blocks = ties): its merge sequence is replayed in the exact UPGMA model GambitV.upgma '
        '(every merge a minimal pair of active clusters, height = exact average within 1e-9 relative, n-1 rows ending in one cluster; tie-free => identical '
        'to the model linkage, for which Props/C17 proves monotone heights, ValidLinkage and the tree theorems). Non-trivial = distinct case with >= 3 leaves and >= 2 distinct distances.')
TRUSTED = ['harness/props/c17.py (Newick reader, exact scaling) + Driver/C17.lean', 'float64 subtraction and Newick number formatting are modelled by a tolerance, not proved']
ASSUMPTIONS = ['SciPy linkage / Biopython writer are not trusted: their output is checked on every run']

_w = None


def world():
	global _w
	if _w is None:
		_w = GenomeWorld(777, prefix='gv_c17_')
	return _w


def parse_newick(s):
	"""-> list of nodes dicts {parent, len(str or None), name(str or None)}; root first"""
	s = s.strip()
	assert s.endswith(';'), 'no terminating semicolon'
	pos = 0
	nodes = []

	def parse_label():
		nonlocal pos
		if pos < len(s) and s[pos] == "'":
			pos += 1
			out = []
			while True:
				if s[pos] == "'":
					if pos + 1 < len(s) and s[pos + 1] == "'":
						out.append("'"); pos += 2
						continue
					pos += 1
					break
				out.append(s[pos]); pos += 1
			return ''.join(out)
		start = pos
		while pos < len(s) and s[pos] not in '():,;':
			pos += 1
		return s[start:pos] or None

	def parse_len():
		nonlocal pos
		if pos < len(s) and s[pos] == ':':
			pos += 1
			start = pos
			while pos < len(s) and s[pos] not in '(),;':
				pos += 1
			return s[start:pos]
		return None

	def parse_node(parent):
		nonlocal pos
		idx = len(nodes)
		nodes.append({'parent': parent, 'len': None, 'name': None, 'internal': False})
		if s[pos] == '(':
			nodes[idx]['internal'] = True
			pos += 1
			while True:
				parse_node(idx)
				if s[pos] == ',':
					pos += 1
					continue
				assert s[pos] == ')', f'expected ) at {pos}'
				pos += 1
				break
		nodes[idx]['name'] = parse_label()
		nodes[idx]['len'] = parse_len()
		return idx

	parse_node(None)
	assert s[pos] == ';'
	return nodes


def check(ctx, case):
	import numpy as np
	from gambit import metric
	w = world()
	if case['kind'] == 'convert':
		from gambit.cluster import linkage_to_bio_tree
		n = case['n']
		link = np.array([[a, b, h, 0] for a, b, h in case['link']], dtype=float)
		S = 2 ** 20
		linktok = ';'.join(f'{a},{b},{int(Fraction(float(h)) * S)}' for a, b, h in case['link']) if case['link'] else '_'
		extra = []
		# the definition generated from the current source, on the caller's labels (distinct numbers, not the positions)
		labs = case.get('labels')
		if labs:
			try:
				t2 = linkage_to_bio_tree(link, [str(x) for x in labs])

				def show(c):
					bl = '~' if c.branch_length is None else str(int(Fraction(float(c.branch_length)) * S))
					if not c.clades:
						return f'{"~" if c.name is None else c.name}:{bl}'
					return '(' + ','.join(show(ch) for ch in c.clades) + '):' + bl
				real2 = show(t2.root)
			except Exception as e:
				real2 = '!' + exc_kind(e)
			extra.append(f'pyg.linkage {linktok} {nats(labs)} {real2}')
			if len(labs) != n:
				return extra, []
		tree = linkage_to_bio_tree(link, [str(i) for i in range(n)])
		depths = []

		def walk(c, d):
			if not c.clades:
				depths.append((int(c.name), d))
			for ch in c.clades:
				walk(ch, d + Fraction(float(ch.branch_length)))
		walk(tree.root, Fraction(0))
		# model depths are "distance from root down", same orientation
		real = ','.join(f'{l}:{int(d * S)}' for l, d in depths)
		return [f'c17.convert {n} {linktok} {real}'] + extra, []
	if case['kind'] == 'hclust':
		# gambit.cluster.hclust (SciPy behind it) vs the exact UPGMA model: SciPy's merges replayed, heights exact
		from gambit.cluster import hclust
		n = case['n']
		S = case['scale']
		Dint = case['D']
		dmat = np.array([[v / S for v in row] for row in Dint], dtype=case.get('dtype', 'f8'))
		link = hclust(dmat)
		pf = []
		if link.shape != (n - 1, 4):
			pf.append(f'linkage shape {link.shape} for {n} observations')
		Dexact = [[int(Fraction(float(dmat[i, j])) * S) for j in range(n)] for i in range(n)]
		rows = []
		for a, b, h, cnt in link.tolist():
			f = Fraction(float(h)) * S
			rows.append(f'{int(a)},{int(b)},{f.numerator},{f.denominator}')
		case['_nt'] = n >= 3 and len({v for row in Dint for v in row}) > 2
		Dtok = ';'.join(','.join(str(v) for v in row) for row in Dexact)
		return [f'c17.hclust {n} {Dtok} {";".join(rows) if rows else "_"}'], pf
	gs = [w.genomes[i] for i in case['g']]
	spec = w.spec if (case.get('explicit') or case['chan'] == 'sigs') else (11, 'ATGAC')
	args = ['tree', '--no-progress']
	if case.get('explicit'):
		args += ['-k', w.spec[0], '-p', w.spec[1]]
	if case.get('cores'):
		args += ['-c', case['cores']]
	if case['chan'] == 'files':
		paths = [(g['link'] if case.get('links') else g['path']) for g in gs]      # links: staged inputs, labelled by the path given
		args += paths
		from gambit.cli.common import get_file_id
		labels = [get_file_id(str(p)) for p in paths]
	elif case['chan'] == 'list':
		args += ['-l', w.listfile(gs, 'tl.txt'), '--ldir', w.qdir]
		from gambit.cli.common import get_file_id
		labels = [get_file_id(g['rel']) for g in gs]
	else:
		p, ids = w.sigfile(gs, ids=case.get('ids'))
		args += ['-s', p]
		labels = list(ids)
	code, so, se, exc = run_cli(args)
	if code != 0:
		return [], [f'gambit tree failed: exit {code} {se[-300:]} {exc!r}']
	try:
		nodes = parse_newick(so)
	except Exception as e:
		return [], [f'output is not parseable Newick: {e!r}: {so[:200]!r}']
	sigs = [w.sig_of(g, spec) for g in gs]
	D = [[Fraction(float(np.float32(metric.jaccarddist(a, b)))) for b in sigs] for a in sigs]
	pf = []
	# map leaf names to label indices; duplicates in labels are matched in order of appearance
	remaining = {}
	for i, l in enumerate(labels):
		remaining.setdefault(str(l), []).append(i)
	lens = []
	toks = []
	for nd in nodes:
		try:
			ln = Fraction(nd['len']) if nd['len'] not in (None, '') else Fraction(0)
		except ValueError:
			return [], [f'output is not valid Newick: branch length {nd["len"]!r} of node {nd["name"]!r} is not a number: {so[:200]!r}']
		lens.append(ln)
	den = 1
	for x in lens + [v for row in D for v in row]:
		den = den * x.denominator // math.gcd(den, x.denominator)
	tol = int(Fraction(1, 10 ** 8) * den) + 1
	for nd, ln in zip(nodes, lens):
		lab = '~'
		if not nd['internal']:
			cands = remaining.get(nd['name'] if nd['name'] is not None else '', [])
			if cands:
				lab = str(cands.pop(0))
			else:
				lab = str(len(labels) + 1)   # a leaf that is not one of the labels -> the checker rejects
		elif nd['name']:
			pf.append(f'internal node carries a label {nd["name"]!r}')
		toks.append(f'{"~" if nd["parent"] is None else nd["parent"]}:{int(ln * den)}:{lab}')
	Dtok = ';'.join(','.join(str(int(v * den)) for v in row) for row in D)
	case['_nt'] = len(gs) >= 3 and len({v for row in D for v in row}) > 2
	return [f'c17.tree {";".join(toks)} {Dtok} {len(labels)} {tol}'], pf


def run(ctx):
	rng = ctx.rng
	global _w

	def sub(case, tag):
		lines, pf = safe_check(check, ctx, case)
		nt = case.pop('_nt', False)
		ctx.submit(case, lines, nontrivial=nt, tags=[tag, f'chan={case.get("chan")}', f'n={len(case.get("g", []))}'], pyfails=pf)

	try:
		w = world()
		n = len(w.genomes)
		# conversion on random valid linkage matrices (heights non-decreasing, dyadic)
		for j in range(ctx.q(200, 3000)):
			m = rng.randint(2, 8) if j % 25 else 1
			live = list(range(m))
			link = []
			h = 0.0
			for r in range(m - 1):
				a, b = rng.sample(live, 2)
				h += rng.choice([0.0, 0.125, 0.25, 0.0625])
				link.append([min(a, b), max(a, b), h])
				live.remove(a); live.remove(b); live.append(m + r)
			labs = rng.sample(range(100), m)
			if j % 40 == 7:
				labs = labs + [100] if rng.random() < 0.5 else labs[:-1]      # wrong number of labels: rejected
			sub({'kind': 'convert', 'n': m, 'link': link, 'labels': labs}, 'convert')
		# hclust on synthetic symmetric matrices: wide random values (tie-free: the merge order is unique and must be the
		# model's), small ranges / zeros / block structure (ties: every merge must still be a minimal pair)
		for j in range(ctx.q(300, 4000)):
			if not ctx.time_left(0.5):
				break
			m = rng.choice([2, 3, 4, 5, 6, 8, 12, rng.randint(2, 20)])
			style = rng.choice(['wide', 'wide', 'small', 'zeros', 'blocks'])
			S = 2 ** 20
			D = [[0] * m for _ in range(m)]
			grp = [rng.randrange(3) for _ in range(m)]
			for a in range(m):
				for b in range(a + 1, m):
					if style == 'wide':
						v = rng.randint(1, S)
					elif style == 'small':
						v = rng.randint(1, 4) * (S // 4)
					elif style == 'zeros':
						v = rng.choice([0, 0, rng.randint(1, S)])
					else:
						v = (rng.randint(1, S // 8) if grp[a] == grp[b] else rng.randint(S // 2, S))
					D[a][b] = D[b][a] = v
			sub({'kind': 'hclust', 'n': m, 'scale': S, 'D': D, 'dtype': rng.choice(['f8', 'f8', 'f4'])}, f'hclust-{style}')
		for j in range(ctx.q(200, 1500)):
			if not ctx.time_left(0.92):
				break
			k = rng.choice([2, 2, 3, 4, 5, 7, min(n, 10)])
			g = rng.sample(range(n), min(k, n))
			if rng.random() < 0.35:
				g = g + [rng.choice(g)]          # identical genome twice: zero distance, duplicate label for file channels
			chan = rng.choice(['files', 'list', 'sigs'])
			ids = None
			if chan == 'sigs':
				ids = [rng.choice(['s', "it's", 'a b', 'x(1)', 'semi;colon', 'com,ma', 'q"uote', 'ü', 'colon:x']) + f'_{i}' for i in range(len(g))]
				if rng.random() < 0.2:
					ids = rng.sample(range(10 ** 6), len(g))       # integer IDs (valid in a signature file): the labels are their decimal text
			sub({'kind': 'tree', 'g': g, 'chan': chan, 'ids': ids, 'explicit': rng.random() < 0.7, 'cores': rng.choice([None, 1, 3]), 'links': rng.random() < 0.3}, 'tree')
	finally:
		if _w is not None:
			_w.cleanup()
			_w = None
