"""C10 — strict classification reports an order-independent consensus of all matches."""
import itertools
import re

from core import nats, opt, b01, exc_kind, safe_check
import taxutil as T

PROPS = ('GambitV.Props.C10', 'GambitV.C10')
TIE = [('GambitV.Tie.PyFindMatches', 'GambitV.Tie.Py'), ('GambitV.Tie.PyConsensus', 'GambitV.Tie.Py'), ('GambitV.Tie.PyClassify', 'GambitV.Tie.Py'), ('GambitV.Tie.PyPropsC10', 'GambitV.Tie.Py'), ('GambitV.Tie.PyQueryFlow', 'GambitV.Tie.Py'), ('GambitV.Tie.PyAncestors', 'GambitV.Tie.Py'), ('GambitV.Tie.PyClassifyDefaults', 'GambitV.Tie.Py'), ('GambitV.Tie.PyZipStrict', 'GambitV.Tie.Py'), ('GambitV.Tie.PyResultClasses', 'GambitV.Tie.Py')]
RULE = ('consensus_taxon: (forest, ordered list of matched taxa): all forests with <= 4/5 nodes x all non-empty subsets x all orders '
        '[exhaustive]; random forests up to 12 nodes with <= 7 matched taxa x up to 50 random orders, incl. three-level conflicts '
        '{species, its subspecies, sibling species}. classify(strict=True): random forests x genome assignments x tie-heavy float32 rows, '
        'and every permutation of the reference order for small cases. Oracle = GambitV.consensusSpec / othersSpec / strictOk (Lean) on the '
        'real outputs. Non-trivial = distinct case with >= 2 matched taxa not all on one lineage.')
TRUSTED = ['harness/props/c10.py, harness/taxutil.py + Driver/Tax.lean', 'dict preserves insertion order (find_matches)']
ASSUMPTIONS = ['taxonomies are forests']


def _warn_taxa(warnings):
	for w in warnings:
		m = re.match(r'Query matched (\d+) inconsistent taxa: (.*)\. Reporting lowest common ancestor of this set\.', w)
		if m:
			names = [x.strip() for x in m.group(2).split(', ')]
			return [int(x.split(':T')[1]) for x in names], int(m.group(1))
	return [], 0


def check(ctx, case):
	import numpy as np
	from gambit.classify import consensus_taxon, classify
	parent = case['parent']
	n = len(parent)
	thr = case.get('thr', [0.5] * n)
	report = case.get('report', [1] * n)
	taxa = T.build_taxa(parent, thr, report)
	tix = T.idx_of(taxa)
	ti = lambda t: None if t is None else tix.get(id(t), 999999)   # 999999 = an object that does not belong to this taxonomy
	if case['kind'] == 'pyrt':
		import random
		return pyrt_lines(random.Random(0)), []
	if case['kind'] == 'consensus':
		order = case['order']
		thr_s, = T.scale_all(thr)
		ftok = T.forest_token(parent, thr_s, report)
		try:
			cons, others = consensus_taxon([taxa[i] for i in order])
		except Exception as e:
			return [], [f'consensus_taxon raised {exc_kind(e)}: {e}']
		case['_nt'] = len(set(order)) >= 2
		lin = [f'pyrt.lineage {ftok} {order[0]} {nats([ti(a) for a in taxa[order[0]].ancestors(incself=True)])}',
		       f'pyg.ancestors {ftok} {order[0]} 0 {nats([ti(a) for a in taxa[order[0]].ancestors()])}'] if order else []
		return [f'c10.consensus {ftok} {nats(order)} {opt(ti(cons))} {nats(sorted(ti(o) for o in others))}'] + lin, []
	# classify strict
	gtax = case['gtax']
	# distances as the float32 row query() passes, or - legal for the documented Sequence[float] argument - float64 / Python floats
	# (values exactly on a threshold that float32 cannot represent, and their float64 neighbours, included)
	dform = case.get('dform', 'f4')
	dists = np.array(case['dists'], dtype=np.float32) if dform == 'f4' else (np.array(case['dists'], dtype=np.float64) if dform == 'f8' else [float(x) for x in case['dists']])
	thr_s, ds_s = T.scale_all(thr, [float(x) for x in dists])
	ftok = T.forest_token(parent, thr_s, report)
	genomes = T.build_genomes(taxa, gtax)
	gix = T.idx_of(genomes)
	try:
		if case.get('prev_perm') is not None:
			# the same list object was used for an earlier call in another order, then rearranged in place
			inv = case['prev_perm']
			cur = list(genomes)
			genomes[:] = [cur[i] for i in inv]
			classify(genomes, np.array([case['dists'][i] for i in inv], dtype=np.float32 if dform == 'f4' else np.float64), strict=True)
			genomes[:] = cur
		res = classify(genomes, dists, strict=True)
	except Exception as e:
		return [], [f'classify(strict=True) raised {exc_kind(e)}: {e}']
	pf = []
	warn, nwarn = _warn_taxa(res.warnings)
	if nwarn != len(warn):
		pf.append('warning count does not match the taxa named')
	failed = res.error is not None
	if failed and res.success:
		pf.append('error message set but success flag true')
	prim = None if res.primary_match is None else gix[id(res.primary_match.genome)]
	if res.primary_match is not None:
		if float(res.primary_match.distance) != float(dists[prim]):
			pf.append('primary match distance is not that genome\'s distance')
	c = gix[id(res.closest_match.genome)]
	not_closest_warned = any('Primary genome match is not closest match' in w for w in res.warnings)
	if (prim is not None and prim != c) != not_closest_warned:
		pf.append('"primary is not closest" warning inconsistent with the matches reported')
	case['_nt'] = len(warn) >= 2 or failed
	# the dictionary find_matches builds for this row (insertion order = first-match order), next to the model and to the definition
	# generated from the current source (tie T, Driver/PyGen.lean)
	extra = []
	try:
		from gambit.classify import find_matches
		fm = find_matches(zip(genomes, dists))
		tok = ';'.join(f'{ti(t)}:{",".join(str(int(i)) for i in idxs)}' for t, idxs in fm.items()) or '_'
		extra.append(f'pyg.fm {ftok} {nats(gtax)} {nats(ds_s)} {tok}')
	except Exception as e:
		pf.append(f'find_matches raised {exc_kind(e)}: {e}')
	return extra + [f'c10.classify {ftok} {nats(gtax)} {nats(ds_s)} {b01(res.success)} {opt(ti(res.predicted_taxon))} {opt(prim)} {c} '
	        f'{nats(sorted(warn))} {b01(failed)}'], pf


def pyrt_lines(rng, n=40):
	"""the list built-ins of the translator's run-time library (Model/PyRt.lean) against CPython, and Forest.lineage against Taxon.ancestors"""
	lines = []
	for _ in range(n):
		xs = [rng.randrange(6) for _ in range(rng.randrange(0, 7))]
		b = lambda: rng.choice([None, rng.randrange(-9, 10)])
		lo, hi = b(), b()
		lines.append(f'pyrt.slice {nats(xs)} {"~" if lo is None else lo} {"~" if hi is None else hi} {nats(xs[lo:hi])}')
		i = rng.randrange(-9, 10)
		try:
			r = str(xs[i])
		except IndexError:
			r = '~'
		lines.append(f'pyrt.getitem {nats(xs)} {i} {r}')
		a = rng.randrange(6)
		lines.append(f'pyrt.index {nats(xs)} {a} {xs.index(a) if a in xs else "~"}')
		p, q = rng.randrange(-20, 21), rng.choice([-7, -3, -1, 1, 2, 5])
		lines.append(f'pyrt.divmod {p} {q} {p // q},{p % q}')
	return lines


def run(ctx):
	rng = ctx.rng
	ctx.submit({'kind': 'pyrt'}, pyrt_lines(rng), nontrivial=False, tags=['pyrt-builtins'])

	def sub(case, tag):
		lines, pf = safe_check(check, ctx, case)
		nt = case.pop('_nt', False)
		ctx.submit(case, lines, nontrivial=nt, tags=[tag], pyfails=pf)

	# corpus: DESIGN §4.3 witness, forest G -> {S1, S2}, S1 -> SS1 ; matched {S1, SS1, S2} in all six orders
	for order in itertools.permutations([1, 3, 2]):
		sub({'kind': 'consensus', 'parent': [None, 0, 0, 1], 'order': list(order)}, 'corpus-three-level')
	nmax = ctx.q(4, 5)
	for n in range(1, nmax + 1):
		for parent in T.all_forests(n):
			for k in range(1, n + 1):
				for subset in itertools.combinations(range(n), k):
					for order in itertools.permutations(subset):
						sub({'kind': 'consensus', 'parent': parent, 'order': list(order)}, f'exh-n{n}')
	ctx.exhaustive = [f'all forests with <= {nmax} nodes x all non-empty subsets of taxa x all orders']
	for j in range(ctx.q(400, 6000)):
		if not ctx.time_left(0.6):
			break
		n = rng.randint(2, 12)
		parent = T.rand_forest(rng, n, deep=rng.random() < 0.5)
		k = rng.randint(1, min(7, n))
		subset = rng.sample(range(n), k)
		if rng.random() < 0.2:
			subset = subset + [rng.choice(subset)]   # repeated taxon in the input
		for _ in range(ctx.q(8, 50)):
			order = subset[:]
			rng.shuffle(order)
			sub({'kind': 'consensus', 'parent': parent, 'order': order}, 'random-consensus')
	for j in range(ctx.q(1200, 20000)):
		if not ctx.time_left(0.95):
			break
		n = rng.randint(1, 10)
		parent = T.rand_forest(rng, n, deep=rng.random() < 0.4)
		thr = T.rand_thr(rng, n, p_none=rng.choice([0.0, 0.2, 0.5]))
		ng = rng.randint(1, 8)
		gtax = [rng.randrange(n) for _ in range(ng)]
		dists = [float(x) for x in T.rand_dists(rng, ng, tie_heavy=rng.random() < 0.7)]
		base = {'kind': 'classify', 'parent': parent, 'thr': thr, 'gtax': gtax, 'dists': dists}
		sub(dict(base), 'random-classify')
		# every / some permutations of the reference order
		perms = list(itertools.permutations(range(ng))) if ng <= 4 else [rng.sample(range(ng), ng) for _ in range(6)]
		for p in perms[:24]:
			sub({'kind': 'classify', 'parent': parent, 'thr': thr, 'gtax': [gtax[i] for i in p], 'dists': [dists[i] for i in p]}, 'classify-permuted')
		if ng >= 2:
			pp = rng.sample(range(ng), ng)
			sub({'kind': 'classify', 'parent': parent, 'thr': thr, 'gtax': gtax, 'dists': dists, 'prev_perm': pp}, 'classify-list-reused')
		if rng.random() < 0.5:
			# double-precision rows: each distance is a threshold of the forest, its float32 rounding, or a float64 neighbour
			import math
			tv = [t for t in thr if t is not None] or [0.2]
			d64 = []
			for _ in range(ng):
				t = rng.choice(tv + [0.2, 0.1, 0.3, 0.7])
				d64.append(rng.choice([t, t, math.nextafter(t, 2.0), math.nextafter(t, -1.0), float(__import__('numpy').float32(t)), rng.random()]))
			sub({'kind': 'classify', 'parent': parent, 'thr': thr, 'gtax': gtax, 'dists': [min(1.0, max(0.0, x)) for x in d64], 'dform': rng.choice(['f8', 'list'])}, 'classify-float64-rows')
