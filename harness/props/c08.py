"""C08 — query output rows: one per input, in order, correctly labelled, context-free."""
import csv
import io
import json
import os

from core import hx, exc_kind, safe_check
from cliutil import run_cli
from worlds import GenomeWorld
import dbutil

PROPS = ('GambitV.Props.C08', 'GambitV.C08')
# sanity lemmas of the text / path built-ins the translated get_sequence_files / read_lines rest on
PROPS_EXTRA = [('GambitV.Lemmas.PyText', 'GambitV.Py')]
TIE = [('GambitV.Tie.PyLabels', 'GambitV.Tie.Py'), ('GambitV.Tie.PyCalcFiles', 'GambitV.Tie.Py'), ('GambitV.Tie.PyCalcFile', 'GambitV.Tie.Py'), ('GambitV.Tie.PySeqFiles', 'GambitV.Tie.Py'), ('GambitV.Tie.PyIoFlow', 'GambitV.Tie.Py'), ('GambitV.Tie.PyQueryParse', 'GambitV.Tie.Py'), ('GambitV.Tie.PySigClasses', 'GambitV.Tie.Py')]
RULE = ('(batch of query genomes, order, input channel in {positional, list file + --ldir, pre-computed signature file}, gzip twin or not, output format in '
        '{csv, json, archive}, progress on/off, -c in {none,1,2,4}); plus library-level query() with reference chunk sizes 1..n+1. For every genome the row the real '
        'CLI prints for that genome ALONE (positional, same format) is recorded; every batch must print exactly (label_i, that row) in input order. Labels are '
        'derived in Lean (fileLabel / stored ids). Non-trivial = distinct batch with >= 2 genomes whose rows are not all identical.')
TRUSTED = ['harness/props/c08.py, harness/worlds.py + Driver/C08.lean', 'click option parsing, csv/json parsing of the outputs']
ASSUMPTIONS = ['timestamps / paths / version fields of the exports are not part of a row']

_w = None
_single = {}


def world():
	global _w
	if _w is None:
		_w = GenomeWorld(4242, prefix='gv_c08_')
		# the other-compression twin of every genome, same base name
		alt = _w.qdir / 'alt'
		alt.mkdir()
		for g in _w.genomes:
			name = g['name']
			twin = name[:-3] if name.endswith('.gz') else name + '.gz'
			g['alt'] = alt / twin
			dbutil.write_fasta(g['alt'], g['contigs'], gz=twin.endswith('.gz'), width=80)
			g['altrel'] = 'alt/' + twin
	return _w


def strs(l):
	l = list(l)
	return ';'.join(hx(str(x).encode('utf-8')) for x in l) if l else '_'


def parse_output(fmt, text):
	"""-> list of (label, canonical content string)"""
	if fmt == 'csv':
		rows = list(csv.reader(io.StringIO(text, newline='')))
		return [(r[0], json.dumps(r[1:])) for r in rows[1:]], rows[0]
	data = json.loads(text)
	out = []
	for it in data['items']:
		if fmt == 'json':
			out.append((it['query']['name'], json.dumps({k: it[k] for k in ('predicted_taxon', 'next_taxon', 'closest_genomes')}, sort_keys=True)))
		else:
			out.append((it['input']['label'], json.dumps({k: it[k] for k in ('classifier_result', 'report_taxon', 'closest_genomes')}, sort_keys=True)))
	return out, None


def run_query(w, fmt, extra, cwd=None, db=None):
	out = w.sc.path(suffix='.' + fmt)
	code, so, se, exc = run_cli(['-d', db or w.dbdir, 'query', '-o', out, '-f', fmt] + extra, cwd=cwd)
	if code != 0 or not out.exists():
		raise RuntimeError(f'gambit query failed: exit {code} {se[-300:]} {exc!r}')
	text = out.read_text()
	out.unlink()
	return parse_output(fmt, text)


def single_row(w, gi, fmt, db=None, namesake=False):
	"""the row the real CLI prints for that genome alone (positional, plain file) against that database"""
	key = (gi, fmt, str(db), namesake)
	if key not in _single:
		g = w.genomes[gi]['namesake'] if namesake else w.genomes[gi]
		rows, _ = run_query(w, fmt, ['--no-progress', g['path']], db=db)
		assert len(rows) == 1
		_single[key] = rows[0][1]
	return _single[key]


def check(ctx, case):
	import numpy as np
	w = world()
	fmt = case['fmt']
	gs = case['g']
	if case['kind'] == 'seqfiles':
		from gambit.cli.common import get_sequence_files
		pos = case['pos']
		lines = case['lines']
		lf = None
		if lines is not None:
			lf = w.sc.path('sf.txt')
			lf.write_text(''.join(l + '\n' for l in lines))
		ids, files = get_sequence_files(pos, lf, 'D')
		real = '~' if ids is None else ';'.join(f'{i}|{f.path}' for i, f in zip(ids, files))
		# plain forms: the coarse model C08's theorems are about (path text kept as it is); awkward forms: only the model with pathlib's normal form
		out = [f'c08.seqfiles {strs(pos)} {"~" if lines is None else strs(lines)} {hx(real.encode())}'] if case.get('ldir') is None else []
		# three-way: get_sequence_files / read_lines / get_file_id generated from the current source, on the same positional paths and on
		# the lines iterating over the real list file yields (awkward path forms included: the generated code carries pathlib's normal form)
		for ldir in ([case['ldir']] if case.get('ldir') is not None else ['D']):
			ids2, files2 = get_sequence_files(pos, lf, ldir)
			real2 = '~' if ids2 is None else ';'.join(f'{i}|{f.path}' for i, f in zip(ids2, files2))
			flines = None if lf is None else list(open(lf, encoding='utf-8'))
			out.append(f'c08.seqfilesp {strs(pos)} {"~" if flines is None else strs(flines)} {hx(ldir.encode())} {hx(real2.encode())}')
			out.append(f'pyg.seqfiles {strs(pos)} {"~" if flines is None else strs(flines)} {hx(ldir.encode())} {hx(real2.encode())}')
		return out, []
	if case['kind'] == 'pathrt':
		# the text / path built-ins of the run-time library against CPython and pathlib
		from pathlib import Path
		out = []
		for t in case['texts']:
			out.append(f'pyrt.strip {hx(t.encode())} {hx(t.strip().encode())}')
			out.append(f'pyrt.rstripnl {hx(t.encode())} {hx(t.rstrip(chr(10)).encode())}')
		for a in case['paths']:
			out.append(f'pyrt.pathstr {hx(a.encode())} {hx(str(Path(a)).encode())}')
			for b in case['paths']:
				out.append(f'pyrt.pathjoin {hx(a.encode())} {hx(b.encode())} {hx(str(Path(a) / b).encode())}')
		return out, []
	if case['kind'] == 'replace':
		# the SAME path queried twice in one process; in between its content is replaced by another genome of the same byte size,
		# modification time preserved: the second row is the new genome's row
		import os
		ga, gb = w.genomes[gs[0]], w.genomes[gs[1]]
		sa, sb = b''.join(ga['contigs']), b''.join(gb['contigs'])
		m = min(len(sa), len(sb))
		sa, sb = sa[:m], sb[:m]
		d1, d2, d3 = w.sc.subdir(), w.sc.subdir(), w.sc.subdir()
		name = case.get('name', 'sample.fasta')
		P, PA, PB = d1 / name, d2 / name, d3 / name
		dbutil.write_fasta(PA, [sa]); dbutil.write_fasta(PB, [sb])
		expA, _ = run_query(w, fmt, ['--no-progress', PA])
		expB, _ = run_query(w, fmt, ['--no-progress', PB])
		dbutil.write_fasta(P, [sa])
		st = os.stat(P)
		rowsA, _ = run_query(w, fmt, ['--no-progress', P])
		dbutil.write_fasta(P, [sb])
		if case.get('keep_mtime', True):
			os.utime(P, ns=(st.st_atime_ns, st.st_mtime_ns))
		rowsB, _ = run_query(w, fmt, ['--no-progress', P] + (['-c', case['cores']] if case.get('cores') else []))
		case['_nt'] = expA[0][1] != expB[0][1]
		return [f'c08.rows p {strs([str(P)])} {strs([expA[0][1]])} {strs(r[0] for r in rowsA)} {strs(r[1] for r in rowsA)}',
		        f'c08.rows p {strs([str(P)])} {strs([expB[0][1]])} {strs(r[0] for r in rowsB)} {strs(r[1] for r in rowsB)}'], []
	db = w.dbdir2 if case.get('db2') else None
	nsk = case.get('namesake', [False] * len(gs))
	singles = [single_row(w, gi, fmt, db=db, namesake=ns) for gi, ns in zip(gs, nsk)]
	if case['kind'] == 'lib':
		from gambit.db import ReferenceDatabase
		from gambit.query import query, QueryParams, QueryInput
		from gambit.results import CSVResultsExporter
		db = ReferenceDatabase.load_from_dir(w.dbdir)
		try:
			sigs = [w.sig_of(w.genomes[gi]) for gi in gs]
			res = query(db, sigs, QueryParams(chunksize=case['chunk']), inputs=[QueryInput(f'L{i}') for i in range(len(gs))])
			ex = CSVResultsExporter()
			buf = io.StringIO()
			ex.export(buf, res)
			rows, _ = parse_output('csv', buf.getvalue())
		finally:
			db.signatures.close(); db.session.close()
		labels = [f'L{i}' for i in range(len(gs))]
		case['_nt'] = len(gs) >= 2 and len(set(singles)) > 1
		return [f'c08.rows s {strs(labels)} {strs(singles)} {strs(r[0] for r in rows)} {strs(r[1] for r in rows)}'], []
	extra = ['--progress' if case.get('progress') else '--no-progress']
	if case.get('cores'):
		extra += ['-c', case['cores']]
	chan = case['chan']
	use_alt = case.get('alt', [False] * len(gs))
	if chan == 'pos':
		paths = []
		for gi, a, ns in zip(gs, use_alt, nsk):
			g = w.genomes[gi]
			if ns:
				paths.append(str(g['namesake']['path']))       # a different genome under the same file name (same label)
			elif a == 'ln':
				paths.append(str(g['link']))                   # the genome through a symbolic link with another base name
			elif a == 'mm':
				paths.append(str(w.multi_member_gz(g)))        # the same genome as a multi-member gzip file
			else:
				paths.append(str(g['alt'] if a else g['path']))
		extra += paths
		kind, srcs = 'p', paths
	elif chan == 'list':
		rels = [(w.genomes[gi]['altrel'] if a else w.genomes[gi]['rel']) for gi, a in zip(gs, use_alt)]
		lf = w.sc.path('ql.txt')
		text = ''.join(r + '\n' + ('\n' if case.get('blank') else '') for r in rels)
		if case.get('comment') is not None:
			# a line starting with '#': no such file - the command may refuse the list; if it treats the line as a comment instead,
			# the rows must still be the genome lines' rows, in order, under their own labels
			ls = text.split('\n')
			ls.insert(min(case['comment'], len(ls) - 1), '# genomes of batch 7')
			text = '\n'.join(ls)
		lf.write_text(text)
		extra += ['-l', lf, '--ldir', w.qdir]
		kind, srcs = 'l', rels
	else:
		p, ids = w.sigfile([w.genomes[gi] for gi in gs], ids=[f'sig {i}:{w.genomes[gi]["name"]}' for i, gi in enumerate(gs)])
		extra += ['-s', p]
		kind, srcs = 's', ids
	try:
		rows, header = run_query(w, fmt, extra, cwd=(w.decoy_cwd if case.get('decoy_cwd') else None), db=db)
	except RuntimeError:
		if chan == 'list' and case.get('comment') is not None:
			case['_nt'] = False
			return [], []        # refused: the list names a file that does not exist
		raise
	case['_nt'] = len(gs) >= 2 and len(set(singles)) > 1
	return [f'c08.rows {kind} {strs(srcs)} {strs(singles)} {strs(r[0] for r in rows)} {strs(r[1] for r in rows)}'], []


def run(ctx):
	rng = ctx.rng
	global _w

	def sub(case, tag):
		lines, pf = safe_check(check, ctx, case)
		nt = case.pop('_nt', False)
		ctx.submit(case, lines, nontrivial=nt, tags=[tag, f'chan={case.get("chan")}', f'fmt={case.get("fmt")}', f'cores={case.get("cores")}'], pyfails=pf)

	try:
		w = world()
		n = len(w.genomes)
		for pos, lines in [([], None), (['a/b.fasta', 'c.fa.gz'], None), ([], ['x.fna', '', 'sub/y.fasta.gz', '']), (['p.fa'], ['ignored.fa']), ([], [])]:
			sub({'kind': 'seqfiles', 'pos': pos, 'lines': lines, 'fmt': 'csv', 'g': []}, 'seqfiles')
		# awkward path forms: only through the library function (the command line rejects directories); labels and paths to open must be
		# what the generated code says
		awk = ['a//b.fa', './c.fna', 'd/./e.fasta', '//root/x.fa', '///r3/y.fa.gz', 'sp ace/f g.fa', 'ü/é.fasta', 'x.fa/', 'a/../b.fa', '/abs/z.fa', '.hidden.fa', 'a.b/c.d.fa.gz']
		for j in range(ctx.q(40, 400)):
			names = [rng.choice(awk) for _ in range(rng.randint(1, 3))]
			ldir = rng.choice(['D', 'D/', './D', '/abs/dir', '', 'a//b', '.'])
			if rng.random() < 0.5:
				sub({'kind': 'seqfiles', 'pos': names, 'lines': None, 'ldir': ldir, 'fmt': 'csv', 'g': []}, 'seqfiles-awkward')
			else:
				ws = rng.choice(['', ' ', '\t', '  ', '\u00a0', '\u2003', '\x0c'])
				sub({'kind': 'seqfiles', 'pos': [], 'lines': [ws + n_ + rng.choice(['', ' ', '\r', '\t ']) for n_ in names] + rng.choice([[], [''], ['   '], ['\u3000']]),
				     'ldir': ldir, 'fmt': 'csv', 'g': []}, 'seqfiles-awkward')
		texts = ['', ' ', 'a', ' a ', '\ta b\n', '\n', 'x\n\n', '\x0b\x0cq\x1c\x1d\x1e\x1f', '\x85n\xa0', '\u1680o\u2000\u200a', '\u2028p\u2029\u202f\u205f\u3000', '\u200bzero-width\u200b', '\ufeffbom', 'é ', '\x00 z']
		paths = ['', '.', '/', '//', '///', 'a', 'a/', 'a//b', './a', 'a/./b', 'a/..', '../a', '/a/b/', '//a//b', '///a', 'a b/ c', './', '././.', 'é/ü', '.a', 'a.', '..', 'a/.']
		sub({'kind': 'pathrt', 'texts': texts, 'paths': paths, 'fmt': 'csv', 'g': []}, 'pyrt-text-paths')
		for j in range(ctx.q(20, 200)):
			al = 'ab./ '
			sub({'kind': 'pathrt', 'texts': [''.join(rng.choice(' \t\na\u00a0\u2003b') for _ in range(rng.randint(0, 6))) for _ in range(4)],
			     'paths': [''.join(rng.choice(al) for _ in range(rng.randint(0, 7))) for _ in range(4)], 'fmt': 'csv', 'g': []}, 'pyrt-text-paths')
		alpha = 'afstnqgz._-AF1'
		exts = ['.fasta', '.fna', '.ffn', '.faa', '.frn', '.fa', '.gz', '.fastq', 'fa', 'fasta', '_fa', '.f', '']
		for j in range(ctx.q(300, 5000)):
			# file names only: a final component '.' / '..' (or all dots) denotes a directory, which pathlib would normalise away and the CLI rejects
			mk = lambda: rng.choice('afstnqgz_-AF1') + ''.join(rng.choice(alpha) for _ in range(rng.randint(0, 6))) + (rng.choice(exts[:6]) if rng.random() < 0.35 else '') + rng.choice(exts) + rng.choice(['', '', '.gz', 'gz'])
			names = [rng.choice(['', 'd/', 'a.b/c/']) + mk() for _ in range(rng.randint(1, 3))]
			if rng.random() < 0.5:
				sub({'kind': 'seqfiles', 'pos': names, 'lines': None, 'fmt': 'csv', 'g': []}, 'seqfiles-random')
			else:
				sub({'kind': 'seqfiles', 'pos': [], 'lines': names + ([''] if rng.random() < 0.3 else []), 'fmt': 'csv', 'g': []}, 'seqfiles-random')
		for j in range(ctx.q(110, 600)):
			if not ctx.time_left(0.85):
				break
			k = rng.choice([1, 2, 3, 5, min(8, n)])
			g = [rng.randrange(n) for _ in range(k)] if rng.random() < 0.3 else rng.sample(range(n), min(k, n))
			fmt = rng.choice(['csv', 'csv', 'json', 'archive'])
			chan = rng.choice(['pos', 'pos', 'list', 'sigs'])
			nsk = [False] * len(g)
			alt = [rng.random() < 0.4 for _ in g]
			if chan == 'pos':
				alt = [('mm' if rng.random() < 0.15 else ('ln' if rng.random() < 0.15 else a)) for a in alt]
				if rng.random() < 0.4:
					# the genome and its namesake (same label, different content) in one batch, in either order
					i = rng.randrange(len(g))
					g = g[:i + 1] + [g[i]] + g[i + 1:]
					alt = alt[:i + 1] + [False] + alt[i + 1:]
					nsk = nsk[:i + 1] + [True] + nsk[i + 1:]
					if rng.random() < 0.5:
						nsk[i], nsk[i + 1] = nsk[i + 1], nsk[i]
			sub({'kind': 'cli', 'g': g, 'fmt': fmt, 'chan': chan, 'alt': alt, 'namesake': nsk, 'db2': rng.random() < 0.4, 'progress': rng.random() < 0.4,
			     'cores': rng.choice([None, None, 1, 2, 4]) if chan != 'sigs' else rng.choice([None, 2]), 'blank': rng.random() < 0.3,
			     'decoy_cwd': rng.random() < 0.5, 'comment': (rng.randint(0, len(g)) if (chan == 'list' and rng.random() < 0.3) else None)}, 'cli')
			if j % 5 == 0:
				a, b = rng.sample(range(n), 2)
				sub({'kind': 'replace', 'g': [a, b], 'fmt': rng.choice(['csv', 'json']), 'name': rng.choice(['sample.fasta', 'x.fa', 'genome 1.fna']),
				     'keep_mtime': rng.random() < 0.8, 'cores': rng.choice([None, 1, 2])}, 'same-path-replaced')
		for j in range(ctx.q(40, 300)):
			if not ctx.time_left(0.95):
				break
			g = rng.sample(range(n), rng.randint(1, min(6, n)))
			sub({'kind': 'lib', 'g': g, 'fmt': 'csv', 'chunk': rng.choice([1, 2, 3, 5, 8, 9, 1000, None])}, 'lib-chunks')
	finally:
		if _w is not None:
			_w.cleanup()
			_w = None
		_single.clear()
