"""C09 — the closest-genomes list is the deterministic (distance, reference order) prefix."""
import os
import subprocess
import sys
import json

from core import nats, opt, exc_kind, REPO, safe_check
import taxutil as T

PROPS = ('GambitV.Props.C09', 'GambitV.C09')
TIE = [('GambitV.Tie.PyClassify', 'GambitV.Tie.Py'), ('GambitV.Tie.PyResultItem', 'GambitV.Tie.Py'), ('GambitV.Tie.PyPropsC09', 'GambitV.Tie.Py'), ('GambitV.Tie.PyQueryFlow', 'GambitV.Tie.Py'), ('GambitV.Tie.PyClassifyDefaults', 'GambitV.Tie.Py'), ('GambitV.Tie.PyResultClasses', 'GambitV.Tie.Py')]
RULE = ('(float32 distance row, N = report_closest). Tie-heavy rows (1..4 distinct values, identical references), n in 1..3000, N in 1..n+3; '
        'rows of all-equal distances; random rows. Oracle = GambitV.closestOk (the list is the min(N,n)-prefix of the unique '
        '(distance, index)-sorted order) evaluated in Lean on the real closest_genomes list, its head = the real closest_match; each entry '
        'carries its exact distance and the taxon that distance alone assigns. thorough: subprocess runs under NPY_DISABLE_CPU_FEATURES '
        'settings must give identical lists. Also query() itself on scratch databases (reference i = {i}): one QueryParams object used for a small database and then a '
        'larger one, several queries per call in different integer widths incl. signatures whose bytes coincide. Non-trivial = distinct row with a tie among the first N+1 entries.')
TRUSTED = ['harness/props/c09.py + Driver/Tax.lean', 'np.argsort(kind="stable") is a stable sort (the list is checked against the Lean spec on every case)']
ASSUMPTIONS = []


def real_item(dists, N, gtax=None, forest=None, strict=False):
	import numpy as np
	from gambit.query import get_result_item, QueryParams, QueryInput
	n = len(dists)
	if forest is None:
		parent, thr, report = [None], [0.5], [1]
		gtax = [0] * n
	else:
		parent, thr, report = forest
	taxa = T.build_taxa(parent, thr, report)
	genomes = T.build_genomes(taxa, gtax)
	item = get_result_item(T.fake_db(genomes), QueryParams(report_closest=N, classify_strict=strict), np.array(dists, dtype=np.float32), QueryInput('q'))
	return item, taxa, genomes


def check_through_query(ctx, case):
	"""gambit.query.query() on real databases whose reference i is the signature {i}: one QueryParams object used for a small database
	first and a larger one next, several queries per call held in different integer widths (incl. signatures whose bytes coincide)"""
	import numpy as np
	import dbutil
	from gambit import metric
	from gambit.kmers import KmerSpec
	from gambit.db import ReferenceDatabase
	from gambit.query import query, QueryParams
	sc = dbutil.Scratch('gv_c09_')
	dbs = []
	try:
		lines, pf = [], []
		N = case['N']
		params = QueryParams(report_closest=N, classify_strict=bool(case.get('strict')), chunksize=case.get('chunk', 1000))
		for n in case['sizes']:
			d = sc.subdir()
			dbutil.build_refdb(d, taxa=[{'name': 'root', 'key': 'root', 'parent': None, 'thr': 0.9, 'report': True}], genomes=[{'key': f'g{i}', 'taxon': 0} for i in range(n)],
			                   kspec=KmerSpec(11, 'ATGAC'), sigs=[[i] for i in range(n)])
			db = ReferenceDatabase.load_from_dir(d)
			dbs.append(db)
			qs = [np.array(v, dtype=dt) for v, dt in case['queries']]
			res = query(db, qs, params if case.get('reuse_params') else QueryParams(report_closest=N, classify_strict=bool(case.get('strict')), chunksize=case.get('chunk', 1000)))
			if len(res.items) != len(qs):
				pf.append('number of result items differs from the number of queries')
			keyix = {g.key: i for i, g in enumerate(db.genomes)}
			for q, item in zip(qs, res.items):
				row = np.array([metric.jaccarddist(q, np.array([i], dtype='u4')) for i in range(n)], dtype=np.float32)
				lst = [keyix[m.genome.key] for m in item.closest_genomes]
				for m, i in zip(item.closest_genomes, lst):
					if np.float32(m.distance).view(np.uint32) != row[i].view(np.uint32):
						pf.append(f'entry for genome {i} carries distance {m.distance}, the real distance is {row[i]}')
				(ds_s,) = T.scale_all([float(x) for x in row])
				cm = keyix[item.classifier_result.closest_match.genome.key]
				lines.append(f'c09.closest {nats(ds_s)} {N} {nats(lst)} {cm}')
		case['_nt'] = len(case['sizes']) > 1 or len(case['queries']) > 1
		return lines, pf
	finally:
		for db in dbs:
			try:
				db.signatures.close(); db.session.close()
			except Exception:
				pass
		sc.cleanup()


def check(ctx, case):
	import numpy as np
	from gambit.classify import matching_taxon
	if case.get('kind') == 'through-query':
		return check_through_query(ctx, case)
	dists = np.array(case['dists'], dtype=np.float32)
	N = case['N']
	forest = None
	if 'parent' in case:
		forest = (case['parent'], case['thr'], case['report'])
	try:
		item, taxa, genomes = real_item(dists, N, case.get('gtax'), forest, strict=bool(case.get('strict')))
	except Exception as e:
		return [], [f'get_result_item raised {exc_kind(e)}: {e}']
	gix = T.idx_of(genomes)
	tix = T.idx_of(taxa)
	lst = [gix[id(m.genome)] for m in item.closest_genomes]
	pf = []
	for m, i in zip(item.closest_genomes, lst):
		if np.float32(m.distance).view(np.uint32) != dists[i].view(np.uint32):
			pf.append(f'entry for genome {i} carries distance {m.distance}, row has {dists[i]}')
	(ds_s,) = T.scale_all([float(x) for x in dists])
	cm = gix[id(item.classifier_result.closest_match.genome)]
	lines = [f'c09.closest {nats(ds_s)} {N} {nats(lst)} {cm}']
	if forest is not None:
		thr_s, ds2 = T.scale_all(case['thr'], [float(x) for x in dists])
		ftok = T.forest_token(case['parent'], thr_s, case['report'])
		for m, i in list(zip(item.closest_genomes, lst))[:5]:
			mt = None if m.matched_taxon is None else tix.get(id(m.matched_taxon), 999999)   # 999999: an object of another taxonomy
			lines.append(f'c03.match {ftok} {case["gtax"][i]} {ds2[i]} {opt(mt)}')
	if case.get('export'):
		# the exported CSV and JSON must name the same closest genome, and the JSON list must be the in-memory list
		import io, json, csv as _csv
		from gambit.query import QueryResults, QueryParams
		from gambit.results import CSVResultsExporter, JSONResultsExporter
		res = QueryResults(items=[item], params=QueryParams(report_closest=N))
		b1, b2 = io.StringIO(newline=''), io.StringIO()
		try:
			CSVResultsExporter().export(b1, res)
			JSONResultsExporter().export(b2, res)
			row = list(_csv.reader(io.StringIO(b1.getvalue(), newline='')))[1]
			jitem = json.loads(b2.getvalue())['items'][0]
			jkeys = [m['genome']['key'] for m in jitem['closest_genomes']]
			jl = [int(k[1:]) for k in jkeys]
			lines.append(f'c09.closest {nats(ds_s)} {N} {nats(jl)} {cm}')
			if jitem['closest_genomes'] and row[6] != jitem['closest_genomes'][0]['genome']['description']:
				pf.append(f'CSV closest.description {row[6]!r} != JSON closest_genomes[0] {jitem["closest_genomes"][0]["genome"]["description"]!r}')
		except Exception as e:
			pf.append(f'export failed: {exc_kind(e)}: {e}')
	k = min(N + 1, len(dists))
	srt = sorted(float(x) for x in dists)[:k]
	case['_nt'] = len(set(srt)) < len(srt)
	return lines, pf


def run(ctx):
	rng = ctx.rng

	def sub(case, tag):
		lines, pf = safe_check(check, ctx, case)
		nt = case.pop('_nt', False)
		ctx.submit(case, lines, nontrivial=nt, tags=[tag], pyfails=pf)

	# corpus: DESIGN §4.1 witness shape (5-element rows drawn from {0,.25,.5,1})
	for row in ([0.5, 0.25, 0.0, 0.0, 1.0], [1.0, 0.5, 0.25, 0.25, 0.25], [0.0] * 5, [0.25, 0.25, 0.0, 0.0, 0.0], [0.5, 0.5, 0.5, 0.25, 0.25, 0.25, 0.0, 0.0]):
		for N in (1, 2, 3, 10):
			sub({'dists': row, 'N': N}, 'corpus')
			sub({'dists': row, 'N': N, 'strict': True, 'export': True}, 'corpus')
	for j in range(ctx.q(3000, 40000)):
		if not ctx.time_left(0.8):
			break
		r = rng.random()
		n = rng.randint(1, 12) if r < 0.5 else (rng.randint(1, 80) if r < 0.93 else rng.randint(100, ctx.q(250, 400)))
		pool = rng.sample(T.DIST_VALUES, rng.randint(1, 4))
		dists = [rng.choice(pool) for _ in range(n)] if rng.random() < 0.8 else [rng.random() for _ in range(n)]
		N = rng.choice([1, 2, 3, 5, 10, n, n + 1, n + 3, max(1, n - 1)])
		case = {'dists': dists, 'N': N, 'strict': rng.random() < 0.35, 'export': rng.random() < 0.35 and n <= 60}
		if (rng.random() < 0.3 or case['strict']) and n <= 80:
			nt = rng.randint(1, 8)
			case.update(parent=T.rand_forest(rng, nt), thr=T.rand_thr(rng, nt), report=[1] * nt, gtax=[rng.randrange(nt) for _ in range(n)])
		sub(case, 'random')
	for j in range(ctx.q(30, 300)):
		if not ctx.time_left(0.95):
			break
		sizes = [rng.randint(1, 6), rng.randint(4, 12)] if rng.random() < 0.7 else [rng.randint(1, 12)]
		if rng.random() < 0.3:
			sizes = sizes[::-1]
		queries = []
		for _ in range(rng.randint(1, 4)):
			r = rng.random()
			if r < 0.4:
				a, b = sorted(rng.sample(range(0, 12), 2))
				queries.append([[a, b], 'u2']); queries.append([[a + b * 65536], 'u4'])        # same bytes, different signatures
			else:
				queries.append([sorted(rng.sample(range(0, 14), rng.randint(0, 5))), rng.choice(['u2', 'u4', 'u8', 'i8'])])
		rng.shuffle(queries)
		N = rng.choice([1, 2, 3, 5, 10])
		reuse = rng.random() < 0.7
		if j % 3 == 0:
			sizes, N, reuse = [rng.randint(1, 4), rng.randint(6, 12)], rng.choice([5, 8, 10]), True      # fewer references than N first, more next
		sub({'kind': 'through-query', 'sizes': sizes, 'N': N, 'queries': queries, 'reuse_params': reuse,
		     'strict': rng.random() < 0.3, 'chunk': rng.choice([1000, 1, 3, None])}, 'through-query')
	if ctx.tier == 'thorough':
		_cpu_dispatch_stream(ctx)


_SUB = r'''
import sys, json
sys.path.insert(0, sys.argv[1]); sys.path.insert(0, sys.argv[2] + '/src')
import numpy as np
from props.c09 import real_item
import taxutil as T
rows = json.load(sys.stdin)
out = []
for dists, N in rows:
    item, taxa, genomes = real_item(dists, N)
    gix = T.idx_of(genomes)
    out.append([gix[id(m.genome)] for m in item.closest_genomes])
print(json.dumps(out))
'''


def _cpu_dispatch_stream(ctx):
	"""identical lists whatever CPU features NumPy dispatches on (subprocess per setting)"""
	rng = ctx.rng
	rows = []
	for _ in range(300):
		n = rng.choice([5, 8, 16, 17, 33, 64, 100, 257])
		pool = rng.sample(T.DIST_VALUES, rng.randint(1, 3))
		rows.append(([rng.choice(pool) for _ in range(n)], rng.choice([1, 3, 10, n])))
	here = os.path.dirname(os.path.dirname(os.path.abspath(__file__)))
	results = {}
	for feat in ['', 'AVX512F AVX512CD AVX512_SKX AVX512_CLX AVX512_CNL AVX512_ICL AVX512_SPR', 'AVX512F AVX512CD AVX512_SKX AVX512_CLX AVX512_CNL AVX512_ICL AVX512_SPR AVX2 FMA3']:
		env = dict(os.environ)
		if feat:
			env['NPY_DISABLE_CPU_FEATURES'] = feat
		r = subprocess.run([sys.executable, '-c', _SUB, here, str(REPO)], input=json.dumps(rows), capture_output=True, text=True, env=env)
		if r.returncode != 0:
			ctx.notes.append(f'cpu-dispatch subprocess failed for {feat!r}: {r.stderr[-300:]}')
			continue
		results[feat] = json.loads(r.stdout.strip().splitlines()[-1])
	base = results.get('')
	for feat, res in results.items():
		for (dists, N), lst in zip(rows, res):
			(ds_s,) = T.scale_all(dists)
			import numpy as np
			(ds_s,) = T.scale_all([float(x) for x in np.array(dists, dtype=np.float32)])
			pf = []
			ctx.submit({'dists': dists, 'N': N, 'cpu_features_disabled': feat}, [f'c09.closest {nats(ds_s)} {N} {nats(lst)} {lst[0] if lst else 0}'],
			           nontrivial=True, tags=['cpu-dispatch'], pyfails=pf)
