"""C03 — default classification follows the closest genome's lineage and thresholds."""
import itertools

from core import nats, opt, exc_kind, safe_check
import taxutil as T

PROPS = ('GambitV.Props.C03', 'GambitV.C03')
TIE = [('GambitV.Tie.PyMatching', 'GambitV.Tie.Py'), ('GambitV.Tie.PyNext', 'GambitV.Tie.Py'), ('GambitV.Tie.PyReportable', 'GambitV.Tie.Py'), ('GambitV.Tie.PyClassify', 'GambitV.Tie.Py'), ('GambitV.Tie.PyResultItem', 'GambitV.Tie.Py'), ('GambitV.Tie.PyPropsC03', 'GambitV.Tie.Py'), ('GambitV.Tie.PyQueryFlow', 'GambitV.Tie.Py'), ('GambitV.Tie.PyAncestors', 'GambitV.Tie.Py'), ('GambitV.Tie.PyClassifyDefaults', 'GambitV.Tie.Py'), ('GambitV.Tie.PyZipStrict', 'GambitV.Tie.Py'), ('GambitV.Tie.PyResultClasses', 'GambitV.Tie.Py')]
RULE = ('(forest, thresholds, report flags, genome->taxon assignment, float32 distance vector). Exhaustive: all forests with <= 3/4 nodes x '
        'threshold patterns over {none, .2, .5} x one genome per node x distances on both sides of / equal to each threshold; random: forests '
        'up to 12 nodes (deep chains, several roots, non-monotone thresholds, unreportable taxa, genomes on internal nodes), tie-heavy '
        'distance rows incl. values one float32 ulp around a threshold. Oracle = GambitV.defaultOk (Lean relation) on the real result of '
        'get_result_item / classify. Non-trivial = distinct case with a prediction that is not the genome\'s own taxon, or a next taxon.')
TRUSTED = ['harness/props/c03.py, harness/taxutil.py + Driver/Tax.lean', 'np.float32 <= float compares exactly (binary64)', 'np.argmin returns the first minimum']
ASSUMPTIONS = ['taxonomies are forests (acyclic parent pointers)']


def check(ctx, case):
	import numpy as np
	from gambit.classify import classify, matching_taxon, GenomeMatch
	from gambit.query import get_result_item, QueryParams, QueryInput
	from gambit.db import reportable_taxon
	parent, thr, report, gtax = case['parent'], case['thr'], case['report'], case['gtax']
	dists = np.array(case['dists'], dtype=np.float32)
	thr_s, ds_s = T.scale_all(thr, [float(x) for x in dists])
	ftok = T.forest_token(parent, thr_s, report)
	sc = db = None
	if case.get('via') in ('db', 'query'):
		# persisted objects: a scratch database built with the repo's models, loaded through ReferenceDatabase
		import dbutil
		from gambit.kmers import KmerSpec
		from gambit.db import ReferenceDatabase
		sc = dbutil.Scratch('gv_c03_')
		tspec = [{'name': f'T{i}', 'key': f'T{i}', 'parent': p, 'thr': thr[i], 'report': bool(report[i])} for i, p in enumerate(parent)]
		gspec = [{'key': f'g{i}', 'taxon': t} for i, t in enumerate(gtax)]
		dbutil.build_refdb(sc.dir, taxa=tspec, genomes=gspec, kspec=KmerSpec(5, 'AT'), sigs=[[i] for i in range(len(gtax))])
		db = ReferenceDatabase.load_from_dir(sc.dir)
		genomes = list(db.genomes)
		assert [g.key for g in genomes] == [f'g{i}' for i in range(len(gtax))]
		byname = {t.name: t for t in db.genomeset.taxa}
		taxa = [byname[f'T{i}'] for i in range(len(parent))]
		if case.get('via') == 'query':
			# the whole pipeline: gambit.query.query() on a real signature; the distance row is the real one (reference i = {i}),
			# and other query() calls (strict, by keyword or by a parameter object; another report_closest) were made before it
			from gambit import metric
			from gambit.query import query, QueryParams
			qsig = np.array(case['qsig'], dtype=db.signatures.dtype)
			dists = np.array([metric.jaccarddist(qsig, np.array([i], dtype=qsig.dtype)) for i in range(len(gtax))], dtype=np.float32)
			thr_s, ds_s = T.scale_all(thr, [float(x) for x in dists])
			ftok = T.forest_token(parent, thr_s, report)
			for prior in case.get('prior', []):
				if prior == 'strict-kwargs':
					query(db, [qsig], classify_strict=True)
				elif prior == 'strict-params':
					query(db, [qsig], QueryParams(classify_strict=True, report_closest=1))
				elif prior == 'closest-kwargs':
					query(db, [qsig], report_closest=1, chunksize=1)
			case['_item'] = query(db, [qsig] * case.get('nq', 1)).items[-1]
	else:
		taxa = T.build_taxa(parent, thr, report)
		genomes = T.build_genomes(taxa, gtax)
	tix = T.idx_of(taxa)
	gix = T.idx_of(genomes)
	ti = lambda t: None if t is None else tix.get(id(t), 999999)   # 999999 = an object that does not belong to this taxonomy
	lines, pf = [], []
	try:
		lines, pf = _check_with(ctx, case, taxa, genomes, tix, gix, ti, dists, ftok, gtax, ds_s, db)
		if db is not None and case.get('thr2') is not None:
			# the same database object queried again after its thresholds / report flags were edited in the session
			nt = case.get('_nt')
			for t, th, rp in zip(taxa, case['thr2'], case['report2']):
				t.distance_threshold = th
				t.report = bool(rp)
			dists2 = np.array(case['dists2'], dtype=np.float32)
			thr2_s, ds2_s = T.scale_all(case['thr2'], [float(x) for x in dists2])
			ftok2 = T.forest_token(parent, thr2_s, case['report2'])
			l2, pf2 = _check_with(ctx, case, taxa, genomes, tix, gix, ti, dists2, ftok2, gtax, ds2_s, db)
			lines += l2; pf += pf2
			case['_nt'] = nt or case.get('_nt')
		return lines, pf
	finally:
		if db is not None:
			db.signatures.close(); db.session.close()
		if sc is not None:
			sc.cleanup()


def _check_with(ctx, case, taxa, genomes, tix, gix, ti, dists, ftok, gtax, ds_s, db):
	import numpy as np
	from gambit.classify import classify, matching_taxon, GenomeMatch
	from gambit.query import get_result_item, QueryParams, QueryInput
	from gambit.db import reportable_taxon
	lines, pf = [], []
	try:
		if case.get('_item') is not None:
			item = case.pop('_item')
			res, rep = item.classifier_result, item.report_taxon
		elif db is not None:
			item = get_result_item(db, QueryParams(), dists, QueryInput('q'))
			res, rep = item.classifier_result, item.report_taxon
		elif case.get('via') == 'classify':
			res = classify(genomes, dists, strict=False)
			rep = reportable_taxon(res.predicted_taxon)
		else:
			item = get_result_item(T.fake_db(genomes), QueryParams(), dists, QueryInput('q'))
			res, rep = item.classifier_result, item.report_taxon
	except Exception as e:
		return [], [f'classification raised {exc_kind(e)}: {e}']
	if not res.success or res.error is not None or res.warnings:
		pf.append('default mode reported failure/warnings')
	c = gix[id(res.closest_match.genome)]
	if float(res.closest_match.distance) != float(dists[c]):
		pf.append('closest match distance is not the distance of that genome')
	if res.closest_match.matched_taxon is not res.predicted_taxon:
		pf.append('closest match taxon differs from the prediction')
	prim = None if res.primary_match is None else gix[id(res.primary_match.genome)]
	lines.append(f'c03.classify {ftok} {nats(gtax)} {nats(ds_s)} {c} {opt(ti(res.predicted_taxon))} {opt(prim)} '
	             f'{opt(ti(res.next_taxon))} {opt(ti(rep))}')
	case['_nt'] = (res.predicted_taxon is not None and ti(res.predicted_taxon) != gtax[c]) or res.next_taxon is not None
	# direct calls on every (genome, distance) pair
	for g in range(min(len(gtax), 6)):
		d = dists[g]
		m = matching_taxon(taxa[gtax[g]], d)
		lines.append(f'c03.match {ftok} {gtax[g]} {ds_s[g]} {opt(ti(m))}')
		nx = GenomeMatch(genomes[g], d).next_taxon()
		lines.append(f'c03.next {ftok} {gtax[g]} {ds_s[g]} {opt(ti(nx))}')
	return lines, pf


def run(ctx):
	rng = ctx.rng

	def sub(case, tag):
		lines, pf = safe_check(check, ctx, case)
		nt = case.pop('_nt', False)
		ctx.submit(case, lines, nontrivial=nt, tags=[tag], pyfails=pf)

	# corpus: the DESIGN §4.4 witnesses (genome on a threshold-less taxon)
	sub({'parent': [None, 0, 1], 'thr': [0.5, 0.3, None], 'report': [1, 1, 1], 'gtax': [2], 'dists': [0.2]}, 'corpus')
	sub({'parent': [None, 0], 'thr': [None, None], 'report': [1, 1], 'gtax': [1], 'dists': [0.2]}, 'corpus')
	sub({'parent': [None, 0, 1, 2], 'thr': [0.6, None, 0.4, 0.2], 'report': [1, 0, 0, 1], 'gtax': [3, 3, 2], 'dists': [0.5, 0.4, 0.4]}, 'corpus')
	# exhaustive small forests
	nmax = ctx.q(3, 4)
	for n in range(1, nmax + 1):
		for parent in T.all_forests(n):
			for thr in itertools.product([None, 0.2, 0.5], repeat=n):
				for d0 in (0.1, 0.2, 0.3, 0.5, 0.6):
					report = [rng.random() < 0.7 for _ in range(n)]
					gtax = list(range(n))
					dists = [d0 if g == (n - 1) else min(1.0, d0 + rng.choice([0.0, 0.1, 0.3])) for g in range(n)]
					sub({'parent': parent, 'thr': list(thr), 'report': report, 'gtax': gtax, 'dists': dists, 'via': rng.choice(['item', 'classify'])}, f'exh-n{n}')
	ctx.exhaustive = [f'all forests with <= {nmax} nodes x all threshold patterns over (none,.2,.5) x 5 distances']
	# persisted databases: several different ones in this one process (same primary keys, different flags / thresholds)
	for j in range(ctx.q(120, 800)):
		if not ctx.time_left(0.5):
			break
		n = rng.randint(1, 6)
		parent = T.rand_forest(rng, n, deep=rng.random() < 0.5)
		ng = rng.randint(1, 5)
		case = {'parent': parent, 'thr': T.rand_thr(rng, n, p_none=0.3), 'report': [rng.random() < 0.6 for _ in range(n)], 'gtax': [rng.randrange(n) for _ in range(ng)],
		        'dists': [float(x) for x in T.rand_dists(rng, ng)], 'via': 'db'}
		if rng.random() < 0.6:
			case.update(thr2=T.rand_thr(rng, n, p_none=0.2), report2=[rng.random() < 0.6 for _ in range(n)], dists2=[float(x) for x in T.rand_dists(rng, ng)])
			if rng.random() < 0.5:
				case['thr2'] = [None if t is None else 1.0 for t in case['thr2']]     # every threshold raised to the maximum
		sub(case, 'persisted-db')
	for j in range(ctx.q(2500, 40000)):
		if not ctx.time_left(0.9):
			break
		n = rng.randint(1, 12)
		parent = T.rand_forest(rng, n, deep=rng.random() < 0.5)
		thr = T.rand_thr(rng, n, p_none=rng.choice([0.1, 0.3, 0.6]))
		report = [rng.random() < 0.7 for _ in range(n)]
		ng = rng.randint(1, 10)
		gtax = [rng.randrange(n) for _ in range(ng)]
		dists = [float(x) for x in T.rand_dists(rng, ng, tie_heavy=rng.random() < 0.7)]
		sub({'parent': parent, 'thr': thr, 'report': report, 'gtax': gtax, 'dists': dists, 'via': rng.choice(['item', 'classify'])}, 'random')
		if j % 12 == 0:
			qsig = sorted(set(rng.sample(range(ng), rng.randint(1, ng))) | set(rng.sample(range(100, 110), rng.choice([0, 0, 1, 3]))))
			thr_q = [None if rng.random() < 0.2 else rng.choice([0.5, 0.75, 1.0, 0.7, 0.9, 0.0]) for _ in range(n)]
			sub({'parent': parent, 'thr': thr_q, 'report': report, 'gtax': gtax, 'dists': [0.0] * ng, 'via': 'query', 'qsig': qsig, 'nq': rng.choice([1, 2]),
			     'prior': [rng.choice(['strict-kwargs', 'strict-params', 'closest-kwargs']) for _ in range(rng.choice([0, 1, 2]))]}, 'through-query')
