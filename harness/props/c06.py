"""C06 — a genome's signature depends only on its biological content."""
import gzip

from core import nats, natlists, hx, hexlist, b01, exc_kind, safe_check
import dbutil

PROPS = ('GambitV.Props.C06', 'GambitV.C06')
TIE = [('GambitV.Tie.PyFindKmers', 'GambitV.Tie.Py'), ('GambitV.Tie.PyCalcSig', 'GambitV.Tie.Py'), ('GambitV.Tie.PyIo', 'GambitV.Tie.Py'), ('GambitV.Tie.PyBindKmers', 'GambitV.Tie.Py'), ('GambitV.Tie.PyCalcFile', 'GambitV.Tie.Py'), ('GambitV.Tie.PyAccFacts', 'GambitV.Tie.Py'), ('GambitV.Tie.PyIoFlow', 'GambitV.Tie.Py'), ('GambitV.Tie.PySigClasses', 'GambitV.Tie.Py')]
RULE = ('(multi-contig genome, variant) where a variant applies any of: reverse-complement of any subset of contigs, contig permutation, case pattern '
        '(upper / lower / random), line width in {1, 2, 7, 60, 80, none}, LF / CRLF, with / without final newline, plain / gzip / multi-member gzip, an unrelated '
        'truncated file failing just before, contigs > 2^20 nt with occurrences planted across power-of-two offsets on either strand, file extension independent of the '
        'compression. For each genome: (i) the records the real SequenceFile.parse yields = the Lean FASTA model of the bytes written; (ii) the signature of every '
        'variant file = the union (computed in Lean) of the real calc_signature of each contig alone, hence identical across variants; (iii) compression is guessed '
        'from the first two bytes. Non-trivial = distinct variant of a genome with >= 2 contigs and a non-empty signature.')
TRUSTED = ['harness/props/c06.py + Driver/C06.lean', 'for contigs > 2^20 nt the per-contig reference is a plain byte search in the harness (ref_sig), compared with the Lean model on a window around every planted occurrence', 'Biopython FASTA parser and gzip are trusted only on the generated shapes (records compared with the Lean model)']
ASSUMPTIONS = []


def make_genome(rng, kspec):
	"""contigs with planted prefix occurrences, including k-mers that would only exist across a contig boundary"""
	pre = kspec.prefix
	k = kspec.k
	n = rng.choice([1, 2, 3, 5])
	contigs = []
	for i in range(n):
		L = rng.choice([0, 1, k, len(pre) + k - 1, len(pre) + k, 40, 120, 300])
		s = bytearray(dbutil.rand_dna(rng, L, rng.choice([b'ACGT', b'ACGTN', b'AT' + pre])))
		if rng.random() < 0.25:
			# a contig too short to hold a whole k-mer that nevertheless contains the prefix (or its reverse complement) flush with
			# one end: it contributes nothing in either orientation
			L = rng.randint(len(pre), len(pre) + k - 1)
			s = bytearray(dbutil.rand_dna(rng, L, b'ACGT'))
			unit = pre if rng.random() < 0.5 else pre.translate(bytes.maketrans(b'ACGT', b'TGCA'))[::-1]
			if rng.random() < 0.5:
				s[:len(unit)] = unit
			else:
				s[len(s) - len(unit):] = unit
		for _ in range(rng.choice([0, 1, 3])):
			unit = pre + dbutil.rand_dna(rng, k)
			if len(unit) <= len(s):
				w = rng.choice([0, len(s) - len(unit), rng.randint(0, len(s) - len(unit))])
				s[w:w + len(unit)] = unit
		# end the contig with the prefix (+ part of a k-mer) so that a k-mer would span into the next contig if they were joined
		if rng.random() < 0.5 and len(s) >= len(pre):
			cut = rng.randint(0, k - 1)
			tail = pre + dbutil.rand_dna(rng, cut)
			s[len(s) - len(tail):] = tail[-len(s):] if len(tail) > len(s) else tail
		contigs.append(bytes(s))
	return contigs


_COMP = bytes.maketrans(b'ACGTacgt', b'TGCAtgca')


def materialize(c):
	"""a contig of a case: hex text, or {'L': length, 'plants': [[offset, hex unit], ...]} = 'C' filler with planted units"""
	if isinstance(c, str):
		return bytes.fromhex(c)
	s = bytearray(b'C' * c['L'])
	for off, unit in c['plants']:
		u = bytes.fromhex(unit)
		s[off:off + len(u)] = u
	return bytes(s[:c['L']])


def ref_sig(k, prefix, seq):
	"""reference signature of one upper-case contig by plain byte search (used for contigs too long for the Lean driver; checked
	against the Lean model on a window around every planted unit)"""
	pre = prefix.encode()
	out = set()
	code = {65: 0, 67: 1, 71: 2, 84: 3}
	for strand in (seq, seq.translate(_COMP)[::-1]):
		i = strand.find(pre)
		while i >= 0:
			km = strand[i + len(pre): i + len(pre) + k]
			if len(km) == k:
				v = 0
				for b in km:
					if b not in code:
						break
					v = v * 4 + code[b]
				else:
					out.add(v)
			i = strand.find(pre, i + 1)
	return sorted(out)


def check(ctx, case):
	import numpy as np
	from gambit.kmers import KmerSpec
	from gambit.seq import SequenceFile, revcomp
	from gambit.sigs.calc import calc_file_signature, calc_signature
	from gambit.util.io import guess_compression
	import io
	sc = dbutil.Scratch('gv_c06_')
	try:
		kspec = KmerSpec(case['k'], case['prefix'])
		contigs = [materialize(h) for h in case['contigs']]
		lines, pf = [], []
		per_contig = []
		for h, c in zip(case['contigs'], contigs):
			if isinstance(h, str):
				per_contig.append(calc_signature(kspec, c).tolist())
			else:
				# long contig: independent reference, itself checked against the Lean model on a window around every plant
				per_contig.append(ref_sig(case['k'], case['prefix'], c))
				for off, unit in h['plants']:
					win = c[max(0, off - 40): off + len(unit) // 2 + 40]
					lines.append(f'c01.sig {case["k"]} {hx(case["prefix"].encode())} {hexlist([win])} {kspec.index_dtype.itemsize} {nats(ref_sig(case["k"], case["prefix"], win))}')
		base_sig = None
		for v in case['variants']:
			cs = [contigs[i] for i in v['perm']]
			cs = [revcomp(c) if f else c for c, f in zip(cs, v['flip'])]
			if v['case'] == 'lower':
				cs = [c.lower() for c in cs]
			elif v['case'] == 'mixed':
				r = __import__('random').Random(v['seed'])
				cs = [bytes((b | 0x20) if (65 <= b <= 90 and r.random() < 0.5) else b for b in c) for c in cs]
			p = sc.path(f'g{len(lines)}' + v['ext'])
			dbutil.write_fasta(p, cs, width=v['width'], eol=v['eol'], final_newline=v['final_nl'], gz=v['gz'])
			raw = p.read_bytes()
			lines.append(f'c06.gz {hx(raw[:4])} {b01(guess_compression(io.BytesIO(raw)) == "gzip")}')
			if bool(v['gz']) != (guess_compression(io.BytesIO(raw)) == 'gzip'):
				pf.append('compression guess does not follow the content')
			if v.get('after_fail'):
				# an unrelated file fails part-way (truncated gzip) and the caller carries on with this genome
				decoy = b'>d\n' + b'C' * 50 + (case['prefix'].encode() + b'G' * case['k'] + b'C' * 30) * 40 + b'\n'
				bad = sc.path(f'bad{len(lines)}.fa.gz')
				bad.write_bytes(gzip.compress(decoy * 30)[:-40])
				try:
					calc_file_signature(kspec, SequenceFile(bad, 'fasta', 'auto'))
				except Exception:
					pass
			text = gzip.decompress(raw) if v['gz'] else raw
			sf = SequenceFile(p, 'fasta', 'auto')
			try:
				with sf.parse() as recs:
					real_recs = [bytes(r.seq) for r in recs]
				sig = calc_file_signature(kspec, sf).tolist()
			except Exception as e:
				pf.append(f'variant {v} failed: {exc_kind(e)}: {e}')
				continue
			if len(text) < 6000:     # (multi-member files: `text` is the concatenation of the members, as gzip defines it)
				lines.append(f'c06.parse {hx(text)} {hexlist(real_recs)}')
				# three-way: calc_file_signature (with calc_signature, accumulate_kmers, find_kmers … behind it) generated from the current
				# sources, on the records the real parser yielded
				lines.append(f'pyg.filesig {case["k"]} {hx(case["prefix"].encode())} {hexlist(real_recs)} {nats(sig)}')
			elif real_recs != cs:
				pf.append('parsed records differ from the contigs written')
			lines.append(f'c06.union {natlists(per_contig)} {nats(sig)}')
			if base_sig is None:
				base_sig = sig
			lines.append(f'c06.same {nats(base_sig)} {nats(sig)}')
		case['_nt'] = len(contigs) >= 2 and bool(base_sig)
		return lines, pf
	finally:
		sc.cleanup()


def run(ctx):
	rng = ctx.rng
	from gambit.kmers import KmerSpec

	def sub(case, tag):
		lines, pf = safe_check(check, ctx, case)
		nt = case.pop('_nt', False)
		ctx.submit(case, lines, nontrivial=nt, tags=[tag], pyfails=pf)

	exts = ['.fasta', '.fa', '.fna.gz', '.gz', '.txt', '', '.fasta.gz']
	for j in range(ctx.q(450, 3000)):
		if not ctx.time_left(0.9):
			break
		k, prefix = rng.choice([(4, 'AT'), (5, 'ATG'), (3, 'A'), (6, 'AT'), (11, 'ATGAC'), (2, 'TA')])
		kspec = KmerSpec(k, prefix)
		contigs = make_genome(rng, kspec)
		n = len(contigs)
		variants = [{'perm': list(range(n)), 'flip': [False] * n, 'case': 'upper', 'width': 60, 'eol': '\n', 'final_nl': True, 'gz': False, 'ext': '.fasta'}]
		for _ in range(ctx.q(5, 10)):
			perm = list(range(n)); rng.shuffle(perm)
			variants.append({'perm': perm, 'flip': [rng.random() < 0.5 for _ in range(n)], 'case': rng.choice(['upper', 'lower', 'mixed']), 'seed': rng.randrange(10 ** 6),
			                 'width': rng.choice([1, 2, 7, 60, 80, None]), 'eol': rng.choice(['\n', '\r\n']), 'final_nl': rng.random() < 0.6,
			                 'gz': rng.choice([False, False, False, True, True, 'multi']), 'after_fail': rng.random() < 0.15, 'ext': rng.choice(exts)})
		sub({'k': k, 'prefix': prefix, 'contigs': [c.hex() for c in contigs], 'variants': variants}, 'genome-variants')
	# long contigs: occurrences planted around power-of-two offsets (a piece-wise search must not lose what straddles a seam)
	for j in range(ctx.q(6, 40)):
		if not ctx.time_left(0.97):
			break
		k, prefix = rng.choice([(11, 'ATGAC'), (11, 'ATGAC'), (7, 'ATG'), (5, 'AT')])
		span = len(prefix) + k
		L = 2 ** 20 + rng.randint(span + 1, 5000)
		plants = []
		for seam in (2 ** 16, 2 ** 17, 2 ** 19, 2 ** 20):
			# the occurrence covers [seam - d, seam - d + span): d = 1 crosses the seam by all but one position, d = span - 1 by one
			d = rng.randint(0, len(prefix) + 1) if rng.random() < 0.6 else rng.randint(0, span + 2)
			rev = rng.random() < 0.5
			if seam == 2 ** 20:
				d = [1, span - 1, 2, len(prefix) - 1 or 1][j % 4] if j < 8 else d
				rev = (j // 2) % 2 == 1 if j < 8 else rev
			unit = prefix.encode() + dbutil.rand_dna(rng, k, b'CG')
			if rev:
				unit = unit.translate(_COMP)[::-1]
			plants.append([seam - d, unit.hex()])
		contigs = [{'L': L, 'plants': plants}] + [dbutil.rand_dna(rng, 200).hex() for _ in range(rng.choice([0, 1]))]
		n = len(contigs)
		variants = [{'perm': list(range(n)), 'flip': [False] * n, 'case': 'upper', 'width': 80, 'eol': '\n', 'final_nl': True, 'gz': False, 'ext': '.fasta'}]
		for _ in range(2):
			perm = list(range(n)); rng.shuffle(perm)
			variants.append({'perm': perm, 'flip': [True] * n, 'case': rng.choice(['upper', 'lower']), 'seed': 1,
			                 'width': rng.choice([60, 80, None]), 'eol': '\n', 'final_nl': True, 'gz': rng.choice([False, True]), 'ext': '.fa'})
		sub({'k': k, 'prefix': prefix, 'contigs': contigs, 'variants': variants}, 'long-contig-seams')
