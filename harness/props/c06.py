"""C06 — a genome's signature depends only on its biological content."""
import gzip

from core import nats, natlists, hx, hexlist, b01, exc_kind, safe_check
import dbutil

PROPS = ('GambitV.Props.C06', 'GambitV.C06')
TIE = []
RULE = ('(multi-contig genome, variant) where a variant applies any of: reverse-complement of any subset of contigs, contig permutation, case pattern '
        '(upper / lower / random), line width in {1, 2, 7, 60, 80, none}, LF / CRLF, with / without final newline, gzip or not, file extension independent of the '
        'compression. For each genome: (i) the records the real SequenceFile.parse yields = the Lean FASTA model of the bytes written; (ii) the signature of every '
        'variant file = the union (computed in Lean) of the real calc_signature of each contig alone, hence identical across variants; (iii) compression is guessed '
        'from the first two bytes. Non-trivial = distinct variant of a genome with >= 2 contigs and a non-empty signature.')
TRUSTED = ['harness/props/c06.py + Driver/C06.lean', 'Biopython FASTA parser and gzip are trusted only on the generated shapes (records compared with the Lean model)']
ASSUMPTIONS = []


def make_genome(rng, kspec):
	"""contigs with planted prefix occurrences, including k-mers that would only exist across a contig boundary"""
	pre = kspec.prefix
	k = kspec.k
	n = rng.choice([1, 2, 3, 5])
	contigs = []
	for i in range(n):
		L = rng.choice([0, 1, k, len(pre) + k - 1, len(pre) + k, 40, 120, 300])
		s = bytearray(dbutil.rand_dna(rng, L, rng.choice([b'ACGT', b'ACGTN', b'AT' + pre])))
		for _ in range(rng.choice([0, 1, 3])):
			unit = pre + dbutil.rand_dna(rng, k)
			if len(unit) <= len(s):
				w = rng.choice([0, len(s) - len(unit), rng.randint(0, len(s) - len(unit))])
				s[w:w + len(unit)] = unit
		# end the contig with the prefix (+ part of a k-mer) so that a k-mer would span into the next contig if they were joined
		if rng.random() < 0.5 and len(s) >= len(pre):
			cut = rng.randint(0, k - 1)
			tail = pre + dbutil.rand_dna(rng, cut)
			s[len(s) - len(tail):] = tail[-len(s):] if len(tail) > len(s) else tail
		contigs.append(bytes(s))
	return contigs


def check(ctx, case):
	import numpy as np
	from gambit.kmers import KmerSpec
	from gambit.seq import SequenceFile, revcomp
	from gambit.sigs.calc import calc_file_signature, calc_signature
	from gambit.util.io import guess_compression
	import io
	sc = dbutil.Scratch('gv_c06_')
	try:
		kspec = KmerSpec(case['k'], case['prefix'])
		contigs = [bytes.fromhex(h) for h in case['contigs']]
		per_contig = [calc_signature(kspec, c).tolist() for c in contigs]
		lines, pf = [], []
		base_sig = None
		for v in case['variants']:
			cs = [contigs[i] for i in v['perm']]
			cs = [revcomp(c) if f else c for c, f in zip(cs, v['flip'])]
			if v['case'] == 'lower':
				cs = [c.lower() for c in cs]
			elif v['case'] == 'mixed':
				r = __import__('random').Random(v['seed'])
				cs = [bytes((b | 0x20) if (65 <= b <= 90 and r.random() < 0.5) else b for b in c) for c in cs]
			p = sc.path(f'g{len(lines)}' + v['ext'])
			dbutil.write_fasta(p, cs, width=v['width'], eol=v['eol'], final_newline=v['final_nl'], gz=v['gz'])
			raw = p.read_bytes()
			lines.append(f'c06.gz {hx(raw[:4])} {b01(guess_compression(io.BytesIO(raw)) == "gzip")}')
			if v['gz'] != (guess_compression(io.BytesIO(raw)) == 'gzip'):
				pf.append('compression guess does not follow the content')
			text = gzip.decompress(raw) if v['gz'] else raw
			sf = SequenceFile(p, 'fasta', 'auto')
			try:
				with sf.parse() as recs:
					real_recs = [bytes(r.seq) for r in recs]
				sig = calc_file_signature(kspec, sf).tolist()
			except Exception as e:
				pf.append(f'variant {v} failed: {exc_kind(e)}: {e}')
				continue
			if len(text) < 6000:
				lines.append(f'c06.parse {hx(text)} {hexlist(real_recs)}')
			elif real_recs != cs:
				pf.append('parsed records differ from the contigs written')
			lines.append(f'c06.union {natlists(per_contig)} {nats(sig)}')
			if base_sig is None:
				base_sig = sig
			lines.append(f'c06.same {nats(base_sig)} {nats(sig)}')
		case['_nt'] = len(contigs) >= 2 and bool(base_sig)
		return lines, pf
	finally:
		sc.cleanup()


def run(ctx):
	rng = ctx.rng
	from gambit.kmers import KmerSpec

	def sub(case, tag):
		lines, pf = safe_check(check, ctx, case)
		nt = case.pop('_nt', False)
		ctx.submit(case, lines, nontrivial=nt, tags=[tag], pyfails=pf)

	exts = ['.fasta', '.fa', '.fna.gz', '.gz', '.txt', '', '.fasta.gz']
	for j in range(ctx.q(450, 3000)):
		if not ctx.time_left(0.9):
			break
		k, prefix = rng.choice([(4, 'AT'), (5, 'ATG'), (3, 'A'), (6, 'AT'), (11, 'ATGAC'), (2, 'TA')])
		kspec = KmerSpec(k, prefix)
		contigs = make_genome(rng, kspec)
		n = len(contigs)
		variants = [{'perm': list(range(n)), 'flip': [False] * n, 'case': 'upper', 'width': 60, 'eol': '\n', 'final_nl': True, 'gz': False, 'ext': '.fasta'}]
		for _ in range(ctx.q(5, 10)):
			perm = list(range(n)); rng.shuffle(perm)
			variants.append({'perm': perm, 'flip': [rng.random() < 0.5 for _ in range(n)], 'case': rng.choice(['upper', 'lower', 'mixed']), 'seed': rng.randrange(10 ** 6),
			                 'width': rng.choice([1, 2, 7, 60, 80, None]), 'eol': rng.choice(['\n', '\r\n']), 'final_nl': rng.random() < 0.6,
			                 'gz': rng.random() < 0.4, 'ext': rng.choice(exts)})
		sub({'k': k, 'prefix': prefix, 'contigs': [c.hex() for c in contigs], 'variants': variants}, 'genome-variants')
