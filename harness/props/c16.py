"""C16 — the distance-matrix command labels and fills every cell correctly."""
import csv
import io

from core import natlists, hx, exc_kind, safe_check
from props.c02 import bits
from cliutil import run_cli
from worlds import GenomeWorld

PROPS = ('GambitV.Props.C16', 'GambitV.C16')
TIE = []
RULE = ('(query genomes, reference genomes, how each side is supplied: 3 x 5 = files / list file + base directory / signature file x files / list / '
        'signature file / database / --square, -k/-p given or not, -c cores). File names include spaces, commas, quotes, double extensions, .gz. '
        'The Lean model distCsv is instantiated with cell(i,j) := bits of the real jaccarddist of the real single-genome signatures; labels are derived in '
        'Lean from the paths (fileLabel) or are the stored IDs. The CSV text must be byte-identical. Plus a CSV writer/reader sub-stream against '
        'CPython\'s csv module, and fmt4 against format(x, "0.4f") incl. exact 5th-decimal ties. Non-trivial = distinct case with >= 2 queries and '
        '>= 2 references and a non-constant matrix.')
TRUSTED = ['harness/props/c16.py, harness/worlds.py + Driver/C16.lean', 'click option parsing', 'CPython float formatting (validated by the fmt4 stream of C02)']
ASSUMPTIONS = ['the command is run with consistent k-mer parameters (mismatches are C14)']

_w = None


def world():
	global _w
	if _w is None:
		_w = GenomeWorld(20240916, prefix='gv_c16_')
	return _w


def strs(l):
	l = list(l)
	return ';'.join(hx(str(x).encode('utf-8')) for x in l) if l else '_'


def check(ctx, case):
	import numpy as np
	from gambit import metric
	w = world()
	if case['kind'] == 'csvrt':
		rows = case['rows']
		lt = case['lt']
		buf = io.StringIO(newline='')
		csv.writer(buf, lineterminator=lt, quoting=csv.QUOTE_MINIMAL).writerows(rows)
		text = buf.getvalue()
		py = list(csv.reader(io.StringIO(text, newline='')))
		return [f'c16.csvrt {hx(lt.encode())} {"|".join(strs(r) for r in rows)} {hx(text.encode("utf-8"))} {"|".join(strs(r) for r in py)}'], []
	if case['kind'] == 'label':
		from gambit.cli.common import get_file_id
		return [f'c16.label {hx(case["path"].encode())} {hx(get_file_id(case["path"]).encode())}'], []
	qs = [w.genomes[i] for i in case['q']]
	if case.get('namesake_queries'):
		# a query side that contains two different genomes with the same file name (= the same label), labels not in sorted order
		qs = [(g['namesake'] if f else g) for g, f in zip(qs, case['namesake_queries'])]
	rs = [w.genomes[i] for i in case['r']] if case['rkind'] not in ('db', 'square') else None
	if rs is not None and case.get('namesake_refs'):
		# references that share their file name (hence their label) with a query but are different genomes
		rs = [(g['namesake'] if f else g) for g, f in zip(rs, case['namesake_refs'])]
	out = w.sc.path(suffix='.csv')
	args = []
	dbdir = w.dbdir2 if case.get('db2') else w.dbdir
	if case['rkind'] == 'db':
		args += ['-d', dbdir]
	args += ['dist', '-o', out, '--no-progress']
	if case.get('explicit'):
		args += ['-k', w.spec[0], '-p', w.spec[1]]
	if case.get('cores'):
		args += ['-c', case['cores']]
	# query side
	if case['qkind'] == 'files':
		qpaths = [(g['link'] if (case.get('links') and 'link' in g) else g['path']) for g in qs]
		for qp in qpaths:
			args += ['-q', qp]
		qk, qtok = 'f', [str(qp) for qp in qpaths]
	elif case['qkind'] == 'list':
		args += ['--ql', w.listfile(qs, 'ql.txt', blank_lines=case.get('blank')), '--qdir', w.qdir]
		qk, qtok = 'f', [g['rel'] for g in qs]
	else:
		p, ids = w.sigfile(qs)
		args += ['--qs', p]
		qk, qtok = 's', ids
	# reference side
	if case['rkind'] == 'files':
		rpaths = [(g['link'] if (case.get('links') and 'link' in g) else g['path']) for g in rs]
		for rp in rpaths:
			args += ['-r', rp]
		rk, rtok = 'f', [str(rp) for rp in rpaths]
	elif case['rkind'] == 'list':
		args += ['--rl', w.listfile(rs, 'rl.txt'), '--rdir', (w.namesake_dir if any(g.get('path', '') and str(g['path']).startswith(str(w.namesake_dir)) for g in rs) else w.qdir)]
		rk, rtok = 'f', [g['rel'] for g in rs]
	elif case['rkind'] == 'sigs':
		p, ids = w.sigfile(rs, ids=[f'ref#{i}' for i in range(len(rs))])
		args += ['--rs', p]
		rk, rtok = 's', ids
	elif case['rkind'] == 'db':
		args += ['--use-db']
		from gambit.sigs import load_signatures as _ls
		dbs = _ls(dbdir / 'ref.gs')
		rk, rtok = 's', list(dbs.ids)
	else:
		args += ['--square']
		rk, rtok = qk, qtok
	# which parameters are in force: explicit / a signature source / the default (C14)
	uses_spec = case.get('explicit') or case['qkind'] == 'sigs' or case['rkind'] in ('sigs', 'db')
	spec = w.spec if uses_spec else (11, 'ATGAC')
	code, so, se, exc = run_cli(args, cwd=(w.decoy_cwd if case.get('decoy_cwd') else None))
	if code != 0 or not out.exists():
		if case['rkind'] == 'db':
			dbs.close()
		return [], [f'gambit dist failed: exit {code} {se[-300:]} {exc!r}']
	qsigs = [w.sig_of(g, spec) for g in qs]
	if case['rkind'] == 'db':
		rsigs = [np.asarray(dbs[i]) for i in range(len(dbs))]
		dbs.close()
	elif case['rkind'] == 'square':
		rsigs = qsigs
	else:
		rsigs = [w.sig_of(g, spec) for g in rs]
	table = [[bits(metric.jaccarddist(a, b)) for b in rsigs] for a in qsigs]
	text = out.read_bytes()
	out.unlink()
	case['_nt'] = len(qsigs) >= 2 and len(rsigs) >= 2 and len({x for row in table for x in row}) > 2
	return [f'c16.dist {qk} {strs(qtok)} {rk} {strs(rtok)} {natlists(table)} {hx(text)}'], []


def run(ctx):
	rng = ctx.rng
	global _w

	def sub(case, tag):
		lines, pf = safe_check(check, ctx, case)
		nt = case.pop('_nt', False)
		ctx.submit(case, lines, nontrivial=nt, tags=[tag, f'{case.get("qkind")}x{case.get("rkind")}'], pyfails=pf)

	try:
		w = world()
		n = len(w.genomes)
		# labels
		for p in ['a/b/c.fasta', 'x.fa.gz', 'dir.d/y.fna', 'z.gz', 'noext', '.fasta', 'a.fasta.fasta', 'a.gz.gz', 'a.fa.fasta', 'rel/../q.ffn.gz', 'A.FASTA', 'a.faa', 'a.frn',
		          'a b/c d.fa', 'a.fastq', 'x.fasta.gz.gz', 'weird.fa.txt'] + [str(g['path']) for g in w.genomes]:
			sub({'kind': 'label', 'path': p}, 'label')
		# random names over an alphabet rich in extension letters: stems that merely *end in* extension letters, stacked / partial extensions
		alpha = 'afstnqgz._-AF1'
		exts = ['.fasta', '.fna', '.ffn', '.faa', '.frn', '.fa', '.gz', '.fastq', '.FA', 'fa', 'fasta', '_fa', '.f', '.fas', '']
		for j in range(ctx.q(1500, 20000)):
			stem = ''.join(rng.choice(alpha) for _ in range(rng.randint(0, 7)))
			name = stem + rng.choice(exts) + rng.choice(['', '', '.gz', 'gz', '.gz.gz'])
			if rng.random() < 0.3:
				name = ''.join(rng.choice(alpha + '/') for _ in range(rng.randint(0, 5))) + '/' + name
			if not name or name.endswith('/'):
				continue
			sub({'kind': 'label', 'path': name}, 'label-random')
		# csv writer/reader model vs CPython
		alphabet = ['a', 'b', ',', '"', '\n', '\r', ' ', 'é', '']
		for j in range(ctx.q(400, 6000)):
			rows = [[''.join(rng.choice(alphabet) for _ in range(rng.randint(0, 4))) for _ in range(rng.randint(2, 4))] for _ in range(rng.randint(1, 3))]
			lt = rng.choice(['\n', '\r\n'])
			# the reader model covers what the writers can produce; a bare CR with lineterminator "\n" is C11-F1 territory and a blank-line record is not produced
			if lt == '\n' and any('\r' in f and not any(c in f for c in ',"\n') for r in rows for f in r):
				continue
			sub({'kind': 'csvrt', 'rows': rows, 'lt': lt}, 'csv-model')
		# the 3 x 5 grid
		for qkind in ('files', 'list', 'sigs'):
			for rkind in ('files', 'list', 'sigs', 'db', 'square'):
				for rep in range(ctx.q(10, 30)):
					if not ctx.time_left(0.9):
						break
					q = rng.sample(range(n), rng.randint(1, 4))
					r = rng.sample(range(n), rng.randint(1, 4))
					explicit = rng.random() < 0.5
					ns = None
					if rkind in ('files', 'list') and rng.random() < 0.5:
						r = list(q) if rng.random() < 0.5 else r          # same names on both sides
						flags = [rng.random() < 0.7 for _ in r]
						# a list file has one base directory: all-or-nothing there
						ns = flags if rkind == 'files' else [flags[0]] * len(r)
					nq = None
					if qkind == 'files' and rng.random() < 0.4:
						i = rng.randrange(len(q))
						q = q[:i + 1] + [q[i]] + q[i + 1:]
						nq = [False] * len(q)
						nq[i + rng.randint(0, 1)] = True
					sub({'kind': 'dist', 'qkind': qkind, 'rkind': rkind, 'q': q, 'r': r, 'explicit': explicit, 'cores': rng.choice([None, 1, 2, 4]),
					     'blank': rng.random() < 0.3, 'namesake_refs': ns, 'namesake_queries': nq, 'decoy_cwd': rng.random() < 0.5, 'db2': rng.random() < 0.5, 'links': rng.random() < 0.3}, 'dist')
	finally:
		if _w is not None:
			_w.cleanup()
			_w = None
