"""C16 — the distance-matrix command labels and fills every cell correctly."""
import csv
import io

from core import natlists, hx, exc_kind, safe_check
from props.c02 import bits
import dbutil
from cliutil import run_cli
from worlds import GenomeWorld

PROPS = ('GambitV.Props.C16', 'GambitV.C16')
TIE = [('GambitV.Tie.PyLabels', 'GambitV.Tie.Py'), ('GambitV.Tie.PyDistFlow', 'GambitV.Tie.Py'), ('GambitV.Tie.PySeqFiles', 'GambitV.Tie.Py'), ('GambitV.Tie.PyZipStrict', 'GambitV.Tie.Py'), ('GambitV.Tie.PyDmatCsv', 'GambitV.Tie.Py'), ('GambitV.Tie.PyPropsC16', 'GambitV.Tie.Py')]
RULE = ('(query genomes, reference genomes, how each side is supplied: 3 x 5 = files / list file + base directory / signature file x files / list / '
        'signature file / database / --square, -k/-p given or not, -c cores). File names include spaces, commas, quotes, double extensions, .gz. '
        'The Lean model distCsv is instantiated with cell(i,j) := bits of the real jaccarddist of the real single-genome signatures; labels are derived in '
        'Lean from the paths (fileLabel) or are the stored IDs. The CSV text must be byte-identical. Plus a CSV writer/reader sub-stream against '
        'CPython\'s csv module, and fmt4 against format(x, "0.4f") incl. exact 5th-decimal ties. Also: signature files of prescribed sizes giving cells D / U '
        '(5 in the fifth decimal, exact and inexact), inputs through symbolic links and as multi-member gzip files, an earlier invocation in the same process '
        'that failed part-way through a large truncated genome. Non-trivial = distinct case with >= 2 queries and '
        '>= 2 references and a non-constant matrix.')
TRUSTED = ['harness/props/c16.py, harness/worlds.py + Driver/C16.lean', 'click option parsing', 'CPython float formatting (validated by the fmt4 stream of C02)']
ASSUMPTIONS = ['the command is run with consistent k-mer parameters (mismatches are C14)']

_w = None


def world():
	global _w
	if _w is None:
		_w = GenomeWorld(20240916, prefix='gv_c16_')
	return _w


def strs(l):
	l = list(l)
	return ';'.join(hx(str(x).encode('utf-8')) for x in l) if l else '_'


def check(ctx, case):
	import numpy as np
	from gambit import metric
	w = world()
	if case['kind'] == 'csvrt':
		rows = case['rows']
		lt = case['lt']
		buf = io.StringIO(newline='')
		csv.writer(buf, lineterminator=lt, quoting=csv.QUOTE_MINIMAL).writerows(rows)
		text = buf.getvalue()
		py = list(csv.reader(io.StringIO(text, newline='')))
		return [f'c16.csvrt {hx(lt.encode())} {"|".join(strs(r) for r in rows)} {hx(text.encode("utf-8"))} {"|".join(strs(r) for r in py)}'], []
	if case['kind'] == 'label':
		from gambit.cli.common import get_file_id
		return [f'c16.label {hx(case["path"].encode())} {hx(get_file_id(case["path"]).encode())}'], []
	if case['kind'] == 'crafted':
		# signature files with prescribed sizes: queries range(0, U), references range(D, U) -> distance D / U for chosen (D, U):
		# cells whose fifth decimal is a 5 (exact ties such as 1/32 and inexact ones such as 1/160), 0, 1, values next to a rounding boundary
		from gambit.kmers import KmerSpec
		from gambit.sigs import AnnotatedSignatures, SignatureList, SignaturesMeta, dump_signatures
		ks = KmerSpec(11, 'ATGAC')
		qsigs = [np.arange(0, U, dtype=ks.index_dtype) for U in case['Us']]
		rsigs = [np.arange(D, U, dtype=ks.index_dtype) for D, U in case['refs']]
		qp, rp = w.sc.path(suffix='.gs'), w.sc.path(suffix='.gs')
		qids = [f'q{i}' for i in range(len(qsigs))]
		rids = [f'r{i}' for i in range(len(rsigs))]
		dump_signatures(qp, AnnotatedSignatures(SignatureList(qsigs, ks), qids, SignaturesMeta(id_attr='key')))
		dump_signatures(rp, AnnotatedSignatures(SignatureList(rsigs, ks), rids, SignaturesMeta(id_attr='key')))
		out = w.sc.path(suffix='.csv')
		args = ['dist', '-o', out, '--no-progress', '--qs', qp] + (['--square'] if case.get('square') else ['--rs', rp])
		code, so, se, exc = run_cli(args)
		if code != 0 or not out.exists():
			return [], [f'gambit dist failed: exit {code} {se[-300:]} {exc!r}']
		if case.get('square'):
			rsigs, rids = qsigs, qids
		table = [[bits(metric.jaccarddist(a, b)) for b in rsigs] for a in qsigs]
		text = out.read_bytes()
		out.unlink(); qp.unlink(); rp.unlink()
		case['_nt'] = True
		return [f'c16.dist s {strs(qids)} s {strs(rids)} {natlists(table)} {hx(text)}'], []
	qs = [w.genomes[i] for i in case['q']]
	if case.get('namesake_queries'):
		# a query side that contains two different genomes with the same file name (= the same label), labels not in sorted order
		qs = [(g['namesake'] if f else g) for g, f in zip(qs, case['namesake_queries'])]
	rs = [w.genomes[i] for i in case['r']] if case['rkind'] not in ('db', 'square') else None
	if rs is not None and case.get('namesake_refs'):
		# references that share their file name (hence their label) with a query but are different genomes
		rs = [(g['namesake'] if f else g) for g, f in zip(rs, case['namesake_refs'])]
	out = w.sc.path(suffix='.csv')
	args = []
	dbdir = w.dbdir2 if case.get('db2') else w.dbdir
	if case['rkind'] == 'db':
		args += ['-d', dbdir]
	args += ['dist', '-o', out, '--no-progress']
	if case.get('explicit'):
		args += ['-k', w.spec[0], '-p', w.spec[1]]
	if case.get('cores'):
		args += ['-c', case['cores']]
	# query side
	if case['qkind'] == 'files':
		qpaths = [(g['link'] if (case.get('links') and 'link' in g) else g['path']) for g in qs]
		if case.get('mm_queries'):
			# the same genomes as multi-member gzip files (bgzip / `cat a.gz b.gz`), same base name hence same label
			qpaths = [(w.multi_member_gz(g) if (f and 'contigs' in g and 'link' in g) else p_) for g, f, p_ in zip(qs, case['mm_queries'], qpaths)]
		for qp in qpaths:
			args += ['-q', qp]
		qk, qtok = 'f', [str(qp) for qp in qpaths]
	elif case['qkind'] == 'list':
		args += ['--ql', w.listfile(qs, 'ql.txt', blank_lines=case.get('blank')), '--qdir', w.qdir]
		qk, qtok = 'f', [g['rel'] for g in qs]
	else:
		p, ids = w.sigfile(qs)
		args += ['--qs', p]
		qk, qtok = 's', ids
	# reference side
	if case['rkind'] == 'files':
		rpaths = [(g['link'] if (case.get('links') and 'link' in g) else g['path']) for g in rs]
		for rp in rpaths:
			args += ['-r', rp]
		rk, rtok = 'f', [str(rp) for rp in rpaths]
	elif case['rkind'] == 'list':
		args += ['--rl', w.listfile(rs, 'rl.txt'), '--rdir', (w.namesake_dir if any(g.get('path', '') and str(g['path']).startswith(str(w.namesake_dir)) for g in rs) else w.qdir)]
		rk, rtok = 'f', [g['rel'] for g in rs]
	elif case['rkind'] == 'sigs':
		p, ids = w.sigfile(rs, ids=[f'ref#{i}' for i in range(len(rs))])
		args += ['--rs', p]
		rk, rtok = 's', ids
	elif case['rkind'] == 'db':
		args += ['--use-db']
		from gambit.sigs import load_signatures as _ls
		dbs = _ls(dbdir / 'ref.gs')
		rk, rtok = 's', list(dbs.ids)
	else:
		args += ['--square']
		rk, rtok = qk, qtok
	# which parameters are in force: explicit / a signature source / the default (C14)
	uses_spec = case.get('explicit') or case['qkind'] == 'sigs' or case['rkind'] in ('sigs', 'db')
	spec = w.spec if uses_spec else (11, 'ATGAC')
	if case.get('after_failed_run'):
		# an earlier invocation in this process that fails part-way through a genome (truncated gzip with several contigs)
		import gzip as _gz
		bad = w.sc.path(suffix='.fasta.gz')
		r_ = __import__('random').Random(5)
		# large enough that many records are parsed (and their k-mers found) before the stream breaks
		data = _gz.compress(b''.join(b'>c%d\n' % i + dbutil.rand_dna(r_, 8000) + b'\n' for i in range(30)))
		bad.write_bytes(data[:len(data) // 2])
		bout = w.sc.path(suffix='.csv')
		run_cli(['dist', '-o', bout, '--no-progress'] + (['-k', w.spec[0], '-p', w.spec[1]] if case.get('explicit') else []) + ['-q', bad, '--square'] + (['-c', 1] if case['after_failed_run'] == 'c1' else []))
		for p_ in (bad, bout):
			if p_.exists():
				p_.unlink()
	code, so, se, exc = run_cli(args, cwd=(w.decoy_cwd if case.get('decoy_cwd') else None))
	if code != 0 or not out.exists():
		if case['rkind'] == 'db':
			dbs.close()
		return [], [f'gambit dist failed: exit {code} {se[-300:]} {exc!r}']
	qsigs = [w.sig_of(g, spec) for g in qs]
	if case['rkind'] == 'db':
		rsigs = [np.asarray(dbs[i]) for i in range(len(dbs))]
		dbs.close()
	elif case['rkind'] == 'square':
		rsigs = qsigs
	else:
		rsigs = [w.sig_of(g, spec) for g in rs]
	table = [[bits(metric.jaccarddist(a, b)) for b in rsigs] for a in qsigs]
	text = out.read_bytes()
	out.unlink()
	case['_nt'] = len(qsigs) >= 2 and len(rsigs) >= 2 and len({x for row in table for x in row}) > 2
	return [f'c16.dist {qk} {strs(qtok)} {rk} {strs(rtok)} {natlists(table)} {hx(text)}'], []


def run(ctx):
	rng = ctx.rng
	global _w

	def sub(case, tag):
		lines, pf = safe_check(check, ctx, case)
		nt = case.pop('_nt', False)
		ctx.submit(case, lines, nontrivial=nt, tags=[tag, f'{case.get("qkind")}x{case.get("rkind")}'], pyfails=pf)

	try:
		w = world()
		n = len(w.genomes)
		# labels
		for p in ['a/b/c.fasta', 'x.fa.gz', 'dir.d/y.fna', 'z.gz', 'noext', '.fasta', 'a.fasta.fasta', 'a.gz.gz', 'a.fa.fasta', 'rel/../q.ffn.gz', 'A.FASTA', 'a.faa', 'a.frn',
		          'a b/c d.fa', 'a.fastq', 'x.fasta.gz.gz', 'weird.fa.txt'] + [str(g['path']) for g in w.genomes]:
			sub({'kind': 'label', 'path': p}, 'label')
		# random names over an alphabet rich in extension letters: stems that merely *end in* extension letters, stacked / partial extensions
		alpha = 'afstnqgz._-AF1'
		exts = ['.fasta', '.fna', '.ffn', '.faa', '.frn', '.fa', '.gz', '.fastq', '.FA', 'fa', 'fasta', '_fa', '.f', '.fas', '']
		for j in range(ctx.q(1500, 20000)):
			stem = ''.join(rng.choice(alpha) for _ in range(rng.randint(0, 7)))
			# stacked extensions in either order (`x.fna.fasta`, `x.fa.fna.gz`): exactly one is stripped, the last one
			name = stem + (rng.choice(exts[:6]) if rng.random() < 0.35 else '') + rng.choice(exts) + rng.choice(['', '', '.gz', 'gz', '.gz.gz'])
			if rng.random() < 0.3:
				name = ''.join(rng.choice(alpha + '/') for _ in range(rng.randint(0, 5))) + '/' + name
			if not name or name.endswith('/'):
				continue
			sub({'kind': 'label', 'path': name}, 'label-random')
		# csv writer/reader model vs CPython
		alphabet = ['a', 'b', ',', '"', '\n', '\r', ' ', 'é', '']
		for j in range(ctx.q(400, 6000)):
			rows = [[''.join(rng.choice(alphabet) for _ in range(rng.randint(0, 4))) for _ in range(rng.randint(2, 4))] for _ in range(rng.randint(1, 3))]
			lt = rng.choice(['\n', '\r\n'])
			# the reader model covers what the writers can produce; a bare CR with lineterminator "\n" is C11-F1 territory and a blank-line record is not produced
			if lt == '\n' and any('\r' in f and not any(c in f for c in ',"\n') for r in rows for f in r):
				continue
			sub({'kind': 'csvrt', 'rows': rows, 'lt': lt}, 'csv-model')
		# prescribed ratios D / U
		for j in range(ctx.q(40, 400)):
			Us = [rng.choice([160, 32, 320, 1600, 800, 96, 2000, 640, rng.randint(2, 3000)]) for _ in range(rng.randint(1, 3))]
			refs = []
			for _ in range(rng.randint(1, 5)):
				U = rng.choice(Us)
				D = rng.choice([1, 3, 5, U - 1, U - 3, rng.randrange(0, U), rng.randrange(1, U, 2) if U > 2 else 1, 0])
				refs.append([min(D, U - 1), U])
			sub({'kind': 'crafted', 'Us': Us, 'refs': refs, 'square': rng.random() < 0.15}, 'prescribed-ratios')
		# the 3 x 5 grid
		for qkind in ('files', 'list', 'sigs'):
			for rkind in ('files', 'list', 'sigs', 'db', 'square'):
				for rep in range(ctx.q(10, 30)):
					if not ctx.time_left(0.9):
						break
					q = rng.sample(range(n), rng.randint(1, 4))
					r = rng.sample(range(n), rng.randint(1, 4))
					explicit = rng.random() < 0.5
					ns = None
					if rkind in ('files', 'list') and rng.random() < 0.5:
						r = list(q) if rng.random() < 0.5 else r          # same names on both sides
						flags = [rng.random() < 0.7 for _ in r]
						# a list file has one base directory: all-or-nothing there
						ns = flags if rkind == 'files' else [flags[0]] * len(r)
					nq = None
					if qkind == 'files' and rng.random() < 0.4:
						i = rng.randrange(len(q))
						q = q[:i + 1] + [q[i]] + q[i + 1:]
						nq = [False] * len(q)
						nq[i + rng.randint(0, 1)] = True
					sub({'kind': 'dist', 'qkind': qkind, 'rkind': rkind, 'q': q, 'r': r, 'explicit': explicit, 'cores': rng.choice([None, 1, 2, 4]),
					     'blank': rng.random() < 0.3, 'namesake_refs': ns, 'namesake_queries': nq, 'decoy_cwd': rng.random() < 0.5, 'db2': rng.random() < 0.5, 'links': rng.random() < 0.3,
					     'mm_queries': ([rng.random() < 0.5 for _ in q] if (qkind == 'files' and rng.random() < 0.4) else None),
					     'after_failed_run': rng.choice([None, None, 'c1', 'default'])}, 'dist')
	finally:
		if _w is not None:
			_w.cleanup()
			_w = None
