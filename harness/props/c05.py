"""C05 — bulk and parallel distance computations agree bit-for-bit with the pairwise one."""
import os
import shutil
import tempfile

from core import nats, natlists, opt, exc_kind, safe_check
from props.c02 import bits

PROPS = ('GambitV.Props.C05', 'GambitV.C05')
TIE = [('GambitV.Tie.Metric', 'GambitV.Tie.Metric'), ('GambitV.Tie.PyChunks', 'GambitV.Tie.Py'), ('GambitV.Tie.PyPropsC05', 'GambitV.Tie.Py'), ('GambitV.Tie.PyBulk', 'GambitV.Tie.Py'), ('GambitV.Tie.PyPairwise', 'GambitV.Tie.Py'), ('GambitV.Tie.PyBindMetric', 'GambitV.Tie.Py'), ('GambitV.Tie.PySigArrayInit', 'GambitV.Tie.Py')]
RULE = ('(query signatures, reference signatures, container in {SignatureArray, SignatureArray window of a larger values array (from_arrays), SignatureList, plain list, HDF5Signatures}, dtype, '
        'chunk size in 1..n+2 or None, ref_indices (None / permutation / with repeats / subset / non-decreasing runs with repeats and gaps), caller out-buffer (none / contiguous / '
        'strided view with sentinels), threads 1..16) for jaccarddist_matrix; same for jaccarddist_array and jaccarddist_pairwise '
        '(square / condensed, indices, out). The Lean model is instantiated with dist := table of the real two-signature '
        'jaccarddist bit patterns, so only the plumbing is judged. Non-trivial = distinct case with >= 2 references, >= 1 non-empty '
        'signature and not all table entries equal.')
TRUSTED = ['harness/props/c05.py + Driver/C05.lean', 'OpenMP prange semantics (each iteration once, loop-assigned variables private) — sampled by repeated runs at 1..16 threads']
ASSUMPTIONS = ['a data race inside one iteration of compiled code cannot be exhibited by the model; it is sampled, not proved']

_tmp = None
_n = 0


def _tmpdir():
	global _tmp
	if _tmp is None:
		_tmp = tempfile.mkdtemp(prefix='gv_c05_')
	return _tmp


def cleanup():
	global _tmp
	if _tmp:
		shutil.rmtree(_tmp, ignore_errors=True)
		_tmp = None


def container(kind, sigs, dt):
	import numpy as np
	from gambit.kmers import KmerSpec
	from gambit.sigs.base import SignatureArray, SignatureList, dump_signatures, load_signatures
	global _n
	kspec = KmerSpec(11, 'ATGAC')
	arrs = [np.array(s, dtype=dt) for s in sigs]
	if kind == 'array':
		return SignatureArray(arrs, kspec, dtype=np.dtype(dt)), None
	if kind == 'subarray':
		# a SignatureArray that is a window of a larger values array: bounds neither start at 0 nor end at len(values)
		# (legal under the documented layout values[bounds[i]:bounds[i+1]])
		pad_l = np.array([3, 5, 8], dtype=dt)
		pad_r = np.array([1, 2], dtype=dt)
		values = np.concatenate([pad_l] + arrs + [pad_r]) if arrs else np.concatenate([pad_l, pad_r])
		bounds = np.cumsum([len(pad_l)] + [len(a) for a in arrs]).astype(np.intp)
		return SignatureArray.from_arrays(values, bounds, kspec), None
	if kind == 'siglist':
		return SignatureList(arrs, kspec, dtype=np.dtype(dt)), None
	if kind == 'plain':
		return arrs, None
	if kind == 'hdf5':
		_n += 1
		path = os.path.join(_tmpdir(), f'r{_n}.gs')
		dump_signatures(path, SignatureArray(arrs, kspec, dtype=np.dtype(dt)))
		f = load_signatures(path)
		return f, f
	raise ValueError(kind)


def table_of(qs, rs, dtq, dtr):
	import numpy as np
	from gambit import metric
	return [[bits(metric.jaccarddist(np.array(q, dtype=dtq), np.array(r, dtype=dtr))) for r in rs] for q in qs]


def mat_bits(m):
	import numpy as np
	return natlists([[int(x) for x in row] for row in np.asarray(m, dtype=np.float32).view(np.uint32).tolist()]) if m.ndim == 2 else None


KIND = {'plain': 0, 'siglist': 1, 'array': 2, 'subarray': 2}


def _dtok(d):
	return f'{np_kind(d)}{np_size(d)}'


def np_kind(d):
	import numpy as np
	return np.dtype(d).kind


def np_size(d):
	import numpy as np
	return np.dtype(d).itemsize


def check(ctx, case):
	import numpy as np
	from gambit import metric
	from gambit._cython.threads import omp_set_num_threads
	kind = case['kind']
	dt = case.get('dt', 'u4')
	omp_set_num_threads(case.get('threads', 1))
	pyfails = []
	closer = None
	try:
		if kind == 'chunks':
			from gambit.util.misc import chunk_slices
			real = ';'.join(f'{s.start},{s.stop}' for s in chunk_slices(case['n'], case['size']))
			return [f'c05.chunks {case["n"]} {case["size"]} {real}'], []
		if kind == 'pychunks':
			# chunk_slices with any integers (zero / negative sizes raise, zero / negative lengths give nothing) against the definition
			# generated from the current source (tie T)
			from gambit.util.misc import chunk_slices
			try:
				real = ';'.join(f'{s.start},{s.stop}' for s in chunk_slices(case['n'], case['size']))
			except ValueError:
				real = '!ValueError'
			return [f'pyg.chunks {case["n"]} {case["size"]} {real}'], []
		if kind == 'reuse':
			# the same plain list object passed twice, one element replaced in place in between: the second result must reflect the new contents
			ss, ss2 = case['sigs'], case['sigs2']
			L = [np.array(s, dtype=dt) for s in ss]
			refs, closer = container(case['rcont'], case['refs'], dt)
			lines = []
			for step, cur in enumerate((ss, ss2)):
				for i, s_ in enumerate(cur):
					if step == 1 and s_ != ss[i]:
						L[i] = np.array(s_, dtype=dt)
				if case.get('asrefs'):
					# the mutated list is the *reference* collection
					qs_ = case['refs'][:2] or [[1, 2]]
					table = table_of(qs_, cur, dt, dt)
					if case['asrefs'] == 'array':     # one function per case: consecutive calls see the very same list object
						res = metric.jaccarddist_array(np.array(qs_[0], dtype=dt), L)
						lines.append(f'c05.array {nats(table[0])} {nats(np.ascontiguousarray(res).view(np.uint32).tolist())}')
					else:
						res = metric.jaccarddist_matrix([np.array(q, dtype=dt) for q in qs_], L, chunksize=case.get('chunk'))
						out0 = [[0] * len(cur) for _ in qs_]
						lines.append(f'c05.matrix {len(qs_)} {len(cur)} {natlists(table)} ~ {opt(case.get("chunk"))} {natlists(out0)} {natlists(res.view(np.uint32).tolist())}')
				elif case.get('pairwise'):
					table = table_of(cur, cur, dt, dt)
					res = metric.jaccarddist_pairwise(L)
					lines.append(f'c05.pairwise {natlists(table)} {nats(range(len(cur)))} 0 {natlists(res.view(np.uint32).tolist()) if len(cur) else "_"}')
				else:
					table = table_of(cur, case['refs'], dt, dt)
					res = metric.jaccarddist_matrix(L, refs)
					out0 = [[0] * len(case['refs']) for _ in cur]
					lines.append(f'c05.matrix {len(cur)} {len(case["refs"])} {natlists(table)} ~ ~ {natlists(out0)} {natlists(res.view(np.uint32).tolist())}')
			case['_nt'] = True
			return lines, pyfails
		if kind == 'matrix' and case.get('qdts'):
			# queries held in different integer types (incl. values that do not fit the references' type)
			qs, rs = case['qs'], case['refs']
			qarrs = [np.array(q, dtype=d) for q, d in zip(qs, case['qdts'])]
			rarrs = [np.array(r, dtype=dt) for r in rs]
			table = [[bits(metric.jaccarddist(q, r)) for r in rarrs] for q in qarrs]
			if case.get('rdts'):
				# a plain list / SignatureList whose members are held in different integer widths (all values fit the narrowest)
				rarrs = [np.array(r, dtype=d) for r, d in zip(rs, case['rdts'])]
				table = [[bits(metric.jaccarddist(q, r)) for r in rarrs] for q in qarrs]
				if case['rcont'] == 'siglist':
					from gambit.kmers import KmerSpec
					from gambit.sigs.base import SignatureList
					refs = SignatureList(rarrs, KmerSpec(11, 'ATGAC'))
				else:
					refs = rarrs
				if case.get('pairwise'):
					tb = [[bits(metric.jaccarddist(a, b)) for b in rarrs] for a in rarrs]
					res = metric.jaccarddist_pairwise(refs)
					case['_nt'] = len(rs) >= 3
					return [f'c05.pairwise {natlists(tb)} {nats(range(len(rs)))} 0 {natlists(res.view(np.uint32).tolist())}'], pyfails
			else:
				refs, closer = container(case['rcont'], rs, dt)
			res = metric.jaccarddist_matrix(qarrs, refs, chunksize=case.get('chunk'))
			out0 = [[0] * len(rs) for _ in qs]
			case['_nt'] = len(rs) >= 2
			return [f'c05.matrix {len(qs)} {len(rs)} {natlists(table)} ~ {opt(case.get("chunk"))} {natlists(out0)} {natlists(res.view(np.uint32).tolist()) if len(rs) and len(qs) else natlists([[] for _ in qs])}'], pyfails
		if kind == 'matrix':
			qs, rs = case['qs'], case['refs']
			table = table_of(qs, rs, case.get('dtq', dt), dt)
			queries, c1 = container(case.get('qcont', 'plain'), qs, case.get('dtq', dt))
			refs, closer = container(case['rcont'], rs, dt)
			ridx = case.get('ref_idx')
			ridx_arg = ridx
			neg = case.get('ridx_neg')
			if ridx is not None and neg:
				# some positions written as negative indices (-1 = last reference): same selection
				ridx_arg = [(i - len(rs)) if f else i for i, f in zip(ridx, neg)]
			if ridx is not None and case.get('ridx_form') == 'array':
				ridx_arg = np.array(ridx_arg, dtype=np.intp)
			nrefs = len(rs) if ridx is None else len(ridx)
			outk = case.get('out')
			out = parent = None
			SENT = np.float32(-7.25)
			if outk == 'contig':
				out = np.full((len(qs), nrefs), SENT, dtype=np.float32)
			elif outk == 'strided':
				parent = np.full((len(qs) * 2 + 1, nrefs * 3 + 2), SENT, dtype=np.float32)
				out = parent[1::2, 1:1 + nrefs * 3:3][:len(qs), :nrefs]
			out0 = [[bits(SENT)] * nrefs for _ in qs] if out is not None else [[0] * nrefs for _ in qs]
			res = metric.jaccarddist_matrix(queries, refs, ref_indices=ridx_arg, out=out, chunksize=case.get('chunk'))
			if out is not None and res is not out:
				pyfails.append('result is not the caller-supplied buffer')
			if parent is not None:
				mask = np.ones(parent.shape, dtype=bool)
				mask[1::2, 1:1 + nrefs * 3:3][:len(qs), :nrefs] = False
				if not np.all(parent[mask] == SENT):
					pyfails.append('cells outside the caller-supplied view were written')
			if res.shape != (len(qs), nrefs) or res.dtype != np.float32:
				return [], [f'bad result shape/dtype {res.shape} {res.dtype}']
			real = natlists(res.view(np.uint32).tolist()) if res.flags['C_CONTIGUOUS'] else natlists(np.ascontiguousarray(res).view(np.uint32).tolist())
			if len(qs) == 0 or nrefs == 0:
				real = natlists([[] for _ in qs])
			line = (f'c05.matrix {len(qs)} {len(rs)} {natlists(table)} {"~" if ridx is None else nats(ridx)} {opt(case.get("chunk"))} '
			        f'{natlists(out0)} {real}')
			case['_nt'] = len(rs) >= 2 and len({x for row in table for x in row}) > 1
			lines = [line]
			if out is None and case.get('qcont', 'plain') == 'plain' and sum(map(len, rs)) + sum(map(len, qs)) <= 400:
				# the definitions generated from the current source of jaccarddist_matrix / _array (tie T): same inputs, same bits
				lines.append(f'pyg.matrix {KIND.get(case["rcont"], 1)} {_dtok(case.get("dtq", dt))} {_dtok(dt)} {natlists(qs)} {natlists(rs)} '
				             f'{"~" if ridx_arg is None else ",".join(str(int(i)) for i in ridx_arg) or "-"} {opt(case.get("chunk"))} {real}')
			if ridx is not None and neg and case.get('reuse_ridx') and case['rcont'] in ('array', 'siglist', 'plain', 'subarray'):
				# the very same index object selects from a LONGER collection next: negative entries count from its end
				rs2 = rs + [[7, 9, 11]]
				refs2, _ = container(case['rcont'], rs2, dt)
				ridx2 = [(i + 1) if f else i for i, f in zip(ridx, neg)]
				table2 = table_of(qs, rs2, case.get('dtq', dt), dt)
				res2 = metric.jaccarddist_matrix(queries, refs2, ref_indices=ridx_arg, chunksize=case.get('chunk'))
				real2 = natlists(res2.view(np.uint32).tolist()) if len(qs) and nrefs else natlists([[] for _ in qs])
				lines.append(f'c05.matrix {len(qs)} {len(rs2)} {natlists(table2)} {nats(ridx2)} {opt(case.get("chunk"))} {natlists([[0] * nrefs for _ in qs])} {real2}')
			return lines, pyfails
		if kind == 'array':
			q, rs = case['q'], case['refs']
			table = table_of([q], rs, case.get('dtq', dt), dt)[0]
			refs, closer = container(case['rcont'], rs, dt)
			out = None
			if case.get('out') == 'strided':
				parent = np.full(len(rs) * 2 + 1, -7.25, dtype=np.float32)
				out = parent[1::2][:len(rs)]
			res = metric.jaccarddist_array(np.array(q, dtype=case.get('dtq', dt)), refs, out=out)
			real = nats(np.ascontiguousarray(res).view(np.uint32).tolist())
			case['_nt'] = len(rs) >= 2 and len(set(table)) > 1
			extra = []
			if out is None and sum(map(len, rs)) + len(q) <= 400:
				extra.append(f'pyg.array {KIND.get(case["rcont"], 1)} {_dtok(case.get("dtq", dt))} {_dtok(dt)} {nats(q)} {natlists(rs)} {real}')
			return [f'c05.array {nats(table)} {real}'] + extra, pyfails
		if kind == 'pairwise':
			ss = case['sigs']
			table = table_of(ss, ss, dt, dt)
			sigs, closer = container(case['cont'], ss, dt)
			idx = case.get('indices')
			items = idx if idx is not None else list(range(len(ss)))
			n = len(items)
			flat = bool(case.get('flat'))
			out = None
			if case.get('out') == 'contig':
				out = np.full((n * (n - 1) // 2,) if flat else (n, n), -7.25, dtype=np.float32)
			res = metric.jaccarddist_pairwise(sigs, indices=idx, flat=flat, out=out)
			if flat:
				real = nats(res.view(np.uint32).tolist())
			else:
				real = natlists(res.view(np.uint32).tolist()) if n else '_'
				if n and not np.array_equal(res.view(np.uint32), res.T.view(np.uint32).copy()):
					pass  # symmetry is judged by the driver through the closed form
			case['_nt'] = n >= 3 and len({x for row in table for x in row}) > 2
			extra = []
			if out is None and sum(map(len, ss)) <= 300:
				extra.append(f'pyg.pairwise {KIND.get(case["cont"], 1)} {_dtok(dt)} {natlists(ss)} {"~" if idx is None else nats(idx)} {"1" if flat else "0"} {real}')
			return [f'c05.pairwise {natlists(table)} {nats(items)} {"1" if flat else "0"} {real}'] + extra, pyfails
	except Exception as e:
		import traceback
		return [], [f'{kind} raised {exc_kind(e)}: {e} :: {traceback.format_exc(limit=3)[-300:]}']
	finally:
		if closer is not None:
			closer.close()
	raise ValueError(kind)


def rand_sigs(rng, n, universe=40):
	out = []
	for _ in range(n):
		r = rng.random()
		if r < 0.15:
			out.append([])
		elif r < 0.3 and out:
			out.append(list(rng.choice(out)))
		elif r < 0.4:
			out.append([rng.randrange(universe)])
		else:
			out.append(sorted(rng.sample(range(universe), rng.randint(1, min(12, universe)))))
	return out


def run(ctx):
	rng = ctx.rng
	ncpu = os.cpu_count() or 4
	tmax = min(16, ncpu)
	rconts = ['array', 'siglist', 'plain', 'subarray', 'hdf5']

	def sub(case, tag):
		lines, pf = safe_check(check, ctx, case)
		nt = case.pop('_nt', False)
		ctx.submit(case, lines, nontrivial=nt, tags=[tag, f'rcont={case.get("rcont", case.get("cont"))}', f'threads={case.get("threads",1)}',
		                                             f'chunk={"none" if case.get("chunk") is None else "set"}', f'out={case.get("out")}'], pyfails=pf)

	try:
		for n in range(0, 14):
			for size in range(1, 16):
				sub({'kind': 'chunks', 'n': n, 'size': size}, 'chunks')
		for n in range(-2, 9):
			for size in range(-2, 11):
				sub({'kind': 'pychunks', 'n': n, 'size': size}, 'chunks-any-int')
		# systematic: every chunk size 1..n+2 and None, each container
		for rc in rconts:
			for n in (1, 3, 5):
				rs = rand_sigs(rng, n)
				qs = rand_sigs(rng, 2)
				for chunk in [None] + list(range(1, n + 3)):
					sub({'kind': 'matrix', 'qs': qs, 'refs': rs, 'rcont': rc, 'chunk': chunk, 'threads': rng.randint(1, tmax)}, 'matrix-chunks')
		N = ctx.q(5000, 40000)
		for j in range(N):
			if not ctx.time_left(0.85):
				break
			r = rng.random()
			dt = rng.choice(['u2', 'u4', 'u8', 'i4', 'i8', 'i2'])
			threads = rng.choice([1, 2, 3, 4, 7, 8, tmax, rng.randint(1, tmax)])
			rc = rng.choice(rconts if rng.random() < 0.35 else rconts[:4])
			# an *empty* plain Python list carries no k-mer parameters; SignatureList([]) needs them (observation, DESIGN §4.6):
			# zero references are generated only for the containers that know their parameters
			fix_rc = lambda n_items, rc_: ('siglist' if (rc_ in ('plain', 'subarray') and n_items == 0) else rc_)
			if r < 0.55:
				nr = rng.choice([0, 1, 2, 3, 5, 8, 13, rng.randint(0, 30)])
				rs = rand_sigs(rng, nr)
				qs = rand_sigs(rng, rng.choice([0, 1, 1, 2, 3, 5]))
				ir = rng.random()
				if ir < 0.35:
					ridx = None
				elif ir < 0.5:
					ridx = rng.sample(range(nr), nr)
				elif ir < 0.65:
					ridx = [rng.randrange(nr) for _ in range(rng.randint(0, nr + 3))] if nr else []
				elif ir < 0.8 or nr < 3:
					ridx = sorted(rng.sample(range(nr), rng.randint(0, nr)))
				else:
					# non-decreasing runs with repeats and gaps; half of them with as many repeats as skipped positions, so that the
					# selection spans exactly its own length without being a run of consecutive indices ([4,5,5,7])
					m = rng.randint(3, min(7, nr + 1))
					steps = ([0, 2] + [1] * (m - 3)) if rng.random() < 0.5 else [rng.choice([0, 1, 1, 2]) for _ in range(m - 1)]
					rng.shuffle(steps)
					a = rng.randrange(max(1, nr - sum(steps)))
					ridx = [a]
					for d in steps:
						ridx.append(ridx[-1] + d)
					ridx = [i for i in ridx if i < nr]
					if rng.random() < 0.3:      # embedded in a longer selection: the pattern falls into one chunk for some chunk sizes only
						ridx = [rng.randrange(nr) for _ in range(rng.randint(0, 3))] + ridx + [rng.randrange(nr) for _ in range(rng.randint(0, 3))]
				n_eff = nr if ridx is None else len(ridx)
				chunk = rng.choice([None, 1, 2, 3, n_eff, n_eff + 1, n_eff + 2, max(1, n_eff - 1), 1000])
				if chunk == 0:
					chunk = 1
				sub({'kind': 'matrix', 'qs': qs, 'refs': rs, 'rcont': fix_rc(nr, rc), 'qcont': rng.choice(['plain', 'array', 'siglist']), 'dt': dt,
				     'dtq': rng.choice([dt, 'u8', 'u2' if dt in ('u2', 'i2') else 'u4']) if max([0] + [x for s in qs for x in s]) < 2 ** 15 else dt,
				     'ref_idx': ridx, 'ridx_form': rng.choice(['list', 'array']), 'chunk': chunk,
				     'ridx_neg': ([rng.random() < 0.4 for _ in ridx] if (ridx and rng.random() < 0.4) else None), 'reuse_ridx': rng.random() < 0.6,
				     'out': rng.choice([None, None, 'contig', 'strided']), 'threads': threads}, 'matrix')
			elif r < 0.75:
				rs = rand_sigs(rng, rng.choice([0, 1, 2, 5, 9, rng.randint(0, 40)]))
				sub({'kind': 'array', 'q': rand_sigs(rng, 1)[0], 'refs': rs, 'rcont': fix_rc(len(rs), rc), 'dt': dt, 'out': rng.choice([None, 'strided']),
				     'threads': threads}, 'array')
			else:
				n = rng.choice([0, 1, 2, 3, 4, 6, rng.randint(0, 14)])
				ss = rand_sigs(rng, n)
				idx = None
				if rng.random() < 0.4 and n:
					idx = [rng.randrange(n) for _ in range(rng.randint(0, n + 2))]
				sub({'kind': 'pairwise', 'sigs': ss, 'cont': fix_rc(n, rc), 'dt': dt, 'indices': idx, 'flat': rng.random() < 0.5,
				     'out': rng.choice([None, 'contig']), 'threads': threads}, 'pairwise')
		# queries in mixed integer types: byte images that coincide across types, values beyond the references' type
		TOP = {'u2': 2 ** 16, 'u4': 2 ** 32}
		for j in range(ctx.q(250, 3000)):
			if not ctx.time_left(0.9):
				break
			dt = rng.choice(['u2', 'u4'])
			wide = 'u4' if dt == 'u2' else 'u8'
			rs = rand_sigs(rng, rng.randint(1, 6))
			qs, qdts = [], []
			for _ in range(rng.randint(2, 5)):
				r = rng.random()
				if r < 0.35:
					# a narrow signature [a, b] and the wide signature [a + b * 2^bits] have the same bytes
					a, b = sorted(rng.sample(range(0, 30), 2))
					qs.append([a, b]); qdts.append(dt)
					qs.append([a + b * TOP[dt]]); qdts.append(wide)
				elif r < 0.7:
					v = sorted(set(rng.sample(range(40), rng.randint(1, 5))) | {rng.choice([TOP[dt], TOP[dt] + rng.randrange(40), TOP[dt] * 3 + 5])})
					qs.append(v); qdts.append(wide)
				else:
					qs.append(sorted(rng.sample(range(40), rng.randint(0, 6)))); qdts.append(rng.choice([dt, wide]))
			sub({'kind': 'matrix', 'qs': qs, 'qdts': qdts, 'refs': rs, 'rcont': rng.choice(['array', 'siglist', 'plain', 'array']), 'dt': dt,
			     'chunk': rng.choice([None, 1, 2, 1000]), 'threads': rng.randint(1, tmax)}, 'mixed-type-queries')
			if j % 3 == 0:
				# references of mixed widths (narrowest first), small values
				rs2 = [sorted(rng.sample(range(40), rng.randint(0, 6))) for _ in range(rng.randint(2, 6))]
				rdts = ['u2' if dt == 'u2' else 'u4'] + [rng.choice(['u2', 'u4', 'u8', 'i8', 'i4']) for _ in rs2[1:]]
				small_qs = [sorted(rng.sample(range(40), rng.randint(0, 6))) for _ in range(rng.randint(1, 3))]
				sub({'kind': 'matrix', 'qs': small_qs, 'qdts': [rng.choice(['u2', 'u4', 'u8']) for _ in small_qs], 'refs': rs2, 'rdts': rdts,
				     'rcont': rng.choice(['plain', 'siglist']), 'dt': rdts[0], 'pairwise': rng.random() < 0.35,
				     'chunk': rng.choice([None, 1, 2, 1000]), 'threads': rng.randint(1, tmax)}, 'mixed-width-references')
		# the same list object, edited in place between two calls
		for j in range(ctx.q(150, 1500)):
			if not ctx.time_left(0.93):
				break
			n = rng.randint(1, 6)
			ss = rand_sigs(rng, n)
			ss2 = [list(x) for x in ss]
			for i in rng.sample(range(n), rng.randint(1, n)):
				ss2[i] = rand_sigs(rng, 1)[0]
			sub({'kind': 'reuse', 'sigs': ss, 'sigs2': ss2, 'refs': rand_sigs(rng, rng.randint(1, 5)), 'rcont': rng.choice(['array', 'siglist', 'plain']),
			     'dt': rng.choice(['u4', 'u8']), 'pairwise': rng.random() < 0.3, 'asrefs': rng.choice([None, 'array', 'matrix']), 'chunk': rng.choice([None, 2, 1000]), 'threads': rng.randint(1, tmax)}, 'list-reused-across-calls')
		# schedule sampling: the same larger computation repeated under every thread count
		reps = ctx.q(3, 25)
		rs = rand_sigs(rng, 300, universe=400)
		q = rand_sigs(rng, 1, universe=400)[0]
		for t in range(1, tmax + 1):
			for _ in range(reps):
				if not ctx.time_left(0.97):
					break
				sub({'kind': 'array', 'q': q, 'refs': rs, 'rcont': 'array', 'dt': 'u4', 'threads': t}, 'schedule-repeat')
	finally:
		cleanup()
		try:
			from gambit._cython.threads import omp_set_num_threads
			omp_set_num_threads(ncpu)
		except Exception:
			pass
