"""C07 — k-mer/index conversion is the base-4 bijection, consistent with revcomp."""
import itertools

from core import hx, exc_kind, safe_check

PROPS = ('GambitV.Props.C07', 'GambitV.C07')
TIE = [('GambitV.Tie.Kmers', 'GambitV.Tie.Kmers'), ('GambitV.Tie.PyKmerWrappers', 'GambitV.Tie.Py'), ('GambitV.Tie.PyBindKmers', 'GambitV.Tie.Py')]
RULE = ('streams: all k-mers over ACGT for k<=6 (quick) / 8 (thorough) [exhaustive]; all byte strings of length <=2 '
        'over 0..255 [exhaustive]; all-A/all-T/single-T for every k<=40; random mixed-case k-mers with and without '
        'one foreign byte, k<=40; random indices < 2^64 with k<=32 (and k up to 40 for the decoder); '
        'str/bytes/bytearray/Seq inputs x every nucleotide-like foreign letter (U, IUPAC, gaps) in every position of a 5-mer; indices as Python ints and '
        'numpy scalars (u8 above 2^53, i8, u4, i4, u2); one bytearray refilled in place between consecutive calls. Non-trivial = distinct case whose k-mer has k>=1.')
TRUSTED = ['harness/props/c07.py + Driver/C07.lean (transport)', 'CPython int<->uint64 conversion at the Cython boundary']
ASSUMPTIONS = ['the compiled kmers*.so is what Python imports; the .pyx text is tied separately by GambitV.Tie.Kmers']


def _enc(fn, arg):
	try:
		return f'ok:{int(fn(arg))}'
	except ValueError as e:
		return 'err:toolong' if 'must be <= 32' in str(e) else 'err:invalid'
	except Exception as e:  # noqa
		return 'exc:' + exc_kind(e)


def check(ctx, case):
	from gambit import kmers
	from gambit.seq import revcomp
	from Bio.Seq import Seq
	kind = case['kind']
	lines = []
	if kind == 'kmer':
		b = bytes.fromhex(case['hex'])
		form = case.get('form', 'bytes')
		arg = b
		if form == 'str':
			arg = b.decode('latin-1') if all(x < 128 for x in b) else b
		elif form == 'bytearray':
			arg = bytearray(b)
		elif form == 'seq':
			arg = Seq(b)
		lines.append(f'c07.enc {hx(b)} {_enc(kmers.kmer_to_index, arg)}')
		lines.append(f'c07.encrc {hx(b)} {_enc(kmers.kmer_to_index_rc, arg)}')
		lines.append(f'c07.rc {hx(b)} {hx(revcomp(b))}')
		# three-way: definitions generated from the current .pyx text vs model vs compiled module
		if len(b) <= 40:
			lines.append(f'gen.enc {hx(b)} {_enc(kmers.kmer_to_index, arg)}')
			lines.append(f'gen.encrc {hx(b)} {_enc(kmers.kmer_to_index_rc, arg)}')
			lines.append(f'gen.rc {hx(b)} {hx(revcomp(b))}')
	elif kind == 'index':
		import numpy as np
		i, k = case['i'], case['k']
		form = case.get('iform', 'int')
		arg = i if form == 'int' else np.dtype(form).type(i)      # numpy scalars: what an element of a signature array is
		lines.append(f'c07.dec {i} {k} {hx(kmers.index_to_kmer(arg, k))}')
		lines.append(f'gen.dec {i} {k} {hx(kmers.index_to_kmer(arg, k))}')
	elif kind == 'reuse':
		# one mutable buffer object refilled in place between consecutive calls to the same encoder
		kms = [bytes.fromhex(h) for h in case['kmers']]
		buf = bytearray(kms[0])
		for fn, op in ((kmers.kmer_to_index, 'c07.enc'), (kmers.kmer_to_index_rc, 'c07.encrc')):
			for km in kms:
				buf[:] = km
				lines.append(f'{op} {hx(km)} {_enc(fn, buf)}')
				if case.get('twice'):
					lines.append(f'{op} {hx(km)} {_enc(fn, buf)}')
	elif kind == 'dtype':
		k = case['k']
		dt = kmers.index_dtype(k)
		lines.append(f'c07.dtype {k} {"~" if dt is None else dt.itemsize}')
	return lines


def run(ctx):
	rng = ctx.rng
	kmax = ctx.q(6, 8)

	def sub(case, tag):
		lines, pf = safe_check(check, ctx, case)
		ctx.submit(case, lines, nontrivial=(case.get('hex', 'x') != ''), tags=[tag], pyfails=pf)

	ctx.submit({'kind': 'gen-facts'}, ['gen.facts'], nontrivial=False, tags=['gen-facts'])
	# exhaustive: all k-mers over ACGT, k <= kmax
	for k in range(0, kmax + 1):
		for t in itertools.product(b'ACGT', repeat=k):
			sub({'kind': 'kmer', 'hex': bytes(t).hex()}, f'exh-kmer-k{k}')
	# exhaustive: all byte strings of length <= 2
	for b0 in range(256):
		sub({'kind': 'kmer', 'hex': bytes([b0]).hex()}, 'exh-bytes-1')
		for b1 in range(256):
			sub({'kind': 'kmer', 'hex': bytes([b0, b1]).hex()}, 'exh-bytes-2')
	# boundary k-mers for every k (incl. rejection range 33..40)
	for k in range(1, 41):
		for s in (b'A' * k, b'T' * k, b'A' * (k - 1) + b'T', b'T' + b'A' * (k - 1), b't' * k, b'C' * k, b'G' * k):
			sub({'kind': 'kmer', 'hex': s.hex()}, 'boundary')
		sub({'kind': 'dtype', 'k': k}, 'dtype')
	sub({'kind': 'dtype', 'k': 0}, 'dtype')
	# every input type x every nucleotide-like foreign letter (RNA U, IUPAC codes, gap characters) in every position of a 5-mer
	for form in ('bytes', 'str', 'bytearray', 'seq'):
		for fb in b'UuNnRYKMSWBDHVrykmswbdhv-.*Xx':
			for pos in range(5):
				km = bytearray(b'ACGTA'); km[pos] = fb
				sub({'kind': 'kmer', 'hex': bytes(km).hex(), 'form': form}, 'foreign-letter-grid')
	# decoder: boundary indices
	for k in range(0, 33):
		for i in {0, 1, 4 ** k - 1, 4 ** k // 2, min(4 ** k, 2 ** 64 - 1), 2 ** 64 - 1}:
			sub({'kind': 'index', 'i': i, 'k': k}, 'dec-boundary')
			if i >= 2 ** 53 - 1:
				sub({'kind': 'index', 'i': i, 'k': k, 'iform': 'u8'}, 'dec-boundary-u8')
	ctx.exhaustive = [f'all ACGT k-mers k<={kmax}', 'all byte strings of length 1 and 2']
	# random
	n = ctx.q(4000, 60000)
	forms = ['bytes', 'str', 'bytearray', 'seq']
	alph = b'ACGTacgt'
	for j in range(n):
		if not ctx.time_left(0.9):
			break
		r = rng.random()
		if r < 0.55:
			k = rng.randint(1, 40) if rng.random() < 0.15 else rng.randint(1, 32)
			s = bytearray(rng.choice(alph if rng.random() < 0.5 else b'ACGT') for _ in range(k))
			if rng.random() < 0.3:
				s[rng.randrange(k)] = rng.choice([rng.randrange(256), ord('N'), ord('n'), ord('U'), ord('u'), 0x21, 0x61 ^ 0x20, 0xC1, 0xE1, 0x41 | 0x80])
			sub({'kind': 'kmer', 'hex': bytes(s).hex(), 'form': rng.choice(forms)}, 'rand-kmer')
		else:
			k = rng.randint(0, 40) if rng.random() < 0.2 else rng.randint(0, 32)
			i = rng.randrange(2 ** 64) if rng.random() < 0.5 else rng.randrange(4 ** min(k, 32) + 1)
			i = min(i, 2 ** 64 - 1)
			iforms = ['int', 'u8'] + (['i8'] if i < 2 ** 63 else []) + (['u4', 'i4'] if i < 2 ** 31 else []) + (['u2'] if i < 2 ** 16 else [])
			sub({'kind': 'index', 'i': i, 'k': k, 'iform': rng.choice(iforms)}, 'rand-index')
	# buffer reuse
	for j in range(ctx.q(300, 3000)):
		if not ctx.time_left(0.95):
			break
		k = rng.randint(1, 32)
		kms = []
		for _ in range(rng.randint(2, 6)):
			km = bytearray(rng.choice(alph) for _ in range(k))
			if rng.random() < 0.25:
				km[rng.randrange(k)] = rng.choice(b'NnUu-\x00')
			kms.append(bytes(km).hex())
		sub({'kind': 'reuse', 'kmers': kms, 'twice': rng.random() < 0.3}, 'buffer-reuse')
