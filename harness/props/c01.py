"""C01 — a signature is exactly the set of prefix-anchored k-mers on both strands."""
from core import hx, nats, hexlist, exc_kind, safe_check

PROPS = ('GambitV.Props.C01', 'GambitV.C01')
TIE = [('GambitV.Tie.Kmers', 'GambitV.Tie.Kmers'), ('GambitV.Tie.PyFindKmers', 'GambitV.Tie.Py'), ('GambitV.Tie.PyPropsC01', 'GambitV.Tie.Py'), ('GambitV.Tie.PyCalcSig', 'GambitV.Tie.Py'), ('GambitV.Tie.PyBindKmers', 'GambitV.Tie.Py'), ('GambitV.Tie.PyAccFacts', 'GambitV.Tie.Py'), ('GambitV.Tie.PyKmerSpecFacts', 'GambitV.Tie.Py'), ('GambitV.Tie.PySeqBytes', 'GambitV.Tie.Py')]
RULE = ('cases = (k, prefix, list of sequences, input type, accumulator). Streams: corpus; every length 0..|pre|+k+3 over '
        'dense tiny alphabets; random k in 1..32 (array accumulator only for k<=10/12), prefixes of length 1..6 incl. '
        'A, AA, AT, ATAT, ACGT; alphabets {prefix letters only, ACGT, ACGT+N, mixed case, arbitrary bytes}; matches planted '
        'flush with either end; 1..5 sequences; str/bytes/bytearray/Seq/single-sequence inputs; plus find_kmers positions '
        'and a bytes.find sub-stream; one bytearray refilled in place between consecutive searches; sequences > 2^20 nt with occurrences planted across '
        'power-of-two offsets on either strand (reference = plain byte search, checked against the Lean model on windows). Non-trivial = distinct case whose real signature is non-empty.')
TRUSTED = ['harness/props/c01.py + Driver/C01.lean (transport, canonicalisation)',
           'CPython bytes.find / bytes.upper modelled by bytesFind / upper (validated by the c01.bfind stream)']
ASSUMPTIONS = ['text inputs are ASCII (str.encode("ascii") raises otherwise)']

PREFIXES = [b'A', b'T', b'AA', b'AT', b'ATAT', b'ACGT', b'ATGAC', b'GC', b'CCC', b'TA', b'G', b'ACA', b'AATT']


def _mk(seq: bytes, form: str):
	from Bio.Seq import Seq
	if form == 'str' and all(x < 128 for x in seq):
		return seq.decode('ascii')
	if form == 'bytearray':
		return bytearray(seq)
	if form == 'seq':
		return Seq(seq)
	return seq


def check(ctx, case):
	import numpy as np
	from gambit.kmers import KmerSpec, find_kmers
	from gambit.sigs.calc import calc_signature, ArrayAccumulator, SetAccumulator
	k = case['k']
	pre = bytes.fromhex(case['pre'])
	seqs = [bytes.fromhex(h) for h in case['seqs']]
	form = case.get('form', 'bytes')
	acc = case.get('acc', 'default')
	if case.get('kind') == 'buffer-reuse':
		# ONE bytearray object refilled in place and searched again (calc_signature and find_kmers), nothing else in between:
		# every result is the signature of the buffer's current contents
		kspec = KmerSpec(k, pre)
		buf = bytearray(seqs[0])
		lines = []
		for sq in seqs:
			buf[:] = sq
			sig = calc_signature(kspec, buf)
			lines.append(f'c01.sig {k} {hx(pre)} {hexlist([sq])} {sig.dtype.itemsize} {nats(sig.tolist())}')
			fwd, rev = [], []
			for m in find_kmers(kspec, buf):
				(rev if m.reverse else fwd).append(m.pos)
			lines.append(f'c01.find {k} {hx(pre)} {hx(sq)} {nats(fwd)} {nats(rev)}')
		case['_n'] = 1
		return lines, []
	if case.get('kind') == 'long':
		# sequences longer than 2^20 with occurrences across power-of-two offsets (reference: plain byte search, itself checked
		# against the Lean model on a window around every planted occurrence)
		from props.c06 import materialize, ref_sig
		kspec = KmerSpec(k, pre)
		seq = materialize(case['long'])
		prefix = pre.decode()
		lines = []
		for off, unit in case['long']['plants']:
			win = seq[max(0, off - 40): off + len(unit) // 2 + 40]
			lines.append(f'c01.sig {k} {hx(pre)} {hexlist([win])} {kspec.index_dtype.itemsize} {nats(ref_sig(k, prefix, win))}')
		want = ref_sig(k, prefix, seq)
		pf = []
		for fm in case.get('forms', ['bytes']):
			sig = calc_signature(kspec, _mk(seq, fm) if fm != 'single' else seq).tolist()
			if sig != want:
				pf.append(f'signature of a {len(seq)}-nt sequence ({fm}) is {sig[:8]}... ({len(sig)} k-mers), the k-mers present are {want[:8]}... ({len(want)}); plants at {[o for o, _ in case["long"]["plants"]]}')
		case['_n'] = len(want)
		return lines, pf
	if 'pyfind' in case:
		# bytes.find with raw (negative / missing / too large) bounds, bytes.upper / lower: the built-ins of the translator's run-time library
		hay, pat, start, stop = bytes.fromhex(case['pyfind'][0]), bytes.fromhex(case['pyfind'][1]), case['pyfind'][2], case['pyfind'][3]
		r = hay.find(pat, start) if stop is None else hay.find(pat, start, stop)
		return [f'pyrt.find {hx(hay)} {hx(pat)} {start} {"~" if stop is None else stop} {r}',
		        f'pyrt.upper {hx(hay)} {hx(hay.upper())}', f'pyrt.lower {hx(hay)} {hx(hay.lower())}'], []
	if 'bfind' in case:
		hay, pat, start, stop = bytes.fromhex(case['bfind'][0]), bytes.fromhex(case['bfind'][1]), case['bfind'][2], case['bfind'][3]
		r = hay.find(pat, start, stop)
		return [f'c01.bfind {hx(hay)} {hx(pat)} {start} {stop} {"~" if r < 0 else r}'], []
	# KmerSpec accepts the prefix in any case (and as str / bytes) and normalises it; the specification is in terms of the upper-case prefix
	pform = case.get('pform', 'bytes-upper')
	parg = pre
	if 'lower' in pform:
		parg = pre.lower()
	elif 'mixed' in pform:
		parg = bytes((b | 0x20) if i % 2 else b for i, b in enumerate(pre))
	if pform.startswith('str'):
		parg = parg.decode('ascii')
	kspec = KmerSpec(k, parg)
	if case.get('after_failure'):
		# an earlier call in this thread that fails part-way (after some k-mers were found) must leave nothing behind
		bad = [bytes.fromhex(case['seqs'][0]) if case['seqs'] else b'ATATATAT', pre + b'ACGT' * 12, 'not ascii: \u00e9\u00e9' if case['after_failure'] == 'unicode' else 12345]
		try:
			calc_signature(KmerSpec(k, pre), bad, accumulator=None)
		except Exception:
			pass
	accumulator = None
	if acc == 'array':
		accumulator = ArrayAccumulator(k)
	elif acc == 'set':
		accumulator = SetAccumulator(k)
	if form == 'single' and len(seqs) == 1:
		arg = seqs[0]
	else:
		arg = [_mk(s, form) for s in seqs]
	pyfails = []
	try:
		sig = calc_signature(kspec, arg, accumulator=accumulator)
	except Exception as e:  # the statement demands a signature for every input
		return [], [f'calc_signature raised {exc_kind(e)}: {e}']
	if not isinstance(sig, np.ndarray) or sig.ndim != 1 or sig.dtype.kind != 'u':
		pyfails.append(f'result is not a 1-d unsigned array: {type(sig)} {getattr(sig, "dtype", None)}')
		return [], pyfails
	lines = [f'c01.sig {k} {hx(pre)} {hexlist(seqs)} {sig.dtype.itemsize} {nats(sig.tolist())}']
	case['_n'] = int(len(sig))
	if case.get('find') and seqs:
		s0 = _mk(seqs[0], form if form != 'single' else 'bytes')
		fwd, rev = [], []
		kis = []
		for m in find_kmers(kspec, s0):
			(rev if m.reverse else fwd).append(m.pos)
			if len(kis) < 6:
				# KmerMatch.kmer_indices against the definition generated from the current source (tie T)
				sl = m.kmer_indices()
				kis.append(f'pyg.ki {k} {hx(pre)} {m.pos} {1 if m.reverse else 0} {sl.start},{sl.stop}')
		lines.append(f'c01.find {k} {hx(pre)} {hx(seqs[0])} {nats(fwd)} {nats(rev)}')
		lines += kis
	return lines, pyfails


def _rand_seq(rng, n, alph):
	return bytes(rng.choice(alph) for _ in range(n))


def run(ctx):
	rng = ctx.rng
	amax = ctx.q(9, 11)

	def sub(case, tag):
		lines, pf = safe_check(check, ctx, case)
		n = case.pop('_n', 0)
		ctx.submit(case, lines, nontrivial=n > 0, tags=[tag, f'form={case.get("form","bytes")}', f'acc={case.get("acc","default")}',
		                                                 'sig=empty' if n == 0 else ('sig=1' if n == 1 else 'sig>1')], pyfails=pf)

	forms = ['bytes', 'str', 'bytearray', 'seq', 'single']
	# corpus: hand-picked boundary cases
	corpus = [
		(3, b'AT', [b'ATCCCATGGG']), (2, b'AT', [b'ATAT']), (2, b'AT', [b'ATATATAT']), (1, b'A', [b'AAAA']),
		(2, b'AA', [b'AAAAAA']), (3, b'ATAT', [b'ATATATATCCGATAT']), (4, b'ACGT', [b'ACGTACGTACGT']),
		(3, b'AT', [b'atcccATggg', b'NNATNCC', b'']), (3, b'AT', [b'CCCAT']), (3, b'AT', [b'ATCCC']), (3, b'AT', [b'GGGAT']),
		(3, b'AT', [b'ATGG']), (3, b'AT', [b'AT']), (3, b'AT', [b'A']), (1, b'T', [b'TA', b'AT', b'TT']),
		(11, b'ATGAC', [b'ATGACGGGGGGGGGGGATGACCCCCCCCCCCGTCATAAAAAAAAAAAGTCAT']),
		(5, b'AT', [bytes(range(256)) + b'ATCCCCC' + bytes(range(255, -1, -1))]),
		(32, b'AT', [b'AT' + b'ACGT' * 8 + b'AT', b'at' + b'acgt' * 8]), (32, b'A', [b'T' * 40 + b'A' * 40]),
		(16, b'GC', [b'GC' + b'T' * 16, b'A' * 16 + b'GC']), (17, b'GC', [b'GC' + b'T' * 17 + b'GC']),
		(8, b'TA', [b'TA' + b'G' * 8]), (9, b'TA', [b'TA' + b'G' * 9]), (4, b'TA', [b'TA' + b'G' * 4]), (5, b'TA', [b'TA' + b'G' * 5]),
		# white space around and inside a sequence is just more bytes that are no nucleotides: positions are positions in the input as given,
		# for text as for bytes
		(4, b'AT', [b'  ATGACCTTAGG', b'\nATGACC\n', b'\t ATCCCC \r\n', b'AT GACC', b' ']), (3, b'AT', [b'   CCCAT', b'GGGAT   ', b' \n']),
	]
	for k, pre, seqs in corpus:
		for form in forms:
			for acc in ('set', 'array') if k <= amax else ('set',):
				sub({'k': k, 'pre': pre.hex(), 'seqs': [s.hex() for s in seqs], 'form': form, 'acc': acc, 'find': True}, 'corpus')
	# every length around |pre|+k over a dense alphabet
	for pre in (b'A', b'AT', b'AA', b'TA', b'ATAT'):
		for k in (1, 2, 3):
			alph = bytes(set(pre)) + b'T' if len(set(pre)) == 1 else bytes(set(pre))
			for n in range(0, len(pre) + k + 4):
				for rep in range(ctx.q(6, 40)):
					s = _rand_seq(rng, n, alph)
					sub({'k': k, 'pre': pre.hex(), 'seqs': [s.hex()], 'form': rng.choice(forms), 'acc': rng.choice(['set', 'array']), 'find': True}, 'short-dense')
	# random
	n_rand = ctx.q(1500, 40000)
	for j in range(n_rand):
		if not ctx.time_left(0.85):
			break
		r = rng.random()
		k = rng.randint(1, 32) if r < 0.5 else rng.randint(1, 6)
		pre = rng.choice(PREFIXES) if rng.random() < 0.8 else _rand_seq(rng, rng.randint(1, 6), b'ACGT')
		ar = rng.random()
		if ar < 0.3:
			alph = bytes(set(pre)) * 3 + b'ACGT'
		elif ar < 0.55:
			alph = b'ACGT'
		elif ar < 0.7:
			alph = b'ACGTN' * 3 + b'acgtn-'
		elif ar < 0.85:
			alph = b'ACGTacgt'
		else:
			alph = bytes(range(256))
		nseq = rng.choice([1, 1, 1, 2, 3, 5])
		seqs = []
		for _ in range(nseq):
			lr = rng.random()
			n = rng.randint(0, len(pre) + k + 3) if lr < 0.25 else (rng.randint(0, 120) if lr < 0.8 else rng.randint(0, ctx.q(600, 4000)))
			s = bytearray(_rand_seq(rng, n, alph))
			if rng.random() < 0.12:
				# framed by white space (a sequence pasted as text)
				s = bytearray(rng.choice([b' ', b'  ', b'\n', b'\t ', b'\r\n'])) + s + bytearray(rng.choice([b'', b' ', b'\n']))
			# plant occurrences, including flush with either end, on either strand
			from gambit.seq import revcomp
			for _ in range(rng.choice([0, 1, 2, 4])):
				km = _rand_seq(rng, k, b'ACGT' if rng.random() < 0.8 else b'ACGTN')
				unit = pre + km
				if rng.random() < 0.5:
					unit = revcomp(unit)
				if rng.random() < 0.3:
					unit = unit.lower()
				if len(unit) <= len(s):
					where = rng.choice([0, len(s) - len(unit), rng.randint(0, len(s) - len(unit))])
					s[where:where + len(unit)] = unit
				elif rng.random() < 0.5:
					s = bytearray(unit)
			seqs.append(bytes(s))
		acc = rng.choice(['set', 'array', 'default']) if k <= amax else rng.choice(['set', 'default'])
		case = {'k': k, 'pre': pre.hex(), 'seqs': [s.hex() for s in seqs], 'form': rng.choice(forms), 'acc': acc,
		        'find': rng.random() < 0.3, 'pform': rng.choice(['bytes-upper', 'bytes-upper', 'str-upper', 'bytes-lower', 'str-lower', 'bytes-mixed', 'str-mixed'])}
		if rng.random() < 0.15:
			case['after_failure'] = rng.choice(['unicode', 'type'])
			case['acc'] = 'default'
		sub(case, 'random')
	# one mutable buffer refilled in place between consecutive searches (mixed case, so that a working copy is made)
	for j in range(ctx.q(150, 1500)):
		k = rng.randint(1, 8)
		pre = rng.choice(PREFIXES)
		n = rng.randint(len(pre) + k, 60)
		sqs = []
		for _ in range(rng.randint(2, 5)):
			s_ = bytearray(_rand_seq(rng, n, b'ACGTacgt' if rng.random() < 0.8 else b'ACGT'))
			unit = pre + _rand_seq(rng, k, b'ACGT')
			if rng.random() < 0.5:
				unit = unit.lower()
			w = rng.randint(0, n - len(unit))
			s_[w:w + len(unit)] = unit
			sqs.append(bytes(s_).hex())
		sub({'kind': 'buffer-reuse', 'k': k, 'pre': pre.hex(), 'seqs': sqs}, 'buffer-reuse')
	# long sequences
	from props.c06 import _COMP
	import dbutil
	for j in range(ctx.q(5, 40)):
		if not ctx.time_left(0.97):
			break
		k, prefix = rng.choice([(11, 'ATGAC'), (11, 'ATGAC'), (7, 'ATG'), (5, 'AT')])
		span = len(prefix) + k
		L = 2 ** 20 + rng.randint(span + 1, 5000)
		plants = []
		for seam in (2 ** 16, 2 ** 17, 2 ** 19, 2 ** 20):
			d = rng.randint(0, span + 2)
			rev = rng.random() < 0.5
			if seam == 2 ** 20:
				d = [1, span - 1, 2, len(prefix) - 1 or 1, k, k + 1][j % 6] if j < 12 else d
				rev = (j // 2) % 2 == 1 if j < 12 else rev
			unit = prefix.encode() + dbutil.rand_dna(rng, k, b'CG')
			if rev:
				unit = unit.translate(_COMP)[::-1]
			plants.append([seam - d, unit.hex()])
		sub({'kind': 'long', 'k': k, 'pre': prefix.encode().hex(), 'seqs': [], 'long': {'L': L, 'plants': plants}, 'forms': [rng.choice(['bytes', 'str', 'bytearray', 'single'])]}, 'long-sequence-seams')
	# bytes.find sub-stream (validates the model of the library call)
	for j in range(ctx.q(2000, 20000)):
		n = rng.randint(0, 12)
		hay = _rand_seq(rng, n, b'AB')
		pat = _rand_seq(rng, rng.randint(1, 3), b'AB')
		start = rng.randint(0, n + 2)
		stop = rng.randint(0, n)
		case = {'k': 1, 'pre': '41', 'seqs': [], 'bfind': [hay.hex(), pat.hex(), start, stop]}
		lines, pf = safe_check(check, ctx, case)
		ctx.submit(case, lines, nontrivial=False, tags=['bfind'])
	# the same built-in with raw bounds (negative, missing, beyond the end; empty pattern), mixed-case / non-letter bytes for upper() / lower()
	for j in range(ctx.q(1500, 15000)):
		n = rng.randint(0, 12)
		hay = _rand_seq(rng, n, b'ABab\xe9@[`{')
		pat = _rand_seq(rng, rng.randint(0, 3), b'ABab')
		start = rng.randint(-n - 3, n + 3)
		stop = rng.choice([None, rng.randint(-n - 3, n + 3)])
		case = {'k': 1, 'pre': '41', 'seqs': [], 'pyfind': [hay.hex(), pat.hex(), start, stop]}
		lines, pf = safe_check(check, ctx, case)
		ctx.submit(case, lines, nontrivial=False, tags=['pyrt-find'])


def shrink(ctx, failure):
	"""Delta-debug the sequences of a failing signature case."""
	case = dict(failure['case'])
	if 'bfind' in case or 'pyfind' in case:
		return failure

	def fails(c):
		lines, pf = check(ctx, dict(c))
		if pf:
			return True
		return any(r != 'ok' for r in ctx.check_now(lines))

	if not fails(case):
		return failure
	seqs = [bytes.fromhex(h) for h in case['seqs']]
	# drop whole sequences
	i = 0
	while i < len(seqs) and len(seqs) > 1:
		trial = seqs[:i] + seqs[i + 1:]
		c = dict(case, seqs=[s.hex() for s in trial])
		if fails(c):
			seqs = trial
		else:
			i += 1
	# shrink each sequence by removing chunks
	for si in range(len(seqs)):
		chunk = max(1, len(seqs[si]) // 2)
		while chunk >= 1:
			pos = 0
			while pos < len(seqs[si]):
				t = seqs[si][:pos] + seqs[si][pos + chunk:]
				c = dict(case, seqs=[(t if j == si else s).hex() for j, s in enumerate(seqs)])
				if fails(c):
					seqs[si] = t
				else:
					pos += chunk
			chunk //= 2
	case['seqs'] = [s.hex() for s in seqs]
	lines, pf = check(ctx, dict(case))
	replies = ctx.check_now(lines) if lines else []
	return {'case': case, 'bad': [{'request': l, 'reply': r} for l, r in zip(lines, replies) if r != 'ok'], 'pyfails': pf}
