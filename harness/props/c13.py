"""C13 — multi-file signature computation keeps file order under every completion order."""
import itertools
import threading
from concurrent.futures import Executor, Future, ThreadPoolExecutor, ProcessPoolExecutor

from core import nats, natlists, exc_kind, safe_check
import dbutil

PROPS = ('GambitV.Props.C13', 'GambitV.C13')
TIE = [('GambitV.Tie.PyCalcFiles', 'GambitV.Tie.Py'), ('GambitV.Tie.PyIoFlow', 'GambitV.Tie.Py')]
RULE = ('(list of FASTA files, some unreadable/unparsable, completion order sigma). A harness-owned executor completes the submitted futures one by '
        'one in the chosen order, stepped by a harness progress meter (both are public parameters of calc_file_signatures): all permutations of '
        'n <= 4 (quick) / 6 (thorough) files, with a failing file at every position; plus sequential mode and real thread / process pools with '
        'skewed file sizes and 1..16 workers; several calls in one process with relative paths and the working directory changed in between, `link/../file` through a '
        'symbolic link to a directory elsewhere, a named pipe among regular files. The Lean model is instantiated with result(i) := the real single-file signature of file i. '
        'Non-trivial = distinct case with >= 2 files whose completion order is not the file order.')
TRUSTED = ['harness/props/c13.py + Driver/C13.lean', 'concurrent.futures: as_completed yields a future only after it has completed; Future.result re-raises']
ASSUMPTIONS = ['real pools are sampled (their schedules cannot be enumerated); the controlled executor enumerates completion orders exhaustively']


class StepMeter:
	def __init__(self, ev):
		self.ev = ev

	def increment(self, delta=1):
		self.ev.set()

	def moveto(self, n):
		pass

	def close(self):
		pass

	def __enter__(self):
		return self

	def __exit__(self, *a):
		self.close()


class StepExecutor(Executor):
	"""Completes futures in a prescribed order; waits for the consumer (progress meter) between completions."""

	def __init__(self, order, n):
		self.order = order
		self.n = n
		self.tasks = []
		self.ev = threading.Event()
		self.stop = threading.Event()
		self.all_submitted = threading.Event()
		self.thread = threading.Thread(target=self._drive, daemon=True)
		self.thread.start()
		self.shutdown_called = False

	def submit(self, fn, *args, **kw):
		f = Future()
		self.tasks.append((f, fn, args, kw))
		if len(self.tasks) == self.n:
			self.all_submitted.set()
		return f

	def _drive(self):
		self.all_submitted.wait(10)
		for idx in self.order:
			if self.stop.is_set():
				return
			f, fn, args, kw = self.tasks[idx]
			f.set_running_or_notify_cancel()
			try:
				r = fn(*args, **kw)
			except BaseException as e:
				f.set_exception(e)
			else:
				f.set_result(r)
			# wait until the consumer has stored this result (meter.increment) or gave up
			while not self.ev.wait(0.05):
				if self.stop.is_set():
					return
			self.ev.clear()

	def meter_factory(self, total, initial=0, **kw):
		return StepMeter(self.ev)

	def shutdown(self, wait=True, **kw):
		self.shutdown_called = True


def make_files(sc, case):
	"""returns (SequenceFile list, paths)"""
	from gambit.seq import SequenceFile
	files = []
	for i, f in enumerate(case['files']):
		p = sc.path(f'g{i}.fasta')
		if f['kind'] == 'same':
			files.append(files[f['as']])          # the very same SequenceFile given again
			continue
		if f['kind'] == 'ok':
			dbutil.write_fasta(p, [bytes.fromhex(c) for c in f['contigs']])
		elif f['kind'] == 'missing':
			pass
		elif f['kind'] == 'garbage':
			p.write_bytes(b'\x1f\x8b\x08garbage-not-gzip')   # gzip magic, invalid stream
		elif f['kind'] == 'padded':
			# a distinct short sequence followed by `mib` MiB of N padding (size skew without signature cost)
			with open(p, 'wb') as fh:
				fh.write(b'>c1\n' + bytes.fromhex(f['contigs'][0]) + b'\n>pad\n')
				line = b'N' * 79 + b'\n'
				fh.write(line * int(f['mib'] * 1048576 // 80))
		elif f['kind'] == 'truncgz':
			# valid gzip start: several records parse before the stream ends unexpectedly
			import gzip as _gz
			recs = b''.join(b'>r%d\n' % j + bytes.fromhex(c) + b'\n' for j, c in enumerate(f['contigs']))
			data = _gz.compress(recs + b'>tail\n' + b'ACGT' * 20000 + b'\n')
			p.write_bytes(data[:len(data) - max(30, len(data) // 3)])
		files.append(SequenceFile(p, 'fasta', 'auto'))
	return files


def check_reuse(ctx, case):
	"""several calls on ONE caller-supplied pool; every call is judged on its own"""
	from gambit.kmers import KmerSpec
	from gambit.sigs.calc import calc_file_signatures, calc_file_signature
	import numpy as np
	sc = dbutil.Scratch('gv_c13_')
	lines, pf = [], []
	try:
		kspec = KmerSpec(case.get('k', 4), case.get('prefix', 'AT'))
		with ThreadPoolExecutor(max_workers=case.get('workers', 1)) as pool:
			for ci, call in enumerate(case['calls']):
				sub = sc.subdir(f'call{ci}')
				sc2 = type('S', (), {'path': staticmethod(lambda name, _d=sub: _d / name)})
				files = make_files(sc2, {'files': call})
				results = []
				for f in files:
					try:
						results.append(nats(calc_file_signature(kspec, f).tolist()))
					except Exception:
						results.append('E')
				try:
					out = calc_file_signatures(kspec, files, executor=pool)
					real = 'has-None' if any(s is None for s in out) else (natlists([np.asarray(s).tolist() for s in out]) if len(out) else '_')
				except Exception:
					real = 'err'
				lines.append(f'c13.run {";".join(results) if results else "_"} {nats(range(len(files)))} {real}')
		case['_nt'] = len(case['calls']) >= 2
		return lines, pf
	finally:
		sc.cleanup()


def _feed_fifo(path, data):
	"""one writer for one reader: blocks until somebody opens the FIFO for reading, writes, closes"""
	def w():
		try:
			with open(path, 'wb') as f:
				f.write(data)
		except OSError:
			pass
	t = threading.Thread(target=w, daemon=True)
	t.start()
	return t


def _release_fifo(path):
	"""let a writer that was never read from, or a reader that waits for a writer, go"""
	import os
	for flags in (os.O_RDONLY | os.O_NONBLOCK, os.O_WRONLY | os.O_NONBLOCK):
		try:
			os.close(os.open(path, flags))
		except OSError:
			pass


def check_paths(ctx, case):
	"""inputs named in unusual but legal ways, over several calls in one process: relative paths with the working directory changed
	between calls, `link/../file` where `link` is a symbolic link to a directory elsewhere, a named pipe among regular files"""
	import os
	import numpy as np
	from gambit.kmers import KmerSpec
	from gambit.seq import SequenceFile
	from gambit.sigs.calc import calc_file_signatures, calc_file_signature
	sc = dbutil.Scratch('gv_c13p_')
	cwd0 = os.getcwd()
	lines, pf = [], []
	try:
		kspec = KmerSpec(case.get('k', 4), case.get('prefix', 'AT'))
		rng = __import__('random').Random(case['seed'])
		dirs = {}
		for dn in ('a', 'b'):
			d = sc.subdir(dn)
			dirs[dn] = d
			for i in range(case['nfiles']):
				dbutil.write_fasta(d / f's{i}.fasta', [dbutil.rand_dna(rng, rng.randint(40, 200))])
			# link -> elsewhere/deep : `link/../s0.fasta` is elsewhere/s0.fasta, NOT <d>/s0.fasta
			other = sc.subdir(dn + '_elsewhere')
			(other / 'deep').mkdir()
			for i in range(case['nfiles']):
				dbutil.write_fasta(other / f's{i}.fasta', [dbutil.rand_dna(rng, rng.randint(40, 200))])
			os.symlink(other / 'deep', d / 'link')
		for step in case['steps']:
			os.chdir(dirs[step['dir']])
			rels = [(f'link/../s{i}.fasta' if step.get('dotdot') and i % 2 == 0 else f's{i}.fasta') for i in step['files']]
			fifo = None
			if step.get('fifo') is not None and step['mode'] in (None, 'threads'):
				fifo = os.path.join(str(dirs[step['dir']]), f'pipe{len(lines)}.fasta')
				os.mkfifo(fifo)
				fdata = b'>p\n' + dbutil.rand_dna(rng, 150) + b'\n'
				rels.insert(min(step['fifo'], len(rels)), os.path.basename(fifo))
			mk = lambda: [SequenceFile(r, 'fasta', None if (fifo and r == os.path.basename(fifo)) else 'auto') for r in rels]
			results = []
			for f in mk():
				w = _feed_fifo(fifo, fdata) if (fifo and str(f.path) == os.path.basename(fifo)) else None
				try:
					results.append(nats(calc_file_signature(kspec, f).tolist()))
				except Exception:
					results.append('E')
				if w is not None:
					_release_fifo(fifo); w.join(2)
			w = _feed_fifo(fifo, fdata) if fifo else None
			box = {}
			def call():
				try:
					out = calc_file_signatures(kspec, mk(), concurrency=step['mode'], max_workers=step.get('workers'))
					box['real'] = 'has-None' if any(s_ is None for s_ in out) else (natlists([np.asarray(s_).tolist() for s_ in out]) if len(out) else '_')
				except Exception:
					box['real'] = 'err'
			if fifo:
				t = threading.Thread(target=call, daemon=True); t.start(); t.join(20)
				_release_fifo(fifo); w.join(2); t.join(5)
				if 'real' not in box:
					pf.append('the call did not finish with a named pipe among the inputs')
					box['real'] = 'err'
			else:
				call()
			lines.append(f'c13.run {";".join(results) if results else "_"} {nats(range(len(rels)))} {box["real"]}')
		case['_nt'] = len(case['steps']) >= 2
		return lines, pf
	finally:
		os.chdir(cwd0)
		sc.cleanup()


def check(ctx, case):
	from gambit.kmers import KmerSpec
	from gambit.sigs.calc import calc_file_signatures, calc_file_signature
	from gambit.sigs.base import SignatureList
	import numpy as np
	if case['mode'] == 'reuse-pool':
		return check_reuse(ctx, case)
	if case['mode'] == 'paths':
		return check_paths(ctx, case)
	sc = dbutil.Scratch('gv_c13_')
	try:
		kspec = KmerSpec(case.get('k', 4), case.get('prefix', 'AT'))
		files = make_files(sc, case)
		n = len(files)
		# per-file results from the real single-file function
		results = []
		pf = []
		for i_f, f in enumerate(files):
			try:
				results.append(nats(calc_file_signature(kspec, f).tolist()))
				if case['files'][i_f]['kind'] in ('missing', 'garbage', 'truncgz'):
					# the harness made this file unreadable (absent / not gzip although it claims to be / a gzip stream cut off part-way): "a file that
					# cannot be read makes the whole call fail" does not depend on what the single-file function says about it
					pf.append(f'file {i_f} ({case["files"][i_f]["kind"]}) cannot be read completely, yet its signature was computed without an error')
			except Exception:
				results.append('E')
		mode = case['mode']
		ex = None
		try:
			if mode == 'controlled':
				ex = StepExecutor(case['order'], n)
				out = calc_file_signatures(kspec, files, progress=ex.meter_factory, executor=ex)
			elif mode == 'sequential':
				out = calc_file_signatures(kspec, files, concurrency=None)
			elif mode in ('threads', 'processes'):
				out = calc_file_signatures(kspec, files, concurrency=mode, max_workers=case.get('workers'))
			elif mode == 'reuse-pool':
				raise RuntimeError('handled separately')
			elif mode == 'own-pool':
				with ThreadPoolExecutor(max_workers=case.get('workers', 2)) as pool:
					out = calc_file_signatures(kspec, files, executor=pool)
					# a caller-supplied executor must still be usable afterwards
					if pool.submit(lambda: 42).result(timeout=10) != 42:
						pf.append('caller-supplied executor unusable after the call')
			else:
				raise ValueError(mode)
			if not isinstance(out, SignatureList) or out.kmerspec != kspec:
				pf.append('result is not a SignatureList with the requested k-mer parameters')
			if any(s is None for s in out):
				real = 'has-None'        # a list with a missing signature was returned
			else:
				real = natlists([np.asarray(s).tolist() for s in out]) if len(out) else '_'
		except Exception as e:
			real = 'err'
		finally:
			if ex is not None:
				ex.stop.set()
				ex.ev.set()
				ex.thread.join(2)
				if ex.shutdown_called:
					pf.append('caller-supplied executor was shut down')
		sigma = nats(case['order']) if mode == 'controlled' else '~'
		if mode in ('threads', 'processes', 'own-pool'):
			sigma = nats(range(n))   # schedule unknown: the model is run with the identity order, the spec does not depend on it
		case['_nt'] = n >= 2 and (mode != 'controlled' or case['order'] != list(range(n)))
		lines = [f'c13.run {";".join(results) if results else "_"} {sigma} {real}']
		if case.get('again') and real not in ('err', 'has-None') and mode != 'controlled':
			# a second call in the same process: the caller scribbled over the arrays it got back, and one file was replaced by
			# different content of the same size with its modification time preserved
			import os as _os
			try:
				for s_ in out:
					if len(s_):
						s_[...] = 0
			except Exception:
				pass
			for i, f in enumerate(case['files']):
				if f['kind'] == 'ok' and case['again'] == 'replace' and i == case.get('replace_idx', 0):
					pth = files[i].path
					st = _os.stat(pth)
					data = pth.read_bytes()
					tr = bytes.maketrans(b'ACGT', b'CATG')
					head, _, body = data.partition(b'\n')
					pth.write_bytes(head + b'\n' + body.translate(tr))
					_os.utime(pth, ns=(st.st_atime_ns, st.st_mtime_ns))
			results2 = []
			for f in files:
				try:
					results2.append(nats(calc_file_signature(kspec, f).tolist()))
				except Exception:
					results2.append('E')
			try:
				if mode == 'sequential':
					out2 = calc_file_signatures(kspec, files, concurrency=None)
				else:
					out2 = calc_file_signatures(kspec, files, concurrency='threads' if mode == 'own-pool' else mode, max_workers=case.get('workers'))
				real2 = 'has-None' if any(s is None for s in out2) else (natlists([np.asarray(s).tolist() for s in out2]) if len(out2) else '_')
			except Exception:
				real2 = 'err'
			lines.append(f'c13.run {";".join(results2) if results2 else "_"} {sigma} {real2}')
		return lines, pf
	finally:
		sc.cleanup()


def rand_file(rng, big=False):
	n = rng.randint(1, 3)
	L = rng.randint(0, 60) if not big else rng.randint(20000, 60000)
	return {'kind': 'ok', 'contigs': [dbutil.rand_dna(rng, L).hex() for _ in range(n)]}


def run(ctx):
	rng = ctx.rng

	def sub(case, tag):
		lines, pf = safe_check(check, ctx, case)
		nt = case.pop('_nt', False)
		ctx.submit(case, lines, nontrivial=nt, tags=[tag, f'mode={case["mode"]}', f'n={len(case["files"])}'], pyfails=pf)

	nmax = ctx.q(4, 6)
	for n in range(0, nmax + 1):
		base = [rand_file(rng) for _ in range(n)]
		perms = list(itertools.permutations(range(n)))
		if len(perms) > ctx.q(24, 720):
			perms = rng.sample(perms, ctx.q(24, 720))
		for order in perms:
			if not ctx.time_left(0.6):
				break
			sub({'files': base, 'mode': 'controlled', 'order': list(order)}, 'controlled-all-ok')
		# a failing file at every position, every order for small n
		for bad in range(n):
			files = [dict(f) for f in base]
			# cannot be opened / not gzip although it claims to be / a gzip stream that ends part-way through (some records parse first)
			files[bad] = {'kind': rng.choice(['missing', 'garbage', 'truncgz']),
			              'contigs': [dbutil.rand_dna(rng, rng.randint(30, 200)).hex() for _ in range(rng.randint(1, 3))]}
			for order in (perms if n <= 3 else rng.sample(perms, min(len(perms), ctx.q(6, 60)))):
				if not ctx.time_left(0.7):
					break
				sub({'files': files, 'mode': 'controlled', 'order': list(order)}, 'controlled-failing-file')
	ctx.exhaustive = [f'all completion orders of n <= {4 if ctx.tier == "quick" else 6} files (all files readable)', 'all completion orders of n <= 3 files with a failing file at every position (larger n: sampled orders)']
	# size skew in whole-MiB steps (later / larger files finish in a different order than they were given)
	for sizes in ([0.05, 2.3, 1.2], [1.2, 0.05, 2.3], [2.3, 1.2, 0.05], [0.05, 3.2, 1.1, 2.1], [1.1, 2.2, 0.1]):
		if not ctx.time_left(0.75):
			break
		files = [{'kind': 'padded', 'contigs': [dbutil.rand_dna(rng, 60).hex()], 'mib': m} for m in sizes]
		for mode, workers in [('threads', 2), ('processes', 2), ('own-pool', 2), ('threads', None), ('sequential', None)]:
			sub({'files': files, 'mode': mode, 'workers': workers}, 'size-skew')
		for order in itertools.permutations(range(len(sizes))):
			if len(sizes) <= 3:
				sub({'files': files, 'mode': 'controlled', 'order': list(order)}, 'size-skew-controlled')
	# many small files, few workers
	for j in range(ctx.q(8, 80)):
		if not ctx.time_left(0.85):
			break
		n = rng.randint(9, 40)
		files = [rand_file(rng) for _ in range(n)]
		mode = rng.choice(['threads', 'processes', 'own-pool', 'controlled'])
		case = {'files': files, 'mode': mode, 'workers': rng.choice([1, 2, 3])}
		if mode == 'controlled':
			order = list(range(n)); rng.shuffle(order)
			case['order'] = order
		sub(case, 'many-files')
	# one caller-supplied pool reused over several calls, a failing call in between (a file that breaks part-way through parsing)
	for j in range(ctx.q(30, 200)):
		if not ctx.time_left(0.9):
			break
		calls = []
		for c in range(rng.randint(2, 4)):
			n = rng.randint(1, 4)
			call = [rand_file(rng) for _ in range(n)]
			if c < 3 and rng.random() < 0.6:
				call[rng.randrange(n)] = {'kind': 'truncgz', 'contigs': [dbutil.rand_dna(rng, rng.randint(30, 200)).hex() for _ in range(rng.randint(1, 3))]}
			calls.append(call)
		sub({'files': [f for call in calls for f in call], 'calls': calls, 'mode': 'reuse-pool', 'workers': rng.choice([1, 1, 2])}, 'reuse-pool')
	# unusual ways of naming inputs, over several calls in one process
	for j in range(ctx.q(20, 150)):
		if not ctx.time_left(0.93):
			break
		nf = rng.randint(2, 4)
		steps = []
		for c in range(rng.randint(2, 4)):
			steps.append({'dir': rng.choice(['a', 'b']) if c else 'a', 'mode': rng.choice([None, 'threads', 'processes', 'processes']), 'workers': rng.choice([1, 2, 4]),
			              'files': rng.sample(range(nf), rng.randint(1, nf)), 'dotdot': rng.random() < 0.4,
			              'fifo': (rng.randint(0, 3) if rng.random() < 0.35 else None)})
			if steps[-1]['fifo'] is not None:
				steps[-1]['mode'] = rng.choice([None, 'threads'])
		if j % 2 == 0:
			steps[0]['mode'] = 'processes'; steps[1]['dir'] = 'b'; steps[1]['mode'] = 'processes'; steps[1]['workers'] = steps[0]['workers']
		sub({'files': [], 'mode': 'paths', 'steps': steps, 'nfiles': nf, 'seed': rng.randrange(10 ** 6)}, 'path-forms')
	# sequential and real pools
	for j in range(ctx.q(70, 400)):
		if not ctx.time_left(0.95):
			break
		n = rng.randint(0, 7)
		files = [rand_file(rng, big=(rng.random() < 0.25 and i < n // 2)) for i in range(n)]
		if rng.random() < 0.4 and n:
			# a file that cannot be opened, is not gzip although it claims to be, or breaks part-way through parsing — at any position
			files[rng.randrange(n)] = {'kind': rng.choice(['missing', 'garbage', 'truncgz', 'truncgz']),
			                           'contigs': [dbutil.rand_dna(rng, rng.randint(30, 200)).hex() for _ in range(rng.randint(1, 3))]}
		if rng.random() < 0.35 and n >= 2:
			# the same file given more than once, with other files in between
			for _ in range(rng.randint(1, 2)):
				src = rng.randrange(len(files))
				if files[src]['kind'] == 'same':
					continue
				pos = rng.randint(src + 1, len(files))
				files.insert(pos, {'kind': 'same', 'as': src})
				for f in files[pos + 1:]:
					if f['kind'] == 'same' and f['as'] >= pos:
						f['as'] += 1
		mode = rng.choice(['sequential', 'sequential', 'threads', 'threads', 'own-pool', 'processes'])
		case = {'files': files, 'mode': mode, 'workers': rng.choice([1, 2, 3, 8, 16])}
		if rng.random() < 0.4 and all(f['kind'] in ('ok', 'same') for f in files):
			oks = [i for i, f in enumerate(files) if f['kind'] == 'ok']
			case.update(again=rng.choice(['scribble', 'replace']), replace_idx=rng.choice(oks) if oks else 0)
		sub(case, 'pools')
