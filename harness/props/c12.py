"""C12 — signature files round-trip exactly and foreign files are refused."""
import gzip
import json
import os

from core import nats, natlists, hx, exc_kind, safe_check
import dbutil
from props.c20 import build_index, wire_index, canon

PROPS = ('GambitV.Props.C12', 'GambitV.C12')
TIE = [('GambitV.Tie.PyHdf5', 'GambitV.Tie.Py'), ('GambitV.Tie.PyConcat', 'GambitV.Tie.Py'), ('GambitV.Tie.PyGetitem', 'GambitV.Tie.Py'), ('GambitV.Tie.PyClassFacts', 'GambitV.Tie.Py'), ('GambitV.Tie.PyHdf5Reader', 'GambitV.Tie.Py'), ('GambitV.Tie.PyHdf5Meta', 'GambitV.Tie.Py'), ('GambitV.Tie.PyMetaRules', 'GambitV.Tie.Py'), ('GambitV.Tie.PySigArrayInit', 'GambitV.Tie.Py'), ('GambitV.Tie.PySigClasses', 'GambitV.Tie.Py')]
RULE = ('(collection of >= 1 signatures incl. empty ones, k in 1..32 with the matching index width, container in {SignatureArray, SignatureList, '
        'AnnotatedSignatures wrapper}, ID kind in {default range, str list, int list, NumPy U / S / object / int arrays}, Unicode metadata with nested '
        'extra data or None fields, compression in {none, gzip(level), lzf}). dump_signatures -> raw datasets read with h5py (vs the Lean store model) '
        '-> load_signatures (vs the written collection) -> index expressions on the loaded object (vs list semantics). Foreign contents: empty, '
        'text, FASTA, gzip, HDF5 files of another kind. Non-trivial = distinct round-trip case with >= 2 signatures, one of them non-empty.')
TRUSTED = ['harness/props/c12.py + Driver/C12.lean', 'h5py/HDF5 store and return datasets and attributes faithfully (modelled as a key-value store)']
ASSUMPTIONS = []


def rand_sigs(rng, n, k):
	U = 4 ** k
	out = []
	for _ in range(n):
		r = rng.random()
		if r < 0.2:
			out.append([])
		elif U <= 64:
			out.append(sorted(rng.sample(range(U), rng.randint(0, min(U, 6)))))
		else:
			s = set()
			for _ in range(rng.randint(1, 8)):
				s.add(rng.choice([0, U - 1, rng.randrange(U)]))
			out.append(sorted(s))
	return out


UNI = ['plain', 'naïve café', '大腸菌 O157:H7', 'a,b"c\n d', 'Ω≈ç√∫', '', ' lead/trail ']


def mk_ids(rng, kind, n):
	import numpy as np
	if kind == 'default':
		return None
	if kind == 'strlist':
		return [f'id-{i}-{rng.choice(UNI)}' for i in range(n)]
	if kind == 'intlist':
		return [1000 + 7 * i for i in range(n)]
	if kind == 'U':
		return np.array([f'acc{i}é' for i in range(n)])
	if kind == 'S':
		return np.array([f'acc{i}'.encode() for i in range(n)])
	if kind == 'O':
		return np.array([f'obj {i} λ' for i in range(n)], dtype=object)
	if kind == 'i4':
		return np.arange(5, 5 + n, dtype=np.int32)
	if kind == 'u8':
		return np.arange(2 ** 40, 2 ** 40 + n, dtype=np.uint64)
	if kind == 'u8top':
		# hash-like ids spread over the whole unsigned 64-bit range, incl. values >= 2^63 and 2^64-1
		vals = [2 ** 64 - 1, 2 ** 63, 2 ** 63 - 1, 2 ** 63 + 12345, 0] + [rng.randrange(2 ** 64) for _ in range(n)]
		return np.array(vals[:n], dtype=np.uint64)
	if kind == 'i8neg':
		return np.array([-(2 ** 63), -1, 0, 2 ** 63 - 1] [:n] + list(range(max(0, n - 4))), dtype=np.int64)
	raise ValueError(kind)


def canon_ids(ids):
	import numpy as np
	out = []
	for x in (ids.tolist() if isinstance(ids, np.ndarray) else list(ids)):
		if isinstance(x, bytes):
			x = x.decode()
		out.append(('i:%d' % x) if isinstance(x, (int, np.integer)) and not isinstance(x, bool) else 's:' + str(x))
	return hx(json.dumps(out, ensure_ascii=False).encode('utf-8'))


def canon_meta(m):
	d = dict(id=m.id, name=m.name, version=m.version, id_attr=m.id_attr, description=m.description, extra=m.extra)
	return hx(json.dumps(d, sort_keys=True, ensure_ascii=False).encode('utf-8'))


def check(ctx, case):
	import numpy as np
	import h5py
	from gambit.kmers import KmerSpec
	from gambit.sigs import SignaturesMeta, AnnotatedSignatures, SignatureArray, SignatureList, dump_signatures, load_signatures
	from gambit.sigs.base import SignaturesFileError
	sc = dbutil.Scratch('gv_c12_')
	try:
		if case['kind'] == 'rt-huge':
			# signatures beyond 2^20 values (a size no other stream reaches), described compactly: signature i = every `step`-th index from
			# `start`; written through the chosen container, loaded, and compared value for value (digests of the canonical bytes: the
			# specification of a round trip is the identity)
			import hashlib
			k = case['k']
			kspec = KmerSpec(k, 'ATGAC')
			sigs = [np.arange(st, st + n * step, step, dtype=kspec.index_dtype) for st, step, n in case['runs']]
			cont = case['cont']
			coll = SignatureArray(sigs, kspec) if cont == 'array' else SignatureList(sigs, kspec)
			if cont.startswith('annotated'):
				coll = AnnotatedSignatures(SignatureList(sigs, kspec) if cont == 'annotated-list' else SignatureArray(sigs, kspec), np.arange(len(sigs)), SignaturesMeta(id='huge'))
			p = sc.path('huge.gs')
			dump_signatures(p, coll, **({'compression': case['compression']} if case.get('compression') else {}))
			dig = lambda arrs: hashlib.sha256(b'|'.join(np.ascontiguousarray(a, dtype='u8').tobytes() for a in arrs)).hexdigest()[:24] + f':{len(arrs)}:' + ','.join(str(len(a)) for a in arrs)
			with load_signatures(p) as back:
				got = [np.asarray(back[i]) for i in range(len(back))]
				pf = [] if (back.kmerspec == kspec and back.dtype == kspec.index_dtype) else ['k-mer parameters or type of the loaded collection differ']
			case['_nt'] = True
			return [f'c11.same huge-roundtrip {dig(sigs)} {dig(got)}'], pf
		if case['kind'] == 'foreign':
			p = sc.path('foreign' + case.get('ext', '.gs'))
			what = case['what']
			if what == 'empty':
				p.write_bytes(b'')
			elif what == 'text':
				p.write_bytes(case.get('data', 'hello world\n').encode())
			elif what == 'fasta':
				dbutil.write_fasta(p, [b'ACGTACGT'])
			elif what == 'gzip':
				with gzip.open(p, 'wb') as f:
					f.write(b'>x\nACGT\n')
			elif what == 'short':
				p.write_bytes(b'\x89HDF\r\n\x1a'[:case.get('n', 7)])
			elif what == 'hdf5-other':
				with h5py.File(p, 'w') as f:
					f.create_dataset('values', data=np.arange(5))
					f.create_dataset('bounds', data=np.array([0, 5]))
					f.attrs['something'] = 1
					g = f.create_group('nested')
					if case.get('nested_marker'):
						g.attrs['gambit_signatures_version'] = 1
			try:
				obj = load_signatures(p)
				real = 'loaded'
				obj.close()
			except SignaturesFileError:
				real = 'sfe'
			except Exception as e:
				real = 'other'
			kind = 'othermarkerless' if what == 'hdf5-other' else 'nothdf5'
			return [f'c12.foreign {kind} {real}'], []
		k, prefix = case['k'], case['prefix']
		kspec = KmerSpec(k, prefix)
		dt = kspec.index_dtype
		sigs = case['sigs']
		arrs = [np.array(s, dtype=dt) for s in sigs]
		cont = case['cont']
		if case.get('odd_empty') and cont in ('list', 'annotated-list'):
			# a list-backed collection may hold elements of other integer types next to its own: an empty signature made with a plain
			# `np.arange(0)` / `np.array([], dtype=int)` (values are what count; nothing may be rounded through a common type)
			arrs = [(np.arange(0) if i % 2 == 0 else np.array([], dtype=int)) if len(a) == 0 else a for i, a in enumerate(arrs)]
		if cont == 'window':
			# a zero-copy window of a larger SignatureArray: bounds do not start at 0 and do not end at len(values)
			pad_l, pad_r = np.array([3, 5, 8], dtype=dt), np.array([1, 2], dtype=dt)
			values = np.concatenate([pad_l] + arrs + [pad_r]) if arrs else np.concatenate([pad_l, pad_r])
			base = SignatureArray.from_arrays(values, np.cumsum([len(pad_l)] + [len(a) for a in arrs]).astype(np.intp), kspec)
		else:
			base = SignatureArray(arrs, kspec, dtype=dt) if cont in ('array', 'annotated-array') else SignatureList(arrs, kspec, dtype=dt)
		if case.get('prior') == 'default-meta-touched':
			# earlier in the process somebody filled in the metadata of ANOTHER collection that was created without any
			other = AnnotatedSignatures(SignatureList([np.array([1, 2], dtype=dt)], kspec), ['z'])
			other.meta.extra['note'] = 'belongs to the other collection'
			other.meta.extra.setdefault('list', []).append(1)
		held = None
		if case.get('prior') == 'open-handle-then-replace':
			# the destination already holds another collection, loaded and still open while the file is replaced
			dump_signatures(sc.path('out.gs'), AnnotatedSignatures(SignatureList([np.array([7, 8, 9], dtype=dt)] * 2, KmerSpec(k + 1 if k < 32 else k - 1, prefix)), ['old-a', 'old-b'],
			                                                       SignaturesMeta(id='old', name='old collection')))
			held = load_signatures(sc.path('out.gs'))
			len(held)
		ids = mk_ids(ctx.rng if False else __import__('random').Random(case['ids_seed']), case['ids'], len(sigs))
		meta = None
		if case.get('meta') is not None:
			meta = SignaturesMeta(**case['meta'])
		obj = base
		if cont.startswith('annotated') or ids is not None or meta is not None:
			obj = AnnotatedSignatures(base, ids, meta)
		fast = isinstance(obj, SignatureArray)
		p = sc.path('out.gs')
		kw = {}
		if case.get('compression'):
			kw['compression'] = case['compression']
			if case.get('compression_opts') is not None:
				kw['compression_opts'] = case['compression_opts']
		try:
			if held is not None:
				tmp = sc.path('new.gs')
				dump_signatures(tmp, obj, **kw)
				os.replace(tmp, p)
			else:
				dump_signatures(p, obj, **kw)
		except Exception as e:
			return [], [f'dump_signatures raised {exc_kind(e)}: {e}']
		pf = []
		with h5py.File(p, 'r') as f:
			raw_values = f['values'][:].tolist()
			raw_bounds = f['bounds'][:].tolist()
			if f['values'].dtype != dt:
				pf.append(f'stored values dtype {f["values"].dtype} != {dt}')
		try:
			loaded = load_signatures(p)
		except Exception as e:
			return [], [f'load_signatures raised {exc_kind(e)}: {e}']
		try:
			exp_ids = ids if ids is not None else list(range(len(sigs)))
			exp_meta = meta if meta is not None else SignaturesMeta()
			lsigs = [np.asarray(loaded[i]).tolist() for i in range(len(loaded))]
			# iteration must give the same signatures, and they must stay valid after the iteration has moved on
			kept = list(loaded)
			if [np.asarray(x).tolist() for x in kept] != lsigs:
				pf.append('signatures obtained by iterating the loaded file (all kept) differ from those obtained by indexing')
			from gambit.sigs.base import SignatureList as _SL, SignatureArray as _SA
			if [np.asarray(x).tolist() for x in _SL(loaded)] != lsigs or [np.asarray(x).tolist() for x in _SA(loaded)] != lsigs:
				pf.append('a collection built from the loaded file differs from the file')
			op = 'c12.rtw' if cont == 'window' else f'c12.rt {"1" if fast else "0"}'
			line = (f'{op} {k} {hx(prefix.encode())} {dt.itemsize} {natlists(sigs)} {nats(raw_values)} {nats(raw_bounds)} '
			        f'{loaded.kmerspec.k} {hx(loaded.kmerspec.prefix)} {np.dtype(loaded.dtype).itemsize} {natlists(lsigs)} '
			        f'{canon_ids(exp_ids)} {canon_ids(loaded.ids)} {canon_meta(exp_meta)} {canon_meta(loaded.meta)}')
			lines = [line]
			if np.dtype(loaded.dtype).kind != 'u':
				pf.append(f'loaded dtype kind {loaded.dtype}')
			# index expressions on the loaded collection behave like list semantics on what was written
			for idx in case.get('indexes', []):
				try:
					res = loaded[build_index(idx)]
					real = canon(res)
					if real.startswith('many:') and (res.kmerspec != kspec or np.dtype(res.dtype) != dt):
						pf.append('sub-collection of the loaded file lost parameters / dtype')
					if real.startswith('one:') and res.dtype != dt:
						pf.append('element of the loaded file has another dtype')
				except (IndexError, TypeError, ValueError) as e:
					real = 'err:' + type(e).__name__
				lines.append(f'c20.get {natlists(sigs)} {wire_index(idx)} {real}')
		finally:
			loaded.close()
			if held is not None:
				held.close()
		case['_nt'] = len(sigs) >= 2 and any(sigs)
		return lines, pf
	finally:
		sc.cleanup()


def run(ctx):
	rng = ctx.rng

	def sub(case, tag):
		lines, pf = safe_check(check, ctx, case)
		nt = case.pop('_nt', False)
		ctx.submit(case, lines, nontrivial=nt, tags=[tag] + ([f'cont={case["cont"]}', f'ids={case["ids"]}', f'comp={case.get("compression")}', f'w={(case["k"]+3)//4}'] if case['kind'] == 'rt' else ([f'cont={case["cont"]}'] if case['kind'] == 'rt-huge' else [])), pyfails=pf)

	for what in ['empty', 'text', 'fasta', 'gzip', 'hdf5-other']:
		for ext in ['.gs', '.h5', '.txt']:
			sub({'kind': 'foreign', 'what': what, 'ext': ext}, 'foreign')
	sub({'kind': 'foreign', 'what': 'hdf5-other', 'nested_marker': True}, 'foreign')
	sub({'kind': 'foreign', 'what': 'text', 'data': '\x89HDF but not really'}, 'foreign')
	for n in range(0, 8):
		sub({'kind': 'foreign', 'what': 'short', 'n': n}, 'foreign')
	# large signatures: more than 2^16 values in one signature / in the file, followed by further signatures
	for j in range(ctx.q(6, 60)):
		if not ctx.time_left(0.3):
			break
		k = rng.choice([9, 10, 11, 16])
		U = 4 ** k
		def big(m):
			span = min(2 * m, U)
			start = rng.randrange(U - span + 1)
			return sorted(rng.sample(range(start, start + span), m))
		m1 = rng.choice([65535, 65536, 65537, 70000, 140000])
		sigs = [big(rng.randint(1, 50)) for _ in range(rng.randint(0, 2))] + [big(m1)] + [big(rng.choice([1, 30, 70000])) for _ in range(rng.randint(1, 3))]
		if rng.random() < 0.3:
			sigs.insert(rng.randrange(len(sigs)), [])
		sub({'kind': 'rt', 'k': k, 'prefix': 'ATGAC', 'sigs': sigs, 'cont': rng.choice(['array', 'list', 'annotated-array', 'annotated-list', 'window']),
		     'ids': rng.choice(['default', 'strlist', 'intlist']), 'ids_seed': rng.randrange(10 ** 6), 'meta': None,
		     'compression': rng.choice([None, None, 'gzip', 'lzf']), 'indexes': [{'t': 'int', 'i': -1}, {'t': 'slice', 'a': None, 'b': None, 'c': -1}]}, 'roundtrip-large')
	# signatures of more than 2^20 values, followed by further non-empty ones (every container; the per-signature write path copies them one by one)
	M = 1 << 20
	for j, cont in enumerate(['list', 'annotated-list', 'array'] + (['annotated-array', 'list', 'list'] if ctx.tier == 'thorough' or ctx.tie_broken else [])):
		runs = [(rng.randrange(100), 1, rng.randint(1, 9)), (rng.randrange(50), rng.choice([1, 2, 3]), M + rng.choice([1, 7, 4096])), (5, 2, rng.randint(1, 40)),
		        (0, 1, 0), (rng.randrange(9), 1, rng.choice([M, 2 * M + 1, M - 1])), (3, 1, 4)]
		sub({'kind': 'rt-huge', 'k': rng.choice([11, 12, 16]), 'runs': runs if j % 2 == 0 else runs[1:], 'cont': cont, 'compression': rng.choice([None, None, 'gzip'])}, 'roundtrip-huge')
	ks = list(range(1, 33))
	for j in range(ctx.q(700, 5000)):
		if not ctx.time_left(0.92):
			break
		k = ks[j % 32] if j < 64 else rng.randint(1, 32)
		n = rng.choice([1, 1, 2, 3, 5, 9])
		sigs = rand_sigs(rng, n, k)
		if rng.random() < 0.08:
			sigs = [[] for _ in range(n)]
		odd_empty = False
		if k >= 27 and n >= 2 and rng.random() < 0.5:
			# wide k-mer indices (above 2^53) next to an empty signature of another integer type
			sigs[rng.randrange(n)] = []
			odd_empty = True
		meta = None
		if rng.random() < 0.6:
			meta = {'id': rng.choice([None, 'set/' + rng.choice(UNI)]), 'name': rng.choice([None] + UNI), 'version': rng.choice([None, '1.0', '2.0rc1']),
			        'id_attr': rng.choice([None, 'key', 'refseq_acc']), 'description': rng.choice([None] + UNI),
			        'extra': rng.choice([{}, {'author': 'é', 'revision': {'num': 3, 'date': '2024-01-01', 'nested': [1, 2, {'x': None}]}}, {'k': [1.5, True, None, 'ü']}])}
		idx = []
		for _ in range(3):
			r = rng.random()
			if r < 0.4:
				idx.append({'t': 'int', 'i': rng.randint(-n - 1, n)})
			elif r < 0.7:
				idx.append({'t': 'slice', 'a': rng.choice([None, rng.randint(-n - 1, n + 1)]), 'b': rng.choice([None, rng.randint(-n - 1, n + 1)]), 'c': rng.choice([None, 1, 2, -1, -2])})
			else:
				idx.append({'t': 'ints', 'l': [rng.randint(-n, n - 1) for _ in range(rng.randint(0, 4))], 'form': rng.choice(['list', 'i8'])})
		if n >= 3:
			# an index list that is not a consecutive run although its end points are len-1 apart (permuted / with repeats)
			a = rng.randint(0, n - 3)
			ln = rng.randint(3, n - a)
			mid = [rng.randint(a, a + ln - 1) for _ in range(ln - 2)] if rng.random() < 0.5 else rng.sample(range(a + 1, a + ln - 1), ln - 2)
			idx.append({'t': 'ints', 'l': [a] + mid + [a + ln - 1], 'form': rng.choice(['list', 'i8'])})
			neg = [x - n for x in [a] + mid[::-1] + [a + ln - 1]]
			idx.append({'t': 'ints', 'l': neg, 'form': 'list'})
		comp = rng.choice([None, None, 'gzip', 'lzf'])
		cont = rng.choice(['array', 'list', 'annotated-array', 'annotated-list', 'window']) if not odd_empty else rng.choice(['list', 'annotated-list'])
		idk = rng.choice(['default', 'strlist', 'intlist', 'U', 'S', 'O', 'i4', 'u8', 'u8top', 'i8neg'])
		if cont == 'window' and rng.random() < 0.6:
			idk, meta = 'default', None            # the bare window (the whole-array write path)
		sub({'kind': 'rt', 'k': k, 'prefix': rng.choice(['A', 'AT', 'ATGAC', 'GGC']), 'sigs': sigs, 'cont': cont,
		     'ids': idk, 'ids_seed': rng.randrange(10 ** 6), 'meta': meta, 'prior': rng.choice([None, None, None, 'default-meta-touched', 'open-handle-then-replace']),
		     'compression': comp, 'compression_opts': rng.choice([None, 1, 9]) if comp == 'gzip' else None, 'indexes': idx, 'odd_empty': odd_empty},
		    'roundtrip' if not odd_empty else 'roundtrip-odd-empty')
