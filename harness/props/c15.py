"""C15 — the genomic distance behaves as a metric on signatures."""
import itertools

from core import nats, exc_kind, safe_check
from props.c02 import bits, _arr, DTYPES, MAXV, gen_pair, rand_sorted, gen_pair_wide, fit_dtype, BOUNDARY

PROPS = ('GambitV.Props.C15', 'GambitV.C15')
TIE = [('GambitV.Tie.Metric', 'GambitV.Tie.Metric'), ('GambitV.Tie.PyMetric', 'GambitV.Tie.Py'), ('GambitV.Tie.PyBindMetric', 'GambitV.Tie.Py'), ('GambitV.Tie.PyBulk', 'GambitV.Tie.Py')]
RULE = ('triples of k-mer sets: exhaustive over all 32^3 triples of subsets of a 5-element universe; random structured triples '
        '(sizes <= 60, occasionally <= 2000) in mixed integer widths, the five distances also taken through the bulk interfaces (list refilled in place, '
        'unordered index selections, a SignatureArray window of a larger values array); common-new-element additions; the C15-F1 witness. '
        'Non-trivial = distinct triple of pairwise different non-empty sets.')
TRUSTED = ['harness/props/c15.py + Driver/C02.lean (c15.* predicates evaluated in Lean on the real bit patterns)']
ASSUMPTIONS = ['same kernel as C02']


def check(ctx, case):
	import numpy as np
	from gambit import metric
	kind = case['kind']
	if kind == 'triple':
		a, b, c = case['a'], case['b'], case['c']
		A, B, C = _arr(a, case['dts'][0]), _arr(b, case['dts'][1]), _arr(c, case['dts'][2])
		jd = metric.jaccarddist
		vals = [jd(A, B), jd(B, A), jd(B, C), jd(A, C), jd(A, A)]
		lines = [f'c15.triple {nats(a)} {nats(b)} {nats(c)} ' + ' '.join(str(bits(v)) for v in vals)]
		# width irrelevance: same sets, widest type
		A8, B8 = _arr(a, 'u8'), _arr(b, 'u8')
		if bits(jd(A8, B8)) != bits(vals[0]) or bits(jd(A8, B)) != bits(vals[0]):
			return lines, [f'distance changes with integer width: {bits(jd(A8, B8))} vs {bits(vals[0])}']
		pf = []
		route = case.get('route')
		if route:
			# the same five distances obtained through the bulk interfaces (reference collections of every kind, the same list
			# object refilled in place between calls, unordered index selections): still a metric, still the same numbers
			from gambit.kmers import KmerSpec
			from gambit.sigs import SignatureArray
			ks = KmerSpec(11, 'ATGAC')
			W = [_arr(x, 'u8') for x in (a, b, c)]
			try:
				if route == 'array-list':
					L = [W[2], W[2]]
					def via(i, j):
						L[0] = W[j]; L[1] = W[i]
						return metric.jaccarddist_array(W[i], L)[0]
					bv = [via(0, 1), via(1, 0), via(1, 2), via(0, 2), via(0, 0)]
				elif route == 'matrix-idx':
					refs = SignatureArray([W[0], W[1], W[2], W[0]], ks, dtype='u8')
					M = metric.jaccarddist_matrix(W, refs, ref_indices=[0, 2, 1, 3], chunksize=case.get('chunk'))
					bv = [M[0][2], M[1][0], M[1][1], M[0][1], M[0][3]]
				elif route == 'pairwise-idx':
					refs = SignatureArray([W[0], W[1], W[2], W[1]], ks, dtype='u8')
					M = metric.jaccarddist_pairwise(refs, indices=[0, 2, 1, 3])      # rows / columns: A, C, B, B
					bv = [M[0][2], M[2][0], M[2][1], M[0][1], M[0][0]]
				else:   # a window of a larger values array, 3 signatures
					pad_l, pad_r = np.array([3, 5, 8], dtype='u8'), np.array([1, 2], dtype='u8')
					values = np.concatenate([pad_l] + W + [pad_r])
					bounds = np.cumsum([3] + [len(x) for x in W]).astype(np.intp)
					sub_ = SignatureArray.from_arrays(values, bounds, ks)
					if route == 'array-window':
						M = [metric.jaccarddist_array(x, sub_) for x in W]
					elif route == 'pairwise-window':
						M = metric.jaccarddist_pairwise(sub_)
					else:
						M = metric.jaccarddist_matrix(W, sub_)
					bv = [M[0][1], M[1][0], M[1][2], M[0][2], M[0][0]]
			except Exception as e:
				return lines, [f'bulk route {route} raised {exc_kind(e)}: {e}']
			lines.append(f'c15.triple {nats(a)} {nats(b)} {nats(c)} ' + ' '.join(str(bits(v)) for v in bv))
			if [bits(v) for v in bv] != [bits(v) for v in vals]:
				pf.append(f'distances through {route} differ from the two-signature distances: {[bits(v) for v in bv]} vs {[bits(v) for v in vals]}')
		return lines, pf
	if kind == 'bulk-mixed':
		# one side narrow, the other wide with values congruent to the narrow side's modulo 2^16 / 2^32: the packed collection keeps ITS
		# integer type, the query its own; through every bulk route the numbers are those of the two-signature distance
		from gambit.kmers import KmerSpec
		from gambit.sigs import SignatureArray, SignatureList
		a, b, da, db = case['a'], case['b'], case['da'], case['db']
		A, B = _arr(a, da), _arr(b, db)
		jd = metric.jaccarddist
		vals = [jd(A, B), jd(B, A), jd(B, A), jd(A, A), jd(A, A)]
		lines = [f'c15.triple {nats(a)} {nats(b)} {nats(a)} ' + ' '.join(str(bits(v)) for v in vals)]
		ks = KmerSpec(11, 'ATGAC')
		pf = []
		try:
			for cont in ('array', 'list'):
				mk = (lambda xs, dt: SignatureArray(xs, ks, dtype=dt)) if cont == 'array' else (lambda xs, dt: SignatureList(xs, ks, dtype=dt))
				refsB, refsA = mk([B, B], db), mk([A], da)
				got = [metric.jaccarddist_array(A, refsB)[1], metric.jaccarddist_array(B, refsA)[0],
				       metric.jaccarddist_matrix([A, B], refsB)[0][0], metric.jaccarddist_matrix([B], refsA, chunksize=1)[0][0]]
				want = [vals[0], vals[1], vals[0], vals[1]]
				if [bits(x) for x in got] != [bits(x) for x in want]:
					pf.append(f'{cont}: a {da} / {db} pair through the bulk interfaces gives {[bits(x) for x in got]}, the two-signature distances are {[bits(x) for x in want]}')
		except Exception as e:
			return lines, [f'bulk-mixed raised {exc_kind(e)}: {e}']
		return lines, pf
	if kind == 'addcommon':
		a, b, x = case['a'], case['b'], case['x']
		A, B = _arr(a, 'u8'), _arr(b, 'u8')
		A2, B2 = _arr(sorted(a + [x]), 'u8'), _arr(sorted(b + [x]), 'u8')
		u = len(set(a) | set(b))
		return [f'c15.addcommon {u} {bits(metric.jaccarddist(A, B))} {bits(metric.jaccarddist(A2, B2))}'], []
	if kind == 'addcommon-sizes':
		N, M, I = case['N'], case['M'], case['I']
		A = np.arange(0, N, dtype='u4')
		B = np.arange(N - I, N - I + M, dtype='u4')
		x = np.array([2 ** 31], dtype='u4')
		before = metric.jaccarddist(A, B)
		after = metric.jaccarddist(np.concatenate([A, x]), np.concatenate([B, x]))
		return [f'c15.addcommon {N + M - I} {bits(before)} {bits(after)}'], []
	raise ValueError(kind)


def finding_key(failure):
	c = failure['case']
	if c['kind'] == 'addcommon-sizes' and c['N'] + c['M'] - c['I'] + 1 >= 2 ** 23:
		return 'C15-F1'
	return None


def run(ctx):
	rng = ctx.rng

	def sub(case, tag, nontrivial=False):
		lines, pf = safe_check(check, ctx, case)
		ctx.submit(case, lines, nontrivial=nontrivial, tags=[tag], pyfails=pf)

	# known finding witness: |A| = 10128763, |B| = 10128762, |A∪B| = 14897820
	N, M, U = 10128763, 10128762, 14897820
	sub({'kind': 'addcommon-sizes', 'N': N, 'M': M, 'I': N + M - U}, 'witness-C15-F1')
	for (N, M, I) in [(1000, 1000, 10), (2 ** 22, 2 ** 22 - 3, 2 ** 21), (3000000, 4000000, 123456), (2 ** 22, 2 ** 22 - 2, 0), (5, 3, 3)]:
		sub({'kind': 'addcommon-sizes', 'N': N, 'M': M, 'I': I}, 'addcommon-sizes<2^23', True)
	# mixed widths through the bulk interfaces, values aliasing modulo the narrow type's width
	from props.c02 import gen_pair_alias
	for j in range(ctx.q(150, 1500)):
		a, b, da, db = gen_pair_alias(rng)
		sub({'kind': 'bulk-mixed', 'a': a, 'b': b, 'da': da, 'db': db}, 'bulk-mixed-widths', bool(a) and bool(b))
	# exhaustive triples over a 5-element universe
	univ = [0, 3, 4, 1000, 65535]
	subsets = [[univ[i] for i in range(5) if m >> i & 1] for m in range(32)]
	for a in subsets:
		for b in subsets:
			for c in subsets:
				nt = bool(a) and bool(b) and bool(c) and a != b and b != c and a != c
				sub({'kind': 'triple', 'a': a, 'b': b, 'c': c, 'dts': ['u2', 'u4', 'u8']}, 'exh-5', nt)
	ctx.exhaustive = ['all 32^3 triples of subsets of a 5-element universe']
	for j in range(ctx.q(4000, 40000)):
		if not ctx.time_left(0.85):
			break
		big = rng.random() < 0.05
		wide = rng.random() < 0.45
		a, b = gen_pair_wide(rng) if wide else gen_pair(rng, ctx.q(400, 2000) if big else 60)
		r = rng.random()
		if r < 0.3:
			c = sorted(set(a) | set(b))
		elif r < 0.5:
			c = sorted(set(a) & set(b))
		elif r < 0.7:
			c = sorted(set(a) ^ set(b))
		else:
			c = gen_pair(rng, 60)[0]
		dts = [fit_dtype(rng, a), fit_dtype(rng, b), fit_dtype(rng, c)]
		nt = bool(a) and bool(b) and bool(c) and a != b and b != c and a != c
		route = rng.choice([None, None, 'array-list', 'matrix-idx', 'pairwise-idx', 'pairwise-window', 'matrix-window', 'array-window'])
		sub({'kind': 'triple', 'a': a, 'b': b, 'c': c, 'dts': dts, 'route': route, 'chunk': rng.choice([None, 1, 2, 3])}, 'random-triple' + (f'-{route}' if route else ''), nt)
		if rng.random() < 0.5:
			cand = [v for v in BOUNDARY + [max(a + b + [0]) + rng.randint(1, 5)] if v not in a and v not in b and v < 2 ** 64]
			x = rng.choice(cand)
			sub({'kind': 'addcommon', 'a': a, 'b': b, 'x': x}, 'addcommon', bool(a) and a != b)
