"""C18 — using a reference database never modifies it."""
import builtins
import hashlib
import os
import shutil
import sqlite3

from core import hx, b01, exc_kind, safe_check
from cliutil import run_cli
from worlds import GenomeWorld
import dbutil

PROPS = ('GambitV.Props.C18', 'GambitV.C18')
TIE = [('GambitV.Tie.PySession', 'GambitV.Tie.Py'), ('GambitV.Tie.PyLoadFlow', 'GambitV.Tie.Py')]
RULE = ('(a) histories of 1..12 read-side commands / library calls against a scratch copy of a database directory — gambit query (files / list / signature '
        'file; csv / json / archive; strict), dist --use-db, signatures info -d / FILE, signatures create --db-params, tree, library load + query + '
        'indexing, with failing commands interleaved (bad options, mismatching signature file, missing file) — observing sha256 of *.gdb / *.gs and the '
        'directory listing before/after, every open() / h5py.File() of a database file with its mode, and every SQL statement; (b) histories of session '
        'operations (add / delete / attribute change / direct SQL / flush / commit / commit through the transaction object or a begin-block / query / rollback / close; optionally after a writable session maker or session for the same file was created earlier in the process) on the library\'s default session, the CLI context\'s session and the loaded '
        'database\'s session, judged against the Lean ReadOnlySession state machine. Non-trivial = distinct history with >= 3 operations incl. a failing or a '
        'mutating one.')
TRUSTED = ['harness/props/c18.py + Driver/C18.lean', 'recording wrappers installed by the harness process (builtins.open, h5py.File, SQLAlchemy before_cursor_execute)']
ASSUMPTIONS = ['OS / SQLite / HDF5: a file opened read-only and never written through SQL is not modified (assumed, sampled by the hashes)']

_w = None


def world():
	global _w
	if _w is None:
		_w = GenomeWorld(99, prefix='gv_c18_')
	return _w


def sha(p):
	return hashlib.sha256(open(p, 'rb').read()).hexdigest()


class Recorder:
	def __init__(self, dbdir):
		self.dbdir = os.path.realpath(str(dbdir))
		self.opens = []
		self.sql_writes = 0
		self.sql = []

	def _is_db(self, path):
		try:
			return os.path.realpath(os.fspath(path)).startswith(self.dbdir + os.sep)
		except TypeError:
			return False

	def __enter__(self):
		import h5py
		from sqlalchemy import event
		from sqlalchemy.engine import Engine
		self._open = builtins.open
		rec = self

		def open_(file, mode='r', *a, **k):
			if rec._is_db(file):
				rec.opens.append('r' if not any(c in mode for c in 'wax+') else 'w:' + mode)
			return rec._open(file, mode, *a, **k)
		builtins.open = open_
		import io
		self._ioopen = io.open
		io.open = open_
		self._h5init = h5py.File.__init__

		def h5init(obj, name, mode='r', *a, **k):
			if not isinstance(name, h5py.h5f.FileID) and rec._is_db(name):
				rec.opens.append('r' if mode == 'r' else 'w:h5:' + str(mode))
			return rec._h5init(obj, name, mode, *a, **k)
		h5py.File.__init__ = h5init

		def before(conn, cursor, statement, parameters, context, executemany):
			verb = statement.lstrip().split(None, 1)[0].upper() if statement.strip() else ''
			rec.sql.append(verb)
			if verb not in ('SELECT', 'PRAGMA', 'BEGIN', 'ROLLBACK', 'WITH'):
				rec.sql_writes += 1
		self._before = before
		event.listen(Engine, 'before_cursor_execute', before)
		return self

	def __exit__(self, *a):
		import h5py, io
		from sqlalchemy import event
		from sqlalchemy.engine import Engine
		builtins.open = self._open
		io.open = self._ioopen
		h5py.File.__init__ = self._h5init
		event.remove(Engine, 'before_cursor_execute', self._before)


def do_command(w, dbdir, cmd, rng_seed):
	import numpy as np
	r = __import__('random').Random(rng_seed)
	out = w.sc.path(suffix='.out')
	g = [w.genomes[i] for i in r.sample(range(len(w.genomes)), r.randint(1, 3))]
	if cmd == 'query-files':
		return run_cli(['-d', dbdir, 'query', '-o', out, '--no-progress', '-f', r.choice(['csv', 'json', 'archive'])] + (['--strict'] if r.random() < 0.3 else []) + [x['path'] for x in g])[0]
	if cmd == 'query-list':
		return run_cli(['-d', dbdir, 'query', '-o', out, '--no-progress', '-l', w.listfile(g, 'c18l.txt'), '--ldir', w.qdir])[0]
	if cmd == 'query-sigs':
		p, _ = w.sigfile(g)
		return run_cli(['-d', dbdir, 'query', '-o', out, '--no-progress', '-s', p])[0]
	if cmd == 'query-mismatch':
		p, _ = w.sigfile(g, spec=(7, 'AC'))
		return run_cli(['-d', dbdir, 'query', '-o', out, '--no-progress', '-s', p])[0]
	if cmd == 'query-missing':
		return run_cli(['-d', dbdir, 'query', '-o', out, '--no-progress', '/nonexistent/x.fasta'])[0]
	if cmd == 'query-badopt':
		return run_cli(['-d', dbdir, 'query', '-o', out, '--no-such-option'])[0]
	if cmd == 'dist-db':
		return run_cli(['-d', dbdir, 'dist', '-o', out, '--no-progress', '--use-db'] + sum([['-q', x['path']] for x in g], []))[0]
	if cmd == 'dist-db-mismatch':
		return run_cli(['-d', dbdir, 'dist', '-o', out, '--no-progress', '--use-db', '-k', 9, '-p', 'GG'] + sum([['-q', x['path']] for x in g], []))[0]
	if cmd == 'info-db':
		return run_cli(['-d', dbdir, 'signatures', 'info', '-d'] + r.choice([[], ['-j'], ['-i'], ['-j', '-p']]))[0]
	if cmd == 'info-file':
		return run_cli(['signatures', 'info', os.path.join(dbdir, 'ref.gs')] + r.choice([[], ['-j'], ['-i']]))[0]
	if cmd == 'create-dbparams':
		return run_cli(['-d', dbdir, 'signatures', 'create', '-o', out, '--no-progress', '--db-params'] + [x['path'] for x in g])[0]
	if cmd == 'tree-dbsigs':
		return run_cli(['tree', '--no-progress', '-s', os.path.join(dbdir, 'ref.gs')])[0]
	if cmd == 'dist-rs-dbsigs':
		return run_cli(['dist', '-o', out, '--no-progress', '--rs', os.path.join(dbdir, 'ref.gs')] + sum([['-q', x['path']] for x in g], []))[0]
	if cmd == 'lib-rplus-other':
		# a legitimate read-write open of a file that is NOT part of the database; must not influence later database opens
		from gambit.sigs import load_signatures
		p, _ = w.sigfile(g)
		sg = load_signatures(p, mode='r+')
		sg.close()
		return 0
	if cmd == 'lib':
		from gambit.db import ReferenceDatabase
		from gambit.query import query
		db = ReferenceDatabase.load_from_dir(dbdir)
		try:
			res = query(db, [w.sig_of(x) for x in g], classify_strict=r.random() < 0.5)
			_ = db.signatures[0], db.signatures[0:2], db.signatures[[0, 1]]
			_ = [t.name for t in db.genomeset.taxa][:3]
			try:
				db.session.commit()
				return 'commit-did-not-raise'
			except TypeError:
				pass
			db.session.flush()
		finally:
			db.signatures.close(); db.session.close()
		return 0
	raise ValueError(cmd)


CMDS = ['query-files', 'query-list', 'query-sigs', 'query-mismatch', 'query-missing', 'query-badopt', 'dist-db', 'dist-db-mismatch', 'info-db', 'info-file',
        'create-dbparams', 'tree-dbsigs', 'dist-rs-dbsigs', 'lib', 'lib-rplus-other', 'lib']


def check(ctx, case):
	w = world()
	# scratch copy of the database directory
	dbdir = w.sc.subdir()
	for f in os.listdir(w.dbdir):
		shutil.copy2(os.path.join(w.dbdir, f), os.path.join(dbdir, f))
	dbdir = str(dbdir)
	files = sorted(os.listdir(dbdir))
	before = {f: sha(os.path.join(dbdir, f)) for f in files}
	pf = []
	try:
		if case['kind'] == 'commands':
			with Recorder(dbdir) as rec:
				for i, cmd in enumerate(case['cmds']):
					r = do_command(w, dbdir, cmd, case['seed'] + i)
					if r == 'commit-did-not-raise':
						pf.append('ReadOnlySession.commit() did not raise')
			after_files = sorted(os.listdir(dbdir))
			same = after_files == files and all(sha(os.path.join(dbdir, f)) == before[f] for f in files)
			case['_nt'] = len(case['cmds']) >= 3
			return [f'c18.commands {",".join(rec.opens) if rec.opens else "_"} {rec.sql_writes} {b01(same)}'], pf
		# session history
		from gambit.db import Taxon, ReferenceDatabase
		from gambit.db.sqla import file_sessionmaker
		gdb = os.path.join(dbdir, 'ref.gdb')
		closer = None
		if case.get('prior') == 'writable-maker':
			# somebody asked for a writable session maker for the same file earlier in this process (and did not use it)
			file_sessionmaker(gdb, readonly=False)
		elif case.get('prior') == 'writable-session':
			ws = file_sessionmaker(gdb, readonly=False)()
			ws.query(Taxon).count(); ws.close()
		elif case.get('prior') in ('explicit-class-maker', 'explicit-class-session'):
			# … or named the session class explicitly and left `readonly` at its default (the documented way to get an ordinary session)
			from sqlalchemy.orm import Session as _PlainSession
			mk = file_sessionmaker(gdb, cls=_PlainSession)
			if case['prior'] == 'explicit-class-session':
				ws = mk()
				ws.query(Taxon).count(); ws.close()
		if case['via'] == 'default':
			session = file_sessionmaker(gdb)()
		elif case['via'] == 'refdb':
			db = ReferenceDatabase.load_from_dir(dbdir)
			session = db.session
			closer = db.signatures
		else:
			import click
			from gambit.cli.common import CLIContext
			from gambit.cli import cli
			cctx = click.Context(cli)
			cctx.params = {'db_path': dbdir}
			session = CLIContext(cctx).Session()
		from gambit.db import ReferenceGenomeSet
		gset = session.query(ReferenceGenomeSet).one()
		gset_id = gset.id
		n0 = session.query(Taxon).count()
		outs = []
		toks = []
		existing = session.query(Taxon).order_by(Taxon.id).all()
		for i, op in enumerate(case['ops']):
			try:
				if op == 'add':
					session.add(Taxon(name=f'new{i}', key=f'new-taxon-{i}', genome_set_id=gset_id))
					toks.append(f'add:{1000 + i}'); outs.append('ok')
				elif op == 'del':
					session.delete(existing[i % len(existing)])
					toks.append(f'del:{2000 + i}'); outs.append('ok')    # deleting is modelled on a row id that is not durable-visible until flush
				elif op == 'mod':
					existing[i % len(existing)].name = f'renamed{i}'
					toks.append(f'add:{3000 + i}'); outs.append('ok')
				elif op == 'sql':
					# a statement executed directly on the connection (bypasses the unit of work): must never become durable either
					from sqlalchemy import text
					toks.append(f'sql:{4000 + i}')
					session.execute(text("INSERT INTO taxa (key, name, report, genome_set_id) VALUES (:k, :n, 1, :g)"),
					                {'k': f'newsql-{i}', 'n': f'newsql{i}', 'g': gset_id})
					outs.append('ok')
				elif op == 'savepoint':
					# a SAVEPOINT inside the session's transaction, left open: a later commit attempt happens while it is the current transaction
					toks.append('savepoint'); session.begin_nested(); outs.append('ok')
				elif op == 'flush':
					toks.append('flush'); session.flush(); outs.append('ok')
				elif op == 'commit':
					toks.append('commit'); session.commit(); outs.append('ok')
				elif op == 'txncommit':
					# committing through the transaction object instead of Session.commit()
					t = session.get_transaction()
					toks.append('beginblock' if t is None else 'txncommit')
					try:
						if t is None:
							with session.begin():       # no transaction open: leaving the block commits
								pass
						else:
							t.commit()
						outs.append('ok')
					finally:
						try:
							existing = session.query(Taxon).order_by(Taxon.id).all()
						except Exception:
							pass
				elif op == 'query':
					toks.append('query'); outs.append(f'rows:{session.query(Taxon).count()}')
				elif op == 'rollback':
					toks.append('rollback'); session.rollback(); outs.append('ok')
					existing = session.query(Taxon).order_by(Taxon.id).all()
				elif op == 'close':
					toks.append('close'); session.close(); outs.append('ok')
					existing = session.query(Taxon).order_by(Taxon.id).all()
			except TypeError as e:
				outs.append('raised' if 'read-only' in str(e) else 'raised:' + str(e)[:40])
			except Exception as e:
				outs.append('exc:' + exc_kind(e))
		session.close()
		if closer is not None:
			closer.close()
		con = sqlite3.connect(gdb)
		n1 = con.execute('select count(*) from taxa').fetchone()[0]
		names_changed = con.execute("select count(*) from taxa where name like 'renamed%' or name like 'new%'").fetchone()[0]
		con.close()
		changed = not (sorted(os.listdir(dbdir)) == files and all(sha(os.path.join(dbdir, f)) == before[f] for f in files)) or n1 != n0 or names_changed != 0
		case['_nt'] = len(case['ops']) >= 3
		return [f'c18.session {n0} {",".join(toks) if toks else "_"} {",".join(outs)} {b01(changed)}'], pf
	finally:
		shutil.rmtree(dbdir, ignore_errors=True)


def run(ctx):
	rng = ctx.rng
	global _w

	def sub(case, tag):
		lines, pf = safe_check(check, ctx, case)
		nt = case.pop('_nt', False)
		ctx.submit(case, lines, nontrivial=nt, tags=[tag], pyfails=pf)

	try:
		world()
		for cmd in CMDS:
			sub({'kind': 'commands', 'cmds': [cmd], 'seed': rng.randrange(10 ** 6)}, 'single-command')
		for j in range(ctx.q(45, 400)):
			if not ctx.time_left(0.7):
				break
			sub({'kind': 'commands', 'cmds': [rng.choice(CMDS) for _ in range(rng.randint(2, 12))], 'seed': rng.randrange(10 ** 6)}, 'command-history')
		for j in range(ctx.q(150, 800)):
			if not ctx.time_left(0.95):
				break
			ops = [rng.choice(['add', 'del', 'mod', 'sql', 'flush', 'commit', 'commit', 'txncommit', 'txncommit', 'query', 'query', 'rollback', 'close']) for _ in range(rng.randint(1, 12))]
			if rng.random() < 0.3:
				# ... and, at the end, a savepoint left open while statements run and commits are attempted (rolling back *to* a savepoint is
				# not modelled, so no rollback / close follows it)
				ops += ['savepoint'] + [rng.choice(['sql', 'add', 'query', 'flush', 'savepoint']) for _ in range(rng.randint(0, 3))] + \
				       [rng.choice(['txncommit', 'commit', 'query']) for _ in range(rng.randint(1, 3))]
			sub({'kind': 'session', 'via': rng.choice(['default', 'refdb', 'cli']), 'ops': ops, 'prior': rng.choice([None, None, 'writable-maker', 'writable-session', 'explicit-class-maker', 'explicit-class-session'])}, 'session-history')
	finally:
		if _w is not None:
			_w.cleanup()
			_w = None
