"""C02 — Jaccard distance = |A xor B| / |A or B| rounded once to float32."""
import itertools

from core import nats, exc_kind, safe_check

PROPS = ('GambitV.Props.C02', 'GambitV.C02')
TIE = [('GambitV.Tie.Metric', 'GambitV.Tie.Metric'), ('GambitV.Tie.PyMetric', 'GambitV.Tie.Py'), ('GambitV.Tie.PyBindMetric', 'GambitV.Tie.Py')]
RULE = ('pairs of sorted duplicate-free arrays x dtype pair (6x6) x both argument orders. Streams: exhaustive subset pairs of a '
        '6-element universe; structured pairs (empty, equal, disjoint, nested, interleaved, equal last elements, one side exhausted '
        'first, values at the top of each dtype range); random pairs of size <=5000; size-only pairs built from ranges (incl. the '
        'C02-F1 witness); float32 sub-stream (ofNat, div, sub against NumPy); dtype cast table. Non-trivial = distinct pair with '
        '0 < |A∩B| < |A∪B|.')
TRUSTED = ['harness/props/c02.py + Driver/C02.lean', 'NumPy float32 used only to read bit patterns of results',
           'binary32 model GambitV.F32 (validated against NumPy float32 arithmetic by the f32 sub-stream)']
ASSUMPTIONS = ['x86-64 SSE single-precision arithmetic (FLT_EVAL_METHOD = 0) for the compiled kernel']

DTYPES = ['u2', 'u4', 'u8', 'i2', 'i4', 'i8']
MAXV = {'u2': 2 ** 16 - 1, 'u4': 2 ** 32 - 1, 'u8': 2 ** 64 - 1, 'i2': 2 ** 15 - 1, 'i4': 2 ** 31 - 1, 'i8': 2 ** 63 - 1}


def bits(x):
	import numpy as np
	return int(np.float32(x).view(np.uint32))


def _arr(vals, dt, form=None):
	"""the values as an ndarray: contiguous (default), a strided view, a read-only array, or a slice of a larger buffer"""
	import numpy as np
	a = np.array(vals, dtype=np.dtype(dt))
	if form == 'strided':
		big = np.empty(len(a) * 2 + 1, dtype=a.dtype)
		big[:] = a[0] if len(a) else 0
		big[1::2][:len(a)] = a
		return big[1::2][:len(a)]
	if form == 'readonly':
		a.setflags(write=False)
		return a
	if form == 'window':
		big = np.concatenate([np.array([0, 1, 2], dtype=a.dtype), a, np.array([5, 6], dtype=a.dtype)])
		return big[3:3 + len(a)]
	return a


def check(ctx, case):
	import numpy as np
	from gambit import metric
	kind = case['kind']
	if kind == 'pair':
		a, b = case['a'], case['b']
		A, B = _arr(a, case['da'], case.get('fa')), _arr(b, case['db'], case.get('fb'))
		lines = []
		if case.get('prev') is not None and len(case['prev']) == len(a) and case.get('fa') in (None, 'window'):
			# the same array object held other contents during an earlier call and was then overwritten in place
			A[...] = np.array(case['prev'], dtype=A.dtype)
			try:
				metric.jaccarddist(A, B); metric.jaccard(A, B)
			except ValueError as e:
				if 'read-only' not in str(e):     # (a read-only B is refused loudly: observation, DESIGN 4.6)
					raise
			A[...] = np.array(a, dtype=A.dtype)
		for (x, y, X, Y) in ((a, b, A, B), (b, a, B, A)):
			try:
				d = metric.jaccarddist(X, Y)
				j = metric.jaccard(X, Y)
			except Exception as e:
				if 'readonly' in (case.get('fa'), case.get('fb')) and isinstance(e, ValueError) and 'read-only' in str(e):
					# observation (DESIGN 4.6): the Cython kernel takes writable buffers and refuses a read-only array loudly;
					# no distance is reported, so C02 says nothing here - but if a distance IS reported it must be the right one
					case['_refused'] = True
					continue
				return [], [f'jaccarddist raised {exc_kind(e)}: {e}']
			lines.append(f'c02.dist {nats(x)} {nats(y)} {bits(d)} {bits(j)}')
			if len(x) + len(y) <= 400:
				lines.append(f'gen.jac {nats(x)} {nats(y)} {bits(d)}')
		return lines, []
	if kind == 'sizes':
		N, M, I = case['N'], case['M'], case['I']
		dt = case.get('dt', 'u4')
		A = np.arange(0, N, dtype=dt)
		B = np.arange(N - I, N - I + M, dtype=dt)
		d = metric.jaccarddist(A, B)
		return [f'c02.sizes {N} {M} {I} {bits(d)}'], []
	if kind == 'f32':
		op = case['op']
		if op == 'ofnat':
			return [f'c02.f32 ofnat {case["n"]} {bits(np.float32(case["n"]))}'], []
		a, b = np.uint32(case['a']).view(np.float32), np.uint32(case['b']).view(np.float32)
		with np.errstate(all='ignore'):
			r = a / b if op == 'div' else a - b
		return [f'c02.f32 {op} {case["a"]} {case["b"]} {bits(r)}'], []
	if kind == 'fmt4':
		x = np.uint32(case['a']).view(np.float32)
		return [f'c02.f32 fmt4 {case["a"]} {format(x, "0.4f")}'], []
	if kind == 'cast':
		dt = np.dtype(case['dt'])
		try:
			r = metric._cast_sigs_array(np.zeros(3, dtype=dt))
			real = str(r.dtype.itemsize) if r.dtype.kind == 'u' else 'bad'
		except ValueError:
			real = '~'
		native = dt.isnative
		return [f'c02.cast {dt.kind} {dt.itemsize} {"1" if native else "0"} {real}'], []
	raise ValueError(kind)


def finding_key(failure):
	c = failure['case']
	if c['kind'] == 'sizes':
		u = c['N'] + c['M'] - c['I']
		if u >= 2 ** 24 and c['N'] < 2 ** 24 and c['M'] < 2 ** 24:
			return 'C02-F1'
	return None


def rand_sorted(rng, n, maxv):
	if n == 0:
		return []
	if maxv < 4 * n:
		return sorted(rng.sample(range(maxv + 1), min(n, maxv + 1)))
	s = set()
	while len(s) < n:
		s.add(rng.randrange(maxv + 1))
	return sorted(s)


BOUNDARY = [255, 256, 32767, 32768, 65535, 65536, 65537, 2 ** 31 - 1, 2 ** 31, 2 ** 32 - 1, 2 ** 32, 2 ** 32 + 1, 2 ** 63 - 1, 2 ** 63, 2 ** 64 - 1]


def fit_dtype(rng, vals):
	"""a dtype (any of the six) able to hold the values; wider ones allowed"""
	m = max(vals) if vals else 0
	ok = [d for d in DTYPES if MAXV[d] >= m]
	return rng.choice(ok)


def gen_pair_wide(rng, maxn=40):
	"""like gen_pair but over the whole range of the integer types, each side in its own type, with type-boundary values injected"""
	a, b = gen_pair(rng, maxn)
	r = rng.random()
	if r < 0.5:
		shift = rng.choice([0, 2 ** 16 - 20, 2 ** 32 - 20, 2 ** 63 - 50, 65500])
		a = [x % 40 + shift for x in a]; b = [x % 40 + shift for x in b]
		a, b = sorted(set(a)), sorted(set(b))
	for side in (a, b):
		if rng.random() < 0.4:
			side.append(rng.choice(BOUNDARY))
	if rng.random() < 0.3:
		v = rng.choice(BOUNDARY); a.append(v); b.append(v)
	return sorted(set(a)), sorted(set(b))


def gen_pair_alias(rng):
	"""one side in a narrow type, the other in a wider one holding values that are congruent, modulo the narrow type's width, to values of the
	narrow side (2^bits itself, aliasing 0, as the last element included): a cast of the wide side to the narrow type would create common elements"""
	bits = rng.choice([16, 32])
	narrow = rng.choice(['u2', 'i2'] if bits == 16 else ['u4', 'i4'])
	wide = rng.choice(['u4', 'i4', 'u8', 'i8'] if bits == 16 else ['u8', 'i8'])
	top = MAXV[narrow]
	small = sorted(set([0] * rng.randint(0, 1) + [rng.randrange(0, 6) for _ in range(rng.randint(0, 3))] + [rng.randrange(0, top + 1) for _ in range(rng.randint(0, 3))]))
	k = rng.choice([1, 1, 1, 2, 3])
	big = sorted(set([x + k * 2 ** bits for x in small if rng.random() < 0.7 and x + k * 2 ** bits <= MAXV[wide]]
	                 + ([2 ** bits] if rng.random() < 0.6 else []) + [x for x in small if rng.random() < 0.3]))
	if rng.random() < 0.5:
		return small, big, narrow, wide
	return big, small, wide, narrow


def gen_pair(rng, maxn=60):
	"""Structured pair over a universe chosen to produce all overlap patterns."""
	r = rng.random()
	n = rng.randint(0, maxn)
	m = rng.randint(0, maxn)
	U = rng.choice([8, 20, 100, 1000, 2 ** 15 - 1])
	a = rand_sorted(rng, min(n, U), U)
	if r < 0.1:
		b = list(a)
	elif r < 0.2:
		b = [x for x in rand_sorted(rng, min(m, U), U) if x not in set(a)]
	elif r < 0.3:
		b = sorted(rng.sample(a, rng.randint(0, len(a)))) if a else []
	elif r < 0.4:
		b = [x + 1 for x in a if x + 1 not in set(a)]
	elif r < 0.5 and a:
		b = sorted(set(rand_sorted(rng, min(m, U), U)) | {a[-1]})
	elif r < 0.6 and a:
		b = [x for x in rand_sorted(rng, min(m, U), U) if x < a[0]] if rng.random() < 0.5 else [x for x in rand_sorted(rng, min(m, U), U) if x > a[-1]]
	else:
		b = rand_sorted(rng, min(m, U), U)
	return a, b


def run(ctx):
	rng = ctx.rng

	def sub(case, tag, nontrivial=None):
		lines, pf = safe_check(check, ctx, case)
		if nontrivial is None:
			if case['kind'] == 'pair':
				sa, sb = set(case['a']), set(case['b'])
				nontrivial = 0 < len(sa & sb) < len(sa | sb)
			else:
				nontrivial = False
		ctx.submit(case, lines, nontrivial=nontrivial, tags=[tag], pyfails=pf)

	ctx.submit({'kind': 'gen-facts'}, ['gen.facts'], nontrivial=False, tags=['gen-facts'])
	# known-finding witness + neighbours below the boundary
	sub({'kind': 'sizes', 'N': 8423941, 'M': 15860965, 'I': 4468285}, 'witness-C02-F1', False)
	for (N, M, I) in [(2 ** 23, 2 ** 23, 1), (2 ** 23 + 5, 2 ** 23 - 6, 2), (5000000, 11777215, 0), (2 ** 24 - 1, 1, 1), (2 ** 24 - 1, 0, 0),
	                  (2 ** 24 - 1, 2 ** 24 - 1, 2 ** 24 - 1), (12345678, 4431537, 1234567)]:
		sub({'kind': 'sizes', 'N': N, 'M': M, 'I': I}, 'sizes-below-2^24', True)
	# dtype table
	for dt in ['u1', 'u2', 'u4', 'u8', 'i1', 'i2', 'i4', 'i8', 'f4', 'f8', 'b1', 'c8', '>u2', '>u4', '>u8', '>i2', '>i4', '>i8', '<i4', '<u8', '=i2', 'U1', 'S2', 'O', 'M8[s]']:
		sub({'kind': 'cast', 'dt': dt}, 'cast')
	# exhaustive subset pairs over a 6-element universe (values spread to the top of u2)
	univ = [0, 1, 7, 300, 65534, 65535]
	subsets = [[univ[i] for i in range(6) if m >> i & 1] for m in range(64)]
	for a in subsets:
		for b in subsets:
			da, db = rng.choice(['u2', 'u4', 'u8']), rng.choice(['u2', 'u4', 'u8'])
			sub({'kind': 'pair', 'a': a, 'b': b, 'da': da, 'db': db}, 'exh-6')
	ctx.exhaustive = ['all 64x64 subset pairs of a 6-element universe']
	# all 36 dtype pairs on boundary values
	for da in DTYPES:
		for db in DTYPES:
			top = min(MAXV[da], MAXV[db])
			a = [0, 1, top - 1, top]
			b = [1, 5, top]
			sub({'kind': 'pair', 'a': a, 'b': b, 'da': da, 'db': db}, 'dtype-grid')
			sub({'kind': 'pair', 'a': [MAXV[da]], 'b': [MAXV[db]], 'da': da, 'db': db}, 'dtype-grid-top')
			sub({'kind': 'pair', 'a': [], 'b': [], 'da': da, 'db': db}, 'empty-empty')
	# structured / random pairs
	for j in range(ctx.q(3000, 60000)):
		if not ctx.time_left(0.7):
			break
		a, b = gen_pair(rng, 60 if rng.random() < 0.9 else ctx.q(800, 5000))
		da, db = rng.choice(DTYPES), rng.choice(DTYPES)
		case = {'kind': 'pair', 'a': a, 'b': b, 'da': da, 'db': db, 'fa': rng.choice([None, None, 'strided', 'readonly', 'window']), 'fb': rng.choice([None, None, 'strided', 'readonly', 'window'])}
		if rng.random() < 0.2 and a:
			case['prev'] = sorted(rng.sample(range(2 ** 15 - 1), len(a)))
			case['fa'] = rng.choice([None, 'window'])
		sub(case, 'random-pair')
	# each side in its own integer type over that type's whole range (mixed widths where the values do NOT fit the narrower type)
	for j in range(ctx.q(1500, 30000)):
		if not ctx.time_left(0.78):
			break
		a, b = gen_pair_wide(rng)
		sub({'kind': 'pair', 'a': a, 'b': b, 'da': fit_dtype(rng, a), 'db': fit_dtype(rng, b)}, 'wide-pair')
	# one side narrow, the other wide with values that alias the narrow side's modulo 2^16 / 2^32
	for j in range(ctx.q(600, 6000)):
		if not ctx.time_left(0.8):
			break
		a, b, da, db = gen_pair_alias(rng)
		sub({'kind': 'pair', 'a': a, 'b': b, 'da': da, 'db': db}, 'alias-pair')
	# size-only random (large sets, cheap for the driver)
	for j in range(ctx.q(60, 1500)):
		if not ctx.time_left(0.8):
			break
		N = rng.randint(0, 200000)
		M = rng.randint(0, 200000)
		I = rng.randint(0, min(N, M))
		sub({'kind': 'sizes', 'N': N, 'M': M, 'I': I, 'dt': rng.choice(['u4', 'u8', 'i4', 'i8'])}, 'sizes-random', 0 < I < N + M - I)
	# float32 model validation
	for j in range(ctx.q(4000, 100000)):
		if not ctx.time_left(0.95):
			break
		r = rng.random()
		if r < 0.3:
			n = rng.choice([rng.randrange(2 ** 24), rng.randrange(2 ** 26), 2 ** 24 + rng.randrange(64), rng.randrange(2 ** 40)])
			sub({'kind': 'f32', 'op': 'ofnat', 'n': n}, 'f32-ofnat')
		elif r < 0.7:
			u = rng.randrange(1, 2 ** 24)
			n = rng.randrange(0, u + 1)
			sub({'kind': 'f32', 'op': 'div', 'a': bits(n), 'b': bits(u)}, 'f32-div')
		elif r < 0.85:
			u = rng.randrange(1, 2 ** 24)
			n = rng.randrange(0, u + 1)
			import numpy as np
			d = bits(np.float32(n) / np.float32(u))
			sub({'kind': 'f32', 'op': 'sub', 'a': 0x3F800000, 'b': d}, 'f32-sub')
		else:
			u = rng.choice([32, 64, 10000, 20000, 3, 7, rng.randrange(1, 2 ** 20)])
			n = rng.randrange(0, u + 1)
			import numpy as np
			d = bits(np.float32(n) / np.float32(u))
			sub({'kind': 'fmt4', 'a': d}, 'fmt4')
