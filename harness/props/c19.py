"""C19 — an interrupted signature-file write never yields a loadable wrong file."""
import os

from core import nats, natlists, exc_kind, safe_check
import dbutil

PROPS = ('GambitV.Props.C19', 'GambitV.C19')
TIE = [('GambitV.Tie.PyHdf5', 'GambitV.Tie.Py')]
RULE = ('(collection, write path in {whole-array, per-signature}, payload size, kill point n). The real writer runs in a forked child that is '
        'terminated with os._exit immediately before its n-th storage-library call (h5py File(), attribute write, create_dataset, dataset write, '
        'close); the parent then runs the real loader on the file left behind. Every n in 0..len(trace) for small payloads; for multi-megabyte '
        'payloads every n (thorough) or a spread of n incl. all the last ones (quick). The recorded call trace is compared with the Lean writer '
        'trace. The same points are revisited with other ways to die (KeyboardInterrupt raised at the call = Ctrl-C / a handler that unwinds; SIGTERM '
        'sent to the process itself), over a complete earlier file at the destination, and with a loaded signature file (metadata and IDs reassigned) as '
        'the collection being saved. Non-trivial = distinct (payload, path, n) with 0 < n < len(trace).')
TRUSTED = ['harness/props/c19.py + Driver/C12.lean', 'os._exit terminates the process without running HDF5 / Python cleanup (equivalent to a kill at that point)']
ASSUMPTIONS = ['HDF5 (libhdf5 as shipped with h5py 3.16) does not make the root object header reachable before flush/close — this is the runtime behaviour being sampled']


class _Killer:
	def __init__(self, kill_at):
		self.n = 0
		self.kill_at = kill_at
		self.trace = []

	mode = 'exit'

	def tick(self, tok):
		if self.kill_at is not None and self.n == self.kill_at:
			if self.mode == 'exit':
				os._exit(0)                      # hard death (SIGKILL, power loss): nothing more runs
			self.kill_at = None
			if self.mode == 'raise':
				raise KeyboardInterrupt()        # death by an interrupt that unwinds the interpreter (Ctrl-C): cleanup handlers run, then the process ends
			if self.mode == 'sigterm':
				import signal, time
				os.kill(os.getpid(), signal.SIGTERM)   # death by SIGTERM (kill, scheduler limit): whatever the program installed runs
				time.sleep(0.05)
		self.n += 1
		self.trace.append(tok)


def _instrument(killer):
	"""wrap the storage-library entry points used by the writer (in this process only)"""
	import h5py
	orig = {}

	def wrap(cls, name, tokf):
		f = getattr(cls, name)
		orig[(cls, name)] = f

		def g(self, *a, **k):
			tok = tokf(self, a, k)
			if tok is not None:
				killer.tick(tok)
			return f(self, *a, **k)
		setattr(cls, name, g)

	# File(<FileID>) merely wraps an already open file (Group.file property): not a storage call
	wrap(h5py.File, '__init__', lambda s, a, k: None if (a and isinstance(a[0], h5py.h5f.FileID)) else 'file')
	wrap(h5py.AttributeManager, '__setitem__', lambda s, a, k: 'attr:' + str(a[0]))
	wrap(h5py.Group, 'create_dataset', lambda s, a, k: 'dset:' + str(a[0]))
	wrap(h5py.Dataset, '__setitem__', lambda s, a, k: 'write')
	wrap(h5py.File, 'close', lambda s, a, k: 'close')

	def restore():
		for (cls, name), f in orig.items():
			setattr(cls, name, f)
	return restore


def _make(case):
	import numpy as np
	from gambit.kmers import KmerSpec
	from gambit.sigs import SignatureArray, SignatureList, AnnotatedSignatures, SignaturesMeta
	kspec = KmerSpec(case['k'], 'AT')
	rng = __import__('random').Random(case['seed'])
	U = 4 ** case['k']
	sigs = []
	for i in range(case['nsigs']):
		m = case['siglen'] if i % 3 else 0
		if m:
			start = rng.randrange(U - m)
			sigs.append(np.arange(start, start + m, dtype=kspec.index_dtype))
		else:
			sigs.append(np.zeros(0, dtype=kspec.index_dtype))
	if case['fast']:
		obj = SignatureArray(sigs, kspec)
	else:
		obj = AnnotatedSignatures(SignatureList(sigs, kspec), [f'id{i}' for i in range(len(sigs))], SignaturesMeta(id='x', id_attr='key', extra={'a': [1, 2]}))
	return obj, sigs, kspec


def run_writer(path, case, kill_at):
	"""fork; child writes and is killed before call `kill_at` (None = never); returns the recorded trace when not killed"""
	from gambit.sigs import dump_signatures, load_signatures
	obj, sigs, kspec = _make(case)
	src = None
	if case.get('src') == 'hdf5-reassigned':
		# the collection being saved is itself a loaded signature file whose metadata and IDs were reassigned before saving
		from gambit.sigs import AnnotatedSignatures, SignatureList, SignaturesMeta
		src = str(path) + '.src.gs'
		dump_signatures(src, AnnotatedSignatures(SignatureList(sigs, kspec), [f'old{i}' for i in range(len(sigs))], SignaturesMeta(id='old', id_attr='refseq_acc')))
	r, w = os.pipe()
	pid = os.fork()
	if pid == 0:
		try:
			os.close(r)
			if src is not None:
				obj = load_signatures(src)
				obj.meta = SignaturesMeta(id='x', id_attr='key', extra={'a': [1, 2]})
				obj.ids = [f'id{i}' for i in range(len(sigs))]
			killer = _Killer(kill_at)
			killer.mode = case.get('mode', 'exit')
			_instrument(killer)
			kw = {}
			if case.get('compression'):
				kw['compression'] = case['compression']
			dump_signatures(path, obj, **kw)
			os.write(w, ','.join(killer.trace).encode())
		except BaseException:
			pass                               # the dying process: the interrupt has unwound the writer; nothing else is done
		finally:
			os._exit(0)
	os.close(w)
	data = b''
	while True:
		chunk = os.read(r, 65536)
		if not chunk:
			break
		data += chunk
	os.close(r)
	os.waitpid(pid, 0)
	return data.decode(), obj, sigs, kspec


def check(ctx, case):
	import numpy as np
	from gambit.sigs import load_signatures
	sc = dbutil.Scratch('gv_c19_')
	try:
		p = sc.path('w.gs')
		if case['kind'] == 'trace':
			trace, obj, sigs, kspec = run_writer(p, case, None)
			# collapse per-signature / bounds writes to the model's token
			return [f'c19.trace {"1" if case["fast"] else "0"} {case["nsigs"]} {trace}'], []
		n = case['n']
		old = None
		if case.get('pre'):
			# a complete signature file (another collection) already exists at the destination
			from gambit.kmers import KmerSpec
			from gambit.sigs import AnnotatedSignatures, SignatureList, SignaturesMeta, dump_signatures
			ok_ = KmerSpec(case['k'], 'AT')
			old = [np.arange(5 + i, 5 + i + 400, dtype=ok_.index_dtype) for i in range(case['nsigs'] + 2)]
			dump_signatures(p, AnnotatedSignatures(SignatureList(old, ok_), [f'previous{i}' for i in range(len(old))], SignaturesMeta(id='previous', id_attr='key')))
		trace, obj, sigs, kspec = run_writer(p, case, n)
		pf = []
		if old is not None and n == 0:
			# the writer died before touching the destination: the earlier file must be exactly what it was
			try:
				with load_signatures(p) as lo:
					if not (len(lo) == len(old) and all(np.array_equal(lo[i], old[i]) for i in range(len(old))) and lo.meta.id == 'previous'):
						pf.append('the earlier file at the destination was altered by a writer that died before opening it')
			except Exception as e:
				pf.append(f'the earlier file at the destination no longer loads: {exc_kind(e)}')
			case['_nt'] = False
			return [], pf
		try:
			loaded = load_signatures(p)
		except Exception as e:
			real = 'err'
		else:
			try:
				same = (loaded.kmerspec == kspec and len(loaded) == len(sigs) and all(np.array_equal(loaded[i], sigs[i]) for i in range(len(sigs)))
				        and np.dtype(loaded.dtype) == kspec.index_dtype)
				if not case['fast'] or case.get('src'):
					same = same and list(loaded.ids) == [f'id{i}' for i in range(len(sigs))] and loaded.meta.id == 'x' and loaded.meta.extra == {'a': [1, 2]}
				real = 'loaded-same' if same else 'loaded-different'
			except Exception as e:
				real = 'loaded-different'
			finally:
				loaded.close()
		case['_nt'] = 0 < n < case['len']
		op = 'c19.crash' if case.get('mode', 'exit') == 'exit' else 'c19.unwind'      # hard death / death through the interpreter's unwinding
		return [f'{op} {"1" if case["fast"] else "0"} {case["nsigs"]} {n} {real}'], pf
	finally:
		sc.cleanup()


def run(ctx):
	rng = ctx.rng

	def sub(case, tag):
		lines, pf = safe_check(check, ctx, case)
		nt = case.pop('_nt', False)
		ctx.submit(case, lines, nontrivial=nt, tags=[tag, f'fast={case["fast"]}', f'payload={case["nsigs"]}x{case["siglen"]}', f'compression={case.get("compression")}'], pyfails=pf)

	payloads = [(3, 4, 5), (7, 20, 6), (1, 0, 5)]
	big = [(60, 40000, 11), (200, 6000, 12), (1500, 30, 8), (40, 100000, 16)]    # multi-megabyte values; > 1024 signatures; > 2^20 values (u8)
	if ctx.tier == 'thorough' or ctx.tie_broken:
		# tens of megabytes written signature by signature (search for a failing input when the writer's storage trace no longer matches
		# the model: buffer- or size-triggered flushes only show beyond their threshold)
		big.append((48, 120000, 20))
	for fast, comp in ((True, None), (False, None), (False, 'gzip'), (True, 'lzf')):
		for (nsigs, siglen, k) in payloads + big:
			if comp and (nsigs, siglen, k) in payloads[1:]:
				continue
			base = {'fast': fast, 'nsigs': nsigs, 'siglen': siglen, 'k': k, 'seed': rng.randrange(10 ** 6), 'compression': comp}
			sub(dict(base, kind='trace'), 'trace')
			length = 13 + (2 if fast else 4 + nsigs)     # len(writerTrace)
			if (nsigs, siglen, k) in big:
				nsample = ctx.q(6, 60)
				points = sorted(set([0, 1, 10, 12, 13, 14, 15] + [rng.randrange(length) for _ in range(nsample)] + [length * 3 // 4, length - 40, length - 3, length - 2, length - 1, length]))
				if ctx.tier == 'thorough' and length <= 300:
					points = list(range(0, length + 1))
			else:
				points = list(range(0, length + 1))
			for n in points:
				if not ctx.time_left(0.95):
					break
				if 0 <= n <= length:
					sub(dict(base, kind='crash', n=n, len=length), 'crash')
					if (nsigs, siglen, k) not in big or n % 3 == 0 or n >= length - 3:
						# other ways to die at the same point, other starting states, another kind of source object
						sub(dict(base, kind='crash', n=n, len=length, mode='raise'), 'crash-interrupt')
						sub(dict(base, kind='crash', n=n, len=length, mode='sigterm'), 'crash-sigterm')
						sub(dict(base, kind='crash', n=n, len=length, pre=True, mode=rng.choice(['exit', 'raise'])), 'crash-over-existing-file')
						if not fast and not comp:
							sub(dict(base, kind='crash', n=n, len=length, src='hdf5-reassigned', mode=rng.choice(['exit', 'raise'])), 'crash-source-is-loaded-file')
	ctx.exhaustive = ['every kill point 0..len(trace) for the small payloads, both write paths']
