"""C11 — every export format is a faithful image of the query results."""
import csv
import io
import json

from core import hx, exc_kind, safe_check
from props.c02 import bits
import dbutil

PROPS = ('GambitV.Props.C11', 'GambitV.C11')
# the JSON side: the encoder with the exporters' conversion rules writes the documented JSON, which carries what the statement names
PROPS_EXTRA = [('GambitV.Props.C11Json', 'GambitV.Json'), ('GambitV.Props.C11JsonSpec', 'GambitV.Json'), ('GambitV.Props.C11JsonArchive', 'GambitV.Json'), ('GambitV.Props.C11JsonFull', 'GambitV.Json')]
TIE = [('GambitV.Tie.PyCsvColumns', 'GambitV.Tie.Py'), ('GambitV.Tie.PyGetattr', 'GambitV.Tie.Py'), ('GambitV.Tie.PyJson', 'GambitV.Tie.Py'), ('GambitV.Tie.PyJsonProps', 'GambitV.Tie.Py'), ('GambitV.Tie.PyArchiveReader', 'GambitV.Tie.Py'), ('GambitV.Tie.PyExporterChoice', 'GambitV.Tie.Py'), ('GambitV.Tie.PyResultClasses', 'GambitV.Tie.Py'), ('GambitV.Tie.PyCsvDialect', 'GambitV.Tie.Py')]
RULE = ('result sets from real queries (default and strict) on scratch databases whose taxon names / genome descriptions / query labels contain commas, '
        'quotes, LF, CRLF, non-ASCII text; with no-prediction items, unreportable predicted taxa, failed strict results with warnings, inputs without a source '
        'file. CSV: text = Lean writeCsv of the rows built from the attributes of the real result objects, and it parses back (Lean reader, cross-checked '
        'with csv.reader). JSON: the Lean predicate resultsCarried (label / reported taxon / next taxon / closest genomes of every query, in order) on (results object, parsed JSON), and the whole document = the encoder of Model/Json.lean run with the exporter conversion rules - the model ones and the ones read from the current source. Archive: read back by '
        'the real reader against the same database, equal to the original under == and field by field (distances as float32 bit patterns, warnings, error, '
        'parameters incl. chunksize None / 1 / 7, naive and timezone-aware timestamps with and without microseconds, extra metadata). CSV / JSON are also written to a '
        'path (str, Path) and the file read as UTF-8 must carry the same rows / document; other exporter objects with other options are created and used in between. Non-trivial = distinct result set with >= 2 items and at least one awkward character in an exported field.')
TRUSTED = ['harness/props/c11.py + Driver/C11.lean + Driver/Json.lean', 'Python json parser (the written text is compared as the tree json.loads returns); json.dump calling default= for exactly the objects it cannot write; cattrs unstructure as modelled (attrs classes field by field, other objects passed through); str() of floats in CSV cells']
ASSUMPTIONS = []

AWK = ['plain', 'com,ma', 'quo"te', 'new\nline', 'crlf\r\nname', 'ünï çödé 大腸菌', ' sp ace ', '"', ',', "it's", 'tab\there',
       '-80C_freezer', '@SRR123', '=SUM(A1)', '+plus', '\tleading tab', "'apostrophe first", '#hash', '0123', ' ', '-', '1e5', 'None', 'true', 'nan']


def build(rng, sc, awkward=True, bare_cr=False, zeros=False):
	from gambit.kmers import KmerSpec
	kspec = KmerSpec(5, 'AT')
	ntaxa = rng.randint(2, 6)
	names = [f'{rng.choice(AWK) if awkward else "t"} T{i}' for i in range(ntaxa)]
	if bare_cr:
		names[0] = 'bare\rCR T0'
	taxa = dbutil.rand_taxonomy(rng, ntaxa, thr_values=(None, 0.5, 0.75, 0.9, 1.0) if not zeros else (0.0, 0.0, 0.5, 1.0, None), names=names)
	if zeros:
		# values that are present but falsy: threshold 0.0, NCBI id 0, (below) an empty description and a query identical to a reference (distance 0.0)
		taxa[0]['ncbi_id'] = 0
		taxa[-1]['ncbi_id'] = 0
		for t in taxa:
			t['report'] = True
	if bare_cr:
		taxa[0]['thr'] = 1.0
		taxa[0]['report'] = True
	genomes, seqs, bases = dbutil.rand_genomes_for(rng, taxa, rng.randint(2, 7), base_len=300, mut=0.03)
	for g in genomes:
		g['description'] = f'{rng.choice(AWK) if awkward else "d"} {g["key"]}'
	if bare_cr:
		genomes[0]['taxon'] = 0
	if zeros:
		genomes[0]['description'] = ''
	d = sc.subdir()
	dbutil.build_refdb(d, taxa=taxa, genomes=genomes, kspec=kspec, seqs=seqs)
	build.last_seqs = seqs
	return d, kspec, bases, taxa


def add_second_genomeset(dbdir, rng):
	"""a second genome set with the SAME key (other version) annotating the same genomes under other taxa"""
	from sqlalchemy import create_engine
	from sqlalchemy.orm import sessionmaker
	from gambit.db.models import ReferenceGenomeSet, Taxon, Genome, AnnotatedGenome
	engine = create_engine(f'sqlite:///{dbdir}/ref.gdb')
	session = sessionmaker(engine)()
	g1 = session.query(ReferenceGenomeSet).one()
	g2 = ReferenceGenomeSet(key=g1.key, version='2.0', name='second version', description='same key, other annotations')
	session.add(g2)
	taxa = [Taxon(name=f'v2 taxon {i}', key=f'v2-taxon-{i}', distance_threshold=rng.choice([0.5, 0.9, 1.0]), report=True, genome_set=g2) for i in range(3)]
	taxa[1].parent = taxa[0]
	for t in taxa:
		session.add(t)
	for i, g in enumerate(session.query(Genome).order_by(Genome.id)):
		session.add(AnnotatedGenome(genome=g, genome_set=g2, taxon=taxa[i % 3], organism=f'v2 organism {i}'))
	session.commit(); session.close(); engine.dispose()


def taxon_proj(t):
	return None if t is None else {'key': t.key, 'name': t.name, 'rank': t.rank, 'ncbi_id': t.ncbi_id, 'distance_threshold': t.distance_threshold}


def _h(s: str) -> str:
	return s.encode('utf-8').hex()


def _f64(x) -> str:
	import struct
	return 'F' + str(struct.unpack('<Q', struct.pack('<d', float(x)))[0])


def pval_token(o, lineage=False) -> str:
	"""a results object as the JSON encoder sees it, in the wire form of Driver/Json.lean (the image `JItem.toPVal` etc. of
	Model/JsonResults.lean): attrs instances with their fields in declaration order, ORM objects with the attributes the exporters may read
	(a genome's taxon additionally with its lineage under the pseudo-attribute `ancestors(incself=True)`, taken from the real method)"""
	import attr
	import numpy as np
	from datetime import date
	from pathlib import PurePath
	from gambit.db import Taxon, AnnotatedGenome, ReferenceGenomeSet
	if o is None:
		return 'N'
	if isinstance(o, (bool, np.bool_)):
		return 'B1' if o else 'B0'
	if isinstance(o, (int, np.integer)):
		return 'I' + str(int(o))
	if isinstance(o, (float, np.floating)):
		return _f64(o)
	if isinstance(o, str):
		return 'S' + _h(o)
	if isinstance(o, date):
		return 'H' + _h(o.isoformat())
	if isinstance(o, PurePath):
		return 'H' + _h(str(o))
	if isinstance(o, (list, tuple)):
		return 'L[' + ','.join(pval_token(x) for x in o) + ']'
	if isinstance(o, dict):
		return 'D{' + ','.join(f'{_h(str(k))}:{pval_token(v)}' for k, v in o.items()) + '}'
	inst = lambda tag, cls, kvs: f'{tag}{_h(cls)}(' + ','.join(f'{_h(k)}={v}' for k, v in kvs) + ')'
	if isinstance(o, Taxon):
		kvs = [(a, pval_token(getattr(o, a))) for a in ('id', 'key', 'name', 'ncbi_id', 'rank', 'distance_threshold')]
		if lineage:
			kvs.append(('ancestors(incself=True)', 'L[' + ','.join(pval_token(t) for t in o.ancestors(incself=True)) + ']'))
		return inst('O', 'Taxon', kvs)
	if isinstance(o, AnnotatedGenome):
		kvs = [(a, pval_token(getattr(o, a))) for a in ('key', 'description', 'organism', 'ncbi_db', 'ncbi_id', 'genbank_acc', 'refseq_acc', 'genome_id')]
		return inst('O', 'AnnotatedGenome', kvs + [('taxon', pval_token(o.taxon, lineage=True))])
	if isinstance(o, ReferenceGenomeSet):
		return inst('O', 'ReferenceGenomeSet', [(a, pval_token(getattr(o, a))) for a in ('id', 'key', 'version', 'name', 'description')])
	if attr.has(type(o)):
		return inst('A', type(o).__name__, [(f.name, pval_token(getattr(o, f.name))) for f in attr.fields(type(o))])
	if isinstance(o, (set, frozenset)) or hasattr(o, 'keys'):
		return pval_token(dict(o)) if hasattr(o, 'keys') else pval_token(sorted(o))
	return inst('O', type(o).__name__, [])


def json_token(d) -> str:
	"""what `json.loads` returned, in the same wire form"""
	if d is None:
		return 'N'
	if isinstance(d, bool):
		return 'B1' if d else 'B0'
	if isinstance(d, int):
		return 'I' + str(d)
	if isinstance(d, float):
		return _f64(d)
	if isinstance(d, str):
		return 'S' + _h(d)
	if isinstance(d, list):
		return 'L[' + ','.join(json_token(x) for x in d) + ']'
	return 'D{' + ','.join(f'{_h(k)}:{json_token(v)}' for k, v in d.items()) + '}'


def obj_token(obj, paths):
	"""the object as an attribute graph restricted to the names the paths mention: N = None, T<hex> = a value (its text), R(name=…,…) = a record"""
	import numpy as np
	tree = {}
	for p_ in paths:
		t = tree
		for a in p_.split('.'):
			t = t.setdefault(a, {})

	def enc(o, t):
		if o is None:
			return 'N'
		if not t:
			return 'T' + hx(str(o).encode('utf-8'))
		return 'R(' + ','.join(f'{a}={enc(getattr(o, a), sub)}' for a, sub in t.items()) + ')'
	return enc(obj, tree)


def check(ctx, case):
	import numpy as np
	rng = __import__('random').Random(case['seed'])
	from gambit.db import ReferenceDatabase
	from gambit.query import query, QueryParams, QueryInput
	from gambit.results import CSVResultsExporter, JSONResultsExporter, ResultsArchiveWriter, ResultsArchiveReader
	from gambit.sigs.calc import calc_signature
	from gambit.seq import SequenceFile
	sc = dbutil.Scratch('gv_c11_')
	try:
		d, kspec, bases, taxa = build(rng, sc, awkward=case.get('awkward', True), bare_cr=case.get('bare_cr', False), zeros=case.get('zeros', False))
		if case.get('two_gsets'):
			return _check_two_gsets(ctx, case, rng, d, kspec, bases)
		if case.get('cli_sigfile'):
			return _check_cli_sigfile(ctx, case, rng, sc, d, kspec, bases)
		db = ReferenceDatabase.load_from_dir(d)
		try:
			nq = rng.randint(1, 5)
			sigs, inputs = [], []
			for i in range(nq):
				r = rng.random()
				if r < 0.25:
					seq = dbutil.rand_dna(rng, 300)                      # unrelated: usually no prediction
				else:
					seq = dbutil.mutate(rng, rng.choice(bases), rng.choice([0.0, 0.02, 0.1]))
				sigs.append(calc_signature(kspec, seq))
				label = f'{rng.choice(AWK)} q{i}'
				inputs.append(QueryInput(label, SequenceFile(f'/nonexistent/{i}.fa', 'fasta', 'auto')) if rng.random() < 0.5 else QueryInput(label))
			if case.get('bare_cr'):
				sigs[0] = calc_signature(kspec, bases[0])
			if case.get('zeros'):
				# queries that ARE reference genomes: distance exactly 0.0 to their closest match
				for qi in range(min(2, nq)):
					sigs[qi] = calc_signature(kspec, build.last_seqs[qi % len(build.last_seqs)])
			res = query(db, sigs, QueryParams(classify_strict=case.get('strict', False), report_closest=rng.choice([1, 3, 10]), chunksize=case.get('chunksize', 1000)), inputs=inputs)
			if case.get('surrogate'):
				# labels as a non-UTF-8 file name gives them (`os.fsdecode`: lone surrogates): the JSON export, compact or pretty, to a real file
				# must stay valid JSON carrying the same labels, and the archive must give them back (judged here: such text cannot cross the
				# line protocol, whose strings are UTF-8)
				import attr, os
				labs = [os.fsdecode(b'caf\xe9_isolate_' + str(i).encode()) for i in range(len(res.items))]
				res = attr.evolve(res, items=[attr.evolve(it, input=QueryInput(lab)) for it, lab in zip(res.items, labs)])
				pf = []
				for pretty in (False, True):
					pj = sc.path(f'sur{int(pretty)}.json')
					try:
						JSONResultsExporter(pretty=pretty).export(pj, res)
						got = [x['query']['name'] for x in json.loads(pj.read_bytes().decode('utf-8'))['items']]
						if got != labs:
							pf.append(f'JSON export (pretty={pretty}) carries labels {got!r} for {labs!r}')
					except Exception as e:
						pf.append(f'JSON export (pretty={pretty}) of labels from a non-UTF-8 file name to a file: {exc_kind(e)}: {str(e)[:120]}')
				pa = sc.path('sur.archive.json')
				try:
					ResultsArchiveWriter().export(pa, res)
					back = ResultsArchiveReader(db.session).read(pa)
					if [it.input.label for it in back.items] != labs or not (back == res):
						pf.append('archive of results with labels from a non-UTF-8 file name is not read back equal')
				except Exception as e:
					pf.append(f'archive of results with labels from a non-UTF-8 file name: {exc_kind(e)}: {str(e)[:120]}')
				case['_nt'] = True
				return [], pf
			if case.get('tz') is not None:
				# a timezone-aware / fractional / whole-second timestamp and caller-supplied extra metadata are part of the results too
				import attr
				from datetime import datetime, timezone, timedelta
				tzs = {'utc': timezone.utc, '+0530': timezone(timedelta(hours=5, minutes=30)), '-0800': timezone(timedelta(hours=-8)), 'naive': None}
				res = attr.evolve(res, timestamp=datetime(2021, rng.randint(1, 12), rng.randint(1, 28), rng.randint(0, 23), rng.randint(0, 59), rng.randint(0, 59),
				                                            rng.choice([0, 0, 5, 123456, 999999]), tzinfo=tzs[case['tz']]),
				                  extra={'note': rng.choice(AWK), 'n': rng.randint(0, 5), 'nested': {'a': [1, 2.5, None, True]}})
			lines, pf = [], []
			# ---- CSV --------------------------------------------------------------------------------
			buf = io.StringIO(newline='')
			csv_exp = CSVResultsExporter()
			if case.get('other_exporters'):
				# other exporter objects with other options exist and are used in the same process; this one keeps its own
				for opts in (dict(delimiter='\t'), dict(quoting=csv.QUOTE_ALL, lineterminator='\r\n'), dict(delimiter=';', quotechar="'")):
					CSVResultsExporter(**opts).export(io.StringIO(newline=''), res)
				JSONResultsExporter(pretty=True).export(io.StringIO(), res)
			csv_exp.export(buf, res)
			text = buf.getvalue()
			header = ['query', 'predicted.name', 'predicted.rank', 'predicted.ncbi_id', 'predicted.threshold', 'closest.distance', 'closest.description',
			          'next.name', 'next.rank', 'next.ncbi_id', 'next.threshold']
			s = lambda v: '' if v is None else str(v)
			rows = [header]
			for it in res.items:
				rt, cr = it.report_taxon, it.classifier_result
				nt = cr.next_taxon
				rows.append([it.input.label,
				             s(rt.name if rt else None), s(rt.rank if rt else None), s(rt.ncbi_id if rt else None), s(rt.distance_threshold if rt else None),
				             s(cr.closest_match.distance), s(cr.closest_match.genome.description),
				             s(nt.name if nt else None), s(nt.rank if nt else None), s(nt.ncbi_id if nt else None), s(nt.distance_threshold if nt else None)])
			# three-way: getattr_nested generated from the current source, on the item as an object graph (the attributes the column paths
			# mention), against the real function on the real item: every column path, its prefixes, with and without pass_none, a missing name
			from gambit.results import getattr_nested
			paths = [p_ for _, p_ in CSVResultsExporter.COLUMNS]
			for it in res.items[:3]:
				tok = obj_token(it, paths)
				probe = set(paths) | {p_.rsplit('.', 1)[0] for p_ in paths} | {'input.zzz', '', 'report_taxon.name.x'}
				for p_ in sorted(probe):
					for pn in (True, False):
						try:
							v = getattr_nested(it, p_, pass_none=pn)
							real_v = 'N' if v is None else ('T' + hx(str(v).encode('utf-8')) if isinstance(v, (str, int, float, np.floating, np.integer)) else 'R')
						except AttributeError:
							real_v = '!AttributeError'
						lines.append(f'pyg.getattr {tok} {hx(p_.encode("utf-8")) or "-"} {int(pn)} {real_v}')
			py = list(csv.reader(io.StringIO(text, newline='')))
			strs = lambda l: ';'.join(hx(str(x).encode('utf-8')) for x in l) if l else '_'
			lines.append(f'c11.csv {"|".join(strs(r) for r in rows)} {hx(text.encode("utf-8"))} {"|".join(strs(r) for r in py)}')
			if case.get('to_path'):
				# the same export written to a path instead of an open stream: the file, read as UTF-8 CSV, carries the same rows
				pcsv = sc.path('out.csv')
				csv_exp.export(pcsv if case['to_path'] == 'path' else str(pcsv), res)
				ftext = pcsv.read_bytes().decode('utf-8')
				fpy = list(csv.reader(io.StringIO(ftext, newline='')))
				lines.append(f'c11.csv {"|".join(strs(r) for r in rows)} {hx(ftext.encode("utf-8"))} {"|".join(strs(r) for r in fpy)}')
				pjs = sc.path('out.json')
				JSONResultsExporter().export(pjs if case['to_path'] == 'path' else str(pjs), res)
				sbuf = io.StringIO(); JSONResultsExporter().export(sbuf, res)
				try:
					if json.loads(pjs.read_bytes().decode('utf-8')) != json.loads(sbuf.getvalue()):
						pf.append('JSON export to a path differs from the export to a stream')
				except Exception as e:
					pf.append(f'JSON export to a path is not valid UTF-8 JSON: {e!r}')
			# ---- JSON -------------------------------------------------------------------------------
			buf = io.StringIO()
			JSONResultsExporter().export(buf, res)
			try:
				data = json.loads(buf.getvalue())
			except Exception as e:
				pf.append(f'JSON export is not valid JSON: {e}')
				data = None
			if data is not None:
				# the statement's predicate, the model's encoder and the conversion rules read from the current source, all three on the
				# results object as the encoder sees it and on what was written (Driver/Json.lean)
				pv, jt_ = pval_token(res), json_token(data)
				lines.append(f'c11.jsonspec {pv} {jt_}')
				lines.append(f'c11.json json {pv} {jt_}')
				lines.append(f'pyg.json json {pv} {jt_}')
				exp, real = [], []
				for it, jt in zip(res.items, data['items']):
					exp.append({'label': it.input.label, 'predicted': taxon_proj(it.report_taxon), 'next': taxon_proj(it.classifier_result.next_taxon),
					            'closest': [{'key': m.genome.key, 'description': m.genome.description, 'distance_bits': bits(m.distance),
					                         'taxonomy': [t.key for t in m.genome.taxon.ancestors(incself=True)]} for m in it.closest_genomes]})
					tp = lambda t: None if t is None else {k: t[k] for k in ('key', 'name', 'rank', 'ncbi_id', 'distance_threshold')}
					real.append({'label': jt['query']['name'], 'predicted': tp(jt['predicted_taxon']), 'next': tp(jt['next_taxon']),
					             'closest': [{'key': m['genome']['key'], 'description': m['genome']['description'], 'distance_bits': bits(m['distance']),
					                          'taxonomy': [t['key'] for t in m['genome']['taxonomy']]} for m in jt['closest_genomes']]})
				if len(data['items']) != len(res.items):
					pf.append('JSON item count differs')
				lines.append(f'c11.same json {hx(json.dumps(exp, sort_keys=True).encode())} {hx(json.dumps(real, sort_keys=True).encode())}')
			# ---- archive ----------------------------------------------------------------------------
			p = sc.path('res.json')
			ResultsArchiveWriter().export(p, res)
			try:
				back = ResultsArchiveReader(db.session).read(p)
			except Exception as e:
				return lines, pf + [f'archive cannot be read back: {exc_kind(e)}: {str(e)[:200]} (chunksize={res.params.chunksize!r}, tz={case.get("tz")})']
			if not (back == res):
				pf.append('archive read back is not equal (==) to the original results')
			try:
				adata = json.loads(p.read_text(encoding='utf-8'))
				apv, ajt = pval_token(res), json_token(adata)
				lines.append(f'c11.json archive {apv} {ajt}')
				lines.append(f'pyg.json archive {apv} {ajt}')
			except Exception as e:
				pf.append(f'archive is not valid JSON: {e!r}')

			def proj(r):
				out = {'params': [r.params.classify_strict, r.params.chunksize, r.params.report_closest], 'gset': r.genomeset.key,
				       'version': r.gambit_version, 'ts': r.timestamp.isoformat(), 'utcoffset': str(r.timestamp.utcoffset()), 'extra': r.extra, 'meta': [r.signaturesmeta.id, r.signaturesmeta.id_attr], 'items': []}
				for it in r.items:
					cr = it.classifier_result
					gm = lambda m: None if m is None else [m.genome.key, bits(m.distance), None if m.matched_taxon is None else m.matched_taxon.key]
					out['items'].append({'label': it.input.label, 'file': None if it.input.file is None else [str(it.input.file.path), it.input.file.format, it.input.file.compression],
					                     'success': cr.success, 'predicted': None if cr.predicted_taxon is None else cr.predicted_taxon.key,
					                     'primary': gm(cr.primary_match), 'closest': gm(cr.closest_match), 'next': None if cr.next_taxon is None else cr.next_taxon.key,
					                     'warnings': cr.warnings, 'error': cr.error, 'report': None if it.report_taxon is None else it.report_taxon.key,
					                     'closest_genomes': [gm(m) for m in it.closest_genomes]})
				return hx(json.dumps(out, sort_keys=True).encode())
			lines.append(f'c11.same archive {proj(res)} {proj(back)}')
			awk = any(any(c in f for c in ',"\n\r') or not f.isascii() for r in rows[1:] for f in r)
			case['_nt'] = len(res.items) >= 2 and awk
			return lines, pf
		finally:
			db.signatures.close(); db.session.close()
	finally:
		sc.cleanup()


def _check_cli_sigfile(ctx, case, rng, sc, d, kspec, bases):
	"""`gambit query -s FILE -f archive`: the results object the command exports (captured by standing in for the exporter the command
	picks — nothing in /repo is touched) against what the real reader reconstructs from the file the real writer wrote; query labels are the
	IDs of the signature file, which may be strings or integers"""
	import numpy as np
	from unittest import mock
	from cliutil import run_cli
	from gambit.db import ReferenceDatabase
	from gambit.results import ResultsArchiveWriter, ResultsArchiveReader
	from gambit.sigs import SignatureList, AnnotatedSignatures, SignaturesMeta, dump_signatures
	from gambit.sigs.calc import calc_signature
	nq = rng.randint(1, 4)
	sigs = [calc_signature(kspec, dbutil.mutate(rng, rng.choice(bases), rng.choice([0.0, 0.02, 0.1]))) for _ in range(nq)]
	ids = {'int': [int(x) for x in rng.sample(range(1, 10 ** 6), nq)], 'str': [f'{rng.choice(AWK)} s{i}' for i in range(nq)],
	       'digits': [str(x) for x in rng.sample(range(1, 10 ** 6), nq)]}[case['ids']]
	sf = sc.path('queries.gs')
	dump_signatures(sf, AnnotatedSignatures(SignatureList(sigs, kspec), np.asarray(ids), SignaturesMeta(id='queries')))
	out = sc.path('res.json')
	captured = {}

	class Capture(ResultsArchiveWriter):
		def export(self, file_or_path, results):
			captured['results'] = results
			return super().export(file_or_path, results)
	with mock.patch('gambit.cli.query.get_exporter', lambda fmt: Capture()):
		code, so, se, exc = run_cli(['-d', d, 'query', '-s', sf, '-f', 'archive', '-o', out, '--no-progress'])
	if code != 0 or 'results' not in captured:
		return [], [f'gambit query -s failed: exit {code} {exc!r} {se[-200:]}']
	res = captured['results']
	db = ReferenceDatabase.load_from_dir(d)
	try:
		try:
			back = ResultsArchiveReader(db.session).read(out)
		except Exception as e:
			return [], [f'archive written by `gambit query -s` cannot be read back: {exc_kind(e)}: {str(e)[:200]}']
		pf = []
		lab = lambda r: [repr(it.input.label if isinstance(it.input.label, str) else int(it.input.label)) for it in r.items]
		if lab(back) != lab(res):
			pf.append(f'labels of the results exported by `gambit query -s` {lab(res)} are read back from the archive as {lab(back)} (signature-file IDs of kind {case["ids"]})')
		dist = lambda r: [[bits(m.distance) for m in it.closest_genomes] for it in r.items]
		if dist(back) != dist(res):
			pf.append('distances of the archive read back differ')
		case['_nt'] = True
		return [], pf
	finally:
		db.signatures.close(); db.session.close()


def _check_two_gsets(ctx, case, rng, d, kspec, bases):
	"""one ResultsArchiveReader, archives from two genome sets that share their key: each must read back equal to its original"""
	from sqlalchemy import create_engine
	from sqlalchemy.orm import sessionmaker
	from gambit.db import ReferenceDatabase, ReadOnlySession
	from gambit.db.models import ReferenceGenomeSet
	from gambit.sigs import load_signatures
	from gambit.query import query, QueryParams, QueryInput
	from gambit.results import ResultsArchiveWriter, ResultsArchiveReader
	from gambit.sigs.calc import calc_signature
	import io
	add_second_genomeset(d, rng)
	engine = create_engine(f'sqlite:///{d}/ref.gdb')
	session = sessionmaker(engine, class_=ReadOnlySession)()
	sigs = load_signatures(d / 'ref.gs')
	lines, pf = [], []
	try:
		gsets = session.query(ReferenceGenomeSet).order_by(ReferenceGenomeSet.version).all()
		reader = ResultsArchiveReader(session)
		order = gsets if not case.get('reverse') else gsets[::-1]
		qs = [calc_signature(kspec, dbutil.mutate(rng, rng.choice(bases), 0.02)) for _ in range(rng.randint(1, 3))]
		for gs in order + order[:1]:
			db = ReferenceDatabase(gs, sigs)
			res = query(db, qs, QueryParams(report_closest=3), inputs=[QueryInput(f'q{i}') for i in range(len(qs))])
			buf = io.StringIO()
			ResultsArchiveWriter().export(buf, res)
			back = reader.read(io.StringIO(buf.getvalue()))
			if not (back == res):
				pf.append(f'archive of genome set version {gs.version} read back unequal through a reused reader')
			proj = lambda r: hx(json.dumps([[r.genomeset.version] + [[m.genome.genome_set_id, m.genome.key, None if m.matched_taxon is None else m.matched_taxon.key] for m in it.closest_genomes]
			                                 + [None if it.report_taxon is None else it.report_taxon.key] for it in r.items]).encode())
			lines.append(f'c11.same archive-two-genomesets {proj(res)} {proj(back)}')
		case['_nt'] = True
		return lines, pf
	finally:
		sigs.close(); session.close(); engine.dispose()


def finding_key(failure):
	# C11-F3: integer signature-file IDs become integer labels, which the archive turns into strings
	if failure['case'].get('cli_sigfile') and failure['case'].get('ids') == 'int' and any('are read back from the archive as' in x for x in failure.get('pyfails', [])) \
			and not failure.get('bad') and len(failure.get('pyfails', [])) == 1:
		return 'C11-F3'
	# C11-F1: a field with a CR not followed by LF and no other character that forces quoting
	if not failure['case'].get('bare_cr'):
		return None
	for b in failure.get('bad', []):
		if b['request'].startswith('c11.csv') and 'does not parse back' in b['reply']:
			return 'C11-F1'
	return None


def run(ctx):
	rng = ctx.rng

	def sub(case, tag):
		lines, pf = safe_check(check, ctx, case)
		nt = case.pop('_nt', False)
		ctx.submit(case, lines, nontrivial=nt, tags=[tag, f'strict={case.get("strict")}'], pyfails=pf)

	sub({'seed': 1, 'bare_cr': True, 'awkward': False}, 'witness-C11-F1')
	for j in range(ctx.q(6, 40)):
		# present-but-falsy values (distance 0.0, threshold 0.0, NCBI id 0, empty description): early, so that a loaded machine still reaches them
		sub({'seed': rng.randrange(10 ** 9), 'zeros': True, 'strict': j % 3 == 2, 'awkward': j % 2 == 0, 'chunksize': 1000, 'to_path': None}, 'falsy-values')
	for j in range(ctx.q(3, 20)):
		sub({'seed': rng.randrange(10 ** 9), 'surrogate': True, 'strict': j % 2 == 1, 'awkward': False, 'chunksize': 1000}, 'labels-from-non-utf8-file-names')
	for j in range(ctx.q(6, 45)):
		# the results `gambit query -s FILE` exports, through the archive and back: labels are the file's IDs (strings, digit strings, integers)
		sub({'seed': rng.randrange(10 ** 9), 'cli_sigfile': True, 'ids': ['int', 'str', 'digits'][j % 3], 'awkward': j % 2 == 0}, 'cli-sigfile-archive')
	for j in range(ctx.q(6, 60)):
		sub({'seed': rng.randrange(10 ** 9), 'two_gsets': True, 'reverse': j % 2 == 1, 'awkward': False}, 'two-genomesets-one-reader')
	for j in range(ctx.q(140, 1200)):
		if not ctx.time_left(0.9):
			break
		sub({'seed': rng.randrange(10 ** 9), 'strict': rng.random() < 0.4, 'awkward': rng.random() < 0.85,
		     'chunksize': rng.choice([1000, 1000, 1, 7, None]), 'tz': rng.choice([None, 'naive', 'utc', '+0530', '-0800']),
		     'other_exporters': rng.random() < 0.4, 'to_path': rng.choice([None, 'path', 'str'])}, 'results')
