"""C04 — each reference genome is compared through its own signature, matched by ID."""
import os

from core import nats, natlists, optlist, hx, exc_kind, safe_check
from props.c02 import bits
import dbutil

PROPS = ('GambitV.Props.C04', 'GambitV.C04')
TIE = [('GambitV.Tie.PyRefDb', 'GambitV.Tie.Py'), ('GambitV.Tie.PyQueryFlow', 'GambitV.Tie.Py'), ('GambitV.Tie.PyLocate', 'GambitV.Tie.Py'), ('GambitV.Tie.PyLoadFlow', 'GambitV.Tie.Py'), ('GambitV.Tie.PyClassFacts', 'GambitV.Tie.Py'), ('GambitV.Tie.PyHdf5Reader', 'GambitV.Tie.Py')]
RULE = ('scratch genome sets (2..9 genomes, built with the repo\'s own models) x signature files whose IDs are a permuted / padded superset, or an '
        'incomplete subset, of the genome IDs, for each of the four identifier attributes; metadata naming no / an invalid attribute; a genome '
        'lacking the attribute; directory listings (all small combinations of .gdb/.db/.gs/.h5/other names incl. dot-files and double extensions); '
        'distance rows of query() against every such database. Non-trivial = distinct loadable case whose signature order differs from genome order '
        'or which has padding.')
TRUSTED = ['harness/props/c04.py, harness/dbutil.py + Driver/C04.lean', 'SQLAlchemy/SQLite return the stored rows; h5py returns the stored IDs']
ASSUMPTIONS = ['ID attribute values are unique within a genome set and within a signature file (schema constraints)']

ATTRS = ['key', 'genbank_acc', 'refseq_acc', 'ncbi_id']


def _mk_sig(rng, n=12, U=4 ** 6):
	return sorted(rng.sample(range(U), rng.randint(0, n)))


def check(ctx, case):
	import numpy as np
	from gambit.kmers import KmerSpec
	from gambit.db import ReferenceDatabase
	from gambit.db.refdb import DatabaseLoadError
	sc = dbutil.Scratch('gv_c04_')
	try:
		if case['kind'] == 'locate':
			d = sc.subdir('db')
			for name in case['names']:
				if name.endswith('/'):
					(d / name[:-1]).mkdir()
				else:
					(d / name).write_bytes(b'')
			try:
				g, s = ReferenceDatabase.locate_files(d)
				real = f'ok:{g.name}:{s.name}'
			except DatabaseLoadError:
				real = 'err'
			names = [n.rstrip('/') for n in case['names']]
			return [f'c04.locate {";".join(hx(n.encode()) for n in names) if names else "_"} {real}'], []
		kspec = KmerSpec(6, 'AT')
		attr = case['attr']
		n = case['n']
		taxa = [{'name': 'root', 'parent': None, 'thr': 0.9}, {'name': 'child', 'parent': 0, 'thr': 0.5}]
		genomes = []
		for j in range(n):
			g = {'key': f'K{j}', 'taxon': j % 2, 'genbank_acc': f'GCA_{j}', 'refseq_acc': f'GCF_{j}', 'ncbi_id': 100 + j, 'ncbi_db': 'assembly'}
			if j in case.get('lacking', []):
				g[attr] = None
			genomes.append(g)
		if case.get('dup_ncbi') and n >= 2:
			# ncbi_id is unique only together with ncbi_db: two genomes may legally carry the same number
			a, b = case['dup_ncbi']
			genomes[b]['ncbi_id'] = genomes[a]['ncbi_id']
			genomes[b]['ncbi_db'] = 'nuccore'
		sigs = case['sigs']
		# entries of the signature file: ('g', j) = genome j's signature under its ID, ('x', m) = unrelated signature
		entries = case['file']
		ids, arrs = [], []
		for kind, j in entries:
			if kind == 'g':
				v = genomes[j][attr] if attr != 'key' else genomes[j]['key']
				if v is None:
					v = f'none{j}' if attr != 'ncbi_id' else 900000 + j
				ids.append(v)
				arrs.append(sigs[j])
			else:
				ids.append((f'extra{j}' if attr != 'ncbi_id' else 700000 + j))
				arrs.append(case['extra'][j])
		meta_attr = case.get('meta_attr', attr)
		d = sc.subdir('db')
		# build: genomes always stored with their own sigs first, file order given by `entries`
		dbutil.build_refdb(d, taxa=taxa, genomes=genomes, kspec=kspec, sigs=[sigs[j] for j in range(n)], id_attr='key')
		# rewrite the signature file with the requested entries
		from gambit.sigs import SignaturesMeta, AnnotatedSignatures, SignatureArray, dump_signatures
		os.remove(d / 'ref.gs')
		arr = SignatureArray([np.asarray(a, dtype=kspec.index_dtype) for a in arrs], kspec, dtype=kspec.index_dtype)
		ids_arr = np.asarray(ids, dtype=np.int64) if attr == 'ncbi_id' else np.asarray(ids, dtype=object)
		dump_signatures(d / 'ref.gs', AnnotatedSignatures(arr, ids_arr, SignaturesMeta(id_attr=meta_attr)))
		# id codes
		codes = {}
		code = lambda v: codes.setdefault(v, len(codes))
		gid_codes = [None if (j in case.get('lacking', [])) else code(genomes[j][attr] if attr != 'key' else genomes[j]['key']) for j in range(n)]
		sid_codes = [code(v) for v in ids]
		attr_tok = '~' if meta_attr is None else ('1' if meta_attr in ATTRS else '0')
		pf = []
		db = None
		try:
			db = ReferenceDatabase.load_from_dir(d) if case.get('via') == 'dir' else ReferenceDatabase.load(d / 'ref.gdb', d / 'ref.gs')
			gidx = {f'K{j}': j for j in range(n)}
			real = 'ok:' + (';'.join(f'{gidx[g.key]},{p}' for g, p in zip(db.genomes, db.sig_indices)) if db.genomes else '-')
		except (TypeError, ValueError, RuntimeError) as e:
			real = 'err:' + type(e).__name__
		except Exception as e:
			real = 'exc:' + exc_kind(e)
		lines = [f'c04.load {attr_tok} {optlist(gid_codes)} {nats(sid_codes)} {real}']
		case['_nt'] = real.startswith('ok') and (any(k == 'x' for k, _ in entries) or [j for k, j in entries if k == 'g'] != list(range(n)))
		if db is not None and real.startswith('ok') and db.genomes:
			from gambit.query import query, QueryParams
			from gambit import metric
			qs = [np.asarray(q, dtype=kspec.index_dtype) for q in case['queries']]
			table = [[bits(metric.jaccarddist(q, np.asarray(a, dtype=kspec.index_dtype))) for a in arrs] for q in qs]
			g_codes_db_order = [gid_codes[gidx[g.key]] for g in db.genomes]
			# the same loaded database object is queried several times (other chunk sizes, queries in another order): every
			# query must use each genome's own signature, not only the first one
			for rnd, chunk in enumerate([case.get('chunk', 1000)] + list(case.get('requery', []))):
				order = list(range(len(qs))) if rnd % 2 == 0 else list(reversed(range(len(qs))))
				res = query(db, [qs[i] for i in order], QueryParams(report_closest=len(db.genomes), chunksize=chunk))
				rows = []
				for item in res.items:
					dmap = {m.genome.key: bits(m.distance) for m in item.closest_genomes}
					if len(dmap) != len(db.genomes):
						pf.append('closest_genomes does not cover every genome once')
					rows.append([dmap.get(g.key, 0) for g in db.genomes])
				lines.append(f'c04.dists {nats(g_codes_db_order)} {nats(sid_codes)} {natlists([table[i] for i in order])} {natlists(rows)}')
			try:
				db.signatures.close()
				db.session.close()
			except Exception:
				pass
		return lines, pf
	finally:
		sc.cleanup()


def run(ctx):
	rng = ctx.rng

	def sub(case, tag):
		lines, pf = safe_check(check, ctx, case)
		nt = case.pop('_nt', False)
		ctx.submit(case, lines, nontrivial=nt, tags=[tag, f'attr={case.get("attr")}'], pyfails=pf)

	# directory listings
	pool = ['a.gdb', 'b.db', 'c.gs', 'd.h5', 'readme.txt', '.gdb', 'x.gdb.bak', 'y.tar.gs', 'sub.gs/', 'z.GDB', 'g.', 'noext']
	import itertools
	cnt = 0
	for r in range(0, 5):
		for combo in itertools.combinations(pool, r):
			if cnt % ctx.q(3, 1) == 0:
				sub({'kind': 'locate', 'names': list(combo)}, 'locate')
			cnt += 1
	# larger databases (beyond any block / batch threshold of a few dozen signatures): unrelated signatures in front of, between and behind the
	# genomes' own, in file order or block-wise shuffled; the SAME loaded database queried several times with chunk sizes that give one, three
	# and many chunks (a reader that keeps state between reads shows on the second query or on the third chunk)
	for j in range(ctx.q(5, 40)):
		n = rng.choice([40, 70, 101])
		attr = rng.choice(ATTRS)
		sigs = [_mk_sig(rng) for _ in range(n)]
		extra = [_mk_sig(rng) for _ in range(3)]
		blocks = [[('g', i) for i in range(a, min(a + 35, n))] for a in range(0, n, 35)]
		if j % 2 == 1:
			rng.shuffle(blocks)
		entries = [('x', 0)] + [e for b_ in blocks[:1] for e in b_] + ([('x', 1)] if j % 3 == 0 else []) + [e for b_ in blocks[1:] for e in b_] + [('x', 2)]
		sub({'kind': 'load', 'attr': attr, 'n': n, 'sigs': sigs, 'extra': extra, 'via': rng.choice(['dir', 'files']), 'file': entries,
		     'queries': [_mk_sig(rng) for _ in range(2)], 'chunk': 1000, 'requery': [33, 1000, 7]}, 'load-large-requery')
	for j in range(ctx.q(320, 2500)):
		if not ctx.time_left(0.9):
			break
		n = rng.randint(1, 9)
		attr = rng.choice(ATTRS)
		sigs = [_mk_sig(rng) for _ in range(n)]
		nx = rng.choice([0, 0, 1, 3, 6])
		extra = [_mk_sig(rng) for _ in range(nx)]
		entries = [('g', j) for j in range(n)] + [('x', m) for m in range(nx)]
		r = rng.random()
		case = {'kind': 'load', 'attr': attr, 'n': n, 'sigs': sigs, 'extra': extra, 'via': rng.choice(['dir', 'files']),
		        'queries': [_mk_sig(rng) for _ in range(rng.randint(1, 3))], 'chunk': rng.choice([1, 2, 3, 1000]),
		        'requery': [rng.choice([1, 2, 3, 5, 1000]) for _ in range(rng.choice([0, 1, 2]))]}
		tag = 'load-superset'
		if j % 12 == 7 and n >= 2:
			r = 0.99
		if r < 0.6:
			rng.shuffle(entries)
		elif r < 0.75:
			rng.shuffle(entries)
			drop = rng.randrange(n)
			entries = [e for e in entries if e != ('g', drop)]
			tag = 'load-incomplete'
		elif r < 0.82:
			case['meta_attr'] = None
			tag = 'load-no-idattr'
		elif r < 0.88:
			case['meta_attr'] = rng.choice(['description', 'id', 'organism'])
			tag = 'load-bad-idattr'
		elif r < 0.94 and attr != 'key':
			case['lacking'] = [rng.randrange(n)]
			tag = 'load-genome-lacks-id'
		elif r >= 0.94 and n >= 2:
			attr = case['attr'] = 'ncbi_id'
			a, b = rng.sample(range(n), 2)
			case['dup_ncbi'] = [a, b]
			victim = ('g', rng.choice([a, b]))
			entries = [e for e in entries if e != victim]    # the shared number appears once in the file (file IDs stay unique)
			tag = 'load-shared-ncbi-id'
		case['file'] = entries
		sub(case, tag)
