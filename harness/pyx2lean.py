"""placeholder – replaced by the real translator"""
def regenerate(repo, outdir):
	return {'functions': [], 'untranslatable': []}
