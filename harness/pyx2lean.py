"""Translator T: the Cython subset used by src/gambit/_cython/{kmers,metric}.pyx  ->  Lean 4 definitions (GambitV.Gen.*).

The translation is a uniform state-passing one: every C-level function `f` becomes
  structure f.St           -- one field per parameter and per local variable (C types mapped below)
  def f.run  : <params> -> Except f.Ret f.St      -- the body; `return e` = `throw`
  def f      : <params> -> f.Ret                  -- result (+ out-parameters / written buffers)
Statements map one-to-one:  x = e  ->  record update;  if/elif/else -> if-then-else;  for i in range(n) -> forRangeFrom;
while c -> whileFuelE (fuel = sum of the lengths of all array parameters + 1, shown sufficient by the Tie theorems);
prange -> a per-iteration body plus the statically collected read / write sets.
C types: uint64_t -> UInt64 (wrap-around arithmetic), CHAR/char -> UInt8, int / intptr_t / BOUNDS_T -> Int (unbounded; index ranges
far below 2^31 are an assumption listed in DESIGN §3), bint -> Bool, SCORE_T -> binary32 bit pattern (GambitV.F32), memoryviews -> List.
Anything outside the subset is reported in `untranslatable` (the check then treats the tie as broken); nothing is skipped silently.
"""
from __future__ import annotations

import hashlib
import re
from pathlib import Path

# ------------------------------------------------------------------------------------------------
# lexer
# ------------------------------------------------------------------------------------------------
TOK = re.compile(r"""\s*(?:
   (?P<num>0[bB][01]+|0[xX][0-9a-fA-F]+|\d+)
 | (?P<name>[A-Za-z_][A-Za-z_0-9]*)
 | (?P<str>'(?:[^'\\]|\\.)*'|"(?:[^"\\]|\\.)*")
 | (?P<op><<=|>>=|<<|>>|<=|>=|==|!=|\+=|-=|\*=|&=|\|=|//|[-+*/%&|^~<>()\[\]:,.=])
)""", re.X)


class Untranslatable(Exception):
	pass


def lex(s):
	out, pos = [], 0
	s = s.strip()
	while pos < len(s):
		m = TOK.match(s, pos)
		if not m or m.end() == pos:
			raise Untranslatable(f'cannot tokenise {s[pos:pos+20]!r}')
		pos = m.end()
		k = m.lastgroup
		out.append((k, m.group(k)))
	return out


# ------------------------------------------------------------------------------------------------
# expression parser -> small AST (tuples)
# ------------------------------------------------------------------------------------------------
BINPREC = [('or',), ('and',), ('<', '<=', '>', '>=', '==', '!='), ('|',), ('^',), ('&',), ('<<', '>>'), ('+', '-'), ('*', '/', '%', '//')]


class P:
	def __init__(self, toks):
		self.t, self.i = toks, 0

	def peek(self):
		return self.t[self.i] if self.i < len(self.t) else (None, None)

	def eat(self, v=None):
		k, x = self.peek()
		if v is not None and x != v:
			raise Untranslatable(f'expected {v!r}, got {x!r}')
		self.i += 1
		return k, x

	def expr(self, lvl=0):
		if lvl == len(BINPREC):
			return self.unary()
		left = self.expr(lvl + 1)
		while True:
			k, x = self.peek()
			if x in BINPREC[lvl] and not (x == '<' and False):
				self.eat()
				right = self.expr(lvl + 1)
				left = ('bin', x, left, right)
			else:
				return left

	def unary(self):
		k, x = self.peek()
		if x == '<':   # cast  <T>(e)  /  <T>e
			self.eat()
			_, ty = self.eat()
			self.eat('>')
			return ('cast', ty, self.unary())
		if x == '&':
			self.eat(); return ('addr', self.unary())
		if x == '-':
			self.eat(); return ('neg', self.unary())
		if x == 'not':
			self.eat(); return ('not', self.unary())
		return self.postfix()

	def postfix(self):
		k, x = self.eat()
		if k == 'num':
			e = ('num', int(x, 0))
		elif k == 'str':
			body = x[1:-1]
			e = ('chr', ord(body)) if len(body) == 1 else ('str', body)
		elif k == 'name':
			e = ('bool', x == 'True') if x in ('True', 'False') else ('name', x)
		elif x == '(':
			e = self.expr(); self.eat(')')
		else:
			raise Untranslatable(f'unexpected token {x!r}')
		while True:
			k, x = self.peek()
			if x == '.':
				self.eat(); _, a = self.eat(); e = ('attr', e, a)
			elif x == '[':
				self.eat()
				lo = None if self.peek()[1] == ':' else self.expr()
				if self.peek()[1] == ':':
					self.eat()
					hi = None if self.peek()[1] == ']' else self.expr()
					self.eat(']'); e = ('slice', e, lo, hi)
				else:
					self.eat(']'); e = ('index', e, lo)
			elif x == '(':
				self.eat(); args, kw = [], {}
				while self.peek()[1] != ')':
					if self.peek()[0] == 'name' and self.i + 1 < len(self.t) and self.t[self.i + 1][1] == '=':
						_, n = self.eat(); self.eat('='); kw[n] = self.expr()
					else:
						args.append(self.expr())
					if self.peek()[1] == ',':
						self.eat()
				self.eat(')'); e = ('call', e, args, kw)
			else:
				return e


def parse_expr(s):
	p = P(lex(s))
	e = p.expr()
	if p.i != len(p.t):
		raise Untranslatable(f'trailing tokens in {s!r}')
	return e


# ------------------------------------------------------------------------------------------------
# statements (indentation based)
# ------------------------------------------------------------------------------------------------
def strip_comment(line):
	out, q = [], None
	for i, c in enumerate(line):
		if q:
			out.append(c)
			if c == q and line[i - 1] != '\\':
				q = None
		elif c in '\'"':
			q = c; out.append(c)
		elif c == '#':
			break
		else:
			out.append(c)
	return ''.join(out).rstrip()


def logical_lines(text):
	"""(indent, text) without comments, blank lines and docstrings"""
	lines = []
	in_doc = False
	for raw in text.split('\n'):
		st = raw.strip()
		if in_doc:
			if '"""' in st:
				in_doc = False
			continue
		if st.startswith('"""') or st.startswith('r"""'):
			if st.count('"""') == 1:
				in_doc = True
			continue
		l = strip_comment(raw)
		if not l.strip():
			continue
		ind = len(l) - len(l.lstrip('\t'))
		lines.append((ind, l.strip()))
	return lines


def parse_block(lines, i, ind):
	"""statements at indentation `ind` starting at index i -> (stmts, next index)"""
	out = []
	while i < len(lines) and lines[i][0] >= ind:
		if lines[i][0] > ind:
			raise Untranslatable(f'unexpected indent: {lines[i][1]}')
		t = lines[i][1]
		if t == 'cdef:':
			body, i = collect(lines, i + 1, ind + 1)
			for d in body:
				out.append(('decl', d))
			continue
		if t.startswith('cdef ') and not t.endswith(':'):
			out.append(('decl', t[5:])); i += 1; continue
		m = re.match(r'(if|elif|while)\s+(.*):$', t)
		if m:
			body, j = parse_block(lines, i + 1, ind + 1)
			out.append((m.group(1), parse_expr(m.group(2)), body)); i = j; continue
		if t == 'else:':
			body, j = parse_block(lines, i + 1, ind + 1)
			out.append(('else', body)); i = j; continue
		m = re.match(r'for\s+(\w+)\s+in\s+(range|prange)\((.*)\):$', t)
		if m:
			body, j = parse_block(lines, i + 1, ind + 1)
			call = parse_expr(f'{m.group(2)}({m.group(3)})')
			out.append(('for', m.group(1), m.group(2), call[2], call[3], body)); i = j; continue
		if t.startswith('return'):
			rest = t[6:].strip()
			out.append(('return', parse_expr(rest) if rest else None)); i += 1; continue
		if t.startswith('raise '):
			out.append(('raise', t[6:])); i += 1; continue
		m = re.match(r'(.+?)\s*(<<=|>>=|\+=|-=|\*=|&=|\|=|=)\s*(.+)$', t) if not re.match(r'.*[<>=!]=.*', t.split('=')[0] + '=') or True else None
		# assignment: find a top-level '=' that is not part of a comparison
		am = _find_assign(t)
		if am:
			lhs, op, rhs = am
			out.append(('assign', parse_expr(lhs), op, parse_expr(rhs))); i += 1; continue
		out.append(('expr', parse_expr(t))); i += 1
	# fold if/elif/else chains
	folded = []
	for s in out:
		if s[0] in ('elif', 'else'):
			if not folded or folded[-1][0] != 'ifchain':
				raise Untranslatable('elif/else without if')
			folded[-1][1].append(s)
		elif s[0] == 'if':
			folded.append(('ifchain', [s]))
		else:
			folded.append(s)
	return folded, i


def _find_assign(t):
	depth = 0
	for m in re.finditer(r'<<=|>>=|\+=|-=|\*=|&=|\|=|==|!=|<=|>=|=|[\[\](){}]', t):
		x = m.group(0)
		if x in '([{':
			depth += 1
		elif x in ')]}':
			depth -= 1
		elif depth == 0 and x in ('=', '<<=', '>>=', '+=', '-=', '*=', '&=', '|='):
			return t[:m.start()].strip(), x, t[m.end():].strip()
	return None


def collect(lines, i, ind):
	out = []
	while i < len(lines) and lines[i][0] >= ind:
		out.append(lines[i][1]); i += 1
	return out, i


def parse_functions(text):
	lines = logical_lines(text)
	funcs = []
	i = 0
	while i < len(lines):
		ind, t = lines[i]
		m = re.match(r'(def|cdef)\s+(?:([\w]+)\s+)?(\w+)\((.*)\)\s*(nogil)?\s*:$', t)
		if ind == 0 and m:
			body, j = parse_block(lines, i + 1, 1)
			params = []
			for p in [x.strip() for x in m.group(4).split(',') if x.strip()]:
				if re.fullmatch(r'\w+', p):
					params.append((p, 'object'))
					continue
				pm = re.match(r'(?:(const)\s+)?([\w]+(?:\[:\])?)\s*(\*)?\s*(\w+)$', p)
				if pm:
					params.append((pm.group(4), pm.group(2) + ('*' if pm.group(3) else '')))
				else:
					params.append((p, 'object'))
			funcs.append({'kind': m.group(1), 'ret': m.group(2), 'name': m.group(3), 'params': params, 'body': body})
			i = j
		else:
			i += 1
	return funcs


# ------------------------------------------------------------------------------------------------
# types and emission
# ------------------------------------------------------------------------------------------------
CT = {'uint64_t': 'u64', 'CHAR': 'u8', 'char': 'u8', 'int': 'int', 'intptr_t': 'int', 'BOUNDS_T': 'int', 'bint': 'bool', 'SCORE_T': 'f32',
      'COORDS_T': 'nat', 'COORDS_T_2': 'nat', 'object': 'obj'}
LEANT = {'u64': 'UInt64', 'u8': 'UInt8', 'int': 'Int', 'bool': 'Bool', 'f32': 'UInt32', 'nat': 'Nat', 'obj': 'Int',
         'list_u8': 'List UInt8', 'list_nat': 'List Nat', 'list_int': 'List Int', 'list_f32': 'List UInt32'}
DEFAULT = {'u64': '0', 'u8': '0', 'int': '0', 'bool': 'false', 'f32': '0', 'nat': '0', 'obj': '0', 'list_u8': '[]', 'list_nat': '[]', 'list_int': '[]', 'list_f32': '[]'}


def ctype(t, typedefs):
	ptr = t.endswith('*')
	t = t.rstrip('*')
	mv = t.endswith('[:]')
	t = t[:-3] if mv else t
	base = CT.get(typedefs.get(t, t), CT.get(t))
	if t in typedefs and typedefs[t] == 'float':
		base = 'f32'
	if t in typedefs and typedefs[t] not in ('float', 'intptr_t') and t == 'SCORE_T':
		raise Untranslatable(f'SCORE_T is {typedefs[t]}, expected float')
	if base is None:
		raise Untranslatable(f'unknown type {t}')
	if mv:
		return 'list_' + base
	return base


class Emitter:
	def __init__(self, fn, typedefs, known_funcs):
		self.fn = fn
		self.typedefs = typedefs
		self.known = known_funcs
		self.vars = {}     # name -> type
		self.outparams = []
		for n, t in fn['params']:
			ty = ctype(t, typedefs)
			self.vars[n] = ty
			if t.endswith('*'):
				self.outparams.append(n)
		self.written_lists = []
		self.whiles = 0
		self._collect_decls(fn['body'])

	def _collect_decls(self, body):
		for s in body:
			if s[0] == 'decl':
				m = re.match(r'([\w]+)\s+(.*)$', s[1])
				ty = ctype(m.group(1), self.typedefs)
				for part in _split_commas(m.group(2)):
					name = part.split('=')[0].strip()
					self.vars[name] = ty
			elif s[0] == 'ifchain':
				for br in s[1]:
					self._collect_decls(br[-1])
			elif s[0] in ('for', 'while'):
				self._collect_decls(s[-1])
				if s[0] == 'for':
					self.vars.setdefault(s[1], 'int')

	# ---- expressions -> (lean, type) -------------------------------------------------------------
	def lit(self, n, want):
		if want == 'u64':
			return f'({n} : UInt64)'
		if want == 'u8':
			return f'({n} : UInt8)'
		if want == 'f32':
			return f'(F32.ofInt ({n} : Int))'
		if want == 'nat':
			return f'({n} : Nat)'
		return f'({n} : Int)'

	def ex(self, e, want=None):
		k = e[0]
		if k == 'num':
			return self.lit(e[1], want or 'int'), (want if want in ('u64', 'u8', 'nat', 'f32') else 'int')
		if k == 'chr':
			return self.lit(e[1], want if want in ('u8', 'u64', 'int') else 'u8'), (want if want in ('u8', 'u64', 'int') else 'u8')
		if k == 'bool':
			return ('true' if e[1] else 'false'), 'bool'
		if k == 'name':
			if e[1] not in self.vars:
				raise Untranslatable(f'unknown variable {e[1]}')
			return f's.{e[1]}', self.vars[e[1]]
		if k == 'attr':
			raise Untranslatable(f'attribute {e[2]}')
		if k == 'index':
			# x.shape[0]
			if e[1][0] == 'attr' and e[1][2] == 'shape':
				base, bt = self.ex(e[1][1])
				return f'({base}.length : Int)', 'int'
			base, bt = self.ex(e[1])
			idx, it = self.ex(e[2], 'int')
			if not bt.startswith('list_'):
				raise Untranslatable('indexing a non-array')
			el = bt[5:]
			return f'({base}.getD ({self.to_int(idx, it)}).toNat {DEFAULT[el]})', el
		if k == 'slice':
			base, bt = self.ex(e[1])
			lo, lt = self.ex(e[2], 'int')
			hi, ht = self.ex(e[3], 'int')
			return f'(({base}.drop ({self.to_int(lo, lt)}).toNat).take (({self.to_int(hi, ht)}) - ({self.to_int(lo, lt)})).toNat)', bt
		if k == 'neg':
			a, at = self.ex(e[1], 'int')
			return f'(-{a})', at
		if k == 'cast':
			ty = ctype(e[1], self.typedefs)
			a, at = self.ex(e[2])
			return self.conv(a, at, ty), ty
		if k == 'bin':
			return self.binop(e, want)
		if k == 'call':
			fname = e[1][1] if e[1][0] == 'name' else None
			if fname in self.known:
				args = [self.ex(a)[0] for a in e[2] if not (a[0] == 'addr')]
				return f'({fname} {" ".join(args)})', self.known[fname]
			raise Untranslatable(f'call to {fname}')
		raise Untranslatable(f'expression kind {k}')

	def to_int(self, code, ty):
		return self.conv(code, ty, 'int')

	def conv(self, code, frm, to):
		if frm == to:
			return code
		table = {('u64', 'int'): f'({code}.toNat : Int)', ('u8', 'int'): f'({code}.toNat : Int)', ('nat', 'int'): f'({code} : Int)',
		         ('int', 'u64'): f'(UInt64.ofInt {code})', ('int', 'u8'): f'(UInt8.ofInt {code})', ('u8', 'u64'): f'(UInt64.ofNat {code}.toNat)',
		         ('int', 'f32'): f'(F32.ofInt {code})', ('nat', 'f32'): f'(F32.ofInt ({code} : Int))', ('obj', 'u64'): f'(UInt64.ofInt {code})',
		         ('u64', 'u8'): f'(UInt8.ofNat {code}.toNat)', ('int', 'nat'): f'({code}).toNat', ('obj', 'int'): code, ('int', 'obj'): code,
		         ('bool', 'int'): f'(if {code} then (1 : Int) else 0)'}
		if (frm, to) not in table:
			raise Untranslatable(f'no conversion {frm} -> {to}')
		return table[(frm, to)]

	def binop(self, e, want):
		op = e[1]
		if op in ('and', 'or'):
			a, _ = self.ex(e[2]); b, _ = self.ex(e[3])
			return f'({a} {"&&" if op == "and" else "||"} {b})', 'bool'
		a, at = self.ex(e[2], want if op not in ('<', '<=', '>', '>=', '==', '!=') else None)
		b, bt = self.ex(e[3], at if at in ('u64', 'u8', 'nat', 'f32') else want)
		if e[2][0] in ('num', 'chr') and bt in ('u64', 'u8', 'nat', 'f32'):
			a, at = self.ex(e[2], bt)
		# usual arithmetic conversions (subset): float > u64 > int ; u8/nat promote to int
		if 'f32' in (at, bt):
			ty = 'f32'
		elif 'u64' in (at, bt):
			ty = 'u64'
		elif at == bt and at in ('u8', 'nat'):
			ty = at if op in ('<', '<=', '>', '>=', '==', '!=', '&', '|') else 'int'
		else:
			ty = 'int'
		a, b = self.conv(a, at, ty), self.conv(b, bt, ty)
		if op in ('<', '<=', '>', '>=', '==', '!='):
			lop = {'<': '<', '<=': '≤', '>': '>', '>=': '≥', '==': '=', '!=': '≠'}[op]
			return f'(decide ({a} {lop} {b}))', 'bool'
		if ty == 'f32':
			f = {'/': 'F32.div', '-': 'F32.sub'}.get(op)
			if not f:
				raise Untranslatable(f'float operator {op}')
			return f'({f} {a} {b})', 'f32'
		lop = {'+': '+', '-': '-', '*': '*', '%': '%', '//': '/', '<<': '<<<', '>>': '>>>', '&': '&&&', '|': '|||', '^': '^^^'}.get(op)
		if op == '/':
			raise Untranslatable('integer true division')
		if lop is None:
			raise Untranslatable(f'operator {op}')
		if ty == 'int' and op in ('<<', '>>', '&', '|', '^'):
			raise Untranslatable(f'bit operator {op} on C int')
		return f'({a} {lop} {b})', ty

	# ---- statements ------------------------------------------------------------------------------
	def block(self, body, ind):
		"""Lean term of type  St -> Except Ret St"""
		pad = '  ' * ind
		lines = [f'{pad}fun s => do']
		for st in body:
			code = self.stmt(st, ind + 1)
			if code is not None:
				lines.append(f'{pad}  let s ← ({code}) s')
		lines.append(f'{pad}  pure s')
		return '\n'.join(lines)

	def assign(self, target, code, ty):
		if target[0] == 'name':
			vt = self.vars[target[1]]
			return f'fun s => pure {{ s with {target[1]} := {self.conv(code, ty, vt)} }}'
		if target[0] == 'index':
			base = target[1]
			if base[0] != 'name':
				raise Untranslatable('assignment to a non-variable element')
			bt = self.vars[base[1]]
			if base[1] in self.outparams and target[2] == ('num', 0):
				return f'fun s => pure {{ s with {base[1]} := {self.conv(code, ty, bt)} }}'     # exc[0] = True
			idx, it = self.ex(target[2], 'int')
			el = bt[5:]
			if base[1] not in self.written_lists:
				self.written_lists.append(base[1])
			return f'fun s => pure {{ s with {base[1]} := s.{base[1]}.set ({self.to_int(idx, it)}).toNat {self.conv(code, ty, el)} }}'
		raise Untranslatable('assignment target')

	def stmt(self, st, ind):
		k = st[0]
		pad = '  ' * ind
		if k == 'decl':
			m = re.match(r'([\w]+)\s+(.*)$', st[1])
			outs = []
			for part in _split_commas(m.group(2)):
				if '=' in part:
					name, rhs = [x.strip() for x in part.split('=', 1)]
					code, ty = self.ex(parse_expr(rhs), self.vars[name])
					outs.append(self.assign(('name', name), code, ty))
			if not outs:
				return None
			return self._seq(outs)
		if k == 'assign':
			target, op, rhs = st[1], st[2], st[3]
			if op != '=':
				rhs = ('bin', op[:-1], target, rhs)
			want = self.vars.get(target[1]) if target[0] == 'name' else None
			code, ty = self.ex(rhs, want if want in ('u64', 'u8', 'f32') else None)
			return self.assign(target, code, ty)
		if k == 'ifchain':
			chain = st[1]
			code = None
			for br in reversed(chain):
				if br[0] == 'else':
					code = f'({self.block(br[1], ind + 1)})'
				else:
					c, ct = self.ex(br[1])
					if ct != 'bool':
						raise Untranslatable('non-boolean condition')
					els = code if code is not None else '(fun s => pure s)'
					code = f'(fun s => if {c} then\n{pad}  ({self.block(br[2], ind + 2)}) s\n{pad} else {els} s)'
			return code
		if k == 'for':
			var, kind, args, kw, body = st[1], st[2], st[3], st[4], st[5]
			n, nt = self.ex(args[0], 'int')
			b = self.block([('setvar', var)] + body, ind + 2)
			return (f'fun s => forRangeFrom 0 ({self.to_int(n, nt)}).toNat (fun i_ s =>\n{pad}  ({b.replace("fun s => do", "fun s => do", 1)}) {{ s with {var} := (i_ : Int) }}) s')
		if k == 'setvar':
			return None
		if k == 'while':
			c, ct = self.ex(st[1])
			self.whiles += 1
			fuel = ' + '.join(f's.{n}.length' for n, t in self.vars.items() if t.startswith('list_')) or '0'
			return (f'fun s => do\n{pad}  match ← whileFuelE ({fuel} + 1) (fun s => {c}) ({self.block(st[2], ind + 2)}) s with\n'
			        f'{pad}  | some s => pure s\n{pad}  | none => throw fuelExhausted')
		if k == 'return':
			if st[1] is None:
				return 'fun s => throw (retOf s)'
			code, ty = self.ex(st[1], self.ret_type)
			return f'fun s => throw (retWith ({self.conv(code, ty, self.ret_type)}) s)'
		if k == 'raise':
			return 'fun s => throw (raised s)'
		if k == 'expr':
			raise Untranslatable('expression statement')
		raise Untranslatable(f'statement {k}')

	def _seq(self, fs):
		if len(fs) == 1:
			return fs[0]
		return 'fun s => do\n' + '\n'.join(f'      let s ← ({f}) s' for f in fs) + '\n      pure s'


def _split_commas(s):
	out, depth, cur = [], 0, ''
	for c in s:
		if c in '([':
			depth += 1
		if c in ')]':
			depth -= 1
		if c == ',' and depth == 0:
			out.append(cur.strip()); cur = ''
		else:
			cur += c
	if cur.strip():
		out.append(cur.strip())
	return out


def emit_function(fn, typedefs, known):
	em = Emitter(fn, typedefs, known)
	name = fn['name']
	ret = fn['ret']
	em.ret_type = ctype(ret, typedefs) if ret and ret != 'void' else None
	fields = list(em.vars.items())
	body = em.block(fn['body'], 2)
	outs = [n for n in em.outparams] + [n for n in em.written_lists]
	ret_fields = ([('ret', em.ret_type)] if em.ret_type else []) + [(n, em.vars[n]) for n in outs]
	L = []
	L.append(f'/-- state of `{name}`: parameters and locals -/')
	L.append(f'structure {name}.St where')
	for n, t in fields:
		L.append(f'  {n} : {LEANT[t]}')
	L.append('')
	L.append(f'structure {name}.Ret where')
	for n, t in ret_fields:
		L.append(f'  {n} : {LEANT[t]}')
	L.append('  fuelOut : Bool := false')
	L.append('  deriving DecidableEq, Repr')
	L.append('')
	L.append(f'namespace {name}')
	retinit = ', '.join([f'ret := {DEFAULT[em.ret_type]}'] if em.ret_type else [])
	outsinit = ', '.join(f'{n} := s.{n}' for n in outs)
	L.append(f'def retOf (s : St) : Ret := {{ {", ".join(x for x in [retinit, outsinit] if x)} }}')
	if em.ret_type:
		L.append(f'def retWith (r : {LEANT[em.ret_type]}) (s : St) : Ret := {{ retOf s with ret := r }}')
	L.append(f'def fuelExhausted : Ret := {{ {", ".join([f"ret := {DEFAULT[em.ret_type]}"] if em.ret_type else [])}{", " if em.ret_type and outs else ""}{", ".join(f"{n} := {DEFAULT[em.vars[n]]}" for n in outs)}{", " if (em.ret_type or outs) else ""}fuelOut := true }}')
	L.append(f'def raised (s : St) : Ret := retOf s')
	L.append(f'def run : St → Except Ret St :=\n{body}')
	L.append(f'end {name}')
	params = ' '.join(f'({n} : {LEANT[ctype(t, typedefs)]})' for n, t in fn['params'] if not t.endswith('*'))
	init = ', '.join(f'{n} := {n}' if (n, t) in [(a, b) for a, b in fn['params'] if not b.endswith('*')] else f'{n} := {DEFAULT[em.vars[n]]}' for n, t in
	                 [(n, dict(fn['params']).get(n, '')) for n, _ in fields])
	L.append(f'def {name} {params} : {name}.Ret :=')
	L.append(f'  match {name}.run {{ {init} }} with')
	L.append(f'  | .error r => r')
	L.append(f'  | .ok s => {name}.retOf s')
	info = {'name': name, 'whiles': em.whiles, 'written': em.written_lists, 'outparams': em.outparams, 'ret': em.ret_type}
	return '\n'.join(L), info


def prange_facts(fn):
	"""static facts about a prange loop: written locations, variables assigned inside, arrays read"""
	facts = []
	for st in fn['body']:
		if st[0] == 'for' and st[2] == 'prange':
			var = st[1]
			writes, assigned, reads = [], [], set()

			def walk_e(e):
				if isinstance(e, tuple):
					if e[0] in ('index', 'slice') and e[1][0] == 'name':
						reads.add(e[1][1])
					for x in e[1:]:
						if isinstance(x, (tuple, list)):
							walk_e(x)
				elif isinstance(e, list):
					for x in e:
						walk_e(x)
			for s in st[5]:
				if s[0] == 'assign':
					if s[1][0] == 'index':
						writes.append((s[1][1][1], s[1][2]))
					else:
						assigned.append(s[1][1])
					walk_e(s[3])
				else:
					facts.append({'unsupported': s[0]})
			facts.append({'var': var, 'writes': [(a, i == ('name', var)) for a, i in writes], 'private': assigned, 'reads': sorted(reads - {a for a, _ in writes}),
			              'kw': {k: v for k, v in st[4].items()}})
	return facts


HEADER = '''/-
GENERATED by harness/pyx2lean.py from {src} (sha1 {sha}) — do not edit.
Regenerated at the start of every check; `GambitV.Tie.*` proves these definitions equal to the hand-written models.
-/
import GambitV.Model.Loops
import GambitV.Model.F32
namespace GambitV.Gen
open GambitV
'''


def translate_file(path: Path, typedefs, only, known):
	text = path.read_text()
	funcs = parse_functions(text)
	out, infos, unt = [], [], []
	for fn in funcs:
		if fn['name'] not in only:
			continue
		try:
			code, info = emit_function(fn, typedefs, known)
			out.append(code)
			infos.append(info)
			if fn['ret'] and fn['ret'] != 'void':
				known[fn['name']] = ctype(fn['ret'], typedefs)
		except Untranslatable as e:
			unt.append(f'{path.name}:{fn["name"]}: {e}')
			out.append(f'-- UNTRANSLATABLE {fn["name"]}: {e}')
	return funcs, '\n\n'.join(out), infos, unt


def read_typedefs(pxd: Path):
	td = {}
	for m in re.finditer(r'^ctypedef\s+(\w+)\s+(\w+)\s*$', pxd.read_text(), flags=re.M):
		td[m.group(2)] = m.group(1)
	fused = {}
	for m in re.finditer(r'^ctypedef fused (\w+):\n((?:\t\w+\n)+)', pxd.read_text(), flags=re.M):
		fused[m.group(1)] = m.group(2).split()
	return td, fused


def regenerate(repo: Path, outdir: Path) -> dict:
	cy = Path(repo) / 'src' / 'gambit' / '_cython'
	outdir.mkdir(parents=True, exist_ok=True)
	report = {'functions': [], 'untranslatable': [], 'files': {}}
	try:
		typedefs, fused = read_typedefs(cy / 'types.pxd')
	except Exception as e:
		report['untranslatable'].append(f'types.pxd: {e}')
		return report
	report['typedefs'] = typedefs
	report['fused'] = fused
	for f, exp in fused.items():
		if exp != ['uint16_t', 'uint32_t', 'uint64_t']:
			report['untranslatable'].append(f'types.pxd: fused type {f} = {exp}')
	if typedefs.get('SCORE_T') != 'float':
		report['untranslatable'].append(f'types.pxd: SCORE_T = {typedefs.get("SCORE_T")} (expected float)')
	if typedefs.get('BOUNDS_T') != 'intptr_t':
		report['untranslatable'].append(f'types.pxd: BOUNDS_T = {typedefs.get("BOUNDS_T")}')
	jobs = [('kmers.pyx', 'Kmers', ['c_kmer_to_index', 'c_kmer_to_index_rc', 'c_index_to_kmer', 'c_revcomp']),
	        ('metric.pyx', 'Metric', ['c_jaccarddist'])]
	for fname, mod, only in jobs:
		src = cy / fname
		try:
			known = {}
			funcs, code, infos, unt = translate_file(src, typedefs, only, known)
		except Exception as e:  # parser failure: nothing is skipped silently
			report['untranslatable'].append(f'{fname}: {type(e).__name__}: {e}')
			continue
		report['functions'] += [i['name'] for i in infos]
		report['untranslatable'] += unt
		missing = [n for n in only if n not in [i['name'] for i in infos] and not any(n in u for u in unt)]
		for n in missing:
			report['untranslatable'].append(f'{fname}: function {n} not found')
		extra = ''
		if fname == 'kmers.pyx':
			# the Python-level wrappers: length guard, error propagation, buffer sizes — read structurally
			def wrapper(name, cfun):
				fn = [f for f in funcs if f['name'] == name and f['kind'] == 'def']
				if not fn:
					return None, False
				b = [st for st in fn[0]['body'] if st[0] != 'decl' or '=' in st[1]]
				guard = None
				try:
					g = b[1] if b[0][0] == 'decl' else b[0]
					cond = g[1][0][1]
					if (g[0] == 'ifchain' and len(g[1]) == 1 and cond[0] == 'bin' and cond[1] == '>' and cond[2] == ('index', ('attr', ('name', 'kmer'), 'shape'), ('num', 0))
					        and cond[3][0] == 'num' and g[1][0][2][0][0] == 'raise'):
						guard = cond[3][1]
				except Exception:
					pass
				want_tail = [('assign', ('name', 'idx'), '=', ('call', ('name', cfun), [('name', 'kmer'), ('addr', ('name', 'exc'))], {})),
				             ('ifchain', [('if', ('name', 'exc'), [('raise', "ValueError('Invalid character in k-mer')")])]),
				             ('return', ('name', 'idx'))]
				ok = guard is not None and b[-3:] == want_tail and ('decl', 'bint exc = False') in fn[0]['body']
				return guard, ok
			g1, ok1 = wrapper('kmer_to_index', 'c_kmer_to_index')
			g2, ok2 = wrapper('kmer_to_index_rc', 'c_kmer_to_index_rc')
			i2k = [f for f in funcs if f['name'] == 'index_to_kmer']
			rc = [f for f in funcs if f['name'] == 'revcomp']
			ok3 = bool(i2k) and i2k[0]['body'] == [('assign', ('name', 'buf'), '=', ('call', ('name', 'bytearray'), [('name', 'k')], {})),
			                                     ('expr', ('call', ('name', 'c_index_to_kmer'), [('name', 'index'), ('name', 'buf')], {})),
			                                     ('return', ('call', ('name', 'bytes'), [('name', 'buf')], {}))]
			ok4 = bool(rc) and rc[0]['body'] == [('assign', ('name', 'buf'), '=', ('call', ('name', 'bytearray'), [('call', ('name', 'len'), [('name', 'seq')], {})], {})),
			                                   ('expr', ('call', ('name', 'c_revcomp'), [('name', 'seq'), ('name', 'buf')], {})),
			                                   ('return', ('call', ('name', 'bytes'), [('name', 'buf')], {}))]
			facts = [f'def kmerLenGuard : Nat := {g1 if g1 is not None else 0}', f'def kmerRcLenGuard : Nat := {g2 if g2 is not None else 0}',
			         f'def kmerWrappersCanonical : Bool := {"true" if (ok1 and ok2) else "false"}',
			         f'def decodeWrapperCanonical : Bool := {"true" if ok3 else "false"}', f'def revcompWrapperCanonical : Bool := {"true" if ok4 else "false"}']
			report['kmers_wrappers'] = {'guard': g1, 'guard_rc': g2, 'canonical': [ok1, ok2, ok3, ok4]}
			extra = ("\n\n/-! structural facts read off the parsed Python-level wrappers (`def kmer_to_index` … ): the length guard `kmer.shape[0] > N`,\n"
			         "error propagation through `exc`, output buffers of length `k` / `len(seq)` -/\n" + '\n'.join(facts) + '\n')
		if fname == 'metric.pyx':
			# the def-level wrappers and the prange loop: structural facts checked by the Tie module
			pf = [f for fn in funcs if fn['name'] == '_jaccarddist_parallel' for f in prange_facts(fn)]
			report['prange'] = pf
			jac = [fn for fn in funcs if fn['name'] == 'jaccard']
			jd = [fn for fn in funcs if fn['name'] == 'jaccarddist']
			facts = []
			ok_pr = (len(pf) == 1 and 'var' in pf[0] and pf[0]['writes'] == [('out', True)] and set(pf[0]['private']) == {'begin', 'end'}
			         and set(pf[0]['reads']) <= {'ref_bounds', 'ref_coords', 'query'})
			facts.append(f'def prangeWritesOnlyOwnCell : Bool := {"true" if ok_pr else "false"}')
			jac_ok = bool(jac) and jac[0]['body'] == [('return', ('bin', '-', ('num', 1), ('call', ('name', 'c_jaccarddist'), [('name', 'coords1'), ('name', 'coords2')], {})))]
			jd_ok = bool(jd) and jd[0]['body'] == [('return', ('call', ('name', 'c_jaccarddist'), [('name', 'coords1'), ('name', 'coords2')], {}))]
			facts.append(f'def jaccardIsOneMinusDist : Bool := {"true" if jac_ok else "false"}')
			facts.append(f'def jaccarddistIsKernel : Bool := {"true" if jd_ok else "false"}')
			par = [fn for fn in funcs if fn['name'] == '_jaccarddist_parallel']
			body_ok = False
			if par:
				loops = [s for s in par[0]['body'] if s[0] == 'for']
				if len(loops) == 1:
					b = loops[0][5]
					want = [('assign', ('name', 'begin'), '=', ('index', ('name', 'ref_bounds'), ('name', 'i'))),
					        ('assign', ('name', 'end'), '=', ('index', ('name', 'ref_bounds'), ('bin', '+', ('name', 'i'), ('num', 1)))),
					        ('assign', ('index', ('name', 'out'), ('name', 'i')), '=', ('call', ('name', 'c_jaccarddist'), [('name', 'query'), ('slice', ('name', 'ref_coords'), ('name', 'begin'), ('name', 'end'))], {}))]
					body_ok = b == want and loops[0][3] == [('name', 'N')]
			facts.append(f'def prangeBodyIsSliceDist : Bool := {"true" if body_ok else "false"}')
			extra = '\n\n/-! structural facts read off the parsed `def` wrappers and the `prange` loop -/\n' + '\n'.join(facts) + '\n'
		sha = hashlib.sha1(src.read_bytes()).hexdigest()[:12]
		text = HEADER.format(src=f'src/gambit/_cython/{fname}', sha=sha) + '\n' + code + extra + '\nend GambitV.Gen\n'
		target = outdir / f'{mod}.lean'
		if not target.exists() or target.read_text() != text:
			target.write_text(text)
		report['files'][fname] = sha
	return report


if __name__ == '__main__':
	import json, sys
	r = regenerate(Path(sys.argv[1] if len(sys.argv) > 1 else '/repo'), Path(__file__).resolve().parent.parent / 'lean' / 'GambitV' / 'Gen')
	print(json.dumps(r, indent=1, default=str))
