"""Scratch reference databases, genome FASTA files and signature files for the CLI / database properties.

Everything is created under a tempfile.mkdtemp() directory outside /repo and /verif and removed by the caller.
"""
from __future__ import annotations

import gzip
import os
import shutil
import tempfile
from pathlib import Path


class Scratch:
	def __init__(self, prefix='gv_'):
		self.dir = Path(tempfile.mkdtemp(prefix=prefix))
		self._n = 0

	def path(self, name=None, suffix=''):
		self._n += 1
		return self.dir / (name if name else f'f{self._n}{suffix}')

	def subdir(self, name=None):
		self._n += 1
		d = self.dir / (name or f'd{self._n}')
		d.mkdir(parents=True, exist_ok=True)
		return d

	def cleanup(self):
		shutil.rmtree(self.dir, ignore_errors=True)


# ----------------------------------------------------------------------------------------------
# sequences
# ----------------------------------------------------------------------------------------------

def rand_dna(rng, n, alphabet=b'ACGT'):
	return bytes(rng.choice(alphabet) for _ in range(n))


def mutate(rng, seq: bytes, rate: float) -> bytes:
	b = bytearray(seq)
	for i in range(len(b)):
		if rng.random() < rate:
			b[i] = rng.choice(b'ACGT')
	return bytes(b)


def split_contigs(rng, seq: bytes, n: int):
	if n <= 1 or len(seq) < 2 * n:
		return [seq]
	cuts = sorted(rng.sample(range(1, len(seq)), n - 1))
	return [seq[a:b] for a, b in zip([0] + cuts, cuts + [len(seq)])]


def write_fasta(path, contigs, *, width=60, eol='\n', final_newline=True, gz=False, names=None, lower=False):
	"""Write contigs as FASTA. width=None/0 = one line per sequence."""
	parts = []
	for i, c in enumerate(contigs):
		s = c.decode('ascii') if isinstance(c, (bytes, bytearray)) else c
		if lower:
			s = s.lower()
		name = names[i] if names else f'contig{i + 1} test'
		parts.append('>' + name)
		if not width:
			parts.append(s)
		else:
			parts.extend(s[j:j + width] for j in range(0, len(s), width)) if s else None
	text = eol.join(parts)
	if final_newline:
		text += eol
	data = text.encode('ascii')
	if gz == 'multi':
		# one gzip member per record (what `cat a.gz b.gz`, bgzip or pigz -i produce); a legal gzip file
		pieces = [b'>' + p for p in data.split(b'>') if p] or [b'']
		with open(path, 'wb') as f:
			for p in pieces:
				f.write(gzip.compress(p))
	elif gz:
		with gzip.open(path, 'wb') as f:
			f.write(data)
	else:
		with open(path, 'wb') as f:
			f.write(data)
	return path


# ----------------------------------------------------------------------------------------------
# reference database
# ----------------------------------------------------------------------------------------------

def build_refdb(directory, *, taxa, genomes, kspec, sigs=None, seqs=None, id_attr='key', sig_order=None, extra_sigs=(),
                gdb_name='ref.gdb', gs_name='ref.gs', gset_key='test/gset', gset_version='1.0', meta_extra=None):
	"""Create `<directory>/ref.gdb` + `<directory>/ref.gs`.

	taxa:    list of dicts {name, parent (index or None), thr, report, rank?, ncbi_id?}
	genomes: list of dicts {key, taxon (index), description?, refseq_acc?, genbank_acc?, ncbi_id?, ncbi_db?, organism?}
	sigs:    list of np arrays (one per genome) or None -> computed from seqs (list of list-of-contigs)
	sig_order: permutation of range(len(genomes)+len(extra_sigs)) giving the order of signatures in the file
	extra_sigs: [(id_value, array)] unrelated signatures padded into the file
	"""
	import numpy as np
	from sqlalchemy import create_engine
	from sqlalchemy.orm import sessionmaker
	from gambit.db.models import Base, ReferenceGenomeSet, Taxon, Genome, AnnotatedGenome
	from gambit.sigs import SignaturesMeta, AnnotatedSignatures, SignatureArray, dump_signatures
	from gambit.sigs.calc import calc_signature

	directory = Path(directory)
	directory.mkdir(parents=True, exist_ok=True)
	gdb = directory / gdb_name
	engine = create_engine(f'sqlite:///{gdb}')
	Base.metadata.create_all(engine)
	session = sessionmaker(engine)()
	gset = ReferenceGenomeSet(key=gset_key, version=gset_version, name='test genome set', description='scratch')
	session.add(gset)
	tobjs = []
	for i, t in enumerate(taxa):
		obj = Taxon(name=t['name'], key=t.get('key', f'taxon-{i}'), rank=t.get('rank'), distance_threshold=t.get('thr'),
		            report=bool(t.get('report', True)), ncbi_id=t.get('ncbi_id'), genome_set=gset)
		if t.get('parent') is not None:
			obj.parent = tobjs[t['parent']]
		tobjs.append(obj)
		session.add(obj)
	for i, g in enumerate(genomes):
		go = Genome(key=g['key'], description=g.get('description', f'genome {g["key"]}'), refseq_acc=g.get('refseq_acc'),
		            genbank_acc=g.get('genbank_acc'), ncbi_id=g.get('ncbi_id'), ncbi_db=g.get('ncbi_db'))
		ag = AnnotatedGenome(genome=go, genome_set=gset, taxon=tobjs[g['taxon']], organism=g.get('organism', f'organism {i}'))
		session.add(ag)
	session.commit()
	session.close()
	engine.dispose()

	if sigs is None:
		sigs = [calc_signature(kspec, contigs) for contigs in seqs]
	entries = [(g.get(id_attr) if id_attr != 'key' else g['key'], s) for g, s in zip(genomes, sigs)] + list(extra_sigs)
	if sig_order is not None:
		entries = [entries[i] for i in sig_order]
	ids = [e[0] for e in entries]
	arr = SignatureArray([np.asarray(e[1], dtype=kspec.index_dtype) for e in entries], kspec, dtype=kspec.index_dtype)
	meta = SignaturesMeta(id='test/sigs', name='scratch signatures', version='1.0', id_attr=id_attr, extra=meta_extra or {})
	if ids and isinstance(ids[0], int):
		ids_arr = np.asarray(ids, dtype=np.int64)
	else:
		ids_arr = np.asarray(ids, dtype=object)
	dump_signatures(directory / gs_name, AnnotatedSignatures(arr, ids_arr, meta))
	return {'gdb': gdb, 'gs': directory / gs_name, 'ids': ids, 'sigs': [e[1] for e in entries]}


def rand_taxonomy(rng, n_taxa, *, thr_values=(None, 0.25, 0.5, 0.75, 0.9, 1.0), names=None):
	taxa = []
	for i in range(n_taxa):
		parent = None if i == 0 or rng.random() < 0.15 else rng.randrange(i)
		taxa.append({'name': (names[i] if names else f'Taxon {i}'), 'parent': parent, 'thr': rng.choice(thr_values),
		             'report': rng.random() < 0.8, 'rank': rng.choice(['species', 'genus', None]), 'ncbi_id': rng.choice([None, 1000 + i])})
	return taxa


def rand_genomes_for(rng, taxa, n_genomes, *, base_len=400, mut=0.03, contigs=(1, 3), key_prefix='G'):
	"""Genome sequences that are mutated copies of per-taxon base sequences (children derive from parents)."""
	base = []
	for i, t in enumerate(taxa):
		if t['parent'] is None:
			base.append(rand_dna(rng, base_len))
		else:
			base.append(mutate(rng, base[t['parent']], 0.08))
	genomes, seqs = [], []
	for j in range(n_genomes):
		ti = rng.randrange(len(taxa))
		s = mutate(rng, base[ti], mut)
		seqs.append(split_contigs(rng, s, rng.randint(*contigs)))
		genomes.append({'key': f'{key_prefix}{j}', 'taxon': ti, 'description': f'genome number {j}', 'refseq_acc': f'GCF_{j:06d}.1',
		                'genbank_acc': f'GCA_{j:06d}.1', 'ncbi_id': 5000 + j, 'ncbi_db': 'assembly'})
	return genomes, seqs, base
