"""Shared machinery of the correspondence harness (tie R) and of the proof audit.

Every check is `harness/run.py <ID> <tier>`:
  1. regenerate lean/GambitV/Gen from /repo's .pyx sources (tie T) – only rewritten when changed
  2. `lake build` (no-op unless something changed) – under a file lock
  3. audit: `#print axioms` of every theorem of Props/<ID>.lean (+ the Tie theorems it uses), grep for
     forbidden constructs
  4. run the property module: generated cases -> real code in-process -> request lines -> Lean driver
     (model + Lean spec predicate) -> verdicts
  5. evidence/<ID>.json, replay files, exit status
"""
from __future__ import annotations

import fcntl
import hashlib
import json
import os
import random
import re
import subprocess
import sys
import time
from collections import Counter
from pathlib import Path

VERIF = Path(__file__).resolve().parent.parent
LEAN = VERIF / 'lean'
REPO = Path(os.environ.get('GAMBIT_REPO', '/repo'))
DRIVER = LEAN / '.lake' / 'build' / 'bin' / 'driver'
EVIDENCE = VERIF / 'evidence'
REPLAYS = VERIF / 'replays'
ALLOWED_AXIOMS = {'propext', 'Classical.choice', 'Quot.sound'}
FORBIDDEN = re.compile(r'\b(sorry|admit|native_decide|bv_decide|implemented_by)\b|^\s*axiom\s|unsafe\s|maxHeartbeats\s+0')

EXIT_OK, EXIT_VIOLATION, EXIT_BROKEN = 0, 1, 2


class BrokenCheck(Exception):
	"""The machinery itself failed (never a VIOLATION)."""


def log(*a):
	print(*a, file=sys.stderr, flush=True)


# ----------------------------------------------------------------------------------------------
# Lean side
# ----------------------------------------------------------------------------------------------

def _strip_comments(text: str) -> str:
	# remove /- ... -/ (nested not handled beyond one level; our files do not nest) and -- comments
	text = re.sub(r'/-.*?-/', '', text, flags=re.S)
	text = re.sub(r'--.*', '', text)
	return text


def grep_forbidden() -> list[str]:
	hits = []
	for p in sorted(LEAN.rglob('*.lean')):
		if '.lake' in p.parts:
			continue
		for n, line in enumerate(_strip_comments(p.read_text()).splitlines(), 1):
			if FORBIDDEN.search(line):
				hits.append(f'{p.relative_to(LEAN)}:{n}: {line.strip()}')
	return hits


def regenerate_gen(stub=frozenset()) -> dict:
	"""Run both translators (Cython subset: pyx2lean; pure-Python logic cores: py2lean); returns the merged report
	(functions translated, untranslatable constructs, and for each untranslatable construct the generated module it belongs to)."""
	from pyx2lean import regenerate as regen_pyx
	from py2lean import regenerate as regen_py
	rep = regen_pyx(REPO, LEAN / 'GambitV' / 'Gen')
	by_module = {}
	for u in rep.get('untranslatable', []):
		mod = 'GambitV.Gen.Metric' if u.startswith('metric.pyx') else 'GambitV.Gen.Kmers' if u.startswith('kmers.pyx') else '*'
		by_module.setdefault(mod, []).append(u)
	py = regen_py(REPO, LEAN / 'GambitV' / 'Gen', stub)
	for mod, us in py.get('untranslatable_by_module', {}).items():
		by_module.setdefault('GambitV.Gen.' + mod, []).extend(us)
	from pytrace import regenerate as regen_trace
	tr = regen_trace(REPO, LEAN / 'GambitV' / 'Gen')
	for mod, us in tr.get('untranslatable_by_module', {}).items():
		by_module.setdefault('GambitV.Gen.' + mod, []).extend(us)
	py['untranslatable'] = list(py.get('untranslatable', [])) + list(tr.get('untranslatable', []))
	py['functions'] = list(py.get('functions', [])) + list(tr.get('functions', []))
	py.setdefault('modules', {}).update(tr.get('modules', {}))
	rep['untranslatable'] = list(rep.get('untranslatable', [])) + list(py.get('untranslatable', []))
	rep['functions'] = list(rep.get('functions', [])) + list(py.get('functions', []))
	rep['py'] = {k: v for k, v in py.items() if k in ('modules', 'ast_sha1')}
	rep['untranslatable_by_module'] = by_module
	return rep


def lean_imports() -> dict[str, set[str]]:
	"""module -> modules it imports directly (project modules only), read from the `import` lines of every .lean file"""
	out = {}
	for p in LEAN.rglob('*.lean'):
		if '.lake' in p.parts:
			continue
		mod = '.'.join(p.relative_to(LEAN).with_suffix('').parts)
		out[mod] = set(re.findall(r'^import\s+((?:GambitV|Driver)\.\S+)', p.read_text(), flags=re.M))
	return out


def import_closure(mods, imports=None) -> set[str]:
	"""the given modules and everything they import, transitively"""
	imports = imports or lean_imports()
	seen, todo = set(), list(mods)
	while todo:
		m = todo.pop()
		if m in seen:
			continue
		seen.add(m)
		todo += list(imports.get(m, ()))
	return seen


def lake_build(targets=('GambitV', 'driver')) -> tuple[bool, str, list[str]]:
	"""Returns (ok, output, failed_modules)."""
	lock = open(LEAN / '.build.lock', 'w')
	fcntl.flock(lock, fcntl.LOCK_EX)
	try:
		r = subprocess.run(['lake', 'build', *targets], cwd=LEAN, capture_output=True, text=True)
	finally:
		fcntl.flock(lock, fcntl.LOCK_UN)
		lock.close()
	out = r.stdout + r.stderr
	failed = re.findall(r'^- (\S+)', out, flags=re.M)
	return r.returncode == 0, out, failed


def theorem_names(lean_file: Path, namespace: str) -> list[str]:
	text = _strip_comments(lean_file.read_text())
	return [f'{namespace}.{m}' for m in re.findall(r'^\s*(?:protected\s+)?theorem\s+([A-Za-z_][\w\'?!]*)', text, flags=re.M)]


def audit_axioms(modules_and_ns: list[tuple[str, str]]) -> dict:
	"""`#print axioms` for every theorem of the given (module, namespace) pairs.

	Returns {'theorems': {name: [axioms]}, 'bad': [...], 'missing': [...]}.
	"""
	names = []
	imports = []
	for module, ns in modules_and_ns:
		f = LEAN / (module.replace('.', '/') + '.lean')
		if not f.exists():
			continue
		imports.append(module)
		names += theorem_names(f, ns)
	src = ''.join(f'import {m}\n' for m in imports) + ''.join(f'#print axioms {n}\n' for n in names)
	tmp = LEAN / '.lake' / f'audit_{os.getpid()}.lean'
	tmp.parent.mkdir(exist_ok=True)
	tmp.write_text(src)
	try:
		r = subprocess.run(['lake', 'env', 'lean', str(tmp)], cwd=LEAN, capture_output=True, text=True)
	finally:
		tmp.unlink(missing_ok=True)
	out = r.stdout + r.stderr
	res = {}
	for m in re.finditer(r"^'(\S+)' depends on axioms: \[([^\]]*)\]", out, flags=re.S | re.M):
		res[m.group(1)] = [a.strip() for a in m.group(2).replace('\n', ' ').split(',') if a.strip()]
	for m in re.finditer(r"^'(\S+)' does not depend on any axioms", out, flags=re.M):
		res[m.group(1)] = []
	bad = [n for n, ax in res.items() if not set(ax) <= ALLOWED_AXIOMS]
	missing = [n for n in names if n not in res]
	return {'theorems': res, 'bad': bad, 'missing': missing, 'raw_tail': out[-2000:] if (bad or missing) else ''}


class DriverProc:
	"""Batch interface to the compiled Lean driver (falls back to `lake env lean --run`)."""

	def __init__(self):
		if DRIVER.exists():
			self.cmd = [str(DRIVER)]
		else:
			self.cmd = ['lake', 'env', 'lean', '--run', 'Driver/Main.lean']

	def run(self, lines: list[str]) -> list[str]:
		if not lines:
			return []
		for l in lines:
			if '\n' in l:
				raise BrokenCheck(f'newline inside request: {l[:80]!r}')
		data = '\n'.join(lines) + '\n'
		r = subprocess.run(self.cmd, cwd=LEAN, input=data, capture_output=True, text=True)
		if r.returncode != 0:
			raise BrokenCheck(f'driver exited {r.returncode}: {r.stderr[-500:]}')
		out = r.stdout.split('\n')
		if out and out[-1] == '':
			out.pop()
		if len(out) != len(lines):
			raise BrokenCheck(f'driver returned {len(out)} replies for {len(lines)} requests')
		return out


# ----------------------------------------------------------------------------------------------
# token encoding (mirror of Driver/Proto.lean)
# ----------------------------------------------------------------------------------------------

def hx(b) -> str:
	b = bytes(b)
	return b.hex() if b else '-'


def nats(l) -> str:
	l = [int(x) for x in l]
	return ','.join(map(str, l)) if l else '-'


def natlists(ls) -> str:
	ls = list(ls)
	return ';'.join(nats(l) for l in ls) if ls else '_'


def hexlist(ls) -> str:
	ls = list(ls)
	return ';'.join(hx(l) for l in ls) if ls else '_'


def opt(x) -> str:
	return '~' if x is None else str(int(x))


def optlist(l) -> str:
	l = list(l)
	return ','.join(opt(x) for x in l) if l else '-'


def b01(x) -> str:
	return '1' if x else '0'


def exc_kind(e: BaseException) -> str:
	"""Map exceptions to the small enum used on the wire."""
	import click
	from gambit.sigs.base import SignaturesFileError
	from gambit.db.refdb import DatabaseLoadError
	for cls, name in [
		(SignaturesFileError, 'SignaturesFileError'), (DatabaseLoadError, 'DatabaseLoadError'),
		(click.ClickException, 'ClickException'), (IndexError, 'IndexError'), (KeyError, 'KeyError'),
		(TypeError, 'TypeError'), (ValueError, 'ValueError'), (OverflowError, 'OverflowError'),
		(OSError, 'OSError'), (RuntimeError, 'RuntimeError'), (AssertionError, 'AssertionError'),
	]:
		if isinstance(e, cls):
			return name
	return 'other:' + type(e).__name__


# ----------------------------------------------------------------------------------------------
# run context
# ----------------------------------------------------------------------------------------------

class Ctx:
	def __init__(self, pid: str, tier: str, seed: int):
		self.pid = pid
		self.tier = tier
		self.seed = seed
		self.rng = random.Random(f'{pid}:{seed}')
		self.t0 = time.time()
		self.budget = float(os.environ.get('VERIF_BUDGET_S', 0)) or (45 if tier == 'quick' else 420)
		self.driver = DriverProc()
		self.pending: list[tuple[dict, list[str], list[str]]] = []   # (case, lines, pyfails)
		self.pending_lines = 0
		self.evaluations = 0
		self.requests = 0
		self.nontrivial_keys: set[str] = set()
		self.dist = Counter()
		self.samples: list = []
		self.failures: list[dict] = []
		self.known_hits: list[dict] = []
		self.exhaustive = None
		self.notes: list[str] = []
		self.module = None
		self.tie_broken: list[str] = []
		# cases on which the model (or the definitions generated from the current source) and the implementation differ while every
		# verdict of the statement's own predicate on that case was `ok`: a broken correspondence, not a failing input (DESIGN §2.4 rule 2)
		self.diffs: list[dict] = []

	# -- time --------------------------------------------------------------------------------
	def elapsed(self) -> float:
		return time.time() - self.t0

	def budget_clock(self) -> float:
		"""Seconds charged against the stream budgets. On a quiet machine this is wall time. When the machine is oversubscribed
		(load average above the number of CPUs: other checks, test suites) wall time says little about how much of a stream has
		run, and streams placed late in a module used to be skipped silently; so time is charged at the rate ncpu / load, but never
		less than a third of wall time (a quick check stays within ~2-3 minutes whatever happens)."""
		now = time.time()
		last = getattr(self, '_bc_last', self.t0)
		try:
			load = os.getloadavg()[0]
		except OSError:
			load = 0.0
		ncpu = os.cpu_count() or 1
		rate = 1.0 if load <= ncpu else max(ncpu / load, 1 / 3)
		self._bc = getattr(self, '_bc', 0.0) + (now - last) * rate
		self._bc_last = now
		return max(self._bc, (now - self.t0) / 3)

	def time_left(self, frac: float = 1.0, min_iter: int = 8) -> bool:
		"""True while the stream that asks may go on. Every call site (= every stream loop of a module) is granted its first `min_iter`
		iterations whatever the clock says, so that no stream is skipped entirely on an overloaded machine (a seeded change was missed
		that way once: C11-w4m2 at load average 276); beyond 6x the budget in wall time nothing more is started."""
		f = sys._getframe(1)
		key = (f.f_code.co_filename, f.f_lineno)
		seen = self.__dict__.setdefault('_tl_calls', Counter())
		seen[key] += 1
		if self.elapsed() > 6 * self.budget:
			return False
		if seen[key] <= min_iter:
			return True
		return self.budget_clock() < self.budget * frac

	def q(self, quick, thorough):
		return quick if self.tier == 'quick' else thorough

	# -- cases -------------------------------------------------------------------------------
	def submit(self, case: dict, lines: list[str], *, nontrivial: bool = True, tags=(), pyfails=()):
		"""Register one evaluated case: `lines` are driver requests that must all answer `ok`;
		`pyfails` are failures already established on the Python side (e.g. an exception where the
		statement demands a value)."""
		self.evaluations += 1
		for t in tags:
			self.dist[t] += 1
		if nontrivial:
			key = hashlib.sha1(json.dumps(case, sort_keys=True, default=str).encode()).hexdigest()
			self.nontrivial_keys.add(key)
		if len(self.samples) < 5 or (self.evaluations in (10, 100, 1000, 10000) and len(self.samples) < 9):
			self.samples.append({'case': _truncate(case), 'requests': [l[:300] for l in lines[:3]]})
		self.pending.append((case, list(lines), list(pyfails)))
		self.pending_lines += len(lines)
		if self.pending_lines >= 20000:
			self.flush()

	def flush(self):
		if not self.pending:
			return
		all_lines = [l for _, ls, _ in self.pending for l in ls]
		replies = self.driver.run(all_lines)
		self.requests += len(all_lines)
		pos = 0
		for case, ls, pyfails in self.pending:
			rs = replies[pos:pos + len(ls)]
			pos += len(ls)
			bad = [(l, r) for l, r in zip(ls, rs) if r != 'ok']
			for l, r in bad:
				if r.startswith('bad-op'):
					raise BrokenCheck(f'driver rejected request {l[:200]!r}: {r}')
			fails = [(l, r) for l, r in bad if not r.startswith('DIFF ')]
			if fails or pyfails:
				self.failures.append({'case': case, 'bad': [{'request': l, 'reply': r} for l, r in bad],
				                      'pyfails': list(pyfails)})
			elif bad:
				if len(self.diffs) < 50:
					self.diffs.append({'case': case, 'bad': [{'request': l, 'reply': r} for l, r in bad]})
				self.ndiffs = getattr(self, 'ndiffs', 0) + 1
		self.pending = []
		self.pending_lines = 0

	def check_now(self, lines: list[str]) -> list[str]:
		"""Synchronous driver query (used by shrinkers / replay)."""
		return self.driver.run(lines)


def safe_check(check, ctx, case):
	"""Call a property module's `check`. An exception that passes through a frame of the code under test (/repo) is an
	observation about that code (the statement demands a value, it raised): it becomes a failure of the case. Any other
	exception is a bug of the harness and propagates (exit 2)."""
	import traceback
	try:
		r = check(ctx, case)
	except BrokenCheck:
		raise
	except BaseException as e:
		if isinstance(e, (KeyboardInterrupt, SystemExit)):
			raise
		tb = traceback.extract_tb(e.__traceback__)
		repo = str(REPO)
		in_repo = [fr for fr in tb if fr.filename.startswith(repo)]
		if not in_repo:
			raise
		fr = in_repo[-1]
		return [], [f'code under test raised {type(e).__name__}: {e} at {fr.filename[len(repo)+1:]}:{fr.lineno} ({fr.name})']
	if isinstance(r, tuple):
		return r
	return r, []


def _truncate(obj, n=400):
	s = json.dumps(obj, default=str)
	if len(s) <= n:
		return obj
	return {'truncated_json': s[:n] + '…', 'len': len(s)}


# ----------------------------------------------------------------------------------------------
# known findings
# ----------------------------------------------------------------------------------------------

def load_known(pid: str) -> list[dict]:
	f = VERIF / 'known_findings.json'
	if not f.exists():
		return []
	data = json.loads(f.read_text())
	return [e for e in data.get('findings', []) if e.get('property') == pid and e.get('status') == 'open']


def write_replay(pid: str, payload: dict) -> Path:
	REPLAYS.mkdir(exist_ok=True)
	blob = json.dumps(payload, indent=1, sort_keys=True, default=str)
	h = hashlib.sha1(blob.encode()).hexdigest()[:12]
	p = REPLAYS / f'{pid}-{h}.json'
	p.write_text(blob)
	return p


def write_evidence(pid: str, ev: dict):
	# evidence/ describes runs against /repo itself; a run pointed at another tree (GAMBIT_REPO, used to evaluate seeded changes in a
	# scratch worktree) records what it did elsewhere
	dest = EVIDENCE if str(REPO) == '/repo' else Path('/tmp') / 'verif_evidence_other_tree'
	dest.mkdir(exist_ok=True)
	(dest / f'{pid}.json').write_text(json.dumps(ev, indent=1, default=str))
